#pragma once
// C19 harness, shared part (counting allocator, element types, history interpreter); included by h_c19.cpp and
// h_c19_tuple.cpp.
// C19 harness: operation histories against the REAL STL-free containers of $VERIF_REPO/include.
//   hist kind=<vec|svec|small|arr|maybe|either|tuple> elem=<int|double|tracked> ops=<op>;<op>;...
// prints after every operation the client-visible state of slots 0 and 1, the internal state
// (capacity, cells beyond size(), allocator counters) and, after destroying what is still alive,
// the allocator balance:   ok S1|S2|... # I1|I2|... # leak=n live=n bad=n
//
// nmtools_malloc / nmtools_free (utl/vector.hpp:48-61) are redirected to a counting allocator that
// fills fresh blocks with the byte 0xA5 ("indeterminate", printed as `u`) and — in the non-sanitizer
// build — fills freed blocks with the same byte and defers the real free to the end of the history, so
// that reads of uninitialised / freed memory are deterministic.  With -DC19_SAN blocks go straight back
// to the (ASan) allocator so that use-after-free / double free / out-of-bounds are reported by ASan.
#include <cstdio>
#include <cstdlib>
#include <cstring>
#include <new>
#include <set>
#include <vector>
#include <string>

namespace c19 {
static const unsigned char POISON = 0xA5;
static long g_allocs = 0, g_frees = 0, g_badfree = 0;
struct blk { void* p; size_t n; bool freed; };
static std::vector<blk> g_blocks;
inline void* counting_malloc(size_t n) {
    g_allocs++;
    size_t m = n ? n : 1;
    void* p = ::malloc(m);
    memset(p, POISON, m);
    g_blocks.push_back({p, m, false});
    return p;
}
inline void counting_free(void* p) {
    g_frees++;
#ifdef C19_SAN
    for (auto& b : g_blocks) if (b.p == p && !b.freed) { b.freed = true; ::free(p); return; }
    ::free(p);   // unknown / already freed pointer: let ASan report it
#else
    for (auto& b : g_blocks) if (b.p == p && !b.freed) { b.freed = true; memset(p, POISON, b.n); return; }
    g_badfree++;   // double free or free of a pointer never handed out
#endif
}
inline void allocator_reset() {
#ifndef C19_SAN
    for (auto& b : g_blocks) ::free(b.p);
#else
    for (auto& b : g_blocks) if (!b.freed) ::free(b.p);
#endif
    g_blocks.clear(); g_allocs = g_frees = g_badfree = 0;
}
} // namespace c19
#define nmtools_malloc ::c19::counting_malloc
#define nmtools_free   ::c19::counting_free

#include "nmtools/utl/vector.hpp"
#include "nmtools/utl/static_vector.hpp"
#include "nmtools/utl/array.hpp"
#include "nmtools/utl/tuple.hpp"
#include "nmtools/utl/tuplev2.hpp"
#include "nmtools/utl/maybe.hpp"
#include "nmtools/utl/either.hpp"
#include "nmtools/utility/small_vector.hpp"
#include "proto.hpp"

namespace utl = nmtools::utl;
using namespace proto;

// ---------------------------------------------------------------------------------------------
// element types
// ---------------------------------------------------------------------------------------------
template <typename T> struct elem;
template <> struct elem<int>    { static int    make(long long v) { return (int)v; }       static long long show(int x) { return x; } };
template <> struct elem<double> { static double make(long long v) { return 0.5 * (double)v; } static long long show(double x) { return (long long)(x * 2.0); } };

// counting non-trivial element type: every constructor registers `this`, the destructor unregisters it;
// an assignment to / destruction of an unregistered object and a construction over a registered one are counted.
namespace trk {
static std::set<const void*> live;
static long bad_assign = 0, over = 0, bad_dtor = 0, leaked = 0;
inline void reset() { live.clear(); bad_assign = over = bad_dtor = leaked = 0; }
inline long bad() { return bad_assign + over + bad_dtor; }
// a container object's storage is given up: what is still registered inside it was never destroyed
inline void sweep(const void* p, size_t n) {
    const char* b = (const char*)p;
    for (auto it = live.begin(); it != live.end();) {
        const char* q = (const char*)*it;
        if (q >= b && q < b + n) { it = live.erase(it); leaked++; } else ++it;
    }
}
}
struct tracked {
    int v;
    tracked() : v(0) { if (!trk::live.insert(this).second) trk::over++; }
    tracked(int x) : v(x) { if (!trk::live.insert(this).second) trk::over++; }
    tracked(const tracked& o) : v(o.v) { if (!trk::live.insert(this).second) trk::over++; }
    tracked& operator=(const tracked& o) { if (!trk::live.count(this)) trk::bad_assign++; v = o.v; return *this; }
    ~tracked() { if (!trk::live.erase(this)) trk::bad_dtor++; }
};
template <> struct elem<tracked> { static tracked make(long long v) { return tracked((int)v); } static long long show(const tracked& x) { return x.v; } };

template <typename T> static bool is_poison(const T& x) {
    const unsigned char* b = reinterpret_cast<const unsigned char*>(&x);
    for (size_t i = 0; i < sizeof(T); i++) if (b[i] != c19::POISON) return false;
    return true;
}
template <typename T> static std::string cell(const T& x) { return is_poison(x) ? std::string("u") : std::to_string(elem<T>::show(x)); }
template <> std::string cell<tracked>(const tracked& x) { return is_poison(x.v) ? std::string("u") : std::to_string((long long)x.v); }

// ---------------------------------------------------------------------------------------------
// operations
// ---------------------------------------------------------------------------------------------
struct op_t { std::string name; std::vector<long long> a; };
static std::vector<op_t> parse_ops(const std::string& s) {
    std::vector<op_t> r; if (s == "[]" || s.empty()) return r;
    for (auto& t : split(s, ';')) {
        auto f = split(t, ':'); op_t o; o.name = f[0];
        for (size_t i = 1; i < f.size(); i++) o.a.push_back(std::stoll(f[i]));
        r.push_back(o);
    }
    return r;
}
static const int NSLOTS = 2;
// byte the object storage is filled with before a constructor runs (request key `fill=poison` selects 0xA5)
static int g_storage_fill = 0;

// generic interpreter over a kind adaptor K:
//   K::C                                 container type
//   K::ctor(p) / ctorN(p,n) / ctorV(p,vals) -> bool (false: not supported, skip)
//   K::push / pushAt / resize -> bool;   K::size / K::limit (number of cells that may be inspected)
//   K::get(c,i), K::set(c,i,v), K::intern(c)
template <typename K> static std::string run_history(const std::vector<op_t>& ops) {
    using C = typename K::C;
    using T = typename K::T;
    c19::allocator_reset(); trk::reset();
    // 256 bytes of padding behind every object: static_vector<T,4>(7) makes operator= write up to size() elements
    alignas(16) static unsigned char store[NSLOTS][sizeof(C) + 256];
    bool live[NSLOTS] = {false, false};
    auto obj = [&](int k) -> C& { return *std::launder(reinterpret_cast<C*>(store[k])); };
    // object storage handed to the constructors is filled with a known byte; the barrier (and -fno-lifetime-dse,
    // see harness_specs) keeps the compiler from dropping the fill as a dead store before the constructor
    auto fresh = [&](int k) -> void* { memset(store[k], g_storage_fill, sizeof(C)); void* p = store[k]; asm volatile("" : "+r"(p) : : "memory"); return p; };
    std::string S, I;
    auto show = [&](int k) -> std::string {
        if (!live[k]) return "-";
        const C& c = obj(k);
        size_t n = K::size(c), lim = K::limit(c);
        std::string s = std::to_string(n) + ":";
        for (size_t i = 0; i < n && i < lim; i++) { if (i) s += ","; s += cell<T>(K::get(c, i)); }
        return s;
    };
    for (size_t t = 0; t < ops.size(); t++) {
        const op_t& o = ops[t];
        auto arg = [&](size_t i) -> long long { if (i >= o.a.size()) throw bad_args("op arity"); return o.a[i]; };
        int s = (int)arg(0);
        if (s < 0 || s >= NSLOTS) throw bad_args("slot");
        bool valid = true; std::string note;
        if (o.name == "ctor")        { valid = !live[s]; if (valid) { K::ctor(fresh(s)); live[s] = true; } }
        else if (o.name == "ctorN")  { valid = !live[s]; if (valid) { K::ctorN(fresh(s), (size_t)arg(1)); live[s] = true; } }
        else if (o.name == "ctorV")  { valid = !live[s]; if (valid) { std::vector<T> v; for (size_t i = 1; i < o.a.size(); i++) v.push_back(elem<T>::make(o.a[i])); K::ctorV(fresh(s), v); live[s] = true; } }
        else if (o.name == "copy")   { int r = (int)arg(1); if (r < 0 || r >= NSLOTS) throw bad_args("slot"); valid = !live[s] && live[r]; if (valid) { new (fresh(s)) C(obj(r)); live[s] = true; } }
        else if (o.name == "assign") { int r = (int)arg(1); if (r < 0 || r >= NSLOTS) throw bad_args("slot"); valid = live[s] && live[r]; if (valid) { C& d = obj(s); const C& src = obj(r); d = src; } }
        else if (o.name == "push")   { valid = live[s]; if (valid) K::push(obj(s), elem<T>::make(arg(1))); }
        else if (o.name == "pushAt") { valid = live[s] && (size_t)arg(1) < K::size(obj(s)); if (valid) K::pushAt(obj(s), (size_t)arg(1)); }
        else if (o.name == "resize") { valid = live[s]; if (valid) K::resize(obj(s), (size_t)arg(1)); }
        else if (o.name == "write")  { valid = live[s] && (size_t)arg(1) < K::size(obj(s)); if (valid) { if ((size_t)arg(1) < K::limit(obj(s)) || K::unguarded) K::set(obj(s), (size_t)arg(1), elem<T>::make(arg(2))); } }
        else if (o.name == "read")   { valid = live[s] && (size_t)arg(1) < K::size(obj(s));
                                       if (valid) { if ((size_t)arg(1) < K::limit(obj(s)) || K::unguarded) note = " r=" + cell<T>(K::get(const_cast<const C&>(obj(s)), (size_t)arg(1))); else note = " r=u"; } }
        else if (o.name == "destroy"){ valid = live[s]; if (valid) { obj(s).~C(); trk::sweep(store[s], sizeof(C)); live[s] = false; } }
        else throw bad_args("op");
        if (t) { S += "|"; I += "|"; }
        S += show(0) + "/" + show(1) + (valid ? note : std::string("!"));
        I += (live[0] ? K::intern(obj(0)) : std::string("-")) + "/" + (live[1] ? K::intern(obj(1)) : std::string("-"))
           + ";a=" + std::to_string(c19::g_allocs) + ",f=" + std::to_string(c19::g_frees);
    }
    for (int k = 0; k < NSLOTS; k++) if (live[k]) { obj(k).~C(); trk::sweep(store[k], sizeof(C)); live[k] = false; }
    long leak = c19::g_allocs - c19::g_frees;
    std::string fin = "leak=" + std::to_string(leak) + " live=" + std::to_string((long)trk::live.size() + trk::leaked)
                    + " bad=" + std::to_string(c19::g_badfree + trk::bad());
    c19::allocator_reset(); trk::reset();
    return "ok " + S + " # " + I + " # " + fin;
}

