/-
  Line protocol shared by the Lean driver and the C++ harness.

    request : `op key=value key=value …`
    value   : `None` | `[]` (empty list) | `1,-2,3` (ints) | `1,2;3,4` (list of lists)
    answer  : one line per request, canonical text (see lib/README in /verif)
-/
namespace NmVerif.Proto

abbrev Args := List (String × String)

def parseLine (l : String) : String × Args :=
  match (l.trimAscii.toString.splitOn " ").filter (· ≠ "") with
  | [] => ("", [])
  | op :: rest =>
    (op, rest.filterMap (fun kv =>
      match kv.splitOn "=" with
      | [k, v] => some (k, v)
      | _ => none))

def Args.get? (a : Args) (k : String) : Option String := (a.find? (·.1 == k)).map (·.2)

def parseInts (s : String) : Option (List Int) :=
  if s == "[]" || s == "" then some []
  else (s.splitOn ",").mapM (fun t => t.toInt?)

def parseNats (s : String) : Option (List Nat) :=
  if s == "[]" || s == "" then some []
  else (s.splitOn ",").mapM (fun t => t.toNat?)

def parseIntLists (s : String) : Option (List (List Int)) :=
  if s == "[]" || s == "" then some []
  else (s.splitOn ";").mapM parseInts

def parseNatLists (s : String) : Option (List (List Nat)) :=
  if s == "[]" || s == "" then some []
  else (s.splitOn ";").mapM parseNats

def Args.nats (a : Args) (k : String) : Option (List Nat) := (a.get? k).bind parseNats
def Args.ints (a : Args) (k : String) : Option (List Int) := (a.get? k).bind parseInts
def Args.nat (a : Args) (k : String) : Option Nat := (a.get? k).bind (·.toNat?)
def Args.int (a : Args) (k : String) : Option Int := (a.get? k).bind (·.toInt?)
def Args.natLists (a : Args) (k : String) : Option (List (List Nat)) := (a.get? k).bind parseNatLists
def Args.intLists (a : Args) (k : String) : Option (List (List Int)) := (a.get? k).bind parseIntLists
/-- `None` or an int -/
def Args.optInt (a : Args) (k : String) : Option (Option Int) :=
  match a.get? k with
  | none => none
  | some "None" => some none
  | some s => s.toInt?.map some
/-- `None` or a list of ints -/
def Args.optInts (a : Args) (k : String) : Option (Option (List Int)) :=
  match a.get? k with
  | none => none
  | some "None" => some none
  | some s => (parseInts s).map some

def fmtNats (l : List Nat) : String :=
  if l.isEmpty then "[]" else ",".intercalate (l.map toString)
def fmtInts (l : List Int) : String :=
  if l.isEmpty then "[]" else ",".intercalate (l.map toString)
def fmtNatLists (l : List (List Nat)) : String :=
  if l.isEmpty then "[]" else ";".intercalate (l.map fmtNats)
def fmtIntLists (l : List (List Int)) : String :=
  if l.isEmpty then "[]" else ";".intercalate (l.map fmtInts)

/-- handler: `none` = op not mine; `some answer` otherwise. Bad arguments → "bad-args". -/
abbrev Handler := String → Args → Option String

def orBad (o : Option String) : Option String := some (o.getD "bad-args")

end NmVerif.Proto
