import NmVerif.Index.CheckedOps
import NmVerif.Lemmas.Rearrange
import NmVerif.Lemmas.RearrangePerm
import NmVerif.Lemmas.SelCommon
import NmVerif.Lemmas.Concatenate
/-
  Lemmas for NmVerif.Index.CheckedOps (C15): the mirrored validation loops decide exactly NumPy's validity predicates.
-/
namespace NmVerif.Checked
open NmVerif NmVerif.Index

theorem axisInRange_iff (dim : Nat) (a : Int) : axisInRange dim a = true ↔ (-(dim : Int) ≤ a ∧ a < (dim : Int)) := by
  simp [axisInRange]

theorem normalizeAxis_of_inRange (dim : Nat) (a : Int) (h : axisInRange dim a = true) :
    normalizeAxis dim a = some (normPos dim a) := by
  have h' := (axisInRange_iff dim a).1 h
  unfold normalizeAxis normPos
  rw [if_pos h']

theorem normalizeAxis_isSome_iff_inRange (dim : Nat) (a : Int) :
    (normalizeAxis dim a).isSome ↔ axisInRange dim a = true := by
  rw [axisInRange_iff]
  unfold normalizeAxis
  split <;> simp_all

theorem normalizeAxis_some_inRange (dim : Nat) (a : Int) (k : Nat) (h : normalizeAxis dim a = some k) :
    axisInRange dim a = true ∧ k = normPos dim a := by
  have hr : axisInRange dim a = true := (normalizeAxis_isSome_iff_inRange dim a).1 (by rw [h]; rfl)
  rw [normalizeAxis_of_inRange dim a hr] at h
  exact ⟨hr, by cases h; rfl⟩

/-- the validation loop accepts iff every axis normalises, and the normalised axes are pairwise distinct and new -/
theorem transposeAxesLoop_iff (dim : Nat) (ax : List Int) (seen : List Nat) :
    transposeAxesLoop dim ax seen = true ↔
      ∃ p, normalizeAxes dim ax = some p ∧ p.Nodup ∧ ∀ x ∈ p, x ∉ seen := by
  induction ax generalizing seen with
  | nil => simp [transposeAxesLoop, normalizeAxes]
  | cons a rest ih =>
    unfold transposeAxesLoop
    constructor
    · intro h
      simp only [Bool.and_eq_true, Bool.not_eq_true'] at h
      obtain ⟨⟨hr, hns⟩, hl⟩ := h
      obtain ⟨p, hp, hnd, hdis⟩ := (ih _).1 hl
      refine ⟨normPos dim a :: p, ?_, ?_, ?_⟩
      · unfold normalizeAxes at hp ⊢
        rw [mapM_cons_opt, normalizeAxis_of_inRange dim a hr, hp]; rfl
      · refine List.nodup_cons.2 ⟨?_, hnd⟩
        intro hm
        exact hdis _ hm (by simp)
      · intro x hx
        rcases List.mem_cons.1 hx with rfl | hx
        · intro hs
          have : seen.contains (normPos dim a) = true := by simpa using hs
          rw [this] at hns; cases hns
        · intro hs
          exact hdis x hx (by simp [hs])
    · rintro ⟨p, hp, hnd, hdis⟩
      unfold normalizeAxes at hp
      rw [mapM_cons_opt] at hp
      cases hfa : normalizeAxis dim a with
      | none => simp [hfa] at hp
      | some k =>
        cases hl : rest.mapM (normalizeAxis dim) with
        | none => simp [hfa, hl] at hp
        | some p' =>
          simp [hfa, hl] at hp
          subst hp
          obtain ⟨hr, hk⟩ := normalizeAxis_some_inRange dim a k hfa
          subst hk
          have hnd' := List.nodup_cons.1 hnd
          have hrest : transposeAxesLoop dim rest (normPos dim a :: seen) = true := by
            apply (ih _).2
            refine ⟨p', hl, hnd'.2, ?_⟩
            intro x hx hs
            rcases List.mem_cons.1 hs with rfl | hs
            · exact hnd'.1 hx
            · exact hdis x (by simp [hx]) hs
          have hmem : normPos dim a ∉ seen := hdis (normPos dim a) (by simp)
          simp [hr, hmem, hrest]

/-- `view::transposer` accepts run-time axes iff they are (a spelling of) a permutation of the axes -/
theorem transposeAxesOk_iff (dim : Nat) (ax : List Int) :
    transposeAxesOk dim ax = true ↔ ∃ p, normalizeAxes dim ax = some p ∧ p.Perm (List.range dim) := by
  unfold transposeAxesOk
  simp only [Bool.and_eq_true, decide_eq_true_eq]
  constructor
  · rintro ⟨hlen, hl⟩
    obtain ⟨p, hp, hnd, _⟩ := (transposeAxesLoop_iff dim ax []).1 hl
    refine ⟨p, hp, ?_⟩
    have hpl : p.length = ax.length := mapM_some_length _ _ _ hp
    apply perm_range_of_nodup p dim hnd ?_ (by omega)
    intro x hx
    obtain ⟨j, hj, rfl⟩ := List.mem_iff_getElem.1 hx
    have hj' : j < ax.length := by omega
    have := (mapM_some_get _ _ _ hp j ax[j] (by simp [hj'])).1
    rw [List.getElem?_eq_getElem hj] at this
    exact normalizeAxis_lt _ _ _ this
  · rintro ⟨p, hp, hperm⟩
    obtain ⟨hlen, hnd, _, _⟩ := perm_range_facts p dim hperm
    have hpl : p.length = ax.length := mapM_some_length _ _ _ hp
    exact ⟨by omega, (transposeAxesLoop_iff dim ax []).2 ⟨p, hp, hnd, by simp⟩⟩

theorem pairwiseDistinct_iff (l : List Nat) : pairwiseDistinct l = true ↔ l.Nodup := by
  induction l with
  | nil => simp [pairwiseDistinct]
  | cons x xs ih =>
    unfold pairwiseDistinct
    simp only [Bool.and_eq_true, Bool.not_eq_true', List.nodup_cons, ih]
    constructor
    · rintro ⟨h1, h2⟩
      refine ⟨?_, h2⟩
      intro hm
      have hc : xs.contains x = true := by simpa using hm
      rw [hc] at h1
      cases h1
    · rintro ⟨h1, h2⟩
      exact ⟨by simpa using h1, h2⟩

/-- the value model of swapaxes is defined for every pair of in-range axes (no positivity needed) -/
theorem swapaxesView_isSome (src : Shape) (a1 a2 : Int) (h1 : axisInRange src.length a1 = true)
    (h2 : axisInRange src.length a2 = true) : (swapaxesView src a1 a2).isSome := by
  have e1 := normalizeAxis_of_inRange _ _ h1
  have e2 := normalizeAxis_of_inRange _ _ h2
  have hm1 := normalizeAxis_lt _ _ _ e1
  have hm2 := normalizeAxis_lt _ _ _ e2
  have hperm := swap_order_perm src.length _ _ hm1 hm2
  have hn := normalizeAxes_ofNat src.length ((List.range src.length).map (swapPos (normPos src.length a1) (normPos src.length a2)))
    (fun x hx => by
      simp only [List.mem_map, List.mem_range] at hx
      obtain ⟨k, hk, rfl⟩ := hx
      exact swapPos_lt _ _ k _ hm1 hm2 hk)
  obtain ⟨hlen, _, _, _⟩ := perm_range_facts _ _ hperm
  obtain ⟨dst, _, hv⟩ := transposeView_some src _ _ hn hlen
  simp only [swapaxesView, swapaxesToTranspose, e1, e2, Option.bind_some, swap_order_eq _ _ _ hm1 hm2, hv]
  rfl

/-! ### repeat -/

theorem normalizeAxis1_of_inRange (dim : Nat) (a : Int) (h : axisInRange dim a = true) :
    ∃ k, normalizeAxis1 a dim = some k ∧ k < dim := by
  have h' := (axisInRange_iff dim a).1 h
  have hn : ¬ (a < -(dim : Int) ∨ (dim : Int) ≤ a) := by omega
  unfold normalizeAxis1
  rw [if_neg hn]
  split
  · exact ⟨_, rfl, by omega⟩
  · exact ⟨_, rfl, by omega⟩

theorem normalizeAxis1_isSome_inRange (dim : Nat) (a : Int) (k : Nat) (h : normalizeAxis1 a dim = some k) :
    axisInRange dim a = true := by
  rw [axisInRange_iff]
  unfold normalizeAxis1 at h
  split at h
  · cases h
  · omega

theorem repeatView_isSome (s : Shape) (r : Nat) (a : Int) (h : axisInRange s.length a = true) :
    (repeatView s r (some a)).isSome := by
  obtain ⟨k, hk, hlt⟩ := normalizeAxis1_of_inRange _ _ h
  simp [repeatView, shapeRepeat, atPy_of_normalizeAxis1 s a k hk, List.getElem?_eq_getElem hlt]

theorem repeatListView_isSome (s : Shape) (rs : List Nat) (a : Int) (h : axisInRange s.length a = true) :
    (repeatListView s rs a).isSome := by
  obtain ⟨k, hk, hlt⟩ := normalizeAxis1_of_inRange _ _ h
  simp [repeatListView, shapeRepeatList, atPy_of_normalizeAxis1 s a k hk, List.getElem?_eq_getElem hlt]

/-! ### concatenate -/

theorem shapeConcatLoop_noaxis_ok (ax : Int) (i : Nat) (as bs : Shape) (hl : as.length = bs.length)
    (h : ∀ j, i ≤ j → (j : Int) ≠ ax) (hok : (shapeConcatLoop ax i as bs).1 = true) : as = bs := by
  induction as generalizing i bs with
  | nil => cases bs with
    | nil => rfl
    | cons b bs => simp at hl
  | cons a as ih =>
    cases bs with
    | nil => simp at hl
    | cons b bs =>
      have h0 : ((i : Nat) : Int) ≠ ax := h i (Nat.le_refl _)
      simp only [shapeConcatLoop, h0, if_false] at hok
      by_cases hab : a = b
      · subst hab
        simp only [if_true] at hok
        rw [ih (i + 1) bs (by simpa using hl) (fun j hj => h j (by omega)) hok]
      · simp [hab] at hok

theorem shapeConcatLoop_axis_ok (i m : Nat) (as bs : Shape) (hl : as.length = bs.length)
    (hok : (shapeConcatLoop ((i + m : Nat) : Int) i as bs).1 = true) : ∀ j, j ≠ m → as[j]? = bs[j]? := by
  induction as generalizing i m bs with
  | nil => cases bs with
    | nil => intro j _; rfl
    | cons b bs => simp at hl
  | cons a as ih =>
    cases bs with
    | nil => simp at hl
    | cons b bs =>
      cases m with
      | zero =>
        simp only [shapeConcatLoop, Nat.add_zero, if_true] at hok
        have := shapeConcatLoop_noaxis_ok _ (i + 1) as bs (by simpa using hl) (fun j hj => by omega) hok
        subst this
        intro j hj
        cases j with
        | zero => omega
        | succ j => simp
      | succ m =>
        have hne : ((i : Nat) : Int) ≠ ((i + (m + 1) : Nat) : Int) := by omega
        simp only [shapeConcatLoop, hne, if_false] at hok
        by_cases hab : a = b
        · subst hab
          simp only [if_true] at hok
          have e : i + (m + 1) = i + 1 + m := by omega
          rw [e] at hok
          have hrec := ih (i + 1) m bs (by simpa using hl) hok
          intro j hj
          cases j with
          | zero => simp
          | succ j => simpa using hrec j (by omega)
        · simp [hab] at hok

/-- NumPy accepts `concatenate((a, b), axis)`: equal ranks, axis in range, equal extents off the axis -/
def ValidConcat (a b : Shape) (axis : Int) : Prop :=
  ∃ k, normalizeAxis1 axis a.length = some k ∧ ConcatCompatible a b k

theorem concatenateOk_iff (a b : Shape) (axis : Int) : concatenateOk a b axis = true ↔ ValidConcat a b axis := by
  unfold concatenateOk ValidConcat
  simp only [Bool.and_eq_true, decide_eq_true_eq]
  constructor
  · rintro ⟨⟨⟨hl, h0⟩, h1⟩, hok⟩
    have hr : axisInRange a.length axis = true := by
      rw [axisInRange_iff]; unfold normAxis at h0 h1; split at h0 <;> omega
    obtain ⟨k, hk, hlt⟩ := normalizeAxis1_of_inRange _ _ hr
    refine ⟨k, hk, hl, hlt, ?_⟩
    have hna := normAxis_of_normalizeAxis1 axis _ k hk
    have hna' : normAxis axis b.length = (k : Int) := by rw [← hl]; exact hna
    simp only [shapeConcatenate, hl, if_true, hna'] at hok
    exact shapeConcatLoop_axis_ok 0 k a b hl (by simpa using hok)
  · rintro ⟨k, hk, hl, hlt, hc⟩
    have hna := normAxis_of_normalizeAxis1 axis _ k hk
    obtain ⟨x, y, _, _, hs⟩ := shapeConcatenate_eq_spec a b k ⟨hl, hlt, hc⟩
    have hs' : shapeConcatenate a b axis = shapeConcatenate a b (k : Int) := by
      simp [shapeConcatenate, hna, normAxis_nat]
    refine ⟨⟨⟨hl, by omega⟩, by omega⟩, ?_⟩
    rw [hs', hs]

end NmVerif.Checked
