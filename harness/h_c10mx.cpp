// C10 harness, mixed operand kinds x mixed element types: bare `array::eval(view)` (the OLDER default result-type
// resolver `eval_t`: meta::resolve_unary_array_type / resolve_binary_array_type, eval.hpp:395-672, 888-948) next to the
// eager function `array::fn(args)` (resolver eval_result_t<>) against the lazy view itself.
//
//   mixb fn=add|multiply|subtract|less lk=<kind> lt=<et> rk=<kind> rt=<et> shape=<shape> l=<values> r=<values>
//   mixu fn=negative|fabs|positive     lk=<kind> lt=<et>                  shape=<shape> l=<values>
//        kind: F fixed_ndarray<T,2,3> | H hybrid_ndarray<T,12,2> | D ndarray_t<vector<T>,vector<size_t>> | R T[2][3] |
//              A std::array<std::array<T,3>,2> | V std::vector<T> (rank 1) | S T (a number)
//        et:   i32 f32 f64 i8 u8;  values: decimal numbers in C order of `shape`, cast to the operand's element type
//              (one value for S)
//   answer: ok vt=<element type of the view> shape=<view shape> data=<view elements, %.17g>
//              et=<element type of eval(view)> ed=same|<shape:data of eval(view)>
//              ft=<element type of array::fn(args)> fd=same|<shape:data>
//        `same` = same shape and every element (each printed from its own element type) equal to the view's.
//   Which (lk, rk, lt, rt, fn) instantiations a TU holds: MX_LK (left kind of this TU; 7 = the unary requests) and the
//   predicate mx_enabled below (the same formula is in lib/props/c10.py); -DMX_FULL compiles every pairing for `add`.
#include "nmtools/array/ndarray.hpp"
#include "nmtools/array/index/ndindex.hpp"
#include "nmtools/utility/at.hpp"
#include "nmtools/array/eval.hpp"
#include "nmtools/array/array/ufuncs/add.hpp"
#include "nmtools/array/array/ufuncs/multiply.hpp"
#include "nmtools/array/array/ufuncs/subtract.hpp"
#include "nmtools/array/array/ufuncs/less.hpp"
#include "nmtools/array/array/ufuncs/negative.hpp"
#include "nmtools/array/array/ufuncs/fabs.hpp"
#include "nmtools/array/array/ufuncs/positive.hpp"
#include "proto.hpp"
#include <array>
#include <vector>
#include <cstdint>
#include <cstdio>
#include <type_traits>

namespace nm = nmtools; namespace ix = nmtools::index; namespace na = nmtools::array; namespace view = nmtools::view;
namespace meta = nmtools::meta;
using namespace proto;

#ifndef MX_LK
#define MX_LK 0
#endif

enum { KF = 0, KH, KD, KR, KA, KV, KS, NK };
static const char* kind_names = "FHDRAVS";

// ---- element types ----------------------------------------------------------------------------------------------
template <int I> struct et_of;
template <> struct et_of<0> { using type = int; };
template <> struct et_of<1> { using type = float; };
template <> struct et_of<2> { using type = double; };
template <> struct et_of<3> { using type = int8_t; };
template <> struct et_of<4> { using type = uint8_t; };
static const char* et_names[] = {"i32", "f32", "f64", "i8", "u8"};
static int et_index(const std::string& s) { for (int i = 0; i < 5; i++) if (s == et_names[i]) return i; throw bad_args("et"); }

template <typename T> static std::string tname() {
    using U = meta::remove_cvref_t<T>;
    if constexpr (std::is_same_v<U,bool>) return "b";
    else if constexpr (std::is_floating_point_v<U>) return "f" + std::to_string(8 * sizeof(U));
    else if constexpr (std::is_integral_v<U>) return (std::is_signed_v<U> ? "i" : "u") + std::to_string(8 * sizeof(U));
    else return "?";
}
template <typename T> static std::string num(T v) {
    char b[64]; std::snprintf(b, sizeof b, "%.17g", (double)v); return b;
}

// ---- operands -----------------------------------------------------------------------------------------------------
static std::vector<double> values(const Args& a, const std::string& k) {
    std::vector<double> r; for (auto& t : split(get(a, k), ',')) r.push_back(std::stod(t)); return r;
}
static size_t prod(const uvec& s) { size_t n = 1; for (auto e : s) n *= e; return n; }

template <int K, typename T> struct Operand;
template <typename A, typename T> static void fill_nd(A& a, const std::vector<double>& v) {
    auto shp = nm::shape(a); auto nd = ix::ndindex(shp);
    if ((size_t)nd.size() != v.size()) throw bad_args("values");
    for (size_t k = 0; k < v.size(); k++) nm::apply_at(a, nd[k]) = (T)v[k];
}
template <typename T> struct Operand<KF,T> {
    na::fixed_ndarray<T,2,3> x{};
    Operand(const uvec& s, const std::vector<double>& v) { if (s != uvec{2,3}) throw bad_args("shape"); fill_nd<decltype(x),T>(x, v); }
    const auto& get() const { return x; }
};
template <typename T> struct Operand<KH,T> {
    na::hybrid_ndarray<T,12,2> x{};
    Operand(const uvec& s, const std::vector<double>& v) { if (s.size() != 2 || prod(s) > 12) throw bad_args("shape"); x.resize(s[0], s[1]); fill_nd<decltype(x),T>(x, v); }
    const auto& get() const { return x; }
};
template <typename T> struct Operand<KD,T> {
    na::ndarray_t<std::vector<T>, std::vector<size_t>> x{};
    Operand(const uvec& s, const std::vector<double>& v) { x.resize(s); fill_nd<decltype(x),T>(x, v); }
    const auto& get() const { return x; }
};
template <typename T> struct Operand<KR,T> {
    T x[2][3];
    Operand(const uvec& s, const std::vector<double>& v) { if (s != uvec{2,3} || v.size() != 6) throw bad_args("shape"); for (size_t k = 0; k < 6; k++) x[k / 3][k % 3] = (T)v[k]; }
    const T (&get() const)[2][3] { return x; }
};
template <typename T> struct Operand<KA,T> {
    std::array<std::array<T,3>,2> x{};
    Operand(const uvec& s, const std::vector<double>& v) { if (s != uvec{2,3} || v.size() != 6) throw bad_args("shape"); for (size_t k = 0; k < 6; k++) x[k / 3][k % 3] = (T)v[k]; }
    const auto& get() const { return x; }
};
template <typename T> struct Operand<KV,T> {
    std::vector<T> x;
    Operand(const uvec& s, const std::vector<double>& v) { if (s.size() != 1 || v.size() != s[0]) throw bad_args("shape"); for (auto e : v) x.push_back((T)e); }
    const auto& get() const { return x; }
};
template <typename T> struct Operand<KS,T> {
    T x;
    Operand(const uvec&, const std::vector<double>& v) { if (v.size() != 1) throw bad_args("values"); x = (T)v[0]; }
    const T& get() const { return x; }
};

// ---- observation --------------------------------------------------------------------------------------------------
struct Obs { std::string et; uvec shape; std::string data; };
template <typename S> static uvec to_uvec(const S& shp) {
    uvec s;
    if constexpr (meta::is_constant_index_array_v<S>) {
        constexpr auto v = meta::to_value_v<S>;
        for (size_t i = 0; i < (size_t)nm::len(v); i++) s.push_back((size_t)nm::at(v, i));
    } else for (size_t i = 0; i < (size_t)nm::len(shp); i++) s.push_back((size_t)nm::at(shp, i));
    return s;
}
template <typename V> static Obs observe(const V& v) {
    Obs r;
    using T = meta::remove_cvref_t<meta::get_element_type_t<V>>;
    r.et = tname<T>();
    if constexpr (meta::is_num_v<V>) { r.data = num(static_cast<T>(v)); return r; }
    else {
        r.shape = to_uvec(nm::shape(v));
        auto shp = nm::shape(v); auto nd = ix::ndindex(shp); size_t n = nd.size();
        std::string d; if (n == 0) d = "[]";
        for (size_t k = 0; k < n; k++) { if (k) d += ','; d += num((T)nm::apply_at(v, nd[k])); }
        r.data = d; return r;
    }
}
static std::string versus(const Obs& x, const Obs& ref) {
    return (x.shape == ref.shape && x.data == ref.data) ? "same" : fmt(x.shape) + ":" + x.data;
}

// lazy view, bare eval(view) with the default (older) resolver, eager function
// OLD = false: bare eval(view) of this pairing does not compile (a std::vector as the LEFT operand of a binary view: the
// older resolver takes std::vector<T> itself as the result type and apply_resize has no resize(shape) for it — a compile
// error, never a silent outcome; operand-container class of C11.old-resolver-operand-container); answered `et=n/a ed=n/a`
template <bool OLD, typename FV, typename FA, typename... Xs> static std::string fin(FV fv, FA fa, const Xs&... xs) {
    auto mv = fv(xs...);
    if constexpr (meta::is_maybe_v<decltype(mv)>) { if (!nm::has_value(mv)) return "nothing"; }
    const auto& v = nm::unwrap(mv);
    Obs B = observe(v);
    Obs AO; std::string ed = "n/a"; AO.et = "n/a";
    if constexpr (OLD) {
        auto meo = na::eval(mv);
        if constexpr (meta::is_maybe_v<decltype(meo)>) { if (!nm::has_value(meo)) return "eval-nothing"; }
        const auto& eo = nm::unwrap(meo);
        AO = observe(eo); ed = versus(AO, B);
    }
    auto mef = fa(xs...);
    if constexpr (meta::is_maybe_v<decltype(mef)>) { if (!nm::has_value(mef)) return "fn-nothing"; }
    const auto& ef = nm::unwrap(mef);
    Obs AF = observe(ef);
    return "ok vt=" + B.et + " shape=" + fmt(B.shape) + " data=" + B.data + " et=" + AO.et + " ed=" + ed
         + " ft=" + AF.et + " fd=" + versus(AF, B);
}

// ---- which instantiations this TU holds (keep in step with mx_enabled in lib/props/c10.py) -------------------------
// q = lk*7+rk, p = lt*5+rt, f = function index
constexpr bool kinds_ok(int lk, int rk) {
    if (lk == KS && rk == KS) return false;
    // std::vector is rank 1: only with rank-1-capable partners (V, D, S)
    if (lk == KV) return rk == KV || rk == KD || rk == KS;
    if (rk == KV) return lk == KD || lk == KS;
    return true;
}
constexpr bool mx_enabled(int lk, int rk, int lt, int rt, int f) {
    if (!kinds_ok(lk, rk)) return false;
    int q = lk * 7 + rk, p = lt * 5 + rt;
    // core pairs for add: (f64,i32) (i32,f64) (i8,u8) for every kind pairing
    if (f == 0 && (p == 2 * 5 + 0 || p == 0 * 5 + 2 || p == 3 * 5 + 4)) return true;
#ifdef MX_FULL
    if (f == 0) return true;
    return (p * 3 + q + f * 7) % 11 == 0;
#else
    return (p * 3 + q + f * 7) % 23 == 0;
#endif
}
constexpr bool mx_enabled_u(int k, int t, int f) {
#ifdef MX_FULL
    return true;
#else
    return f == 0 || (k + t + f) % 2 == 0;
#endif
}

template <int LK, int LT, int RK, int RT> static std::string run_b(const std::string& fn, const Args& a, const uvec& s) {
    using TL = typename et_of<LT>::type; using TR = typename et_of<RT>::type;
    auto mk = [&](auto tag) {
        constexpr int side = decltype(tag)::value;
        constexpr int K = side ? RK : LK; using T = std::conditional_t<side, TR, TL>;
        return Operand<K,T>(K == KS ? uvec{} : s, values(a, side ? "r" : "l"));
    };
    [[maybe_unused]] auto go = [&](auto fv, auto fa) {
        auto l = mk(std::integral_constant<int,0>{}); auto r = mk(std::integral_constant<int,1>{});
        return fin<LK != KV>(fv, fa, l.get(), r.get());
    };
    if constexpr (mx_enabled(LK, RK, LT, RT, 0)) if (fn == "add")
        return go([](const auto& x, const auto& y) { return view::add(x, y); }, [](const auto& x, const auto& y) { return na::add(x, y); });
    if constexpr (mx_enabled(LK, RK, LT, RT, 1)) if (fn == "multiply")
        return go([](const auto& x, const auto& y) { return view::multiply(x, y); }, [](const auto& x, const auto& y) { return na::multiply(x, y); });
    if constexpr (mx_enabled(LK, RK, LT, RT, 2)) if (fn == "subtract")
        return go([](const auto& x, const auto& y) { return view::subtract(x, y); }, [](const auto& x, const auto& y) { return na::subtract(x, y); });
    if constexpr (mx_enabled(LK, RK, LT, RT, 3)) if (fn == "less")
        return go([](const auto& x, const auto& y) { return view::less(x, y); }, [](const auto& x, const auto& y) { return na::less(x, y); });
    return "not-compiled";
}
template <int K, int T> static std::string run_u(const std::string& fn, const Args& a, const uvec& s) {
    using TL = typename et_of<T>::type;
    [[maybe_unused]] auto go = [&](auto fv, auto fa) {
        Operand<K,TL> l(K == KS ? uvec{} : s, values(a, "l"));
        return fin<true>(fv, fa, l.get());
    };
    if constexpr (mx_enabled_u(K, T, 0)) if (fn == "negative")
        return go([](const auto& x) { return view::negative(x); }, [](const auto& x) { return na::negative(x); });
    if constexpr (mx_enabled_u(K, T, 1)) if (fn == "fabs")
        return go([](const auto& x) { return view::fabs(x); }, [](const auto& x) { return na::fabs(x); });
    if constexpr (mx_enabled_u(K, T, 2)) if (fn == "positive")
        return go([](const auto& x) { return view::positive(x); }, [](const auto& x) { return na::positive(x); });
    return "not-compiled";
}

template <int LK, int LT, int RK, int RT = 0> static std::string disp_rt(int rt, const std::string& fn, const Args& a, const uvec& s) {
    if constexpr (RT >= 5) return "bad-args";
    else { if (rt == RT) return run_b<LK,LT,RK,RT>(fn, a, s); return disp_rt<LK,LT,RK,RT+1>(rt, fn, a, s); }
}
template <int LK, int LT, int RK = 0> static std::string disp_rk(int rk, int rt, const std::string& fn, const Args& a, const uvec& s) {
    if constexpr (RK >= NK) return "bad-args";
    else { if (rk == RK) return disp_rt<LK,LT,RK>(rt, fn, a, s); return disp_rk<LK,LT,RK+1>(rk, rt, fn, a, s); }
}
template <int LK, int LT = 0> static std::string disp_lt(int lt, int rk, int rt, const std::string& fn, const Args& a, const uvec& s) {
    if constexpr (LT >= 5) return "bad-args";
    else { if (lt == LT) return disp_rk<LK,LT>(rk, rt, fn, a, s); return disp_lt<LK,LT+1>(lt, rk, rt, fn, a, s); }
}
template <int K, int T = 0> static std::string dispu_t(int t, const std::string& fn, const Args& a, const uvec& s) {
    if constexpr (T >= 5) return "bad-args";
    else { if (t == T) return run_u<K,T>(fn, a, s); return dispu_t<K,T+1>(t, fn, a, s); }
}
template <int K = 0> static std::string dispu_k(int k, int t, const std::string& fn, const Args& a, const uvec& s) {
    if constexpr (K >= NK) return "bad-args";
    else { if (k == K) return dispu_t<K>(t, fn, a, s); return dispu_k<K+1>(k, t, fn, a, s); }
}
static int kind_index(const std::string& s) {
    for (int i = 0; i < NK; i++) if (s.size() == 1 && s[0] == kind_names[i]) return i;
    throw bad_args("kind");
}

std::string handle(const std::string& op, const Args& a) {
    if (op != "mixb" && op != "mixu") return "unknown-op";
    auto s = get(a, "shape") == "[]" ? uvec{} : nats(a, "shape");
    int lk = kind_index(get(a, "lk")), lt = et_index(get(a, "lt"));
    std::string fn = get(a, "fn");
#if MX_LK == 7
    if (op == "mixu") return dispu_k<>(lk, lt, fn, a, s);
    return "not-compiled";
#else
    if (op == "mixb" && lk == MX_LK) return disp_lt<MX_LK>(lt, kind_index(get(a, "rk")), et_index(get(a, "rt")), fn, a, s);
    return "not-compiled";
#endif
}
