import NmVerif.Arr
/-
  NmVerif.Index.SelCommon — small pieces shared by the C04 models (Repeat, Roll, Pad, Take, Concatenate, …).

    `u64 x`            value of a signed C++ integer after conversion to `size_t` (two's complement, 64 bit)
    `atPy l i`         `nmtools::at(l, i)` for a *signed run-time* index `i` (utility/at.hpp:196-212):
                       `i < 0 ⇒ l[len(l) + i]` (one Python-style wrap), else `l[i]`; `none` = access outside the container
                       (std::vector::at throws / UB) — never happens on accepted arguments.
    `setPy l i v`      `at(l, i) = v` with the same index rule
    `reshapeIdx`       index map of `view::reshape` (`compute_indices(compute_offset(d, dst_strides), src_shape)`)
  Core Lean only.
-/
namespace NmVerif.Index

/-- a signed integer converted to `size_t` -/
def u64 (x : Int) : Nat := (x % (2 ^ 64 : Int)).toNat

/-- position addressed by `nmtools::at(l, i)` for a signed run-time `i` in a container of length `n` -/
def posPy (n : Nat) (i : Int) : Nat := if i < 0 then u64 ((n : Int) + i) else i.toNat

/-- `nmtools::at(l, i)`, signed run-time index -/
def atPy {α : Type} (l : List α) (i : Int) : Option α := l[posPy l.length i]?

/-- `at(l, i) = v` (no effect when outside: UB in the C++, never on accepted arguments) -/
def setPy {α : Type} (l : List α) (i : Int) (v : α) : List α := l.set (posPy l.length i) v

/-- index map of `view::reshape(a, dst)`: `compute_indices(compute_offset(d, strides dst), src)` -/
def reshapeIdx (src dst : Shape) (d : Idx) : Idx :=
  computeIndices (computeOffset d (strides dst)) src (strides src)

/-- `view::reshape` as an indexing view (shape compatibility is the caller's business here) -/
def reshapeViewRaw (src dst : Shape) : IxView := ⟨src, dst, fun d => some (reshapeIdx src dst d)⟩

end NmVerif.Index
