"""C04 — additional generators whose requests are answered by the Lean models of Index/Where.lean and
Index/Generators.lean as well (IMPL vs MODEL vs ORACLE): where with three differently shaped operands (compatible and
incompatible), arange / linspace / full / zeros / ones(_like) with a model answer."""
import itertools
from fractions import Fraction
import numpy as np
from runner import Case
from shapes import shapes, prod, fmt
from props import c04_bc
from props.c04_bc import iota, ans, sample

H_D = c04_bc.H_D


# ---------------------------------------------------------------------------------------------------------------
# where: three operands of different shapes / ranks; Nothing iff the shapes do not broadcast
# ---------------------------------------------------------------------------------------------------------------

def gen_where_more(tier, rng):
    R, E = (3, 3) if tier == 'quick' else (4, 4)
    pool = [list(s) for s in shapes(R, E, min_rank=1)]
    n = 500 if tier == 'quick' else 4000
    made = 0
    guard = 0
    want_bad = n // 4
    bad = 0
    while made < n and guard < 50 * n:
        guard += 1
        if rng.random() < 0.6:
            # derive x and y from a common shape so that compatible triples are frequent
            base = rng.choice(pool)
            vs = c04_bc.bcast_variants(base)
            sc, sx, sy = rng.choice(vs), rng.choice(vs), rng.choice(vs)
            if rng.random() < 0.3:
                k = rng.randrange(len(sx))
                sx = c04_bc._with(sx, k, rng.randint(1, E))
        else:
            sc, sx, sy = rng.choice(pool), rng.choice(pool), rng.choice(pool)
        try:
            np.broadcast_shapes(tuple(sc), tuple(sx), tuple(sy))
            ok = True
        except ValueError:
            ok = False
        if not ok:
            if bad >= want_bad:
                continue
            bad += 1
        if prod(sc) > 64:
            continue
        made += 1
        c = [rng.choice((0, 0, 1, 1, 2, -1)) for _ in range(prod(sc))]
        req = 'where shape=%s cond=%s shape2=%s shape3=%s' % (fmt(sc), fmt(c), fmt(sx), fmt(sy))
        if ok:
            cond = np.array(c, dtype=np.int64).reshape(sc)
            o = ans(np.where(cond != 0, iota(sx, 1000), iota(sy, 2000)))
        else:
            o = 'nothing'
        ranks = sorted({len(sc), len(sx), len(sy)})
        yield Case(req, H_D, oracle=o, nontrivial=ok, tags=['where', 'where.three-shapes', 'compatible' if ok else 'incompatible',
                                                           'ranks-differ' if len(ranks) > 1 else 'ranks-equal'])


# ---------------------------------------------------------------------------------------------------------------
# arange: long ranges (probed at selected positions), the binary32 range of index::arange_shape
# ---------------------------------------------------------------------------------------------------------------

H_E = 'h_c04e'
F32 = 2 ** 24


def harness_specs_gen(tier):
    return [dict(name=H_E, src='h_c04e.cpp', flavour='fast')]


def arange_len_def(start, stop, sn, sd=1):
    """NumPy's count max(0, ceil((stop - start) / step)) for step = sn/sd, in exact integer arithmetic"""
    a = (stop - start) * sd
    if sn > 0:
        return (a + sn - 1) // sn if a > 0 else 0
    return (-a + (-sn) - 1) // (-sn) if a < 0 else 0


def fmt_q(x):
    x = Fraction(x)
    return str(x.numerator) if x.denominator == 1 else '%d/%d' % (x.numerator, x.denominator)


def parse_at(a):
    """'ok shape=L at=..' -> (L, [floats])"""
    if not isinstance(a, str) or not a.startswith('ok shape=') or ' at=' not in a:
        return None
    try:
        sh, at = a[3:].split(' ')
        at = at[len('at='):]
        return sh[len('shape='):], ([] if at == '[]' else [float(Fraction(x)) for x in at.split(',')])
    except ValueError:
        return None


def cmp_at_scaled(scale):
    """shape exactly; values within 1e-6 * max(1, scale): the rounding error of `start + k*step` in binary32 is relative to
    the magnitude of the operands (start, stop, stop - start), not to a result that may have cancelled"""
    tol = c04_bc.REL_TOL * max(1.0, scale)

    def cmp(a, b):
        pa, pb = parse_at(a), parse_at(b)
        if pa is None or pb is None:
            return a == b
        if pa[0] != pb[0] or len(pa[1]) != len(pb[1]):
            return False
        return all(x == x and y == y and abs(x - y) <= tol for x, y in zip(pa[1], pb[1]))
    return cmp


cmp_at = cmp_at_scaled(1.0)


def in_f32_range(start, stop, sn, sd=1):
    """range A of the model (Index/Generators.lean, arangeLen): both conversions exact, quotient ceiling exact"""
    return abs(stop - start) * sd < F32 and abs(sn) < F32


def arange_beyond_f32(case):
    """known-finding class arange.float32-length: an arange request whose difference or step leaves the binary32-exact
    range (decided from the request alone)"""
    op, d = c04_bc_parse(case.req)
    if op not in ('arange', 'arange_at') or 'start' not in d or 'stop' not in d:
        return False
    try:
        start, stop = int(d['start']), int(d['stop'])
        if 'stepq' in d:
            sn, sd = int(d['stepq']), 4
        else:
            sn, sd = (1 if d.get('step') == 'None' else int(d['step'])), 1
    except (KeyError, ValueError):
        return False
    return not in_f32_range(start, stop, sn, sd)


def c04_bc_parse(req):
    parts = req.split()
    return parts[0], dict(kv.split('=', 1) for kv in parts[1:])


KNOWN_PREDICATES_GEN = {'arange_beyond_f32': arange_beyond_f32}


def gen_arange_long(tier, rng):
    n = 120 if tier == 'quick' else 1500
    # (1) long ranges inside the binary32-exact range, elements probed at a few positions (dom: arange_len / arange_shape_elem)
    for _ in range(n):
        kind = rng.choice(('int', 'int', 'float', 'double'))
        real_step = kind != 'int' and rng.random() < 0.6
        sd = 4 if real_step else 1
        span = rng.randint(1, (F32 - 1) // sd)
        start = rng.randint(-span, span)
        sign = rng.choice((1, -1))
        stop = start + sign * rng.randint(0, span - 1) if rng.random() < 0.9 else start - sign * rng.randint(0, 50)
        if abs(stop - start) * sd >= F32:
            continue
        if kind == 'float':
            # elements start + k*step are exact in binary32 only while every intermediate stays below 2^24 / sd
            if max(abs(start), abs(stop)) * sd >= F32 // 2:
                continue
        mag = rng.choice((1, 2, 3, 7, 100, 12345, rng.randint(1, 2 ** 20)))
        sn = (sign if rng.random() < 0.9 else -sign) * mag
        L = arange_len_def(start, stop, sn, sd)
        pos = sorted({0, 1, L // 2, L - 2, L - 1} & set(range(L)))
        step_s = 'stepq=%d' % sn if real_step else 'step=%d' % sn
        vals = [Fraction(start) + Fraction(k * sn, sd) for k in pos]
        if kind == 'float' and any(abs(v) * sd >= F32 for v in vals):
            continue
        o = 'ok shape=%d at=%s' % (L, ','.join(fmt_q(v) for v in vals) if vals else '[]')
        yield Case('arange_at start=%d stop=%d %s dtype=%s at=%s' % (start, stop, step_s, kind, fmt(pos)), H_E, oracle=o,
                   cmp=cmp_at_scaled(max(abs(start), abs(stop))), nontrivial=L > 1,
                   tags=['arange', 'arange.long', 'dtype=' + kind, 'step-real' if real_step else 'step-int',
                         'empty' if L == 0 else 'non-empty', 'step<0' if sn < 0 else 'step>0'])
    # (2) beyond the binary32-exact range (integer step): exact integer count since the repair "arange.float32-length"
    # (theorem arange_len_int); regression inputs of that defect
    fixed = [(0, 16777217, 1), (0, 16777216, 1), (0, 16777218, 1), (-16777217, 0, 1), (16777217, 0, -1), (0, 33554433, 16777216),
             (0, 16777219, 2), (5, 50331653, 3), (0, 100, 16777217), (0, 2 ** 31 - 1, 1), (-(2 ** 30), 2 ** 30 - 1, 7),
             (0, 2 ** 31 - 1, 2 ** 24 + 1), (2 ** 30, -(2 ** 30) + 1, -(2 ** 24 + 3))]
    rnd = []
    for _ in range(60 if tier == 'quick' else 600):
        a = rng.randint(-(2 ** 30), 2 ** 30)
        b = rng.randint(-(2 ** 30), 2 ** 30 - 1)
        st = rng.choice((1, 1, 2, 3, 5, 2 ** 24 + rng.randint(1, 9), rng.randint(1, 2 ** 26))) * (1 if b >= a else -1)
        if rng.random() < 0.1:
            st = -st
        if in_f32_range(a, b, st):
            continue
        rnd.append((a, b, st))
    for start, stop, st in fixed + rnd:
        L = arange_len_def(start, stop, st)
        tail = 'data=huge' if L > 2 ** 20 else None
        if tail is None:
            tail = 'data=' + (fmt([start + k * st for k in range(L)]) if L else '[]')
        yield Case('arange start=%d stop=%d step=%d dtype=int' % (start, stop, st), c04_bc.H_C,
                   oracle='ok shape=%d %s' % (L, tail), nontrivial=True, tags=['arange', 'arange.beyond-binary32'])


# ---------------------------------------------------------------------------------------------------------------
# linspace: exhaustive small quarter grid incl. num = 0 and num = 1; long sample counts probed at selected positions
# ---------------------------------------------------------------------------------------------------------------

def lin_key(name, q):
    return '%s=%d' % (name, q // 4) if q % 4 == 0 else '%sq=%d' % (name, q)


def linspace_def(aq, bq, num, endpoint, k):
    """NumPy: start + k * (stop - start) / div, div = num - 1 with the endpoint (a single sample is start), else num"""
    dv = num - 1 if endpoint else num
    a, b = Fraction(aq, 4), Fraction(bq, 4)
    return a + k * (b - a) / dv if dv > 0 else a


def gen_linspace_more(tier, rng):
    qs = list(range(-6, 9)) if tier == 'quick' else list(range(-9, 14))
    nums = list(range(0, 5)) if tier == 'quick' else list(range(0, 8))
    for a in qs:
        for b in qs:
            for n in nums:
                for e in (0, 1):
                    d = 'double' if (a + b + n + e) % 2 == 0 else 'float'
                    vals = [linspace_def(a, b, n, e, k) for k in range(n)]
                    o = 'ok shape=%d data=%s' % (n, ','.join(fmt_q(v) for v in vals) if vals else '[]')
                    yield Case('linspace %s %s num=%d endpoint=%d dtype=%s' % (lin_key('start', a), lin_key('stop', b), n, e, d),
                               c04_bc.H_C, oracle=o, cmp=c04_bc.cmp_real, nontrivial=n > 1 and a != b,
                               tags=['linspace', 'linspace.grid', 'dtype=' + d, 'endpoint=%d' % e, 'num=%d' % n])
    for _ in range(150 if tier == 'quick' else 1500):
        a, b = rng.randint(-400, 400), rng.randint(-400, 400)
        n = rng.choice((50, 64, 100, 257, 1000, 4097, rng.randint(7, 5000)))
        e = rng.randint(0, 1)
        d = rng.choice(('float', 'double'))
        pos = sorted({0, 1, n // 3, n // 2, n - 2, n - 1})
        vals = [linspace_def(a, b, n, e, k) for k in pos]
        o = 'ok shape=%d at=%s' % (n, ','.join(fmt_q(v) for v in vals))
        yield Case('linspace_at %s %s num=%d endpoint=%d dtype=%s at=%s' % (lin_key('start', a), lin_key('stop', b), n, e, d, fmt(pos)),
                   H_E, oracle=o, cmp=cmp_at_scaled(max(abs(a), abs(b), abs(b - a)) / 4.0), nontrivial=a != b,
                   tags=['linspace', 'linspace.long', 'dtype=' + d, 'endpoint=%d' % e])


# ---------------------------------------------------------------------------------------------------------------
# compile-time-constant argument forms of the generators (h_c04e.cpp, `kind=`): the views pick different shape
# containers / branches for integral constants (tri: tuple{N,M}; full: tuple shape; arange: shape computed in the
# type; linspace: tuple<num_t>).  Same request as the run-time form plus `kind=`, so the Lean driver answers identically.
# Tables must match PAIRS / SHAPES / TRIPLES / STOPS / STEPS in h_c04e.cpp.
# ---------------------------------------------------------------------------------------------------------------

CT_PAIRS = [(2, 3), (3, 2), (3, 4), (4, 2), (1, 3), (3, 3), (1, 1)]
CT_SHAPES = [(2, 3), (3, 2), (1, 3), (4,), (2, 1, 3), (3, 1)]
CT_TRIPLES = [(0, 4, 1), (1, 8, 3), (2, 9, 2), (-2, 5, 2), (7, 1, -2), (5, 2, 1), (3, 3, 1), (4, -3, -3), (-3, 4, 1), (0, 6, 1)]
CT_STOPS = [0, 1, 4, 6, 8, 9]
CT_STEPS = [-3, -2, 1, 2, 3]


def gen_ct_forms(tier, rng):
    def ktag(k):
        return 'k<0' if k < 0 else 'k=0' if k == 0 else 'k>0'
    for op, fn in (('tri', np.tri), ('eye', np.eye)):
        def case(n, m, k, kind):
            o = ans(fn(n, m, k, dtype=np.int64))
            return Case('%s n=%d m=%s k=%d kind=%s' % (op, n, 'None' if m is None else str(m), k, kind), H_E, oracle=o,
                        tags=[op, 'ct-form', 'kind=' + kind, ktag(k), 'square' if m in (None, n) else 'non-square'])
        for n, m in CT_PAIRS:
            for k in range(-3, 4):
                yield case(n, m, k, 'ct')
            for k in (-1, 0, 1):
                yield case(n, m, k, 'ctk')
        for n in range(1, 5):
            for k in range(-2, 3):
                yield case(n, None, k, 'ctn')
            for k in (-1, 0, 1):
                yield case(n, None, k, 'ctnk')
            for m in (1, 2, 3, 5):
                for k in (-1, 0, 2):
                    yield case(n, m, k, 'ctn-m')
                    yield case(m, n, k, 'n-ctm')
    for n in range(1, 5):
        yield Case('identity n=%d kind=ct' % n, H_E, oracle=ans(np.identity(n, dtype=np.int64)), tags=['identity', 'ct-form', 'kind=ct'])
    # full / zeros / ones: constant shape tuple, mixed tuple; *_like on a fixed-shape array
    mixed = [(n, r) for n in range(1, 5) for r in (1, 2, 5)] + [(n, r, p) for n in (1, 2, 4) for r in (1, 3) for p in (1, 3)]
    for kind, shs in (('ct', CT_SHAPES), ('mixed', mixed)):
        for sh in shs:
            t = ['ct-form', 'kind=' + kind, 'rank=%d' % len(sh)]
            for v in (-1, 7):
                yield Case('full shape=%s value=%d kind=%s' % (fmt(sh), v, kind), H_E, oracle=ans(np.full(sh, v, dtype=np.int64)), tags=['full'] + t)
            yield Case('zeros shape=%s kind=%s' % (fmt(sh), kind), H_E, oracle=ans(np.zeros(sh, dtype=np.int64)), tags=['zeros'] + t)
            yield Case('ones shape=%s kind=%s' % (fmt(sh), kind), H_E, oracle=ans(np.ones(sh, dtype=np.int64)), tags=['ones'] + t)
    for sh in ((2, 3), (3, 2), (4,)):
        t = ['ct-form', 'kind=fixed', 'rank=%d' % len(sh)]
        yield Case('full_like shape=%s value=5 kind=fixed' % fmt(sh), H_E, oracle=ans(np.full(sh, 5, dtype=np.int64)), tags=['full_like'] + t)
        yield Case('zeros_like shape=%s kind=fixed' % fmt(sh), H_E, oracle=ans(np.zeros(sh, dtype=np.int64)), tags=['zeros_like'] + t)
        yield Case('ones_like shape=%s kind=fixed' % fmt(sh), H_E, oracle=ans(np.ones(sh, dtype=np.int64)), tags=['ones_like'] + t)
    # arange
    def acase(start, stop, step, kind):
        o = np.arange(start, stop, step, dtype=np.int64)
        req = 'arange start=%d stop=%d step=%s dtype=int kind=%s' % (start, stop, 'None' if step is None else str(step), kind)
        return Case(req, H_E, oracle=ans(o), nontrivial=o.size > 1,
                    tags=['arange', 'ct-form', 'kind=' + kind, 'empty' if o.size == 0 else 'non-empty',
                          'step=None' if step is None else 'step<0' if step < 0 else 'step>0'])
    for a, b, c in CT_TRIPLES:
        yield acase(a, b, c, 'ct')
        if c == 1:
            yield acase(a, b, None, 'ct')
            yield acase(a, b, None, 'ct-none')
        if a >= 0 and b >= a and c > 0:
            yield acase(a, b, c, 'ctu')
            if c == 1:
                yield acase(a, b, None, 'ctu')
    for stop in CT_STOPS:
        o = np.arange(stop, dtype=np.int64)
        yield Case('arange stop=%d dtype=int kind=ct1' % stop, H_E, mreq='arange start=0 stop=%d step=None dtype=int' % stop,
                   oracle=ans(o), nontrivial=o.size > 1, tags=['arange', 'ct-form', 'kind=ct1'])
        for start in (-2, 0, 3, 10):
            for step in (None, 1, 2, -1, -3):
                yield acase(start, stop, step, 'ct-stop')
    for step in CT_STEPS:
        for start in (-3, 0, 4):
            for stop in (-4, 0, 5, 9):
                yield acase(start, stop, step, 'ct-step')
    # linspace: constant num (and constant endpoint)
    for num in range(1, 7):
        for e in (0, 1):
            for a, b in ((0, 4), (0, 16), (-6, 5), (8, 8), (7, -9)):
                for kind, d in (('ct', 'float'), ('ct', 'double'), ('ctnum', 'double')):
                    vals = [linspace_def(a, b, num, e, k) for k in range(num)]
                    o = 'ok shape=%d data=%s' % (num, ','.join(fmt_q(v) for v in vals))
                    yield Case('linspace %s %s num=%d endpoint=%d dtype=%s kind=%s' % (lin_key('start', a), lin_key('stop', b), num, e, d, kind),
                               H_E, oracle=o, cmp=c04_bc.cmp_real, nontrivial=num > 1 and a != b,
                               tags=['linspace', 'ct-form', 'kind=' + kind, 'dtype=' + d, 'endpoint=%d' % e, 'num=%d' % num])


GENS = [gen_where_more, gen_arange_long, gen_linspace_more, gen_ct_forms]


def gen_more(tier, rng):
    for g in GENS:
        yield from g(tier, rng)
