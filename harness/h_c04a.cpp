// C04 harness, part A: tile, repeat, roll, pad, take, concatenate (view level, dynamic arrays)
#include "nmtools/array/view/tile.hpp"
#include "nmtools/array/view/repeat.hpp"
#include "nmtools/array/view/roll.hpp"
#include "nmtools/array/view/pad.hpp"
#include "nmtools/array/view/take.hpp"
#include "nmtools/array/view/concatenate.hpp"
#include "c04_common.hpp"
using namespace c04;

std::string handle(const std::string& op, const Args& a) {
    auto s = nats(a, "shape"); auto A = mk(s);
    if (op == "tile") { auto reps = nats(a, "reps"); return dump(view::tile(A, reps)); }
    if (op == "repeat") {           // repeats=<int> | rlist=<ints> ; axis=<int>|None
        bool ax_none = is_none(a, "axis");
        if (has(a, "repeats")) {
            int r = (int)integer(a, "repeats");
            if (ax_none) return dump1(view::repeat(A, r, nm::None));
            return dump(view::repeat(A, r, (int)integer(a, "axis")));
        }
        auto r = intsi(a, "rlist");
        if (ax_none) return "unsupported";   // does not instantiate (shape_repeat: p * repeats)
        return dump(view::repeat(A, r, (int)integer(a, "axis")));
    }
    if (op == "roll") {             // shift=<int>|slist=<ints> ; axis=<int>|None|alist=<ints>
        if (has(a, "axis") && is_none(a, "axis")) return dump(view::roll(A, (int)integer(a, "shift")));
        if (has(a, "shift") && has(a, "axis")) return dump(view::roll(A, (int)integer(a, "shift"), (int)integer(a, "axis")));
        if (has(a, "shift") && has(a, "alist")) return dump(view::roll(A, (int)integer(a, "shift"), intsi(a, "alist")));
        if (has(a, "slist") && has(a, "alist")) return dump(view::roll(A, intsi(a, "slist"), intsi(a, "alist")));
        return "bad-args";
    }
    if (op == "pad") { auto w = intsi(a, "widths"); return dump(view::pad(A, w, -1)); }
    if (op == "take") {
        auto ind = intsi(a, "indices");
        if (is_none(a, "axis")) return dump(view::take(A, ind, nm::None));
        return dump(view::take(A, ind, (int)integer(a, "axis")));
    }
    if (op == "concatenate") {
        auto B = mk(nats(a, "shape2"), 1000);
        if (is_none(a, "axis")) return dump(view::concatenate(A, B, nm::None));
        return dump(view::concatenate(A, B, (int)integer(a, "axis")));
    }
    return "unknown-op";
}
