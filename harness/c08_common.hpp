// C08 harness helpers: canonical printing of reduction / accumulation results (view, evaluated array, num, maybe, either)
#pragma once
#include "nmtools/meta.hpp"
#include "nmtools/utility/shape.hpp"
#include "nmtools/utility/at.hpp"
#include "nmtools/array/index/ndindex.hpp"
#include "proto.hpp"
#include <sstream>
#include <iomanip>
#include <cmath>
#include <type_traits>

namespace c08 {
namespace nm = nmtools; namespace meta = nmtools::meta;

template <typename T> inline void put(std::ostringstream& o, T v) {
    if constexpr (std::is_floating_point_v<T>) {
        if (std::isnan(v)) o << "nan"; else if (std::isinf(v)) o << (v < 0 ? "-inf" : "inf");
        else o << std::setprecision(17) << (double)v;
    } else if constexpr (std::is_same_v<T,bool>) o << (v ? 1 : 0);
    else if constexpr (std::is_unsigned_v<T>) o << (unsigned long long)v;
    else o << (long long)v;
}

// "ok shape=… data=…": elements read through apply_at(view, ndindex(shape)[k]) in C order
template <typename V> inline std::string emit(const V& v) {
    if constexpr (meta::is_maybe_v<V>) {
        if (!nm::has_value(v)) return "nothing";
        return emit(*v);
    } else if constexpr (meta::is_either_v<V>) {
        using L = meta::get_either_left_t<V>; using R = meta::get_either_right_t<V>;
        if (auto l = nm::get_if<L>(&v)) return emit(*l);
        return emit(*nm::get_if<R>(&v));
    } else if constexpr (meta::is_num_v<V>) {
        using T = meta::get_element_type_t<V>;
        std::ostringstream o; o << "ok shape=[] data="; put<T>(o, (T)v); return o.str();
    } else {
        using T = meta::remove_cvref_t<meta::get_element_type_t<V>>;
        auto s = nm::shape(v);
        std::vector<size_t> sv; for (size_t i = 0; i < (size_t)nm::len(s); i++) sv.push_back((size_t)nm::at(s, i));
        std::ostringstream o; o << "ok shape=" << proto::fmt(sv) << " data=";
        auto nd = nmtools::index::ndindex(sv);
        size_t n = nd.size();
        if (n == 0) o << "[]";
        for (size_t k = 0; k < n; k++) { if (k) o << ','; put<T>(o, (T)nm::apply_at(v, nd[k])); }
        return o.str();
    }
}
} // namespace c08

namespace c08 {
using proto::Args;
// call f with the axis argument in the kind the request asks for: None / run-time int (`ax=int`) / std::vector<int>
template <typename F> inline std::string with_axis(const Args& a, F f, bool allow_int = true) {
    if (proto::is_none(a, "axis")) return f(nmtools::None);
    auto ax = proto::intsi(a, "axis");
    std::string axk = proto::has(a, "ax") ? proto::get(a, "ax") : "vec";
    if (axk == "int") {
        if (!allow_int || ax.size() != 1) throw proto::bad_args("ax");
        int k = ax[0]; return f(k);
    }
    return f(ax);
}
// call f with initial = None or the integer of the request converted to T
template <typename T, typename F> inline std::string with_init(const Args& a, F f) {
    if (!proto::has(a, "init") || proto::is_none(a, "init")) return f(nmtools::None);
    return f((T)proto::integer(a, "init"));
}
template <typename array_t> inline array_t make_array(const Args& a) {
    auto s = proto::nats(a, "shape");
    array_t arr; arr.resize(s);
    size_t n = nmtools::size(arr);
    using T = nmtools::meta::get_element_type_t<array_t>;
    if (proto::has(a, "data")) {
        auto toks = proto::split(proto::get(a, "data"), ',');
        if (toks.size() != n) throw proto::bad_args("data");
        for (size_t k = 0; k < n; k++) arr.data()[k] = (T)std::stod(toks[k]);
    } else for (size_t k = 0; k < n; k++) arr.data()[k] = (T)(k + 1);
    return arr;
}
inline bool keepdims_of(const Args& a) { return proto::has(a, "keepdims") && proto::get(a, "keepdims") == "1"; }
} // namespace c08
