import NmVerif.Basic
import NmVerif.Arr
import NmVerif.Linalg
/-
  C16 — Linear-algebra routines equal their mathematical definitions.
  Only property statements (+ non-vacuity examples, counterexample theorems) live here.
-/
namespace NmVerif.Props.C16
open NmVerif NmVerif.Linalg

end NmVerif.Props.C16
