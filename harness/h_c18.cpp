// C18 harness: nmtools::utils::isequal / isclose on run-time shaped operands, optionals, eithers, tuples, views
#include <cmath>
#include "nmtools/array/ndarray.hpp"
#include "nmtools/array/view/transpose.hpp"
#include "nmtools/utility/isequal.hpp"
#include "nmtools/utility/isclose.hpp"
#include "nmtools/utility/unwrap.hpp"
#include "proto.hpp"
#include <array>
#include <vector>

namespace nm = nmtools; namespace na = nmtools::array; namespace view = nmtools::view;
using namespace proto;
using nd_t   = na::ndarray_t<std::vector<int>, std::vector<size_t>>;
using ndf_t  = na::ndarray_t<std::vector<double>, std::vector<size_t>>;
using idx_t  = std::vector<int>;
using eith_t = nmtools_either<int, nd_t>;

static nd_t make_nd(const uvec& s, const std::vector<int>& d) {
    nd_t a; a.resize(s);
    for (size_t k=0;k<d.size() && k<(size_t)nm::size(a);k++) a.data()[k]=d[k];
    return a;
}
static const char* tf(bool b) { return b ? "ok true" : "ok false"; }

struct Opnd { std::string k, w; uvec s; std::vector<int> d; };
static Opnd opnd(const Args& a, const std::string& p) {
    Opnd o; o.k = get(a,p+"k"); o.w = has(a,p+"w") ? get(a,p+"w") : "plain";
    o.d = intsi(a,p+"d"); if (o.k=="nd" || o.k=="ndv" || o.k=="ndf" || o.k=="ndb") o.s = nats(a,p+"s");
    return o;
}

// second stage: both operands materialised as C++ values
template <typename A, typename B> static std::string cmp(const A& x, const B& y) { return tf(nm::utils::isequal(x,y)); }

// visit operand `o` as a C++ value of the right static type and call f(value)
template <typename F> static std::string with_opnd(const Opnd& o, F f) {
    if (o.k=="num") {
        int v = o.d.at(0);
        if (o.w=="plain") return f(v);
        if (o.w=="left")  { eith_t e{v}; return f(e); }
        if (o.w=="just")  { nmtools_maybe<int> m{v}; return f(m); }
        if (o.w=="nothing") { nmtools_maybe<int> m{nm::meta::Nothing}; return f(m); }
    } else if (o.k=="idx") {
        idx_t v = o.d;
        if (o.w=="plain") return f(v);
        if (o.w=="just")  { nmtools_maybe<idx_t> m{v}; return f(m); }
        if (o.w=="nothing") { nmtools_maybe<idx_t> m{nm::meta::Nothing}; return f(m); }
    } else if (o.k=="idxa") {   // fixed-length index array
        switch (o.d.size()) {
#define CASE(N) case N: { std::array<int,N> v{}; for (size_t i=0;i<N;i++) v[i]=o.d[i]; return f(v); }
            CASE(1) CASE(2) CASE(3) CASE(4)
#undef CASE
            default: return "unsupported";
        }
    } else if (o.k=="nd") {
        nd_t v = make_nd(o.s, o.d);
        if (o.w=="plain") return f(v);
        if (o.w=="right") { eith_t e{v}; return f(e); }
        if (o.w=="just")  { nmtools_maybe<nd_t> m{v}; return f(m); }
        if (o.w=="nothing") { nmtools_maybe<nd_t> m{nm::meta::Nothing}; return f(m); }
    } else if (o.k=="ndf") {    // fixed-dimension shape (std::array<size_t,N>), run-time extents
        switch (o.s.size()) {
#define CASE(N) case N: { na::ndarray_t<std::vector<int>, std::array<size_t,N>> v; v.resize(o.s); \
                for (size_t k=0;k<o.d.size() && k<(size_t)nm::size(v);k++) v.data()[k]=o.d[k]; if (o.w=="plain") return f(v); break; }
            CASE(1) CASE(2) CASE(3)
#undef CASE
            default: return "unsupported";
        }
    } else if (o.k=="ndb") {    // bounded-dimension shape (static_vector<size_t,4>)
        na::ndarray_t<std::vector<int>, nmtools_static_vector<size_t,4>> v; v.resize(o.s);
        for (size_t k=0;k<o.d.size() && k<(size_t)nm::size(v);k++) v.data()[k]=o.d[k];
        if (o.w=="plain") return f(v);
    } else if (o.k=="ndv") {    // the same logical array, seen through transpose(transpose(.))
        nd_t v = make_nd(o.s, o.d);
        auto t = view::transpose(view::transpose(v));
        if (o.w=="plain") return f(t);
    }
    return "unsupported";
}

// concept class of an operand type, to instantiate only the pairings the API accepts
template <typename T> constexpr int cls() {
    using U = nm::meta::remove_cvref_t<T>;
    if constexpr (nm::meta::is_either_v<U>) return 3;
    else if constexpr (nm::meta::is_maybe_v<U>) return cls<nm::meta::get_maybe_type_t<U>>();
    else if constexpr (nm::meta::is_num_v<U>) return 0;
    else if constexpr (nm::meta::is_ndarray_v<U>) return 2;   // before index array: 1-d vectors are both; we tag by construction below
    else return 1;
}

std::string handle(const std::string& op, const Args& a) {
    if (op=="isequal") {
        Opnd x = opnd(a,"a"), y = opnd(a,"b");
        auto base = [](const Opnd& o){ return o.k=="num" ? 0 : (o.k=="idx"||o.k=="idxa") ? 1 : 2; };
        bool xe = (x.w=="left"||x.w=="right"), ye = (y.w=="left"||y.w=="right");
        if (!xe && !ye && base(x)!=base(y)) return "not-accepted";
        return with_opnd(x, [&](const auto& xv){
            return with_opnd(y, [&](const auto& yv) -> std::string {
                using X = nm::meta::remove_cvref_t<decltype(xv)>; using Y = nm::meta::remove_cvref_t<decltype(yv)>;
                constexpr bool x_e = nm::meta::is_either_v<X>, y_e = nm::meta::is_either_v<Y>;
                constexpr bool x_m = nm::meta::is_maybe_v<X>,  y_m = nm::meta::is_maybe_v<Y>;
                // static kinds: 0 num, 1 index array (vector<int>/array<int,N>), 2 ndarray/view
                auto kind = [](auto t) { using T = typename decltype(t)::type;
                    if constexpr (nm::meta::is_num_v<T>) return 0;
                    else if constexpr (std::is_same_v<T,idx_t> || nm::meta::is_fixed_index_array_v<T>) return 1;
                    else return 2; };
                (void)kind;
                if constexpr (x_e && y_e) return cmp(xv,yv);
                else if constexpr (x_e || y_e) {
                    // either vs plain num / ndarray only (maybe-vs-either is not part of the API surface exercised)
                    if constexpr (x_m || y_m) return "unsupported";
                    else if constexpr ((x_e && (nm::meta::is_num_v<Y> || std::is_same_v<Y,nd_t>)) || (y_e && (nm::meta::is_num_v<X> || std::is_same_v<X,nd_t>))) return cmp(xv,yv);
                    else return "unsupported";
                } else {
                    using XB = std::conditional_t<x_m, nm::meta::get_maybe_type_t<X>, X>;
                    using YB = std::conditional_t<y_m, nm::meta::get_maybe_type_t<Y>, Y>;
                    constexpr int kx = nm::meta::is_num_v<XB> ? 0 : ((std::is_same_v<XB,idx_t> || nm::meta::is_fixed_index_array_v<XB>) ? 1 : 2);
                    constexpr int ky = nm::meta::is_num_v<YB> ? 0 : ((std::is_same_v<YB,idx_t> || nm::meta::is_fixed_index_array_v<YB>) ? 1 : 2);
                    if constexpr (kx!=ky) return "not-accepted";
                    // two fixed-length index arrays of different length: rejected by a static_assert in isequal
                    else if constexpr (nm::meta::is_fixed_index_array_v<XB> && nm::meta::is_fixed_index_array_v<YB>) {
                        if constexpr (nm::meta::fixed_index_array_size_v<XB> != nm::meta::fixed_index_array_size_v<YB>) return "not-accepted";
                        else return cmp(xv,yv);
                    }
                    else return cmp(xv,yv);
                }
            });
        });
    }
    if (op=="isequal_tup") {
        auto t1 = nmtools_tuple<int,idx_t>{(int)integer(a,"an"), intsi(a,"ad")};
        auto t2 = nmtools_tuple<int,idx_t>{(int)integer(a,"bn"), intsi(a,"bd")};
        return tf(nm::utils::isequal(t1,t2));
    }
    if (op=="isclose") {
        auto s1 = nats(a,"as"), s2 = nats(a,"bs"); auto d1 = intsi(a,"ad"), d2 = intsi(a,"bd");
        // sentinels for non-finite elements: 9001 = +inf, 9002 = -inf, 9003 = NaN
        auto sp = [](int v) -> double { return v==9001 ? HUGE_VAL : v==9002 ? -HUGE_VAL : v==9003 ? std::nan("") : (double)v; };
        ndf_t x; x.resize(s1); for (size_t k=0;k<d1.size()&&k<(size_t)nm::size(x);k++) x.data()[k]=sp(d1[k]);
        ndf_t y; y.resize(s2); for (size_t k=0;k<d2.size()&&k<(size_t)nm::size(y);k++) y.data()[k]=sp(d2[k]);
        double eps = (double)integer(a,"eps");
        return tf(nm::utils::isclose(x,y,eps));
    }
    if (op=="isclose_num") {   // two scalars (optionally wrapped in a maybe), same sentinels
        auto sp = [](long long v) -> double { return v==9001 ? HUGE_VAL : v==9002 ? -HUGE_VAL : v==9003 ? std::nan("") : (double)v; };
        double x = sp(integer(a,"ad")), y = sp(integer(a,"bd")); double eps = (double)integer(a,"eps");
        std::string w = has(a,"w") ? get(a,"w") : "plain";
        if (w=="just") { nmtools_maybe<double> mx{x}, my{y}; return tf(nm::utils::isclose(mx,my,eps)); }
        if (w=="tuple") { auto tx = nmtools_tuple{x, 1.0}; auto ty = nmtools_tuple{y, 1.0}; return tf(nm::utils::isclose(tx,ty,eps)); }
        return tf(nm::utils::isclose(x,y,eps));
    }
    return "unknown-op";
}
