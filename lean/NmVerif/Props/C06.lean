import NmVerif.Index.Broadcast
import NmVerif.Lemmas.Broadcast
import NmVerif.Index.BroadcastExpr
import NmVerif.Index.BroadcastKinds
import NmVerif.Lemmas.BroadcastKinds
/-
  C06 — Broadcasting follows NumPy's rules and is symmetric, associative, idempotent.
  Only property statements (+ non-vacuity examples) live here; lemmas are in Lemmas/Broadcast.lean.

  MODEL  : NmVerif.broadcastShape2 / broadcastShape / shapeBroadcastTo / originAxes / broadcastToIndex /
           broadcastToView / broadcastArraysViews     (Index/Broadcast.lean, mirrors of the C++ loops)
  SPEC   : NmVerif.Compatible, IsAxisMax, BroadcastableTo, specBroadcastIdx (NumPy's rule, stated directly)
  Guard  : positive extents (`Pos`), as in the property's quantifier.
-/
namespace NmVerif.Props.C06
open NmVerif

/-- every shape of the family has positive extents -/
def AllPos (ss : List Shape) : Prop := ∀ s ∈ ss, Pos s

instance (ss : List Shape) : Decidable (AllPos ss) := by unfold AllPos; exact inferInstance

/-! ### bridge between the reversed-list lemmas and the statements on shapes -/

private theorem famSpec_iff (r : Shape) (ss : List Shape) :
    FamSpec r.reverse (ss.map List.reverse) ↔ Compatible ss ∧ IsAxisMax r ss := by
  unfold FamSpec Compatible IsAxisMax IsMaxOf AllCompat compat
  simp only [List.map_map, List.mem_map, Function.comp_def, List.length_reverse, forall_exists_index, and_imp,
    forall_apply_eq_imp_iff₂, ← axR_eq_gd]
  constructor
  · rintro ⟨⟨⟨s, hs, hl⟩, hle⟩, hk⟩
    refine ⟨fun k s hs t ht => (hk k).1 s hs t ht, ⟨s, hs, hl.symm⟩, hle, fun k => ?_⟩
    obtain ⟨⟨t, ht, he⟩, hm⟩ := (hk k).2
    exact ⟨⟨t, ht, he.symm⟩, hm⟩
  · rintro ⟨hc, ⟨s, hs, hl⟩, hle, hk⟩
    refine ⟨⟨⟨s, hs, hl.symm⟩, hle⟩, fun k => ⟨fun s hs t ht => hc k s hs t ht, ?_⟩⟩
    obtain ⟨⟨t, ht, he⟩, hm⟩ := hk k
    exact ⟨⟨t, ht, he.symm⟩, hm⟩

private theorem broadcastShape_cons (a : Shape) (rest : List Shape) :
    broadcastShape (a :: rest) = (bcRevFold (some a.reverse) (rest.map List.reverse)).map List.reverse := by
  simp [broadcastShape, broadcastFold_eq]

private theorem map_reverse_eq_some {x : Option (List Nat)} {r : List Nat} :
    x.map List.reverse = some r ↔ x = some r.reverse := by
  cases x with
  | none => simp
  | some y =>
    simp only [Option.map_some, Option.some.injEq]
    constructor
    · rintro rfl; simp
    · rintro rfl; simp

/-- **the rule**: broadcasting a non-empty family of positive shapes gives `r` exactly when the family is
    NumPy-compatible and `r` is the per-axis maximum (rank = largest rank) -/
theorem broadcast_eq_some_iff (ss : List Shape) (hne : ss ≠ []) (hp : AllPos ss) (r : Shape) :
    broadcastShape ss = some r ↔ Compatible ss ∧ IsAxisMax r ss := by
  cases ss with
  | nil => exact absurd rfl hne
  | cons a rest =>
    rw [broadcastShape_cons, map_reverse_eq_some,
      bcRevFold_spec a.reverse (rest.map List.reverse) (hp a (by simp)).reverse
        (by intro s hs; simp only [List.mem_map] at hs; obtain ⟨t, ht, rfl⟩ := hs; exact (hp t (by simp [ht])).reverse)]
    exact famSpec_iff r (a :: rest)

/-- succeeds exactly when, aligned at the trailing axis, all extents per axis are equal or 1; otherwise failure -/
theorem broadcast_isSome_iff_compatible (ss : List Shape) (hne : ss ≠ []) (hp : AllPos ss) :
    (broadcastShape ss).isSome ↔ Compatible ss := by
  constructor
  · intro h
    obtain ⟨r, hr⟩ := Option.isSome_iff_exists.1 h
    exact ((broadcast_eq_some_iff ss hne hp r).1 hr).1
  · intro hc
    cases ss with
    | nil => exact absurd rfl hne
    | cons a rest =>
      rw [broadcastShape_cons]
      have hfam : ∀ k, AllCompat ((a.reverse :: rest.map List.reverse).map (gd · k)) := by
        intro k x hx y hy
        have hx' : ∃ s ∈ a :: rest, x = axR s k := by
          simp only [List.map_cons, List.map_map, List.mem_cons, List.mem_map, Function.comp_def] at hx
          rcases hx with rfl | ⟨s, hs, rfl⟩
          · exact ⟨a, by simp, rfl⟩
          · exact ⟨s, by simp [hs], rfl⟩
        have hy' : ∃ s ∈ a :: rest, y = axR s k := by
          simp only [List.map_cons, List.map_map, List.mem_cons, List.mem_map, Function.comp_def] at hy
          rcases hy with rfl | ⟨s, hs, rfl⟩
          · exact ⟨a, by simp, rfl⟩
          · exact ⟨s, by simp [hs], rfl⟩
        obtain ⟨s, hs, rfl⟩ := hx'
        obtain ⟨t, ht, rfl⟩ := hy'
        exact hc k s hs t ht
      obtain ⟨r, hr⟩ := bcRevFold_isSome_of_allCompat a.reverse (rest.map List.reverse) (hp a (by simp)).reverse
        (by intro s hs; simp only [List.mem_map] at hs; obtain ⟨t, ht, rfl⟩ := hs; exact (hp t (by simp [ht])).reverse) hfam
      simp [hr]

/-- … and then yields the per-axis maximum -/
theorem broadcast_eq_max (ss : List Shape) (hne : ss ≠ []) (hp : AllPos ss) (r : Shape)
    (h : broadcastShape ss = some r) : IsAxisMax r ss :=
  ((broadcast_eq_some_iff ss hne hp r).1 h).2

/-- the per-axis maximum is unique: `IsAxisMax` determines the result -/
theorem isAxisMax_unique (ss : List Shape) (r r' : Shape) (h : IsAxisMax r ss) (h' : IsAxisMax r' ss) : r = r' := by
  obtain ⟨⟨s, hs, hl⟩, hle, hk⟩ := h
  obtain ⟨⟨s', hs', hl'⟩, hle', hk'⟩ := h'
  have hlen : r.length = r'.length := by
    have := hle s' hs'; have := hle' s hs; omega
  have : r.reverse = r'.reverse := by
    apply ext_gd (by simpa using hlen)
    intro k
    rw [← axR_eq_gd, ← axR_eq_gd]
    obtain ⟨⟨t, ht, e⟩, hm⟩ := hk k
    obtain ⟨⟨t', ht', e'⟩, hm'⟩ := hk' k
    have := hm t' ht'; have := hm' t ht; omega
  simpa using congrArg List.reverse this

/-- the result of broadcasting positive shapes is positive -/
theorem broadcast_pos (ss : List Shape) (hne : ss ≠ []) (hp : AllPos ss) (r : Shape)
    (h : broadcastShape ss = some r) : Pos r := by
  obtain ⟨_, _, hk⟩ := broadcast_eq_max ss hne hp r h
  apply Pos.of_reverse
  intro x hx
  obtain ⟨k, hk', rfl⟩ := List.getElem_of_mem hx
  obtain ⟨⟨s, hs, e⟩, _⟩ := hk k
  rw [axR_eq_gd, gd_of_lt hk'] at e
  rw [e, axR_eq_gd]
  exact gd_pos (hp s hs).reverse k

/-- the two-operand entry point is the fold on two shapes -/
theorem broadcast_pair (a b : Shape) : broadcastShape [a, b] = broadcastShape2 a b := by
  simp [broadcastShape, broadcastFold]

/-- two operands: success iff compatible, result = per-axis maximum -/
theorem broadcast2_eq_some_iff (a b : Shape) (ha : Pos a) (hb : Pos b) (r : Shape) :
    broadcastShape2 a b = some r ↔ Compatible [a, b] ∧ IsAxisMax r [a, b] := by
  rw [← broadcast_pair]
  exact broadcast_eq_some_iff [a, b] (by simp) (by intro s hs; simp at hs; rcases hs with rfl | rfl <;> assumption) r

/-- symmetric (no positivity needed) -/
theorem broadcast_comm (a b : Shape) : broadcastShape2 a b = broadcastShape2 b a := by
  unfold broadcastShape2; rw [bcRev_comm]

private theorem bind_bc2_left (a b c : Shape) :
    (broadcastShape2 a b).bind (fun p => broadcastShape2 p c)
      = ((bcRev a.reverse b.reverse).bind (fun p => bcRev p c.reverse)).map List.reverse := by
  unfold broadcastShape2
  cases bcRev a.reverse b.reverse <;> simp

private theorem bind_bc2_right (a b c : Shape) :
    (broadcastShape2 b c).bind (fun q => broadcastShape2 a q)
      = ((bcRev b.reverse c.reverse).bind (fun q => bcRev a.reverse q)).map List.reverse := by
  unfold broadcastShape2
  cases bcRev b.reverse c.reverse <;> simp

/-- associative, as an equation between `Option` results (failure on one side iff failure on the other) -/
theorem broadcast_assoc (a b c : Shape) (ha : Pos a) (hb : Pos b) (hc : Pos c) :
    (broadcastShape2 a b).bind (fun p => broadcastShape2 p c)
      = (broadcastShape2 b c).bind (fun q => broadcastShape2 a q) := by
  rw [bind_bc2_left, bind_bc2_right, bcRev_assoc ha.reverse hb.reverse hc.reverse]

/-- broadcasting a shape with itself changes nothing -/
theorem broadcast_idem (a : Shape) : broadcastShape2 a a = some a := by
  unfold broadcastShape2; rw [bcRev_self]; simp

/-- broadcasting with the result changes nothing: `bc a (bc a b) = bc a b` and `bc (bc a b) b = bc a b` -/
theorem broadcast_absorb (a b : Shape) (ha : Pos a) (hb : Pos b) :
    (broadcastShape2 a b).bind (fun r => broadcastShape2 a r) = broadcastShape2 a b ∧
    (broadcastShape2 a b).bind (fun r => broadcastShape2 r b) = broadcastShape2 a b := by
  constructor
  · have := broadcast_assoc a a b ha ha hb
    rw [broadcast_idem] at this
    simpa using this.symm
  · have := broadcast_assoc a b b ha hb hb
    rw [broadcast_idem] at this
    simpa using this

/-- scalars (rank 0) broadcast with everything -/
theorem broadcast_scalar (s : Shape) : broadcastShape2 [] s = some s ∧ broadcastShape2 s [] = some s := by
  constructor
  · simp [broadcastShape2, bcRev]
  · simp [broadcastShape2, bcRev_nil_right]

private theorem compatible_perm {ss ts : List Shape} (h : ss.Perm ts) : Compatible ss ↔ Compatible ts := by
  unfold Compatible
  constructor
  · intro hc k s hs t ht; exact hc k s (h.mem_iff.2 hs) t (h.mem_iff.2 ht)
  · intro hc k s hs t ht; exact hc k s (h.mem_iff.1 hs) t (h.mem_iff.1 ht)

private theorem isAxisMax_perm {ss ts : List Shape} (h : ss.Perm ts) (r : Shape) : IsAxisMax r ss ↔ IsAxisMax r ts := by
  have key : ∀ {xs ys : List Shape}, xs.Perm ys → IsAxisMax r xs → IsAxisMax r ys := by
    intro xs ys h ⟨⟨s, hs, hl⟩, hle, hk⟩
    refine ⟨⟨s, h.mem_iff.1 hs, hl⟩, fun s hs => hle s (h.mem_iff.2 hs), fun k => ?_⟩
    obtain ⟨⟨t, ht, e⟩, hm⟩ := hk k
    exact ⟨⟨t, h.mem_iff.1 ht, e⟩, fun s hs => hm s (h.mem_iff.2 hs)⟩
  exact ⟨key h, key h.symm⟩

/-- the n-ary fold does not depend on the operand order: any permutation of the operand list gives the same
    result (same shape, or failure on both sides) -/
theorem broadcast_fold_perm (ss ts : List Shape) (hp : AllPos ss) (h : ss.Perm ts) :
    broadcastShape ss = broadcastShape ts := by
  cases ss with
  | nil => rw [h.nil_eq]
  | cons a rest =>
    have hne : ts ≠ [] := by
      intro e; subst e; exact absurd h.length_eq (by simp)
    have hp' : AllPos ts := fun s hs => hp s (h.mem_iff.2 hs)
    apply opt_ext
    intro r
    rw [broadcast_eq_some_iff _ (by simp) hp r, broadcast_eq_some_iff _ hne hp' r, compatible_perm h, isAxisMax_perm h r]

/-- … nor on the grouping: broadcasting two sub-families first and then their results equals broadcasting the
    concatenated family -/
theorem broadcast_fold_append (ss ts : List Shape) (hs : ss ≠ []) (ht : ts ≠ []) (hps : AllPos ss) (hpt : AllPos ts) :
    broadcastShape (ss ++ ts)
      = (broadcastShape ss).bind (fun p => (broadcastShape ts).bind (fun q => broadcastShape2 p q)) := by
  have hpst : AllPos (ss ++ ts) := by
    intro s h; rcases List.mem_append.1 h with h | h
    · exact hps s h
    · exact hpt s h
  have hne : ss ++ ts ≠ [] := by simp [hs]
  apply opt_ext
  intro r
  rw [broadcast_eq_some_iff _ hne hpst r]
  simp only [Option.bind_eq_some_iff]
  constructor
  · rintro ⟨hc, hmax⟩
    have hcs : Compatible ss := fun k s h1 t h2 => hc k s (by simp [h1]) t (by simp [h2])
    have hct : Compatible ts := fun k s h1 t h2 => hc k s (by simp [h1]) t (by simp [h2])
    obtain ⟨p, hp⟩ := Option.isSome_iff_exists.1 ((broadcast_isSome_iff_compatible ss hs hps).2 hcs)
    obtain ⟨q, hq⟩ := Option.isSome_iff_exists.1 ((broadcast_isSome_iff_compatible ts ht hpt).2 hct)
    have hpm := broadcast_eq_max ss hs hps p hp
    have hqm := broadcast_eq_max ts ht hpt q hq
    refine ⟨p, hp, q, hq, ?_⟩
    rw [broadcast2_eq_some_iff p q (broadcast_pos ss hs hps p hp) (broadcast_pos ts ht hpt q hq)]
    obtain ⟨⟨sp, hsp, hlp⟩, hlep, hkp⟩ := hpm
    obtain ⟨⟨sq, hsq, hlq⟩, hleq, hkq⟩ := hqm
    obtain ⟨⟨sr, hsr, hlr⟩, hler, hkr⟩ := hmax
    constructor
    · intro k s h1 t h2
      simp only [List.mem_cons, List.not_mem_nil, or_false] at h1 h2
      obtain ⟨⟨up, hup, ep⟩, _⟩ := hkp k
      obtain ⟨⟨uq, huq, eq⟩, _⟩ := hkq k
      have c1 := hc k up (by simp [hup]) uq (by simp [huq])
      have c2 := hc k uq (by simp [huq]) up (by simp [hup])
      rcases h1 with rfl | rfl <;> rcases h2 with rfl | rfl
      · exact Or.inl rfl
      · rw [ep, eq]; exact c1
      · rw [ep, eq]; exact c2
      · exact Or.inl rfl
    · refine ⟨?_, ?_, fun k => ⟨?_, ?_⟩⟩
      · rcases List.mem_append.1 hsr with h | h
        · refine ⟨p, by simp, ?_⟩
          have := hlep sr h; have := hler sp (by simp [hsp]); omega
        · refine ⟨q, by simp, ?_⟩
          have := hleq sr h; have := hler sq (by simp [hsq]); omega
      · intro s h
        simp only [List.mem_cons, List.not_mem_nil, or_false] at h
        rcases h with rfl | rfl
        · rw [hlp]; exact hler sp (by simp [hsp])
        · rw [hlq]; exact hler sq (by simp [hsq])
      · obtain ⟨⟨u, hu, e⟩, hm⟩ := hkr k
        obtain ⟨⟨up, hup, ep⟩, hmp⟩ := hkp k
        obtain ⟨⟨uq, huq, eq⟩, hmq⟩ := hkq k
        rcases List.mem_append.1 hu with h | h
        · refine ⟨p, by simp, ?_⟩
          have := hmp u h; have := hm up (by simp [hup]); omega
        · refine ⟨q, by simp, ?_⟩
          have := hmq u h; have := hm uq (by simp [huq]); omega
      · intro s h
        simp only [List.mem_cons, List.not_mem_nil, or_false] at h
        obtain ⟨_, hm⟩ := hkr k
        obtain ⟨⟨up, hup, ep⟩, _⟩ := hkp k
        obtain ⟨⟨uq, huq, eq⟩, _⟩ := hkq k
        rcases h with rfl | rfl
        · rw [ep]; exact hm up (by simp [hup])
        · rw [eq]; exact hm uq (by simp [huq])
  · rintro ⟨p, hp, q, hq, hr⟩
    have hpp := broadcast_pos ss hs hps p hp
    have hqp := broadcast_pos ts ht hpt q hq
    obtain ⟨hcs, hpm⟩ := (broadcast_eq_some_iff ss hs hps p).1 hp
    obtain ⟨hct, hqm⟩ := (broadcast_eq_some_iff ts ht hpt q).1 hq
    obtain ⟨hcpq, hrm⟩ := (broadcast2_eq_some_iff p q hpp hqp r).1 hr
    obtain ⟨⟨sp, hsp, hlp⟩, hlep, hkp⟩ := hpm
    obtain ⟨⟨sq, hsq, hlq⟩, hleq, hkq⟩ := hqm
    obtain ⟨⟨sr, hsr, hlr⟩, hler, hkr⟩ := hrm
    have hlerp := hler p (by simp)
    have hlerq := hler q (by simp)
    constructor
    · -- compatibility of the whole family, per axis
      intro k s h1 t h2
      have cpq := hcpq k p (by simp) q (by simp)
      obtain ⟨⟨up, hup, ep⟩, hmp⟩ := hkp k
      obtain ⟨⟨uq, huq, eq⟩, hmq⟩ := hkq k
      rcases List.mem_append.1 h1 with h1 | h1 <;> rcases List.mem_append.1 h2 with h2 | h2
      · exact hcs k s h1 t h2
      · have a1 := hmp s h1; have a2 := hmq t h2
        have b1 := hcs k s h1 up hup; have b2 := hct k t h2 uq huq
        have p1 := gd_pos (hps s h1).reverse k; have p2 := gd_pos (hpt t h2).reverse k
        rw [← axR_eq_gd] at p1 p2
        rw [← ep] at b1; rw [← eq] at b2
        omega
      · have a1 := hmq s h1; have a2 := hmp t h2
        have b1 := hct k s h1 uq huq; have b2 := hcs k t h2 up hup
        have p1 := gd_pos (hpt s h1).reverse k; have p2 := gd_pos (hps t h2).reverse k
        rw [← axR_eq_gd] at p1 p2
        rw [← eq] at b1; rw [← ep] at b2
        omega
      · exact hct k s h1 t h2
    · refine ⟨?_, ?_, fun k => ⟨?_, ?_⟩⟩
      · simp only [List.mem_cons, List.not_mem_nil, or_false] at hsr
        rcases hsr with rfl | rfl
        · exact ⟨sp, by simp [hsp], by omega⟩
        · exact ⟨sq, by simp [hsq], by omega⟩
      · intro s h
        rcases List.mem_append.1 h with h | h
        · have := hlep s h; omega
        · have := hleq s h; omega
      · obtain ⟨⟨u, hu, e⟩, _⟩ := hkr k
        obtain ⟨⟨up, hup, ep⟩, _⟩ := hkp k
        obtain ⟨⟨uq, huq, eq⟩, _⟩ := hkq k
        simp only [List.mem_cons, List.not_mem_nil, or_false] at hu
        rcases hu with rfl | rfl
        · exact ⟨up, by simp [hup], by omega⟩
        · exact ⟨uq, by simp [huq], by omega⟩
      · intro s h
        obtain ⟨_, hm⟩ := hkr k
        have m1 := hm p (by simp); have m2 := hm q (by simp)
        rcases List.mem_append.1 h with h | h
        · have := (hkp k).2 s h; omega
        · have := (hkq k).2 s h; omega

/-! ### any order, grouping and multiplicity: nests of broadcast_shape calls -/
private theorem compatible_of_mem_iff {ss ts : List Shape} (h : ∀ s, s ∈ ss ↔ s ∈ ts) : Compatible ss ↔ Compatible ts := by
  unfold Compatible
  constructor
  · intro hc k s hs t ht; exact hc k s ((h s).2 hs) t ((h t).2 ht)
  · intro hc k s hs t ht; exact hc k s ((h s).1 hs) t ((h t).1 ht)

private theorem isAxisMax_of_mem_iff {ss ts : List Shape} (h : ∀ s, s ∈ ss ↔ s ∈ ts) (r : Shape) : IsAxisMax r ss ↔ IsAxisMax r ts := by
  have key : ∀ {xs ys : List Shape}, (∀ s, s ∈ xs ↔ s ∈ ys) → IsAxisMax r xs → IsAxisMax r ys := by
    intro xs ys h ⟨⟨s, hs, hl⟩, hle, hk⟩
    refine ⟨⟨s, (h s).1 hs, hl⟩, fun s hs => hle s ((h s).2 hs), fun k => ?_⟩
    obtain ⟨⟨t, ht, e⟩, hm⟩ := hk k
    exact ⟨⟨t, (h t).1 ht, e⟩, fun s hs => hm s ((h s).2 hs)⟩
  exact ⟨key h, key (fun s => (h s).symm)⟩

/-- the n-ary fold depends only on WHICH shapes occur among the operands — not on their order, nor on how often a
    shape is repeated (for two lists this contains `broadcast_comm`, `broadcast_idem`, `broadcast_absorb` and
    `broadcast_fold_perm` at once) -/
theorem broadcast_fold_set (ss ts : List Shape) (hs : ss ≠ []) (ht : ts ≠ []) (hp : AllPos ss)
    (h : ∀ s, s ∈ ss ↔ s ∈ ts) : broadcastShape ss = broadcastShape ts := by
  have hp' : AllPos ts := fun s hs => hp s ((h s).2 hs)
  apply opt_ext
  intro r
  rw [broadcast_eq_some_iff _ hs hp r, broadcast_eq_some_iff _ ht hp' r, compatible_of_mem_iff h, isAxisMax_of_mem_iff h r]

private theorem mapM_append_some {α β} (f : α → Option β) (l₁ l₂ : List α) (r : List β) :
    (l₁ ++ l₂).mapM f = some r ↔ ∃ r₁ r₂, l₁.mapM f = some r₁ ∧ l₂.mapM f = some r₂ ∧ r = r₁ ++ r₂ := by
  induction l₁ generalizing r with
  | nil => simp
  | cons a t ih =>
    simp only [List.cons_append, List.mapM_cons, Option.bind_eq_bind, Option.pure_def]
    cases hfa : f a with
    | none => simp
    | some y =>
      simp only [Option.bind_some]
      cases ht : (t ++ l₂).mapM f with
      | none =>
        simp only [Option.bind_none, reduceCtorEq, false_iff]
        rintro ⟨r₁, r₂, h1, h2, rfl⟩
        cases ht1 : t.mapM f with
        | none => simp [ht1] at h1
        | some q =>
          have := (ih (q ++ r₂)).2 ⟨q, r₂, ht1, h2, rfl⟩
          simp [ht] at this
      | some q =>
        obtain ⟨q₁, q₂, h1, h2, rfl⟩ := (ih q).1 ht
        simp only [Option.bind_some, Option.some.injEq, h1, h2]
        constructor
        · rintro rfl; exact ⟨y :: q₁, q₂, rfl, rfl, rfl⟩
        · rintro ⟨r₁, r₂, e1, e2, rfl⟩; cases e1; cases e2; rfl

/-- the shapes selected by operand numbers are members of the operand list, one per number -/
private theorem mapM_get_spec (env : List Shape) (l : List Nat) (ss : List Shape) (h : l.mapM (fun i => env[i]?) = some ss) :
    ss.length = l.length ∧ (∀ s, s ∈ ss ↔ ∃ i ∈ l, env[i]? = some s) := by
  induction l generalizing ss with
  | nil => simp at h; subst h; simp
  | cons a t ih =>
    simp only [List.mapM_cons, Option.bind_eq_bind, Option.bind_eq_some_iff, Option.pure_def, Option.some.injEq] at h
    obtain ⟨y, hy, ys, hys, rfl⟩ := h
    obtain ⟨hl, hm⟩ := ih ys hys
    refine ⟨by simp [hl], fun s => ?_⟩
    simp only [List.mem_cons, hm s]
    constructor
    · rintro (rfl | ⟨i, hi, e⟩)
      · exact ⟨a, Or.inl rfl, hy⟩
      · exact ⟨i, Or.inr hi, e⟩
    · rintro ⟨i, rfl | hi, e⟩
      · left; rw [hy] at e; cases e; rfl
      · exact Or.inr ⟨i, hi, e⟩

private theorem leaves_ne_nil (e : BExpr) : e.leaves ≠ [] := by
  induction e with
  | leaf i => simp [BExpr.leaves]
  | pair l r ihl ihr => simp [BExpr.leaves, ihl]
  | tri x y z ihx ihy ihz => simp [BExpr.leaves, ihx]

private theorem allPos_of_sel {env : List Shape} (hp : AllPos env) {l : List Nat} {ss : List Shape}
    (h : l.mapM (fun i => env[i]?) = some ss) : AllPos ss := by
  intro s hs
  obtain ⟨i, _, e⟩ := ((mapM_get_spec env l ss h).2 s).1 hs
  exact hp s (List.mem_of_getElem? e)

private theorem sel_ne_nil {env : List Shape} {l : List Nat} {ss : List Shape} (hl : l ≠ [])
    (h : l.mapM (fun i => env[i]?) = some ss) : ss ≠ [] := by
  have := (mapM_get_spec env l ss h).1
  intro e; subst e
  simp at this
  exact hl (List.eq_nil_of_length_eq_zero this.symm)

/-- a nest of `broadcast_shape` calls (2-operand and variadic, intermediate `maybe` results passed on) over the
    operands `env` has the value of ONE variadic broadcast of the operands that occur in it, left to right -/
theorem bexpr_eval_eq_fold (env : List Shape) (hp : AllPos env) (e : BExpr) (ss : List Shape)
    (h : e.leaves.mapM (fun i => env[i]?) = some ss) : e.eval env = broadcastShape ss := by
  induction e generalizing ss with
  | leaf i =>
    simp only [BExpr.leaves, List.mapM_cons, List.mapM_nil, Option.bind_eq_bind, Option.pure_def] at h
    cases hi : env[i]? with
    | none => simp [hi] at h
    | some s =>
      simp [hi] at h
      subst h
      simp [BExpr.eval, hi, broadcastShape, broadcastFold]
  | pair l r ihl ihr =>
    simp only [BExpr.leaves] at h
    obtain ⟨sl, sr, hl, hr, rfl⟩ := (mapM_append_some _ _ _ _).1 h
    simp only [BExpr.eval, ihl sl hl, ihr sr hr]
    exact (broadcast_fold_append sl sr (sel_ne_nil (leaves_ne_nil l) hl) (sel_ne_nil (leaves_ne_nil r) hr)
      (allPos_of_sel hp hl) (allPos_of_sel hp hr)).symm
  | tri x y z ihx ihy ihz =>
    simp only [BExpr.leaves] at h
    obtain ⟨sxy, sz, hxy, hz, rfl⟩ := (mapM_append_some _ _ _ _).1 h
    obtain ⟨sx, sy, hx, hy, rfl⟩ := (mapM_append_some _ _ _ _).1 hxy
    simp only [BExpr.eval, ihx sx hx, ihy sy hy, ihz sz hz]
    have nx := sel_ne_nil (leaves_ne_nil x) hx
    have ny := sel_ne_nil (leaves_ne_nil y) hy
    have nz := sel_ne_nil (leaves_ne_nil z) hz
    have px := allPos_of_sel hp hx
    have py := allPos_of_sel hp hy
    have pz := allPos_of_sel hp hz
    have pxy := allPos_of_sel hp hxy
    rw [broadcast_fold_append (sx ++ sy) sz (by simp [nx]) nz pxy pz, broadcast_fold_append sx sy nx ny px py]
    cases broadcastShape sx with
    | none => simp
    | some a =>
      cases broadcastShape sy with
      | none => simp
      | some b =>
        cases broadcastShape sz with
        | none => cases broadcastShape2 a b <;> simp
        | some c => simp [broadcastShape, broadcastFold]

/-- **order, grouping and multiplicity do not matter**: two nests of `broadcast_shape` calls in which the same
    operands occur (however ordered, grouped or repeated — `bc(a,b)`, `bc(b,a)`, `bc(a,bc(a,b))`, `bc(bc(a,b),c)`,
    `bc(c,a,b)` …) give the same shape or both fail -/
theorem bexpr_eval_congr (env : List Shape) (hp : AllPos env) (e₁ e₂ : BExpr)
    (hv₁ : ∀ i ∈ e₁.leaves, i < env.length) (hv₂ : ∀ i ∈ e₂.leaves, i < env.length)
    (h : ∀ i, i ∈ e₁.leaves ↔ i ∈ e₂.leaves) : e₁.eval env = e₂.eval env := by
  have sel : ∀ l : List Nat, (∀ i ∈ l, i < env.length) → ∃ ss, l.mapM (fun i => env[i]?) = some ss := by
    intro l hl
    induction l with
    | nil => exact ⟨[], rfl⟩
    | cons a t ih =>
      obtain ⟨ys, hys⟩ := ih (fun i hi => hl i (by simp [hi]))
      have ha : a < env.length := hl a (by simp)
      exact ⟨env[a] :: ys, by simp [List.mapM_cons, List.getElem?_eq_getElem ha, hys]⟩
  obtain ⟨s₁, h₁⟩ := sel _ hv₁
  obtain ⟨s₂, h₂⟩ := sel _ hv₂
  rw [bexpr_eval_eq_fold env hp e₁ s₁ h₁, bexpr_eval_eq_fold env hp e₂ s₂ h₂]
  apply broadcast_fold_set s₁ s₂ (sel_ne_nil (leaves_ne_nil e₁) h₁) (sel_ne_nil (leaves_ne_nil e₂) h₂) (allPos_of_sel hp h₁)
  intro s
  rw [(mapM_get_spec env _ s₁ h₁).2 s, (mapM_get_spec env _ s₂ h₂).2 s]
  constructor
  · rintro ⟨i, hi, e⟩; exact ⟨i, (h i).1 hi, e⟩
  · rintro ⟨i, hi, e⟩; exact ⟨i, (h i).2 hi, e⟩

/-! ### broadcast_to -/

/-- `view::broadcast_to` succeeds exactly when NumPy allows the broadcast (rank not larger, every aligned
    source extent equal to the target's or 1) -/
theorem broadcastTo_isSome_iff (src dst : Shape) :
    (broadcastToView src dst).isSome ↔ BroadcastableTo src dst := by
  unfold broadcastToView
  rw [Option.isSome_map]
  exact shapeBroadcastTo_isSome_iff src dst

/-- the reported shape is the requested one -/
theorem broadcastTo_shape (src dst : Shape) (v : IxView) (h : broadcastToView src dst = some v) :
    v.src = src ∧ v.dst = dst := by
  unfold broadcastToView at h
  simp only [Option.map_eq_some_iff] at h
  obtain ⟨r, _, rfl⟩ := h
  exact ⟨rfl, rfl⟩

private theorem alignedFree_eq_zipWith {src d' : List Nat} {fs : List Bool} (h : alignedFree src d' = some fs) :
    fs = List.zipWith (fun a b => decide (a ≠ b)) src d' := by
  induction src generalizing d' fs with
  | nil => cases d' <;> simp_all [alignedFree]
  | cons a as ih =>
    cases d' with
    | nil => simp [alignedFree] at h
    | cons b bs =>
      simp only [alignedFree] at h
      split at h
      · rename_i hab
        simp only [Option.map_eq_some_iff] at h
        obtain ⟨f, hf, rfl⟩ := h
        simp [ih hf, hab]
      · split at h
        · rename_i hab _
          simp only [Option.map_eq_some_iff] at h
          obtain ⟨f, hf, rfl⟩ := h
          simp [ih hf, hab]
        · cases h

/-- the shape returned by `shape_broadcast_to` is the target; an axis is free iff it is prepended or stretched -/
theorem shapeBroadcastTo_spec (src dst sh : Shape) (free : List Bool) (h : shapeBroadcastTo src dst = some (sh, free)) :
    sh = dst ∧ free = List.replicate (dst.length - src.length) true ++
      List.zipWith (fun a b => decide (a ≠ b)) src (dst.drop (dst.length - src.length)) := by
  obtain ⟨_, h1, fs, hfs, h2⟩ := shapeBroadcastTo_some h
  exact ⟨h1, by rw [h2, alignedFree_eq_zipWith hfs]⟩

/-- **element rule**: the view reads, at destination index `d`, the source element at `d` with the prepended
    axes dropped and 0 on the stretched axes (the offset-over-origin-axes computation of `index::broadcast_to`
    agrees with NumPy's rule) -/
theorem broadcastTo_index_eq_spec (src dst : Shape) (v : IxView) (h : broadcastToView src dst = some v)
    (d : Idx) (hd : InShape d dst) : v.map d = some (specBroadcastIdx src d) := by
  unfold broadcastToView at h
  simp only [Option.map_eq_some_iff] at h
  obtain ⟨⟨sh, free⟩, hsb, rfl⟩ := h
  obtain ⟨hle, _, fs, hfs, hfree⟩ := shapeBroadcastTo_some hsb
  simp only
  have hsplit : dst = dst.take (dst.length - src.length) ++ dst.drop (dst.length - src.length) :=
    (List.take_append_drop _ _).symm
  rw [hsplit] at hd
  obtain ⟨dpre, d', rfl, hl, hin⟩ := inShape_append_split hd
  have hpl : (dst.take (dst.length - src.length)).length = dst.length - src.length := by
    simp only [List.length_take]; omega
  have key := broadcastToIndex_split (src := src) (pre := dst.take (dst.length - src.length))
    (dst' := dst.drop (dst.length - src.length)) (dpre := dpre) (d' := d') hfs hl hin
  rw [List.take_append_drop, hpl, ← hfree] at key
  rw [key]
  unfold specBroadcastIdx specAligned
  have hd'l := hin.length_eq
  have : (dpre ++ d').length - src.length = dpre.length := by
    simp only [List.length_append, List.length_drop] at hd'l ⊢; omega
  rw [this, List.drop_left]

/-- component form of the element rule: `src_idx[k] = if src[k] = 1 then 0 else d[k + (dim d − dim src)]` -/
theorem specBroadcastIdx_getElem (src : Shape) (d : Idx) (hl : src.length ≤ d.length) (k : Nat) (hk : k < src.length) :
    (specBroadcastIdx src d)[k]? =
      some (if src[k] = 1 then 0 else d[k + (d.length - src.length)]'(by omega)) := by
  unfold specBroadcastIdx
  rw [List.getElem?_zipWith]
  have h1 : src[k]? = some src[k] := List.getElem?_eq_getElem hk
  have h2 : (d.drop (d.length - src.length))[k]? = some (d[k + (d.length - src.length)]'(by omega)) := by
    rw [List.getElem?_drop, Nat.add_comm]
    exact List.getElem?_eq_getElem (by omega)
  rw [h1, h2]

/-- every access of a broadcast view stays inside the source shape (feeds C02) -/
theorem broadcastTo_inBounds (src dst : Shape) (v : IxView) (h : broadcastToView src dst = some v) : v.InBounds := by
  intro d hd i hi
  obtain ⟨hs, hdst⟩ := broadcastTo_shape src dst v h
  rw [hdst] at hd
  rw [broadcastTo_index_eq_spec src dst v h d hd] at hi
  cases hi
  rw [hs]
  unfold broadcastToView at h
  simp only [Option.map_eq_some_iff] at h
  obtain ⟨⟨sh, free⟩, hsb, _⟩ := h
  obtain ⟨hle, _, fs, hfs, _⟩ := shapeBroadcastTo_some hsb
  have hsplit : dst = dst.take (dst.length - src.length) ++ dst.drop (dst.length - src.length) :=
    (List.take_append_drop _ _).symm
  rw [hsplit] at hd
  obtain ⟨dpre, d', rfl, hl, hin⟩ := inShape_append_split hd
  have hd'l := hin.length_eq
  have : (dpre ++ d').length - src.length = dpre.length := by
    simp only [List.length_append, List.length_drop] at hd'l ⊢; omega
  unfold specBroadcastIdx
  rw [this, List.drop_left]
  exact specAligned_inShape hfs hin

/-! ### the container kind of the operands does not matter (model of meta::resolve_optype<broadcast_shape_t>,
tied to the code by the `value@container` answers of the kind matrix) -/

/-- **the result container is never too small**: for well-formed operands of ANY kinds (constant, clipped with any
    bounds ≥ the values, fixed, bounded, dynamic, None), if `broadcast_shape(a, b)` compiles, the container
    `meta::resolve_optype` picks for the result holds the broadcast value without clamping a clipped integer and
    without exceeding a bounded vector -/
theorem broadcast_container_fits (a b : KShape) (ha : a.WF) (hb : b.WF) (r : Shape)
    (hr : broadcastShape2 a.vals b.vals = some r) (hne : resolveBroadcast a b ≠ .error) :
    (resolveBroadcast a b).Fits r ∧ (resolveBroadcast a b).store r = (r, 0, 0) :=
  ⟨resolveBroadcast_fits ha hb hr hne, RType.store_of_fits (resolveBroadcast_fits ha hb hr hne)⟩

/-- a call that does not compile (both shapes compile-time constants, incompatible) is a refusal of the rule too -/
theorem broadcast_compile_error_is_refusal (a b : KShape) (ha : a.WF) (hb : b.WF)
    (he : resolveBroadcast a b = .error) : broadcastShape2 a.vals b.vals = none :=
  resolveBroadcast_error ha hb he

/-- **two operands, any kinds**: the kinded call either does not compile — then the shapes are incompatible — or
    returns exactly the kind-blind `broadcastShape2` of the values (same shape / Nothing) with no hook event -/
theorem kBroadcast2_kind_independent (a b : KShape) (ha : a.WF) (hb : b.WF) :
    (kBroadcast2 a b = none → broadcastShape2 a.vals b.vals = none) ∧
    (∀ o, kBroadcast2 a b = some o → o.val = broadcastShape2 a.vals b.vals ∧ o.clamps = 0 ∧ o.overflows = 0) := by
  have := kPair_faithful a.out b.out (KShape.out_good ha) (KShape.out_good hb)
  simp only [KShape.out, Option.bind_some] at this
  refine ⟨this.1, fun o ho => ?_⟩
  obtain ⟨g, e⟩ := this.2 o ho
  exact ⟨e, g.ev.1, g.ev.2⟩

/-- **any nest of calls, any kinds** (every order and grouping, intermediate results in the containers the library
    gave them): either some call of the nest does not compile — then the kind-blind nest is a refusal — or the value
    is the kind-blind one, with no clamp and no capacity event anywhere in the nest.  Together with
    `bexpr_eval_congr` the result of a kinded nest depends only on WHICH operands occur in it. -/
theorem keval_kind_independent (env : List KShape) (henv : ∀ a ∈ env, a.WF) (e : BExpr) :
    (e.keval env = none → e.eval (env.map (·.vals)) = none) ∧
    (∀ o, e.keval env = some o → o.val = e.eval (env.map (·.vals)) ∧ o.clamps = 0 ∧ o.overflows = 0) := by
  have := keval_faithful env henv e
  refine ⟨this.1, fun o ho => ?_⟩
  obtain ⟨g, e⟩ := this.2 o ho
  exact ⟨e, g.ev.1, g.ev.2⟩

/-- the operands the driver builds for the kind matrix satisfy the hypothesis -/
theorem ofKind_wf (kind : String) (vals bounds : List Nat) (a : KShape)
    (h : KShape.ofKind kind vals bounds = some a) (hp : Pos vals) (hb : kind = "cl" → LeL vals bounds)
    (hn : kind = "none" → vals = []) (hsv : kind = "sv" → vals.length ≤ 8) : a.WF :=
  KShape.ofKind_wf h hp hb hn hsv

-- non-vacuity: well-formed operands of mixed kinds, the container chosen, both outcomes
example : KShape.WF ⟨KInfo.ct 2, [3, 1]⟩ := ofKind_wf "ct" [3, 1] [] _ rfl (by decide) (by simp) (by simp) (by simp)
example : KShape.WF ⟨KInfo.cl [4, 2], [3, 1]⟩ :=
  ofKind_wf "cl" [3, 1] [4, 2] _ rfl (by decide) (fun _ => by decide) (by simp) (by simp)
example : KShape.WF ⟨KInfo.arr 2, [3, 5]⟩ := ofKind_wf "a" [3, 5] [] _ rfl (by decide) (by simp) (by simp) (by simp)
example : resolveBroadcast ⟨KInfo.ct 2, [3, 1]⟩ ⟨KInfo.arr 2, [3, 5]⟩ = .arr 2 := by decide
example : resolveBroadcast ⟨KInfo.ct 2, [3, 2]⟩ ⟨KInfo.arr 2, [3, 1]⟩ = .clippedT [3, 2] := by decide
example : resolveBroadcast ⟨KInfo.ct 2, [3, 2]⟩ ⟨KInfo.sv 2, [2]⟩ = .clippedArr 3 2 := by decide
example : resolveBroadcast ⟨KInfo.cl [4, 2], [3, 1]⟩ ⟨KInfo.ct 2, [3, 2]⟩ = .arr 2 := by decide
example : resolveBroadcast ⟨KInfo.ct 2, [2, 3]⟩ ⟨KInfo.ct 2, [3, 2]⟩ = .error := by decide
example : (kBroadcast2 ⟨KInfo.ct 2, [3, 1]⟩ ⟨KInfo.arr 2, [3, 5]⟩).map (·.val) = some (some [3, 5]) := by decide
example : (BExpr.pair (.leaf 0) (.pair (.leaf 0) (.leaf 1))).keval [⟨KInfo.ct 2, [3, 1]⟩, ⟨KInfo.sv 8, [3, 5]⟩]
    = some { ty := .svec 8, val := some [3, 5] } := by decide
/-- why the resolver must bail out on an extent 1 of a constant shape (the seeded change `I > 0` for `I > 1`,
    broadcast_shape.hpp:378): with the bounds (3,1) taken from the constant operand (3,1) the broadcast (3,5) with a
    run-time operand is clamped to (3,1), one clamp event -/
example : (RType.clippedT [3, 1]).store [3, 5] = ([3, 1], 1, 0) := by decide

/-! ### zero extents (outside the property's quantifier, inside "NumPy's rules") -/

/-- **all extents, zero included**: unless some axis pairs a 0 with a 1, `broadcast_shape` is NumPy's rule -/
theorem broadcast2_eq_numpy_of_not_zeroWithOne (a b : Shape) (h : ZeroWithOne a b = false) :
    broadcastShape2 a b = npBroadcast2 a b := by
  unfold broadcastShape2 npBroadcast2
  rw [bcRev_eq_npRev _ _ h]

/-- positive shapes never are in that class -/
theorem not_zeroWithOne_of_pos (a b : Shape) (ha : Pos a) (hb : Pos b) : ZeroWithOne a b = false := by
  unfold ZeroWithOne
  have key : ∀ (x y : List Nat), (∀ v ∈ x, 0 < v) → (∀ v ∈ y, 0 < v) → zeroOneRev x y = false := by
    intro x
    induction x with
    | nil => intro y _ _; simp [zeroOneRev]
    | cons v vs ih =>
      intro y hx hy
      cases y with
      | nil => simp [zeroOneRev]
      | cons w ws =>
        have hv := hx v (by simp)
        have hw := hy w (by simp)
        simp only [zeroOneRev, Bool.or_eq_false_iff, Bool.and_eq_false_imp, beq_iff_eq]
        refine ⟨⟨fun e => by omega, fun e => ?_⟩, ih ws (fun u hu => hx u (by simp [hu])) (fun u hu => hy u (by simp [hu]))⟩
        simp only [beq_eq_false_iff_ne, ne_eq]
        omega
  exact key _ _ (fun v hv => ha v (List.mem_reverse.1 hv)) (fun v hv => hb v (List.mem_reverse.1 hv))

/-- the unchanged code breaks NumPy's rule on a zero extent paired with 1 (known finding
    C06.broadcast-zero-extent-with-one; replayed on the real headers: `broadcast_shape((0,0),(1,0))` = (1,0)) -/
theorem broadcast_zero_extent_counterexample :
    broadcastShape2 [0, 0] [1, 0] = some [1, 0] ∧ npBroadcast2 [0, 0] [1, 0] = some [0, 0] ∧ ZeroWithOne [0, 0] [1, 0] = true := by decide

example : ZeroWithOne [2, 0] [0] = false := by decide
example : broadcastShape2 [2, 0] [0] = some [2, 0] ∧ npBroadcast2 [2, 0] [0] = some [2, 0] := by decide
example : ZeroWithOne [2, 0] [3, 1] = true := by decide
example : Pos [2, 1, 3] ∧ Pos [4, 1] := by decide

/-! ### the None source (shape of a number) with a clipped target: the one place found where the container kind of
a shape changes a result of the broadcasting index functions (known finding C06.sbt-none-clipped-target) -/

/-- as long as every extent fits the bound of the LAST element of the clipped target, the None overload of
    `shape_broadcast_to` returns the target unchanged -/
theorem sbtNoneClipped_eq_of_le (bounds vals : List Nat) (m : Nat) (hm : bounds.getLast? = some m)
    (h : ∀ v ∈ vals, v ≤ m) : sbtNoneClipped bounds vals = vals := by
  unfold sbtNoneClipped
  rw [hm]
  simp only
  conv => rhs; rw [← List.map_id vals]
  apply List.map_congr_left
  intro v hv
  have := h v hv
  simp only [id]
  omega

/-- … and only then: an extent above the last bound comes back clamped -/
theorem sbtNoneClipped_eq_iff (bounds vals : List Nat) (m : Nat) (hm : bounds.getLast? = some m) :
    sbtNoneClipped bounds vals = vals ↔ ∀ v ∈ vals, v ≤ m := by
  constructor
  · intro h v hv
    unfold sbtNoneClipped at h
    rw [hm] at h
    simp only at h
    have h2 : (vals.map (fun v => min v m)).map id = vals.map id := by rw [h]
    rw [List.map_map] at h2
    have := (List.map_inj_left.1 h2) v hv
    simp only [Function.comp, id] at this
    omega
  · exact sbtNoneClipped_eq_of_le bounds vals m hm

/-- the unchanged code breaks the property here: the target `"3:[5]","2:[2]"` (extents (3,2), bounds (5,2)) comes
    back as (2,2), while `shape_broadcast_to` of the empty shape to (3,2) is (3,2) for every other container kind.
    Replayed on the real headers (known/C06.json, witness `k6 … op=sbt shapes=[];3,2 kinds=none/cl salt=0`). -/
theorem sbtNoneClipped_counterexample :
    sbtNoneClipped [5, 2] [3, 2] = [2, 2] ∧ (shapeBroadcastTo [] [3, 2]).map (·.1) = some [3, 2] := by decide

example : sbtNoneClipped [3, 3] [3, 2] = [3, 2] := by decide
example : ([5, 2] : List Nat).getLast? = some 2 := by decide
example : ¬ ∀ v ∈ ([3, 2] : List Nat), v ≤ 2 := by decide

/-! ### broadcast_arrays -/

private theorem broadcastable_of_max {ss : List Shape} {r : Shape} (hp : AllPos ss) (hc : Compatible ss)
    (hm : IsAxisMax r ss) (s : Shape) (hs : s ∈ ss) : BroadcastableTo s r := by
  obtain ⟨_, hle, hk⟩ := hm
  refine ⟨hle s hs, fun k _ => ?_⟩
  obtain ⟨⟨t, ht, e⟩, hmax⟩ := hk k
  have c := hc k s hs t ht
  have m := hmax s hs
  have p := gd_pos (hp s hs).reverse k
  rw [← axR_eq_gd] at p
  rw [e]; omega

private theorem mapM_isSome {α β} (f : α → Option β) (l : List α) (h : ∀ x ∈ l, (f x).isSome) : (l.mapM f).isSome := by
  induction l with
  | nil => simp
  | cons a t ih =>
    obtain ⟨y, hy⟩ := Option.isSome_iff_exists.1 (h a (by simp))
    obtain ⟨ys, hys⟩ := Option.isSome_iff_exists.1 (ih (fun x hx => h x (by simp [hx])))
    simp [List.mapM_cons, hy, hys]

private theorem mapM_zip {α β} (f : α → Option β) (l : List α) (vs : List β) (h : l.mapM f = some vs) :
    vs.length = l.length ∧ ∀ p ∈ l.zip vs, f p.1 = some p.2 := by
  induction l generalizing vs with
  | nil => simp at h; subst h; simp
  | cons a t ih =>
    simp only [List.mapM_cons, Option.bind_eq_bind, Option.bind_eq_some_iff, Option.pure_def, Option.some.injEq] at h
    obtain ⟨y, hy, ys, hys, rfl⟩ := h
    obtain ⟨hl, hz⟩ := ih ys hys
    refine ⟨by simp [hl], ?_⟩
    intro p hp
    simp only [List.zip_cons_cons, List.mem_cons] at hp
    rcases hp with rfl | hp
    · exact hy
    · exact hz p hp

/-- `broadcast_arrays` is `Nothing` exactly when the operand shapes are incompatible
    (after a successful `broadcast_shape` no `broadcast_to` of an operand can fail) -/
theorem broadcastArrays_isSome_iff (ss : List Shape) (hne : ss ≠ []) (hp : AllPos ss) :
    (broadcastArraysViews ss).isSome ↔ Compatible ss := by
  rw [← broadcast_isSome_iff_compatible ss hne hp]
  unfold broadcastArraysViews
  cases hr : broadcastShape ss with
  | none => simp
  | some r =>
    obtain ⟨hc, hm⟩ := (broadcast_eq_some_iff ss hne hp r).1 hr
    simp only [Option.bind_some, Option.isSome_some, iff_true]
    apply mapM_isSome
    intro s hs
    exact (broadcastTo_isSome_iff s r).2 (broadcastable_of_max hp hc hm s hs)

/-- every result of `broadcast_arrays` has the common broadcast shape and reads operand `k` by the element rule
    (`ss.zip vs` pairs operand shape `k` with result view `k`) -/
theorem broadcastArrays_elem (ss : List Shape) (vs : List IxView) (h : broadcastArraysViews ss = some vs) :
    ∃ r, broadcastShape ss = some r ∧ vs.length = ss.length ∧
      ∀ p ∈ ss.zip vs, p.2.src = p.1 ∧ p.2.dst = r ∧
        ∀ d, InShape d r → p.2.map d = some (specBroadcastIdx p.1 d) := by
  unfold broadcastArraysViews at h
  simp only [Option.bind_eq_some_iff] at h
  obtain ⟨r, hr, hvs⟩ := h
  obtain ⟨hl, hz⟩ := mapM_zip _ _ _ hvs
  refine ⟨r, hr, hl, ?_⟩
  intro p hp
  have hv := hz p hp
  obtain ⟨h1, h2⟩ := broadcastTo_shape p.1 r p.2 hv
  exact ⟨h1, h2, fun d hd => broadcastTo_index_eq_spec p.1 r p.2 hv d hd⟩

/-! ### non-vacuity: the hypotheses are satisfiable on non-trivial values, both outcomes occur -/

example : broadcastShape [[2, 1, 3], [4, 1], [1]] = some [2, 4, 3] := by decide
example : broadcastShape [[2, 1, 3], [4, 2]] = none := by decide
example : AllPos [[2, 1, 3], [4, 1], [1]] := by decide
example : Compatible [[2, 1, 3], [4, 1], [1]] :=
  (broadcast_isSome_iff_compatible _ (by simp) (by decide)).1 (by decide)
example : ¬ Compatible [[2, 1, 3], [4, 2]] :=
  fun h => absurd ((broadcast_isSome_iff_compatible _ (by simp) (by decide)).2 h) (by decide)
example : (broadcastShape2 [2, 1, 3] [4, 1]).bind (fun p => broadcastShape2 p [5, 1, 1, 1]) = some [5, 2, 4, 3] := by decide
example : (broadcastShape2 [4, 1] [5, 1, 1, 1]).bind (fun q => broadcastShape2 [2, 1, 3] q) = some [5, 2, 4, 3] := by decide
example : (shapeBroadcastTo [3, 1] [2, 3, 4]).map (·.2) = some [true, false, true] := by decide
example : (broadcastToView [3, 1] [2, 3, 4]).bind (fun v => v.map [1, 2, 3]) = some [2, 0] := by decide
example : specBroadcastIdx [3, 1] [1, 2, 3] = [2, 0] := by decide
example : InShape [1, 2, 3] [2, 3, 4] := by decide
example : (broadcastToView [2, 3] [3]).isSome = false := by decide
example : (broadcastArraysViews [[2, 1], [3], []]).map (·.map (·.dst)) = some [[2, 3], [2, 3], [2, 3]] := by decide

-- nests of calls: value, the hypotheses of `bexpr_eval_congr` on a non-trivial instance, and its conclusion
example : (BExpr.pair (.pair (.leaf 0) (.leaf 1)) (.leaf 2)).eval [[2, 1, 3], [4, 1], [5, 1, 1, 1]] = some [5, 2, 4, 3] := by decide
example : (BExpr.tri (.leaf 2) (.leaf 0) (.leaf 1)).eval [[2, 1, 3], [4, 1], [5, 1, 1, 1]] = some [5, 2, 4, 3] := by decide
example : (BExpr.pair (.leaf 0) (.pair (.leaf 0) (.leaf 1))).leaves.mapM (fun i => [[3, 1], [3, 5]][i]?) = some [[3, 1], [3, 1], [3, 5]] := by decide
example : (BExpr.pair (.leaf 0) (.pair (.leaf 0) (.leaf 1))).eval [[3, 1], [3, 5]] = (BExpr.pair (.leaf 1) (.leaf 0)).eval [[3, 1], [3, 5]] :=
  bexpr_eval_congr _ (by decide) _ _ (by decide) (by decide) (by intro i; simp [BExpr.leaves]; omega)
example : (BExpr.pair (.leaf 1) (.leaf 0)).eval [[3, 1], [3, 5]] = some [3, 5] := by decide
example : (BExpr.pair (.leaf 0) (.leaf 1)).eval [[2, 3], [3, 2]] = none := by decide
example : broadcastShape [[3, 1], [3, 5], [3, 1]] = broadcastShape [[3, 5], [3, 1]] :=
  broadcast_fold_set _ _ (by simp) (by simp) (by decide) (by intro s; simp; grind)
example : BExpr.parse "*0*01" = some (BExpr.pair (.leaf 0) (.pair (.leaf 0) (.leaf 1))) := by decide

/-- positivity is needed: with a zero extent the implementation's `max` is not NumPy's result `[0]`
    (outside the property's quantifier; kept as a remark, compared with the model only) -/
example : broadcastShape2 [0] [1] = some [1] := by decide

end NmVerif.Props.C06
