"""C15 — invalid arguments are reported as Nothing, never as garbage or a crash.
IMPL outcome: `ok shape=… data=…` | `nothing` | crash:<kind> (runner) | exception:…   ORACLE: NumPy raises / result."""
import itertools, re
import numpy as np
from runner import Case
from shapes import shapes, prod, fmt

ID = 'C15'
LEVEL = 'proof'
RULE = ('per checked operation the full small-scope argument space INCLUDING the invalid part: reshape targets with entries -2..4 (length 1..3), '
        'transpose axes from [-dim-1, dim] incl. duplicates, moveaxis/swapaxes/expand_dims axes in [-dim-2, dim+1], broadcast_to / add / concatenate / '
        'matmul operand-shape pairs (compatible and not), pad width lists of every length 0..2*dim+1, tile/repeat/roll/sum arguments with bad axes; '
        'pipelines of depth 2-3 whose first or second stage fails; NDEBUG build and ASan+UBSan+assert build. non-trivial = NumPy raises, or the result differs from the source')
EXHAUSTIVE = {'quick': True, 'thorough': True}
ANCHORS = {'NmVerif.Checked.shapeReshape': 'index::shape_reshape / count_negative_reshape (index/reshape.hpp)', 'NmVerif.Checked.normalizeAxis': 'index::normalize_axis',
           'NmVerif.Checked.Pipe.denote': 'has_value checks of the view constructors + eval (nmtools_maybe plumbing)'}
MANIFEST = dict(
    text='Proof + exploration: Lean theorems that reshape returns Nothing exactly on invalid targets (more than one -1, zero/negative extent, mismatching or non-dividing element count) and that an accepted reshape has positive extents and the source element count; normalize_axis accepts exactly [-ndim, ndim); an empty optional propagates through pipelines of any depth. Every checked operation (reshape, transpose, moveaxis, swapaxes, expand_dims, broadcast_to, add, concatenate, matmul, pad, tile, repeat, roll, sum, depth-2/3 pipelines) is run over its full small-scope argument space INCLUDING the invalid part against NumPy raise/no-raise, in an NDEBUG build and an assert+ASan+UBSan build; 7 classes of unchecked arguments are known findings.',
    note='Lean kernel + propext/Classical.choice/Quot.sound (+ Mathlib.Tactic.Ring in the proof file). Validity of the other operations is decided by the NumPy oracle, the value part by the models of C03/C04/C06; the process-level outcome (abort, out-of-range exception) is observed, not modelled.',
    technique='Lean 4 iff-theorems for the checked argument predicates + Option-monad propagation by induction on a pipeline AST; differential run against NumPy over valid and invalid arguments under sanitizers')
ASSUMPTIONS = ['NumPy 2.x raise / no-raise decision is the reference for validity (the property text names it)']
PARTIAL = []


def harness_specs(tier):
    return [dict(name='h_c15', src='h_c15.cpp', flavour='fast'), dict(name='h_c15_san', src='h_c15.cpp', flavour='san-dbg')]


def arr(s, base=0):
    return (np.arange(prod(s), dtype=np.int64) + base).reshape(s)


def ans(r):
    r = np.asarray(r)
    return 'ok shape=%s data=%s' % (fmt(r.shape), fmt(r.reshape(-1).tolist()))


def ora(f):
    try:
        return ans(f())
    except Exception:
        return 'nothing'


def args_of(req):
    p = req.split(' ')
    return p[0], dict(kv.split('=') for kv in p[1:])


def ints(s):
    return [] if s == '[]' else [int(x) for x in s.split(',')]


# ---- known-finding input classes (decided from the request alone) ---------------------------------------------
def _dim(a):
    return len(ints(a['shape']))


def k_transpose_invalid_axes(c):
    op, a = args_of(c.req)
    if op != 'transpose':
        return False
    d = _dim(a); ax = ints(a['axes'])
    if any(x < -d or x >= d for x in ax):
        return True
    return len({x % d for x in ax}) != d


def k_swapaxes_invalid_axis(c):
    op, a = args_of(c.req)
    return op == 'swapaxes' and any(int(a[k]) < -_dim(a) or int(a[k]) >= _dim(a) for k in ('a1', 'a2'))


def k_expand_dims_invalid_axis(c):
    op, a = args_of(c.req)
    return op == 'expand_dims' and any(x < -_dim(a) - 1 or x > _dim(a) for x in ints(a['axes']))


def k_sum_invalid_axis(c):
    op, a = args_of(c.req)
    return op == 'sum' and (int(a['axis']) < -_dim(a) or int(a['axis']) >= _dim(a))


def k_repeat_negative_or_invalid_axis(c):
    op, a = args_of(c.req)
    return op == 'repeat' and (int(a['axis']) < -_dim(a) or int(a['axis']) >= _dim(a))


def k_concatenate_unchecked(c):
    op, a = args_of(c.req)
    if op != 'concatenate':
        return False
    s1, s2, ax = ints(a['shape']), ints(a['shape2']), int(a['axis'])
    if ax < -len(s1) or ax >= len(s1) or len(s1) != len(s2):
        return True
    ax = ax % len(s1)
    return any(s1[k] != s2[k] for k in range(len(s1)) if k != ax)


def k_matmul_unchecked(c):
    op, a = args_of(c.req)
    if op != 'matmul':
        return False
    s1, s2 = ints(a['shape']), ints(a['shape2'])
    return len(s1) == 1 or len(s2) == 1 or c.oracle == 'nothing'


KNOWN_PREDICATES = {
    'transpose_invalid_axes': k_transpose_invalid_axes, 'swapaxes_invalid_axis': k_swapaxes_invalid_axis,
    'expand_dims_invalid_axis': k_expand_dims_invalid_axis, 'sum_invalid_axis': k_sum_invalid_axis,
    'repeat_negative_or_invalid_axis': k_repeat_negative_or_invalid_axis, 'concatenate_unchecked': k_concatenate_unchecked,
    'matmul_unchecked': k_matmul_unchecked,
}
_san_budget = {}


MODELLED = {'reshape': 'v_reshape', 'pipe_reshape_transpose': 'v_pipe_reshape_transpose', 'broadcast_to': 'v_broadcast_to', 'add': 'v_add',
            'pad': 'v_pad', 'tile': 'v_tile', 'roll': 'v_roll', 'where3': 'v_where3'}


def both(req, oracle, tags, nontrivial=True, model=False, dom=True):
    op = req.split(' ')[0]
    mreq = None
    if op in MODELLED and ' to=[]' not in req:
        model = True
        mreq = MODELLED[op] + req[len(op):]
    c0 = Case(req, 'h_c15', oracle=oracle, model=model, dom=dom, nontrivial=nontrivial, mreq=mreq,
              tags=list(tags) + ['h_c15', 'expect-nothing' if oracle == 'nothing' else 'expect-value'])
    yield c0
    # sanitizer + assert build: every case outside the known-defect classes; inside them a bounded sample per class
    # (each of those aborts the process; 15 per class keeps the quick tier fast)
    cls = [k for k, f in KNOWN_PREDICATES.items() if f(c0)]
    if cls:
        n = _san_budget.get(cls[0], 0)
        if n >= 15:
            return
        _san_budget[cls[0]] = n + 1
    yield Case(req, 'h_c15_san', oracle=oracle, model=model, dom=dom, nontrivial=nontrivial, mreq=mreq,
               tags=list(tags) + ['h_c15_san', 'expect-nothing' if oracle == 'nothing' else 'expect-value'])


def gen(tier, rng):
    _san_budget.clear()
    R, E = (3, 3) if tier == 'quick' else (3, 4)
    srcs = [s for s in shapes(R, E, min_rank=1)]
    small = [s for s in srcs if prod(s) <= 12] if tier == 'quick' else srcs
    pick = lambda l, k: l if len(l) <= k else rng.sample(l, k)
    # reshape: every target of length 1..3 with entries -2..4
    ents = [-2, -1, 0, 1, 2, 3, 4]
    for s in pick(small, 12 if tier == 'quick' else 40):
        for L in (1, 2, 3):
            for t in itertools.product(ents, repeat=L):
                if tier == 'quick' and L == 3 and (hash((tuple(s), t)) % 3):
                    continue
                yield from both('reshape shape=%s to=%s' % (fmt(s), fmt(t)), 'nothing' if any(x < -1 for x in t) else ora(lambda: arr(s).reshape(t)), ['reshape'])
    for s in pick(srcs, 14 if tier == 'quick' else 60):
        d = len(s)
        # transpose: all axis tuples of length d over [-d-1, d]
        rngax = list(range(-d - 1, d + 1))
        tuples = list(itertools.product(rngax, repeat=d))
        for ax in pick(tuples, 60 if tier == 'quick' else 400):
            yield from both('transpose shape=%s axes=%s' % (fmt(s), fmt(ax)), ora(lambda: np.transpose(arr(s), ax)), ['transpose'])
        for p, q in itertools.product(range(-d - 2, d + 2), repeat=2):
            yield from both('swapaxes shape=%s a1=%d a2=%d' % (fmt(s), p, q), ora(lambda: np.swapaxes(arr(s), p, q)), ['swapaxes'])
            yield from both('moveaxis shape=%s src=%d dst=%d' % (fmt(s), p, q), ora(lambda: np.moveaxis(arr(s), p, q)), ['moveaxis'])
        for p in range(-d - 3, d + 3):
            yield from both('expand_dims shape=%s axes=%d' % (fmt(s), p), ora(lambda: np.expand_dims(arr(s), p)), ['expand_dims'])
            yield from both('sum shape=%s axis=%d' % (fmt(s), p), ora(lambda: arr(s).sum(axis=p)), ['sum'])
            yield from both('roll shape=%s shift=1 axis=%d' % (fmt(s), p), ora(lambda: np.roll(arr(s), 1, p)), ['roll'])
            yield from both('repeat shape=%s repeats=2 axis=%d' % (fmt(s), p), ora(lambda: np.repeat(arr(s), 2, p)), ['repeat'])
        for L in range(0, 2 * d + 2):
            w = [(k % 2) + (1 if k == 0 else 0) for k in range(L)]
            def padf():
                if L != 2 * d:
                    raise ValueError
                return np.pad(arr(s), [(w[k], w[d + k]) for k in range(d)], constant_values=-1)
            yield from both('pad shape=%s width=%s' % (fmt(s), fmt(w)), ora(padf), ['pad'])
        for reps in [[2], [1, 2], [2, 1, 1], [1, 1, 1, 2]]:
            yield from both('tile shape=%s reps=%s' % (fmt(s), fmt(reps)), ora(lambda: np.tile(arr(s), reps)), ['tile'])
    # binary: all pairs of small shapes
    pairs = list(itertools.product([s for s in shapes(3, 3, min_rank=1) if prod(s) <= 9], repeat=2))
    for s1, s2 in pick(pairs, 250 if tier == 'quick' else 2000):
        yield from both('broadcast_to shape=%s to=%s' % (fmt(s1), fmt(s2)), ora(lambda: np.broadcast_to(arr(s1), s2)), ['broadcast_to'])
        yield from both('add shape=%s shape2=%s' % (fmt(s1), fmt(s2)), ora(lambda: arr(s1) + arr(s2, 1000)), ['add'])
        yield from both('matmul shape=%s shape2=%s' % (fmt(s1), fmt(s2)), ora(lambda: np.matmul(arr(s1), arr(s2, 1))), ['matmul'])
        for ax in range(-len(s1) - 1, len(s1) + 1):
            yield from both('concatenate shape=%s shape2=%s axis=%d' % (fmt(s1), fmt(s2), ax), ora(lambda: np.concatenate([arr(s1), arr(s2, 1000)], axis=ax)), ['concatenate'])
    # three operands (variadic broadcast): every triple of small shapes where at least one pair is incompatible, plus compatible ones
    tri = [s for s in shapes(2, 3, min_rank=1) if prod(s) <= 6] + [[1, 1, 2], [2, 1, 1]]
    triples = list(itertools.product(tri, repeat=3))
    for s1, s2, s3 in pick(triples, 600 if tier == 'quick' else 3000):
        def wf():
            c = (np.arange(prod(s1)) % 2).reshape(s1)
            return np.where(c != 0, arr(s2, 1000), arr(s3, 2000))
        yield from both('where3 shape=%s shape2=%s shape3=%s' % (fmt(s1), fmt(s2), fmt(s3)), ora(wf), ['where3'])
    # pipelines
    for s in pick(small, 10):
        for t in itertools.product([-1, 1, 2, 3, 4, 6], repeat=2):
            yield from both('pipe_reshape_transpose shape=%s to=%s' % (fmt(s), fmt(t)), ora(lambda: arr(s).reshape(t).T), ['pipeline'])
            for ax in (0, 1):
                yield from both('pipe_reshape_sum shape=%s to=%s axis=%d' % (fmt(s), fmt(t), ax), ora(lambda: arr(s).reshape(t).sum(axis=ax)), ['pipeline'])
    for s1, s2 in pick(pairs, 120 if tier == 'quick' else 600):
        for t in ([3, 3], [2, 3], [2, 1, 3]):
            yield from both('pipe_bcast_add_flatten shape=%s to=%s shape2=%s' % (fmt(s1), fmt(t), fmt(s2)),
                            ora(lambda: (np.broadcast_to(arr(s1), t) + arr(s2, 1000)).reshape(-1)), ['pipeline'])
        for t in ([-1], [3, -1], [2, 2]):
            yield from both('pipe_add_reshape shape=%s shape2=%s to=%s' % (fmt(s1), fmt(s2), fmt(t)), ora(lambda: (arr(s1) + arr(s2, 1000)).reshape(t)), ['pipeline'])
