#!/usr/bin/env python3
"""usage: tools/intake_seeded.py <seeded-id> <dir with patch.diff demo.cpp notes.json> <test source>...
Confirms a seeded change independently in a scratch worktree of /repo (removed afterwards):
  demo on the original tree exits 0, demo on the patched tree exits non-zero, and each named test source of the default
  suite (path relative to the tree, e.g. tests/array/array/moveaxis.cpp) compiles with the suite's flags together with
  its directory's tests.cpp and passes on the patched tree.  On success writes seeded/<id>/{patch.diff,demo.cpp,meta.json}."""
import json, os, subprocess, sys, shutil, concurrent.futures as cf
HERE = os.path.dirname(os.path.dirname(os.path.abspath(__file__)))
sid, src, tests = sys.argv[1], sys.argv[2], sys.argv[3:]
WT = '/var/tmp/nmv-intake-' + sid
def sh(cmd, **k): return subprocess.run(cmd, shell=True, capture_output=True, text=True, **k)
SUITES = {  # prefix -> (main, flags)
 'tests/array/':   ('tests/array/tests.cpp',   '-DNMTOOLS_TESTING_DOCTEST_DISABLE_BENCH -I{t}/tests/array/include'),
 'tests/meta/':    ('tests/meta/tests.cpp',    '-DDEFER_STATIC_CHECK -ftemplate-backtrace-limit=0 -I{t}/tests/meta/include'),
 'tests/utility/': ('tests/utility/tests.cpp', '-I{t}/tests/utility/include'),
 'tests/utl/utl/': ('tests/utl/utl/tests.cpp', ''),
 'tests/utl/meta/': ('tests/utl/meta/tests.cpp', '-DNMTOOLS_DISABLE_STL -DNMTOOLS_STRING=std::string'),
 'tests/utl/array/': ('tests/utl/array/tests.cpp', ''),
}
sh('git -C /repo worktree remove --force ' + WT)
r = sh('git -C /repo worktree add --detach %s HEAD' % WT); assert r.returncode == 0, r.stderr
ran = []
ok = True
try:
    out = WT + '/_intake'; os.makedirs(out)
    demo = 'g++ -std=c++17 -O1 -I%s/include %s/demo.cpp -o %s/demo' % (WT, src, out)
    r = sh(demo); assert r.returncode == 0, 'demo does not compile on the original tree: ' + r.stderr[-2000:]
    r = sh(out + '/demo', timeout=600); ran.append('demo on original tree: exit %d' % r.returncode)
    if r.returncode != 0: ok = False; print('demo FAILS on the original tree', r.stdout[-500:])
    r = sh('git -C %s apply %s/patch.diff' % (WT, src)); assert r.returncode == 0, 'patch does not apply: ' + r.stderr
    changed = sh('git -C %s diff --name-only' % WT).stdout.split()
    assert all(c.startswith('include/nmtools') for c in changed), changed
    r = sh(demo)
    if r.returncode != 0:
        ok = False; print('patched tree: demo does not compile', r.stderr[-1500:])
    else:
        r = sh(out + '/demo', timeout=600); ran.append('demo on patched tree: exit %d; %s' % (r.returncode, (r.stdout + r.stderr).strip().splitlines()[-1][:200] if (r.stdout + r.stderr).strip() else ''))
        if r.returncode == 0: ok = False; print('demo PASSES on the patched tree')
    def one(t):
        pre = [p for p in SUITES if t.startswith(p)]
        assert pre, 'unknown suite for ' + t
        main, fl = SUITES[max(pre, key=len)]
        b = out + '/' + t.replace('/', '_') + '.bin'
        c = 'g++ -Wno-error -O2 -DNDEBUG -std=c++17 %s -I%s/include -I%s/tests/include %s/%s %s/%s -o %s' % (fl.format(t=WT), WT, WT, WT, main, WT, t, b)
        r = sh(c)
        if r.returncode: return t, 'COMPILE-FAIL', r.stderr[-800:]
        r = sh(b, timeout=900)
        line = [l for l in r.stdout.splitlines() if 'test cases' in l]
        return t, ('pass' if r.returncode == 0 else 'FAIL'), ' '.join((line[-1] if line else '').split())
    with cf.ThreadPoolExecutor(6) as ex:
        for t, st, info in ex.map(one, tests):
            ran.append('patched tree, suite flags: %s -> %s %s' % (t, st, info)); print(t, st, info)
            if st != 'pass': ok = False
finally:
    sh('git -C /repo worktree remove --force ' + WT)
print('\n'.join(ran))
if not ok:
    print('NOT CONFIRMED'); sys.exit(1)
notes = json.load(open(src + '/notes.json'))
prop = [json.loads(l) for l in open(HERE + '/properties.jsonl')]
pid = sid.split('-')[0]
title = [p['title'] for p in prop if p['id'] == pid][0]
d = os.path.join(HERE, 'seeded', sid); os.makedirs(d, exist_ok=True)
shutil.copy(src + '/patch.diff', d); shutil.copy(src + '/demo.cpp', d)
meta = {'property_id': pid, 'property': pid + ' - ' + title, 'files': changed, 'needs': notes.get('needs'), 'why_tests_miss': notes.get('why_tests_miss'),
        'ran_by_author': notes.get('ran'), 'confirmed_by_lead': ran, 'repo_head': sh('git -C /repo rev-parse --short HEAD').stdout.strip(),
        'origin': 'written by a fresh sub-agent given only the property text and a scratch worktree of /repo (nothing from /verif)'}
json.dump(meta, open(d + '/meta.json', 'w'), indent=1)
print('CONFIRMED ->', d)
