import NmVerif.Basic
/-
  Model of nmtools::utils::isequal / isclose (include/nmtools/utility/isequal.hpp, isclose.hpp),
  run-time part.  Which branch is taken is a compile-time fact of the operand types; the model's `Val`
  constructors are those type classes.  Pairings the API rejects at compile time give `notAccepted`.

  Reads are explicit (`l[i]?`): `oob` = the C++ would read outside an operand.
-/
namespace NmVerif.IsEqual
open NmVerif

inductive Val where
  | num (n : Int)
  | idx (l : List Int)                         -- index array (list / vector / std::array of integers)
  | nd (shape : List Nat) (data : List Int)    -- ndarray or view: shape + row-major buffer
  | nothing                                    -- empty nmtools_maybe
  | lit                                        -- the bare literal `meta::Nothing` (type nothing_t), NOT a maybe
  | just (v : Val)                             -- non-empty nmtools_maybe
  | left (v : Val)                             -- nmtools_either, left alternative
  | right (v : Val)                            -- nmtools_either, right alternative
  | unit                                       -- empty tuple
  | pair (a : Val) (b : Val)                   -- tuple = right-nested pairs ending in `unit`
deriving Repr, DecidableEq, Inhabited

inductive Res where
  | val (b : Bool)
  | oob            -- would read outside an operand
  | notAccepted    -- the pairing does not compile
deriving Repr, DecidableEq

/-- element read of an ndarray operand at a multi-index: `apply_at(t, idx)` -/
def ndGet (s : Shape) (d : List Int) (i : Idx) : Option Int := d[computeOffset i (strides s)]?

/-- `apply_at(t, ndindex(shape)[i])` for `i < size` -/
def flatRead (s : Shape) (d : List Int) : List (Option Int) :=
  (List.range (prod s)).map (fun i => ndGet s d (ndindex s i))

/-- index-array branch: length check, then element-wise through `at(t,i)`, `at(u,i)` for `i < len(t)` -/
def isequalIdx (a b : List Int) : Res :=
  if a.length ≠ b.length then .val false
  else
    let ra := (List.range a.length).map (fun i => a[i]?)
    let rb := (List.range a.length).map (fun i => b[i]?)
    if ra.all Option.isSome && rb.all Option.isSome then .val (ra == rb) else .oob

/-- ndarray branch: dim check, shape check, size check, then flat comparison through each side's ndindex -/
def isequalNd (s1 : Shape) (d1 : List Int) (s2 : Shape) (d2 : List Int) : Res :=
  if s1.length ≠ s2.length then .val false
  else if s1 ≠ s2 then .val false
  else if prod s1 ≠ prod s2 then .val false
  else
    let ra := flatRead s1 d1
    let rb := flatRead s2 d2
    if ra.all Option.isSome && rb.all Option.isSome then .val (ra == rb) else .oob

def Res.and : Res → Res → Res
  | .val a, .val b => .val (a && b)
  | .notAccepted, _ => .notAccepted
  | _, .notAccepted => .notAccepted
  | _, _ => .oob

/-- same "concept" (both num, both index array, both ndarray, both none) as `same_concept` demands
    before an either alternative is compared with a plain operand -/
def sameConcept0 : Val → Val → Bool
  | .num _, .num _ => true
  | .idx _, .idx _ => true
  | .nd _ _, .nd _ _ => true
  | _, _ => false

/-- `unwrap_t`: the concept of an either alternative is taken after stripping optionals (maybe<num> counts as num);
    an EMPTY optional alternative then compares false in detail::isequal anyway -/
def unwrapJ : Val → Val
  | .just v => unwrapJ v
  | v => v

def sameConcept (a b : Val) : Bool := sameConcept0 (unwrapJ a) (unwrapJ b)

def isequal : Val → Val → Res
  -- public dispatcher: "comparison of maybe type with nothing type is allowed" (`!static_cast<bool>(maybe)`), both orders;
  -- the literal against anything that is not a maybe (another literal included) yields the fail type ISEQUAL_UNSUPPORTED
  | .lit, .nothing => .val true
  | .nothing, .lit => .val true
  | .lit, .just _ => .val false
  | .just _, .lit => .val false
  | .lit, _ => .notAccepted
  | _, .lit => .notAccepted
  | .nothing, .nothing => .val true
  | .nothing, .just _ => .val false
  | .just _, .nothing => .val false
  | .just a, .just b => isequal a b
  | .nothing, _ => .val false          -- maybe vs plain: empty ≠ anything
  | _, .nothing => .val false
  | .just a, b => isequal a b          -- non-empty maybe vs plain: compare the value
  | a, .just b => isequal a b
  | .left a, .left b => isequal a b
  | .right a, .right b => isequal a b
  | .left _, .right _ => .val false
  | .right _, .left _ => .val false
  | .left a, b => if sameConcept a b then isequal a b else .val false
  | .right a, b => if sameConcept a b then isequal a b else .val false
  | a, .left b => if sameConcept a b then isequal a b else .val false
  | a, .right b => if sameConcept a b then isequal a b else .val false
  | .num a, .num b => .val (a == b)
  | .idx a, .idx b => isequalIdx a b
  | .nd s1 d1, .nd s2 d2 => isequalNd s1 d1 s2 d2
  | .unit, .unit => .val true
  | .pair a as, .pair b bs => (isequal a b).and (isequal as bs)
  | _, _ => .notAccepted               -- includes the static_assert on mismatched tuple sizes

/-! ### SPEC -/

/-- well-formed operand: every ndarray has `len data = prod shape` and positive extents -/
def WF : Val → Prop
  | .nd s d => d.length = prod s ∧ Pos s
  | .just v => WF v
  | .left v => WF v
  | .right v => WF v
  | .pair a b => WF a ∧ WF b
  | .lit => False                      -- the bare literal is not a value (it only occurs as a whole operand, see `isequal_lit_*`)
  | _ => True

/-- reference meaning on arrays: same dimension, same shape, all corresponding elements equal -/
def specNd (s1 : Shape) (d1 : List Int) (s2 : Shape) (d2 : List Int) : Bool :=
  decide (s1 = s2) && decide (d1 = d2)

def specIdx (a b : List Int) : Bool := decide (a = b)

/-! ### isclose (integer model of the element type; `|a-b| < eps`) -/

def closeElem (eps : Int) (a b : Option Int) : Bool :=
  match a, b with
  | some x, some y => decide ((x - y).natAbs < eps)
  | _, _ => false

def iscloseNd (eps : Int) (s1 : Shape) (d1 : List Int) (s2 : Shape) (d2 : List Int) : Res :=
  if s1 ≠ s2 then .val false
  else
    let ra := flatRead s1 d1
    let rb := flatRead s2 d2
    if ra.all Option.isSome && rb.all Option.isSome then
      .val ((List.zipWith (closeElem eps) ra rb).all id)
    else .oob

/-- `isclose(a,b)` without the third argument uses `eps = 1e-6`; on the integer-valued data of the model
    `|x-y| < 1e-6 ↔ x = y ↔ |x-y| < 1` -/
def defaultEps : Int := 1

/-- detail::isclose over the operand grammar (utility/isclose.hpp:147-309) and the tuple loop of the public dispatcher.
    The `either vs plain` branches forward the caller's `eps` (repaired by the fix commit "isclose passes the caller's
    tolerance on ..."; before it they called `isclose(*ptr,u)` and compared with the default tolerance). -/
def isclose (eps : Int) : Val → Val → Res
  | .lit, _ => .notAccepted            -- isclose has no Nothing-literal branch (fail type / does not compile)
  | _, .lit => .notAccepted
  | .nothing, .nothing => .val true
  | .nothing, .just _ => .val false
  | .just _, .nothing => .val false
  | .just a, .just b => isclose eps a b
  | .nothing, _ => .val false
  | _, .nothing => .val false
  | .just a, b => isclose eps a b
  | a, .just b => isclose eps a b
  | .left a, .left b => isclose eps a b
  | .right a, .right b => isclose eps a b
  | .left _, .right _ => .val false
  | .right _, .left _ => .val false
  | .left a, b => if sameConcept a b then isclose eps a b else .val false
  | .right a, b => if sameConcept a b then isclose eps a b else .val false
  | a, .left b => if sameConcept a b then isclose eps a b else .val false
  | a, .right b => if sameConcept a b then isclose eps a b else .val false
  | .num a, .num b => .val (decide ((a - b).natAbs < eps))
  | .nd s1 d1, .nd s2 d2 => iscloseNd eps s1 d1 s2 d2
  | .unit, .unit => .val true
  | .pair a as, .pair b bs => (isclose eps a b).and (isclose eps as bs)
  | _, _ => .notAccepted

def specCloseNd (eps : Int) (s1 : Shape) (d1 : List Int) (s2 : Shape) (d2 : List Int) : Bool :=
  decide (s1 = s2) && (List.zipWith (fun x y => decide ((x - y).natAbs < eps)) d1 d2).all id

/-- REFERENCE for isclose over the operand grammar: the same alternative-by-alternative matching with the caller's
    tolerance used for EVERY element comparison (what "all element differences are below eps" demands) -/
def iscloseRef (eps : Int) : Val → Val → Res
  | .lit, _ => .notAccepted
  | _, .lit => .notAccepted
  | .nothing, .nothing => .val true
  | .nothing, .just _ => .val false
  | .just _, .nothing => .val false
  | .just a, .just b => iscloseRef eps a b
  | .nothing, _ => .val false
  | _, .nothing => .val false
  | .just a, b => iscloseRef eps a b
  | a, .just b => iscloseRef eps a b
  | .left a, .left b => iscloseRef eps a b
  | .right a, .right b => iscloseRef eps a b
  | .left _, .right _ => .val false
  | .right _, .left _ => .val false
  | .left a, b => if sameConcept a b then iscloseRef eps a b else .val false
  | .right a, b => if sameConcept a b then iscloseRef eps a b else .val false
  | a, .left b => if sameConcept a b then iscloseRef eps a b else .val false
  | a, .right b => if sameConcept a b then iscloseRef eps a b else .val false
  | .num a, .num b => .val (decide ((a - b).natAbs < eps))
  | .nd s1 d1, .nd s2 d2 => .val (specCloseNd eps s1 d1 s2 d2)
  | .unit, .unit => .val true
  | .pair a as, .pair b bs => (iscloseRef eps a b).and (iscloseRef eps as bs)
  | _, _ => .notAccepted

end NmVerif.IsEqual
