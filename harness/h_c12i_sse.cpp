// C12 harness, integer element types, x86 SSE context (128 bit); flags as h_c12_sse.cpp
#include "nmtools/array/eval/simd/x86_sse.hpp"
#define C12_CTX  nmtools::array::simd::x86_SSE
#define C12_BITS 128
// simd_op_t<x86_sse_t,T>::mul: _mm_mullo_epi16 / _mm_mullo_epi32 only
#define C12I_NO_MUL8
#define C12I_NO_MUL64
#include "h_c12_int_common.hpp"
