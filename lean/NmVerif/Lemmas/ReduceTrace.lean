import NmVerif.Lemmas.Reduce
import NmVerif.Lemmas.LinalgTrace
import NmVerif.Index.ReduceTrace
/-
  Lemmas for `trace_eq_sum_diag` (C08): a reduction over the last axis folds `j ++ [0], j ++ [1], …`; the diagonal
  index map is NumPy's (lemmas of C16: `diagonalFill_eq_placeIdx`, `placeIdx_inShape`).
-/
namespace NmVerif.Reduce
open NmVerif

theorem normAxis_neg_one (m : Nat) : normAxis (m+1) (-1) = m := by
  unfold normAxis
  have : (-1 : Int) % ((m+1 : Nat) : Int) = m := by
    rw [← Int.add_emod_right, Int.emod_eq_of_lt (by omega) (by omega)]
    omega
  rw [this]; simp

theorem removeDimsLoop_last (p : Nat → Bool) (len : Nat) :
    ∀ (rest : Shape) (i : Nat), (∀ k, k < rest.length → p (i + k) = false) → p (i + rest.length) = true →
      removeDimsLoop p false i (rest ++ [len]) = rest := by
  intro rest
  induction rest with
  | nil => intro i _ h; simp at h; simp [removeDimsLoop, h]
  | cons a t ih =>
    intro i h1 h2
    have h0 : p i = false := by simpa using h1 0 (by simp)
    simp only [List.cons_append, removeDimsLoop, h0, Bool.false_and, Bool.false_eq_true, if_false]
    rw [ih (i+1) (fun k hk => by rw [← h1 (k+1) (by simpa using hk)]; congr 1; omega)
      (by rw [← h2]; congr 1; simp; omega)]

theorem slicesL_last (p : Nat → Bool) (len : Nat) :
    ∀ (rest : Shape) (i : Nat) (j : Idx), j.length = rest.length →
      (∀ k, k < rest.length → p (i + k) = false) → p (i + rest.length) = true →
      slicesL p false i j (rest ++ [len]) = some (j.map (fun x => (x, x+1)) ++ [(0, len)]) := by
  intro rest
  induction rest with
  | nil =>
    intro i j hj _ h
    have : j = [] := List.length_eq_zero_iff.1 hj
    subst this
    simp at h
    simp [slicesL, h]
  | cons a t ih =>
    intro i j hj h1 h2
    have h0 : p i = false := by simpa using h1 0 (by simp)
    cases j with
    | nil => simp at hj
    | cons j0 j' =>
      simp only [List.cons_append, slicesL, h0, Bool.false_eq_true, if_false, List.map_cons]
      rw [ih (i+1) j' (by simpa using hj) (fun k hk => by rw [← h1 (k+1) (by simpa using hk)]; congr 1; omega)
        (by rw [← h2]; congr 1; simp; omega)]
      rfl

theorem boxIdx_last (len : Nat) : ∀ (j : Idx),
    boxIdx (j.map (fun x => (x, x+1)) ++ [(0, len)]) = (List.range len).map (fun i => j ++ [i]) := by
  intro j
  induction j with
  | nil =>
    simp only [List.map_nil, List.nil_append, boxIdx, Nat.sub_zero, List.map_cons, List.map_nil]
    rw [← List.range_eq_range']
    induction (List.range len) with
    | nil => rfl
    | cons x xs ih => simp [List.flatMap_cons, ih]
  | cons x xs ih =>
    simp only [List.map_cons, List.cons_append, boxIdx, Nat.add_sub_cancel_left, List.range'_one,
      List.flatMap_cons, List.flatMap_nil, List.append_nil, ih, List.map_map]
    rfl

/-- reducing the last axis: result shape = the other extents -/
theorem specShape_last (rest : Shape) (len : Nat) : specShape (rest ++ [len]) [rest.length] false = rest := by
  rw [specShape_eq_loop (fun k => decide (k ∈ [rest.length])) _ false _ (fun _ _ => rfl)]
  apply removeDimsLoop_last
  · intro k hk; simp; omega
  · simp

/-- reducing the last axis: result index `j` is fed by `j ++ [0], j ++ [1], …` in that order -/
theorem addressed_last (rest : Shape) (len : Nat) (j : Idx) (hj : InShape j rest) :
    addressed (rest ++ [len]) [rest.length] false j = (List.range len).map (fun i => j ++ [i]) := by
  let p : Nat → Bool := fun k => decide (k ∈ [rest.length])
  have hp1 : ∀ k, k < rest.length → p (0 + k) = false := by intro k hk; simp [p]; omega
  have hp2 : p (0 + rest.length) = true := by simp [p]
  have hrd := removeDimsLoop_last p len rest 0 hp1 hp2
  obtain ⟨sl, h1, h3⟩ := slicesL_box_all p false (rest ++ [len]) 0 j (by rw [hrd]; exact hj)
  rw [slicesL_last p len rest 0 j hj.length_eq hp1 hp2, Option.some.injEq] at h1
  rw [← h1, boxIdx_last] at h3
  rw [h3]
  simp only [addressed]
  apply List.filter_congr
  intro x hx
  rw [proj_eq_loop p _ false x (rest ++ [len]).length (mem_allIdx_length hx) (fun _ _ => rfl)]

theorem readAt_ofNat {α : Type} (a : Arr α) (i : Idx) (h : InShape i a.shape) :
    readAt a (i.map (fun (x : Nat) => (x : Int))) = some (a.get i) := by
  unfold readAt
  have hm : (i.map (fun (x : Nat) => (x : Int))).map Int.toNat = i := by
    rw [List.map_map]; conv => rhs; rw [← List.map_id i]
    apply List.map_congr_left; intro x _; simp
  rw [hm, if_pos ⟨by intro x hx; simp only [List.mem_map] at hx; obtain ⟨y, _, rfl⟩ := hx; omega, h⟩]

open Linalg in
/-- `view::trace` on every accepted axis pair and every offset with a non-empty diagonal: NumPy's shape, and per result
    index the diagonal elements folded in increasing order; every read inside the source shape -/
theorem trace_spec {α : Type} (add : α → α → α) (a : Arr α) (off axis1 axis2 : Int) (n1 n2 : Nat)
    (h1 : ValidAxis a.shape.length axis1) (h2 : ValidAxis a.shape.length axis2)
    (h12 : normAxis a.shape.length axis1 ≠ normAxis a.shape.length axis2)
    (hn1 : a.shape[normAxis a.shape.length axis1]? = some n1)
    (hn2 : a.shape[normAxis a.shape.length axis2]? = some n2)
    (hlo : (-off).toNat < n1) (hhi : off.toNat < n2) :
    ∃ v sp, trace add a off axis1 axis2 = some v ∧
      specTrace a.shape off (normAxis a.shape.length axis1) (normAxis a.shape.length axis2) = some sp ∧
      v.shape = sp.shape ∧
      ∀ j, InShape j sp.shape →
        v.get j = specTraceElem add a sp j ∧ sp.get j ≠ [] ∧ ∀ i ∈ sp.get j, InShape i a.shape := by
  generalize hs : a.shape = s at *
  generalize hax1 : normAxis s.length axis1 = ax1 at *
  generalize hax2 : normAxis s.length axis2 = ax2 at *
  let rest := ((List.range s.length).filter (fun i => decide (i ≠ ax1 ∧ i ≠ ax2))).filterMap (fun i => s[i]?)
  let len := min (n1 - (-off).toNat) (n2 - off.toNat)
  have hlen : 0 < len := by simp only [len]; omega
  have hsd : shapeDiagonal s off ax1 ax2 = some (rest ++ [len]) := by
    unfold shapeDiagonal
    simp only [hn1, hn2]
    simp only [rest, len]
    congr 2; congr 1
    repeat' split
    all_goals omega
  let dg : Arr (Option α) := ⟨rest ++ [len], fun d => readAt a (diagonalIdx s.length d off ax1 ax2)⟩
  have hdiag : diagonal a off axis1 axis2 = some dg := by
    unfold diagonal
    simp only [hs, normalizeAxis_of_valid h1, normalizeAxis_of_valid h2, hax1, hax2, if_neg h12, hsd, Option.map_some]
    rfl
  have hv : ValidAxes dg.shape.length (some [-1]) := by
    refine ⟨?_, by simp⟩
    intro x hx
    simp only [List.mem_singleton] at hx
    subst hx
    simp only [dg, List.length_append, List.length_singleton, ValidAxis]
    omega
  have hset : axisSet dg.shape.length (some [-1]) = [rest.length] := by
    simp only [dg, axisSet, List.length_append, List.length_singleton, List.map_cons, List.map_nil, normAxis_neg_one]
  have hR : PosAxes dg.shape (axisSet dg.shape.length (some [-1])) := by
    rw [hset]
    intro k hk e he
    simp only [List.mem_singleton] at hk
    subst hk
    simp only [dg, List.getElem?_append_right (Nat.le_refl _), Nat.sub_self, List.getElem?_cons_zero,
      Option.some.injEq] at he
    omega
  have hshape : specShape dg.shape (axisSet dg.shape.length (some [-1])) false = rest := by
    rw [hset]; exact specShape_last rest len
  have hsp : specTrace s off ax1 ax2 = some ⟨rest, fun d =>
      (List.range len).map (fun i => placeIdx [ax1, ax2] [i + (-off).toNat, i + off.toNat] (List.range s.length) d)⟩ := by
    unfold specTrace
    simp only [hn1, hn2]
    rw [if_pos h12]
  refine ⟨⟨rest, fun j => (reduceElem (optOp add) none dg (some [-1]) false j).join⟩, _, ?_, hsp, rfl, ?_⟩
  · unfold trace
    simp only [hdiag, Option.bind_some, reduce, removeDims_eq_spec dg.shape (some [-1]) false hv, hshape, Option.map_some]
  · intro j hj
    simp only at hj
    have hlenfree : ((List.range s.length).filter (fun i => decide (i ≠ ax1 ∧ i ≠ ax2))).length ≤ j.length := by
      have h1 := hj.length_eq
      simp only [rest] at h1
      rw [length_filterMap_getElem? s _ (fun i hi => List.mem_range.1 (List.mem_filter.1 hi).1)] at h1
      omega
    have hterm : ∀ i, i < len → InShape (placeIdx [ax1, ax2] [i + (-off).toNat, i + off.toNat] (List.range s.length) j) s := by
      intro i hi
      have := placeIdx_inShape s ax1 ax2 (i + (-off).toNat) (i + off.toNat) n1 n2 h12 hn1 hn2 (by simp only [len] at hi; omega)
        (by simp only [len] at hi; omega) (List.range s.length) j (fun k hk => List.mem_range.1 hk) hj
      rwa [filterMap_getElem?_range] at this
    have hread : ∀ i ∈ List.range len, dg.get (j ++ [i]) =
        some (a.get (placeIdx [ax1, ax2] [i + (-off).toNat, i + off.toNat] (List.range s.length) j)) := by
      intro i hi
      have hi' := List.mem_range.1 hi
      simp only [dg]
      unfold diagonalIdx
      have hgl : (j ++ [i]).getLast? = some i := by simp
      rw [hgl]
      simp only
      have hc1 : (i : Int) + (if off < 0 then -off else 0) = ((i + (-off).toNat : Nat) : Int) := by split <;> omega
      have hc2 : (i : Int) + (if off > 0 then off else 0) = ((i + off.toNat : Nat) : Int) := by split <;> omega
      rw [hc1, hc2]
      rw [diagonalFill_eq_placeIdx ax1 ax2 (i + (-off).toNat) (i + off.toNat) h12 (List.range s.length) j [i] hlenfree]
      exact readAt_ofNat a _ (by rw [hs]; exact hterm i hi')
    refine ⟨?_, ?_, ?_⟩
    · show (reduceElem (optOp add) none dg (some [-1]) false j).join = _
      rw [reduceElem_eq_spec_posAxes (optOp add) none dg (some [-1]) false hv hR j (by rw [hshape]; exact hj)]
      simp only [specReduceElem, hset]
      rw [show dg.shape = rest ++ [len] from rfl, addressed_last rest len j hj, List.map_map]
      rw [List.map_congr_left (g := fun i => some (a.get (placeIdx [ax1, ax2] [i + (-off).toNat, i + off.toNat] (List.range s.length) j)))
        (fun i hi => by simpa [Function.comp] using hread i hi)]
      rw [foldFirst_optOp_some add (fun i => a.get (placeIdx [ax1, ax2] [i + (-off).toNat, i + off.toNat] (List.range s.length) j))]
      simp only [specTraceElem, List.map_map]
      rfl
    · simp only [ne_eq, List.map_eq_nil_iff, List.range_eq_nil]
      omega
    · intro idx hidx
      simp only [List.mem_map, List.mem_range] at hidx
      obtain ⟨i, hi, rfl⟩ := hidx
      exact hterm i hi

end NmVerif.Reduce
