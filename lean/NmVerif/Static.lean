import NmVerif.Basic
/-
  NmVerif.Static — C11: the abstract domain of COMPILE-TIME knowledge about a shape, and the transfer
  functions the nmtools metafunctions implement (core Lean only: linked into the driver).

  What the library knows statically about an array / view type is (i) the *kind of type* `nmtools::shape(x)` returns
  and (ii) what `meta::fixed_size_v / bounded_size_v` report:

    ShapeK.const l      tuple of integral constants              fixed_shape = l
    ShapeK.clipped b    tuple / array of clipped_size_t<b_i>      extents are run-time values <= b_i, rank known
    ShapeK.fixedDim k   std::array<size_t,k>                     rank known
    ShapeK.boundedDim k static_vector<size_t,k>                  rank <= k
    ShapeK.dyn          std::vector<size_t>
    SizeK.known n       fixed_size_v = n        SizeK.atMost n   bounded_size_v = n (no fixed size)     SizeK.any
    SizeK.knownB n b    fixed_size_v = n and bounded_size_v = b (matmul of constant shapes reports both, differently)

  The five traits printed by the harness are projections (`SInfo.fixedShape` ... `SInfo.boundedSize`), mirroring
  the `decorator_t` defaults (decorator.hpp:1067-1225).  `SInfo.seen` is what the NEXT view sees of an operand
  through `shape<true>(x)` / `size<true>(x)` (utility/shape.hpp:233-290, 407-450).

  Transfer functions (one per view function; `none` = the combination does not compile / is not modelled):
    indexingInfo       indexing.hpp:418-477  fixed_shape / fixed_size / bounded_size from dst_shape_type, dst_size_type
    transferTranspose  index/transpose.hpp:88-150 (shape_transpose_t), view/transpose.hpp (dst_size = src_size)
    transferReshape    index/reshape.hpp:180-330, view/reshape.hpp (dst_size = src_size)
    transferFlatten    view/flatten.hpp (reshape to {size<true>})
    transferBroadcastTo view/broadcast_to.hpp (dst_shape_type = the argument's type, dst_size = product type)
    transferTile       index/tile.hpp (shape_tile_t), view/tile.hpp (dst_size = product type)
    transferExpandDims index/expand_dims.hpp + reshape
    transferSqueeze    index/squeeze.hpp + reshape
    transferReduce     index/remove_dims.hpp, view/ufunc/reduce.hpp:542-566 + decorator default bounded_size
    transferUfunc1/2   index/ufunc.hpp, index/broadcast_shape.hpp:307-558
    transferConcat     index/concatenate.hpp + decorator default (sum of the operands' sizes)
-/
namespace NmVerif.Static
open NmVerif

inductive ShapeK where
  | const (s : List Nat)
  | clipped (b : List Nat)
  | fixedDim (k : Nat)
  | boundedDim (k : Nat)
  | dyn
  deriving DecidableEq, Repr

inductive SizeK where
  | known (n : Nat)
  | atMost (n : Nat)
  | any
  /-- fixed_size_v = n next to a DIFFERENT bounded_size_v = b (view::matmul of two constant-shape operands) -/
  | knownB (n b : Nat)
  deriving DecidableEq, Repr

structure SInfo where
  shape : ShapeK
  size : SizeK
  deriving DecidableEq, Repr

/-- pointwise `≤` of two lists of equal length -/
def LeAll : List Nat → List Nat → Prop
  | [], [] => True
  | a :: as, b :: bs => a ≤ b ∧ LeAll as bs
  | _, _ => False

instance decLeAll : (a b : List Nat) → Decidable (LeAll a b)
  | [], [] => isTrue trivial
  | a :: as, b :: bs =>
      match Nat.decLe a b, decLeAll as bs with
      | isTrue h1, isTrue h2 => isTrue ⟨h1, h2⟩
      | isFalse h1, _ => isFalse (fun h => h1 h.1)
      | _, isFalse h2 => isFalse (fun h => h2 h.2)
  | [], _ :: _ => isFalse (fun h => h)
  | _ :: _, [] => isFalse (fun h => h)

/-! ### concretisation -/

def ShapeK.γ : ShapeK → Shape → Prop
  | .const l, s => s = l
  | .clipped b, s => LeAll s b
  | .fixedDim k, s => s.length = k
  | .boundedDim k, s => s.length ≤ k
  | .dyn, _ => True

def SizeK.γ : SizeK → Nat → Prop
  | .known n, m => m = n
  | .atMost n, m => m ≤ n
  | .any, _ => True
  | .knownB n b, m => m = n ∧ m ≤ b

/-- the run-time shape `s` is an instance of the static knowledge `i` -/
def SInfo.γ (i : SInfo) (s : Shape) : Prop := i.shape.γ s ∧ i.size.γ (prod s)

instance (k : ShapeK) (s : Shape) : Decidable (k.γ s) := by
  cases k <;> simp only [ShapeK.γ] <;> exact inferInstance
instance (k : SizeK) (n : Nat) : Decidable (k.γ n) := by
  cases k <;> simp only [SizeK.γ] <;> exact inferInstance
instance (i : SInfo) (s : Shape) : Decidable (i.γ s) := by
  unfold SInfo.γ; exact inferInstance

/-! ### the five traits (what `meta::fixed_shape_v` ... report for a type with this knowledge) -/

def ShapeK.len? : ShapeK → Option Nat
  | .const l => some l.length
  | .clipped b => some b.length
  | .fixedDim k => some k
  | _ => none

def SInfo.fixedShape (i : SInfo) : Option (List Nat) := match i.shape with | .const l => some l | _ => none
def SInfo.fixedDim (i : SInfo) : Option Nat := i.shape.len?
def SInfo.boundedDim (i : SInfo) : Option Nat := match i.shape with | .boundedDim k => some k | s => s.len?
def SInfo.fixedSize (i : SInfo) : Option Nat := match i.size with | .known n => some n | .knownB n _ => some n | _ => none
def SInfo.boundedSize (i : SInfo) : Option Nat := match i.size with | .known n => some n | .atMost n => some n | .any => none | .knownB _ b => some b

/-! ### what a view sees of its operand -/

/-- type of `index::product(shape)` -/
def productK : ShapeK → SizeK
  | .const l => .known (prod l)
  | .clipped b => .atMost (prod b)
  | _ => .any

/-- `shape<true>(x)`, `size<true>(x)` -/
def SInfo.seen (i : SInfo) : SInfo :=
  { shape := i.shape
    size := match i.size with
      | .any => (match i.shape with
          | .const l => .atMost (prod l)
          | .clipped b => .atMost (prod b)
          | _ => .any)
      | .knownB n _ => .known n      -- size<true> prefers fixed_size_v
      | z => z }

/-- traits of `decorator_t<indexing_t, array, indexer>` from the indexer's dst_shape_type / dst_size_type -/
def indexingInfo (d : ShapeK) (z : SizeK) : SInfo :=
  { shape := d
    size := match z with
      | .known n => .known n
      | _ => match d with
        | .const l => .known (prod l)
        | _ => match z with
          | .atMost n => .atMost n
          | _ => match d with
            | .clipped b => .atMost (prod b)
            | _ => .any }

inductive LenK where
  | fixed (n : Nat)
  | bounded (n : Nat)
  | dyn
  deriving DecidableEq, Repr

def ShapeK.lenK : ShapeK → LenK
  | .const l => .fixed l.length
  | .clipped b => .fixed b.length
  | .fixedDim k => .fixed k
  | .boundedDim k => .bounded k
  | .dyn => .dyn

/-- run-time index container of that length kind: `array<size_t,n>` / `static_vector<size_t,n>` / `vector` -/
def LenK.toShapeK : LenK → ShapeK
  | .fixed n => .fixedDim n
  | .bounded n => .boundedDim n
  | .dyn => .dyn

/-! ### leaves (array::ndarray_t<buffer, shape buffer>, fixed_ndarray): own traits, ndarray.hpp:238-388 -/

/-- kinds of the generator: cs fx (constant shape), cl cld cla (clipped), fd fdf fdh (fixed dim), bd (bounded dim), dy -/
def leafInfo (kind : String) (P : List Nat) : Option SInfo :=
  let mx := P.foldl max 0
  match kind with
  | "cs" => some ⟨.const P, .known (prod P)⟩
  | "fx" => some ⟨.const P, .known (prod P)⟩
  | "cl" => some ⟨.clipped P, .atMost (prod P)⟩
  | "cld" => some ⟨.clipped P, .any⟩
  | "cla" => some ⟨.clipped (List.replicate P.length mx), .any⟩
  | "fd" => some ⟨.fixedDim P.length, .any⟩
  | "fdf" => some ⟨.fixedDim P.length, .known (prod P)⟩
  | "fdh" => some ⟨.fixedDim P.length, .atMost (prod P)⟩
  | "bd" => some ⟨.boundedDim (P.length + 1), .any⟩
  | "dy" => some ⟨.dyn, .any⟩
  | _ => none

/-! ### reference run-time shape functions (NumPy semantics) -/

/-- `s[a]` for every `a` of the list, `none` when one is out of range -/
def gather : List Nat → Shape → Option Shape
  | [], _ => some []
  | a :: as, s =>
    match s[a]?, gather as s with
    | some x, some r => some (x :: r)
    | _, _ => none

/-- `np.transpose(a, axes).shape`: `axes = None` reverses, otherwise `axes` must be a permutation of `0..dim-1` -/
def refTranspose (axes : Option (List Nat)) (s : Shape) : Option Shape :=
  match axes with
  | none => some s.reverse
  | some p => if p.isPerm (List.range s.length) then gather p s else none

/-- replace the negative entries by `q` -/
def fillNeg (q : Nat) (t : List Int) : List Nat := t.map (fun x => if x < 0 then q else x.toNat)

/-- product of the non-negative entries -/
def knownProd : List Int → Nat
  | [] => 1
  | x :: xs => if x < 0 then knownProd xs else x.toNat * knownProd xs

/-- `np.reshape(a, t).shape`: at most one `-1`, which is inferred -/
def refReshape (t : List Int) (s : Shape) : Option Shape :=
  let cnt := t.countP (· < 0)
  if cnt = 0 then (if knownProd t = prod s then some (fillNeg 0 t) else none)
  else if cnt = 1 ∧ t.all (fun x => x ≥ -1) ∧ 0 < knownProd t ∧ prod s % knownProd t = 0
    then some (fillNeg (prod s / knownProd t) t) else none

def refFlatten (s : Shape) : Shape := [prod s]

/-- right-aligned compatibility of `s` with the target `t` (reversed lists, heads are the last axes) -/
def bcastToRev : List Nat → List Nat → Bool
  | [], _ => true
  | _ :: _, [] => false
  | a :: as, b :: bs => (a == b || a == 1) && bcastToRev as bs

def refBroadcastTo (t : List Nat) (s : Shape) : Option Shape :=
  if bcastToRev s.reverse t.reverse then some t else none

/-- right-aligned product -/
def tileRev : List Nat → List Nat → List Nat
  | [], rs => rs
  | ss, [] => ss
  | a :: as, r :: rs => a * r :: tileRev as rs

def refTile (reps : List Nat) (s : Shape) : Shape := (tileRev s.reverse reps.reverse).reverse

def insertSorted (a : Nat) : List Nat → List Nat
  | [] => [a]
  | b :: bs => if a ≤ b then a :: b :: bs else b :: insertSorted a bs

def sortAsc (l : List Nat) : List Nat := l.foldr insertSorted []

def insertOne (l : Shape) (a : Nat) : Option Shape := if a ≤ l.length then some (l.insertIdx a 1) else none

/-- `np.expand_dims(a, axes).shape`: distinct axes, inserted in ascending order (each must be a position of the
    shape built so far — for distinct axes this is NumPy's `axis < a.ndim + len(axes)`) -/
def refExpandDims (axes : List Nat) (s : Shape) : Option Shape :=
  if axes.Nodup then (sortAsc axes).foldlM insertOne s else none

def refSqueeze (s : Shape) : Shape := s.filter (· ≠ 1)

def eraseOne (keepdims : Bool) (l : Shape) (a : Nat) : Option Shape :=
  if a < l.length then some (if keepdims then l.set a 1 else l.eraseIdx a) else none

/-- shape of `np.sum(a, axis=axes, keepdims=…)`: distinct axes of the array, removed (or set to 1) from the last to the first -/
def refReduce (axes : List Nat) (keepdims : Bool) (s : Shape) : Option Shape :=
  if axes.Nodup then (sortAsc axes).reverse.foldlM (eraseOne keepdims) s else none

/-- NumPy broadcasting of two shapes, on reversed lists -/
def bcastRev : List Nat → List Nat → Option (List Nat)
  | [], bs => some bs
  | as, [] => some as
  | a :: as, b :: bs =>
    if a == b || b == 1 then (bcastRev as bs).map (a :: ·)
    else if a == 1 then (bcastRev as bs).map (b :: ·)
    else none

def refBroadcast (a b : Shape) : Option Shape := (bcastRev a.reverse b.reverse).map List.reverse

def concatAt : Nat → Shape → Shape → Option Shape
  | 0, a :: as, b :: bs => if as == bs then some ((a + b) :: as) else none
  | k + 1, a :: as, b :: bs => if a == b then (concatAt k as bs).map (a :: ·) else none
  | _, _, _ => none

def refConcat (axis : Option Nat) (a b : Shape) : Option Shape :=
  match axis with
  | none => some [prod a + prod b]
  | some k => if k < a.length then concatAt k a b else none

/-! ### argument kinds -/

/-- index-array argument: compile-time tuple / clipped (values run time, maxima static) / `array<int,N>` / `vector<int>` /
    `static_vector<int,cap>` (length run time, at most `cap`) -/
inductive ArrK where
  | ct (v : List Nat)
  | cl (maxima : List Nat)
  | rt (n : Nat)
  | rtv
  | bnd (cap : Nat)
  deriving DecidableEq, Repr

/-- the run-time value `v` is admitted by the argument kind -/
def ArrK.γ : ArrK → List Nat → Prop
  | .ct c, v => v = c
  | .cl m, v => LeAll v m
  | .rt n, v => v.length = n
  | .rtv, _ => True
  | .bnd cap, v => v.length ≤ cap

def ArrK.toShapeK : ArrK → ShapeK
  | .ct v => .const v
  | .cl m => .clipped m
  | .rt n => .fixedDim n
  | .rtv => .dyn
  | .bnd cap => .boundedDim cap

def ArrK.lenK : ArrK → LenK
  | .ct v => .fixed v.length
  | .cl m => .fixed m.length
  | .rt n => .fixed n
  | .rtv => .dyn
  | .bnd cap => .bounded cap

/-- axis argument: none / compile-time scalar / compile-time tuple / run-time scalar / run-time `array<int,N>` -/
inductive AxisK where
  | none
  | cts (a : Nat)
  | ctt (axes : List Nat)
  | rts
  | rt (n : Nat)
  deriving DecidableEq, Repr

/-- the run-time list of axes is admitted by the axis kind (`none` is handled by the operations that accept it) -/
def AxisK.γ : AxisK → List Nat → Prop
  | .none, _ => False
  | .cts a, v => v = [a]
  | .ctt c, v => v = c
  | .rts, v => v.length = 1
  | .rt n, v => v.length = n

/-- number of axes named, when static -/
def AxisK.count : AxisK → Option Nat
  | .none => Option.none
  | .cts _ => some 1
  | .ctt c => some c.length
  | .rts => some 1
  | .rt n => some n

/-! ### transfer functions -/

def transferTranspose (ax : Option ArrK) (i : SInfo) : Option SInfo :=
  let a := i.seen
  let d : Option ShapeK :=
    match a.shape, ax with
    | .const l, none => some (.const l.reverse)
    | .clipped b, none => some (.clipped b.reverse)
    | .const l, some (.ct p) => (refTranspose (some p) l).map .const
    | .clipped b, some (.ct p) => (refTranspose (some p) b).map .clipped
    | .const l, some _ => some (.fixedDim l.length)
    | .clipped b, some _ => some (.fixedDim b.length)
    | sh, _ => some sh.lenK.toShapeK
  d.map (fun d => indexingInfo d a.size)

def transferReshape (t : ArrK) (i : SInfo) : Option SInfo :=
  some (indexingInfo t.toShapeK i.seen.size)

def transferFlatten (i : SInfo) : Option SInfo :=
  match i.seen.size with
  | .known n => transferReshape (.ct [n]) i
  | .atMost n => transferReshape (.cl [n]) i
  | .any => transferReshape (.rt 1) i
  | .knownB n _ => transferReshape (.ct [n]) i

def transferBroadcastTo (t : ArrK) (_i : SInfo) : Option SInfo :=
  some (indexingInfo t.toShapeK (productK t.toShapeK))

def tileLenK : LenK → LenK → LenK
  | .fixed n, .fixed m => .fixed (max n m)
  | .fixed n, .bounded m => .bounded (max n m)
  | .bounded n, .fixed m => .bounded (max n m)
  | .bounded n, .bounded m => .bounded (max n m)
  | _, _ => .dyn

def transferTile (reps : ArrK) (i : SInfo) : Option SInfo :=
  let a := i.seen
  let d : ShapeK :=
    match a.shape, reps with
    | .const l, .ct r => .const (refTile r l)
    | sh, r => (tileLenK sh.lenK r.lenK).toShapeK
  some (indexingInfo d (productK d))

def LenK.add (m : Nat) : LenK → LenK
  | .fixed n => .fixed (n + m)
  | .bounded n => .bounded (n + m)
  | .dyn => .dyn

/-- kind of the shape argument handed to `view::reshape` by expand_dims / squeeze -/
def reshapeByKind (d : ShapeK) (i : SInfo) : SInfo := indexingInfo d i.seen.size

def transferExpandDims (ax : AxisK) (i : SInfo) : Option SInfo :=
  let a := i.seen
  match ax with
  | .none => none
  | .cts x =>
    (match a.shape with
     | .const l => (refExpandDims [x] l).map (fun r => reshapeByKind (.const r) i)
     | sh => some (reshapeByKind (sh.lenK.add 1).toShapeK i))
  | .rts => some (reshapeByKind (a.shape.lenK.add 1).toShapeK i)
  | .ctt c => some (reshapeByKind (a.shape.lenK.add c.length).toShapeK i)
  | .rt n => some (reshapeByKind (a.shape.lenK.add n).toShapeK i)

def transferSqueeze (i : SInfo) : Option SInfo :=
  let a := i.seen
  let d : ShapeK :=
    match a.shape with
    | .const l => .const (refSqueeze l)
    -- a clipped shape is squeezed at run time like any other run-time shape (index/squeeze.hpp, after the C11 fix)
    | .clipped b => if b.length > 0 then .boundedDim b.length else .dyn
    | .fixedDim k => if k > 0 then .boundedDim k else .dyn
    | .boundedDim k => if k > 0 then .boundedDim k else .dyn
    | .dyn => .dyn
  some (reshapeByKind d i)

def LenK.sub (m : Nat) : LenK → Option LenK
  | .fixed n => if n > m then some (.fixed (n - m)) else none
  | .bounded n => if n > m then some (.bounded (n - m)) else none
  | .dyn => some .dyn

/-- axes known at compile time -/
def AxisK.static? : AxisK → Option (List Nat)
  | .cts x => some [x]
  | .ctt c => some c
  | _ => Option.none

/-- remove_dims on a shape that is not (constant shape, constant axes): only the rank is tracked -/
def reduceGeneric (ax : AxisK) (keepdims : Bool) (sh : ShapeK) : Option ShapeK :=
  match ax.count with
  | Option.none => Option.none
  | some n => if keepdims then some sh.lenK.toShapeK else (sh.lenK.sub n).map LenK.toShapeK

/-- `resolve_optype<remove_dims_t>` (remove_dims.hpp:158-256) -/
def reduceShapeK (ax : AxisK) (keepdims : Bool) (sh : ShapeK) : Option ShapeK :=
  match sh, ax.static? with
  | .const l, some axes => (refReduce axes keepdims l).map .const
  | _, _ => reduceGeneric ax keepdims sh

/-- `reduce_t` traits: fixed_size only from a constant shape (reduce.hpp:542-566), bounded_size = decorator default = the
    operand's OWN bounded size -/
def reduceInfo (own : SizeK) (d : ShapeK) : SInfo :=
  ⟨d, match d with
      | .const l => .known (prod l)
      | _ => match own with | .known n => .atMost n | .atMost n => .atMost n | .any => .any | .knownB _ b => .atMost b⟩

def transferReduce (ax : AxisK) (keepdims : Bool) (i : SInfo) : Option SInfo :=
  (reduceShapeK ax keepdims i.seen.shape).map (reduceInfo i.size)

def ufuncInfo (k : ShapeK) (z : SizeK) : SInfo :=
  ⟨k, match k with | .const l => .known (prod l) | .clipped b => .atMost (prod b) | _ => z⟩

def transferUfunc1 (i : SInfo) : Option SInfo :=
  let a := i.seen
  some (ufuncInfo a.shape a.size)

/-- static values of a constant / clipped shape type (`to_value_v`: the maxima for a clipped one) -/
def ShapeK.cvalue : ShapeK → Option (List Nat)
  | .const l => some l
  | .clipped b => some b
  | _ => none

def ShapeK.isConst : ShapeK → Bool
  | .const _ => true
  | _ => false

/-- branch "c_value of the longer operand, all entries > 1": tuple of clipped_size_t<I> (broadcast_shape.hpp:373-396) -/
def bcastStaticTuple (va : List Nat) (arr : ShapeK) : ShapeK :=
  if va.all (· > 1) then .clipped va else arr

/-- branch "fixed length c_value against a bounded partner": array of clipped<max> unless the minimum is 1 (:400-485) -/
def bcastStaticArray (va : List Nat) (sv : ShapeK) : ShapeK :=
  if va.foldl min (va.headD 0) == 1 then sv else .clipped (List.replicate va.length (va.foldl max 0))

/-- the extents when the shape type is CONSTANT (a clipped type only knows maxima) -/
def ShapeK.constv? : ShapeK → Option (List Nat)
  | .const l => some l
  | _ => none

/-- both shape types hold run-time extents: only the rank survives -/
def bcastLenK : LenK → LenK → ShapeK
  | .fixed la, .fixed lb => .fixedDim (max la lb)
  | .fixed la, .bounded bb => .boundedDim (max la bb)
  | .bounded ba, .fixed lb => .boundedDim (max lb ba)
  | .bounded ba, .bounded bb => .boundedDim (max ba bb)
  | _, _ => .dyn

/-- constant left operand, run-time right operand -/
def bcastConstRt (va : List Nat) : LenK → ShapeK
  | .fixed lb => if va.length ≥ lb then bcastStaticTuple va (.fixedDim (max va.length lb)) else .fixedDim (max va.length lb)
  | .bounded bb => if va.length ≥ bb then bcastStaticArray va (.boundedDim (max va.length bb)) else .boundedDim (max va.length bb)
  | .dyn => .dyn

/-- run-time left operand, constant right operand -/
def bcastRtConst (vb : List Nat) : LenK → ShapeK
  | .fixed la => if vb.length ≥ la then bcastStaticTuple vb (.fixedDim (max la vb.length)) else .fixedDim (max la vb.length)
  | .bounded ba => if vb.length ≥ ba then bcastStaticArray vb (.boundedDim (max vb.length ba)) else .boundedDim (max vb.length ba)
  | .dyn => .dyn

/-- `resolve_optype<broadcast_shape_t>` (broadcast_shape.hpp:307-510, after the C11 fix: the "static values of the longer
    operand" shortcut is taken for CONSTANT shapes only) -/
def broadcastShapeK (a b : ShapeK) : Option ShapeK :=
  match a.cvalue, b.cvalue with
  | some va, some vb =>
    (match refBroadcast va vb with
     | some r => some (if a.isConst && b.isConst then .const r else .clipped r)
     | none => if a.isConst && b.isConst then none else some (.fixedDim (max va.length vb.length)))
  | _, _ =>
    match a.constv?, b.constv? with
    | some va, _ => some (bcastConstRt va b.lenK)
    | none, some vb => some (bcastRtConst vb a.lenK)
    | none, none => some (bcastLenK a.lenK b.lenK)

def transferUfunc2 (i j : SInfo) : Option SInfo :=
  (broadcastShapeK i.seen.shape j.seen.shape).map (fun k => ufuncInfo k .any)

/-- axis=None, operands not both of constant/clipped shape: `[size_a + size_b]`, constant when both sizes are -/
def concatFlat : SizeK → SizeK → ShapeK
  | .known x, .known y => .const [x + y]
  | _, _ => .fixedDim 1

/-- axis given, operands not both static: the result container follows the "least static" operand shape type -/
def concatLen : LenK → LenK → ShapeK
  | .dyn, _ => .dyn
  | _, .dyn => .dyn
  | .bounded n, _ => .boundedDim n
  | _, .bounded n => .boundedDim n
  | .fixed n, _ => .fixedDim n

def concatFallback (ax : AxisK) (a b : SInfo) : ShapeK :=
  match ax with
  | .none => concatFlat a.size b.size
  | _ => concatLen a.shape.lenK b.shape.lenK

/-- the axis when it is a compile-time constant (or None) -/
def AxisK.staticAxis? : AxisK → Option (Option Nat)
  | .none => some Option.none
  | .cts x => some (some x)
  | _ => Option.none

/-- `resolve_optype<shape_concatenate_t>` (concatenate.hpp); `a`, `b` = what the view sees of its operands -/
def concatShapeK (ax : AxisK) (a b : SInfo) : Option ShapeK :=
  match a.shape.cvalue, b.shape.cvalue, ax.staticAxis? with
  | some va, some vb, some axis =>
    (refConcat axis va vb).map (fun r =>
      if a.shape.isConst && b.shape.isConst then .const r else .clipped (r.map (fun x => if x == 0 then 1 else x)))
  | _, _, _ => some (concatFallback ax a b)

/-- decorator default fixed_size / bounded_size of a two-operand view: sums of the operands' OWN sizes (decorator.hpp:1111-1225) -/
def SizeK.fixed? : SizeK → Option Nat
  | .known n => some n
  | .knownB n _ => some n
  | _ => none

def SizeK.bound? : SizeK → Option Nat
  | .known n => some n
  | .knownB _ b => some b
  | .atMost n => some n
  | .any => none

def sumSizeK (a b : SizeK) : SizeK :=
  match a.fixed?, b.fixed? with
  | some x, some y => .known (x + y)
  | _, _ => match a.bound?, b.bound? with
    | some x, some y => .atMost (x + y)
    | _, _ => .any

def concatInfo (own1 own2 : SizeK) (d : ShapeK) : SInfo :=
  ⟨d, match d with | .const l => .known (prod l) | _ => sumSizeK own1 own2⟩

def transferConcat (ax : AxisK) (i j : SInfo) : Option SInfo :=
  match ax with
  | .ctt _ => none
  | .rt _ => none
  | _ => (concatShapeK ax i.seen j.seen).map (concatInfo i.size j.size)

end NmVerif.Static
