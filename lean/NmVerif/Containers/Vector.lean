import NmVerif.Containers.Core
/-
  NmVerif.Containers.Vector — mirror of `utl::vector<T>` (include/nmtools/utl/vector.hpp:117-296).

    buffer_      ↦ `blk` (block id handed out by the ledger, `none` = null) + `cells` (contents of that block,
                   one `Cell` per element, `none` = indeterminate: malloc'ed and never written)
    size_        ↦ `size`
    buffer_size_ ↦ `cap`

  Mirrored behaviours (each checked against the header):
    * `vector()` allocates 4 (l.145-151); `vector(N)` allocates exactly N — also for N = 0 — sets size N and
      initialises nothing (l.152-160); copy ctor allocates 4, `resize(other.size_)`, element loop (l.161-174)
    * `~vector()` frees only when `buffer_ && buffer_size_ > 0` (l.175-180) — a `malloc(0)` block is dropped
    * variadic ctor allocates 4, `resize(n)`, element writes through `at(i)` (l.183-197)
    * `operator=` = `resize(other.size_)` + element loop (l.199-207)
    * `resize` (l.209-228): sets size_, reallocates to *exactly* `new_size` only when `buffer_size_ < new_size`
      (memcpy of `old_size` elements, free of the old block), never initialises new elements, never shrinks the block
    * `push_back` (l.230-238): `resize(size_+1)` when `buffer_size_ < size_+1` else `size_++`; then
      `buffer_[size_-1] = t` — `t` is a reference: when it aliases an element and the block was reallocated the read
      goes to the freed block
  Core Lean only.
-/
namespace NmVerif.Containers

structure Vec (α : Type) where
  blk : Option Nat
  cells : List (Cell α)
  size : Nat
  cap : Nat
  deriving Repr

namespace Vec
variable {α : Type}

/-- `buffer_[i] = c` -/
def store (v : Vec α) (i : Nat) (c : Cell α) (L : Ledger) : Vec α × Ledger :=
  if i < v.cells.length then ({ v with cells := v.cells.set i c }, L) else (v, L.flag .oob)

/-- `vector()` -/
def mkDefault (L : Ledger) : Vec α × Ledger :=
  let r := L.alloc
  ({ blk := some r.1, cells := List.replicate 4 none, size := 0, cap := 4 }, r.2)

/-- `resize(new_size)` -/
def resize (v : Vec α) (n : Nat) (L : Ledger) : Vec α × Ledger :=
  match v.blk with
  | none =>
    let r := L.alloc
    ({ blk := some r.1, cells := List.replicate n none, size := n, cap := n }, r.2)
  | some p =>
    if v.cap < n then
      let r := L.alloc
      -- memcpy of old_size elements out of the old block
      let L' := r.2.flagIf (decide (v.cells.length < v.size)) .oob
      ({ blk := some r.1, cells := v.cells.take v.size ++ List.replicate (n - v.size) none, size := n, cap := n },
       L'.free p)
    else ({ v with size := n }, L)

/-- `vector(N)` -/
def mkSized (n : Nat) (L : Ledger) : Vec α × Ledger :=
  let r := L.alloc
  resize { blk := some r.1, cells := List.replicate n none, size := n, cap := n } n r.2

/-- `for i < size_: buffer_[i] = other.buffer_[i]` -/
def copyFrom (v : Vec α) (o : Vec α) (L : Ledger) : Vec α × Ledger :=
  ({ v with cells := o.cells.take v.size ++ v.cells.drop v.size },
   L.flagIf (decide (o.cells.length < v.size ∨ v.cells.length < v.size)) .oob)

/-- `vector(const vector&)` -/
def mkCopy (o : Vec α) (L : Ledger) : Vec α × Ledger :=
  let r := mkDefault (α := α) L
  let r := r.1.resize o.size r.2
  r.1.copyFrom o r.2

/-- `operator=(other)`, `other` a different object -/
def assign (v o : Vec α) (L : Ledger) : Vec α × Ledger :=
  let r := v.resize o.size L
  r.1.copyFrom o r.2

/-- `x = x` -/
def assignSelf (v : Vec α) (L : Ledger) : Vec α × Ledger :=
  let r := v.resize v.size L
  r.1.copyFrom r.1 r.2

/-- element writes `at(i) = vᵢ` of the variadic constructor -/
def storeAll (v : Vec α) : Nat → List α → Ledger → Vec α × Ledger
  | _, [], L => (v, L)
  | i, a :: as, L => let r := v.store i (some a) L; storeAll r.1 (i + 1) as r.2

/-- `vector(a, b, ts…)` -/
def mkVariadic (vs : List α) (L : Ledger) : Vec α × Ledger :=
  let r := mkDefault (α := α) L
  let r := r.1.resize vs.length r.2
  storeAll r.1 0 vs r.2

/-- `push_back(t)`, `t` not aliasing the container -/
def push (v : Vec α) (a : α) (L : Ledger) : Vec α × Ledger :=
  let r := if v.cap < v.size + 1 then v.resize (v.size + 1) L else ({ v with size := v.size + 1 }, L)
  r.1.store (r.1.size - 1) (some a) r.2

/-- `push_back(buffer_[i])` -/
def pushAt (v : Vec α) (i : Nat) (L : Ledger) : Vec α × Ledger :=
  if v.cap < v.size + 1 then
    match v.blk with
    | some _ =>
      -- reallocated: the reference now points into the freed block
      let r := v.resize (v.size + 1) L
      r.1.store (r.1.size - 1) none (r.2.flag .uaf)
    | none =>
      let r := v.resize (v.size + 1) L
      r.1.store (r.1.size - 1) none (r.2.flag .oob)
  else
    let v' := { v with size := v.size + 1 }
    match v.cells[i]? with
    | some c => v'.store (v'.size - 1) c L
    | none => v'.store (v'.size - 1) none (L.flag .oob)

def write (v : Vec α) (i : Nat) (a : α) (L : Ledger) : Vec α × Ledger := v.store i (some a) L

def read (v : Vec α) (i : Nat) (L : Ledger) : Cell α × Ledger :=
  match v.cells[i]? with
  | some c => (c, L)
  | none => (none, L.flag .oob)

/-- `~vector()` -/
def destroy (v : Vec α) (L : Ledger) : Ledger :=
  match v.blk with
  | some p => if 0 < v.cap then L.free p else L.lose p
  | none => L

def view (v : Vec α) : List (Cell α) := v.cells.take v.size

end Vec

def vecImpl (α : Type) : Impl (Vec α) α where
  mkDefault := Vec.mkDefault
  mkSized := Vec.mkSized
  mkVariadic := Vec.mkVariadic
  mkCopy := Vec.mkCopy
  assign := Vec.assign
  assignSelf := Vec.assignSelf
  push := Vec.push
  pushAt := Vec.pushAt
  resize := Vec.resize
  write := Vec.write
  read := Vec.read
  destroy := Vec.destroy
  size := Vec.size
  view := Vec.view

end NmVerif.Containers
