// C04 harness, part E: probes of the generator views at selected positions (ranges too long to enumerate)
//
// Answers : `ok shape=<len> at=<elements at the requested positions>` | `bad-args` | `unknown-op`
//           integer element type prints decimal integers, real element types print %.17g
//
// Request syntax (parameters as in h_c04c.cpp: integers, or quarter units with a `q` suffix on the key):
//   arange_at   start=<int> stop=<int> step=<int>|None dtype=int|float|double at=<positions>   view::arange(start, stop[, step], dtype)
//   arange_at   start=<int> stop=<int> stepq=<int> dtype=float|double at=<positions>           view::arange(int, int, real step, dtype)
//   linspace_at start=<int>|startq=<int> stop=<int>|stopq=<int> num=<int> endpoint=0|1 dtype=float|double at=<positions>
//                                                                                             view::linspace(T start, T stop, num, bool endpoint)
// A position is NOT checked against the length: the views do not check it either (arange_t / linspace_t::operator()),
// the generator only asks for positions below the length.
#include "nmtools/array/view/arange.hpp"
#include "nmtools/array/view/linspace.hpp"
#include "c04_bc.hpp"
using namespace c04;

template <typename V> static std::string at_dump(const V& v, const uvec& at, bool real) {
    uvec s = to_uvec(nm::shape(v));
    if (s.size() != 1) return "dim-mismatch";
    std::ostringstream o; o << "ok shape=" << (long long)s[0] << " at=";
    if (at.empty()) o << "[]";
    for (size_t i = 0; i < at.size(); i++) {
        if (i) o << ',';
        if (real) o << fmt_real((double)v(at[i])); else o << (long long)v(at[i]);
    }
    return o.str();
}
template <typename T> static T real_arg(const Args& a, const std::string& k) {
    if (has(a, k + "q")) return (T)integer(a, k + "q") / (T)4;
    return (T)integer(a, k);
}
template <typename T, typename D> static std::string do_arange(const Args& a, D dtype, bool real) {
    int start = (int)integer(a, "start"), stop = (int)integer(a, "stop");
    auto at = nats(a, "at");
    if constexpr (std::is_floating_point_v<T>) {
        if (has(a, "stepq")) return at_dump(view::arange(start, stop, real_arg<T>(a, "step"), dtype), at, real);
    }
    if (has(a, "stepq")) return "bad-args";
    if (is_none(a, "step")) return at_dump(view::arange(start, stop, dtype), at, real);
    return at_dump(view::arange(start, stop, (int)integer(a, "step"), dtype), at, real);
}
template <typename T> static std::string do_linspace(const Args& a) {
    T start = real_arg<T>(a, "start"), stop = real_arg<T>(a, "stop");
    size_t num = (size_t)integer(a, "num"); bool endpoint = integer(a, "endpoint") != 0;
    return at_dump(view::linspace(start, stop, num, endpoint), nats(a, "at"), true);
}

std::string handle(const std::string& op, const Args& a) {
    const auto& dt = get(a, "dtype");
    if (op == "arange_at") {
        if (dt == "int") return do_arange<int>(a, nm::int32, false);
        if (dt == "float") return do_arange<float>(a, nm::float32, true);
        if (dt == "double") return do_arange<double>(a, nm::float64, true);
        return "bad-args";
    }
    if (op == "linspace_at") {
        if (dt == "float") return do_linspace<float>(a);
        if (dt == "double") return do_linspace<double>(a);
        return "bad-args";
    }
    return "unknown-op";
}
