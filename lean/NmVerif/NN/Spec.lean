import NmVerif.NN.Views
import NmVerif.Index.Reduce
/-
  NN/Spec — the reference side (PyTorch documentation formulas), written as directly as possible.
-/
namespace NmVerif.NN

/-- convolution / pooling output extent: `⌊(n + 2p − d(k−1) − 1)/s⌋ + 1` -/
def outSize (n k s p d : Nat) : Nat := (n + 2 * p - d * (k - 1) - 1) / s + 1

/-- the formula is meaningful (positive output) when the dilated kernel fits the padded input -/
def Fits (n k p d : Nat) : Prop := d * (k - 1) + 1 ≤ n + 2 * p

instance (n k p d : Nat) : Decidable (Fits n k p d) := by unfold Fits; exact inferInstance

/-- pooling output extent (padding 0, dilation 1): floor mode is `outSize`; ceil mode is
    `⌈(n − k)/s⌉ + 1`, minus one when that last window would start at or beyond the end of the input -/
def poolOutSpec (n k s : Nat) (ceil : Bool) : Nat :=
  if ceil then
    let o := (n - k + (s - 1)) / s + 1
    if (o - 1) * s ≥ n then o - 1 else o
  else outSize n k s 0 1

/-- `[lo, lo+1, …, hi-1]` -/
def rangeFrom (lo hi : Nat) : List Nat := (List.range (hi - lo)).map (lo + ·)

/-- reference pooling window of output `(…li, i, j)`: rows `s_h·i ≤ a < min(s_h·i + k_h, H)`, columns likewise
    (the window is clipped to the input), row-major -/
def specWindow (li : Idx) (H W kh kw sh sw i j : Nat) : List Idx :=
  (rangeFrom (sh * i) (min (sh * i + kh) H)).flatMap fun a =>
    (rangeFrom (sw * j) (min (sw * j + kw) W)).map fun b => li ++ [a, b]

/-- zero-padded read of a `(N, C, L)` input at batch `n`, channel `ch`, padded position `j` -/
def padRead (x : Arr Int) (L p n ch j : Nat) : Int :=
  if p ≤ j ∧ j < L + p then x.get [n, ch, j - p] else 0

/-- zero-padded read of a `(N, C, H, W)` input at padded position `(i, j)`, padding `(pH, pW)` -/
def padRead2 (x : Arr Int) (H W pH pW n ch i j : Nat) : Int :=
  if (pH ≤ i ∧ i < H + pH) ∧ (pW ≤ j ∧ j < W + pW) then x.get [n, ch, i - pH, j - pW] else 0

/-- `stride=None` means 1, `padding=None` means 0, `dilation=None` means 1 -/
def strideOf : Option Nat → Nat | none => 1 | some s => s
def paddingOf : Option Nat → Nat | none => 0 | some p => p
def dilationOf : Option Nat → Nat | none => 1 | some d => d

/-- PyTorch: output channel `o` of `O` belongs to group `o / (O/groups)` and reads that group's `C/groups` input channels -/
def grpSpec (O g : Nat) (o : Nat) : Nat := o / (O / g)
/-- the code (layout `(g, Og)` of `conv_reshape_weight`, `Og = O/groups` output channels per group): group `o / Og` -/
def grpCode (Og : Nat) (o : Nat) : Nat := o / Og
/-- the code before fixes/C17-conv-groups-interleaved (layout `(O/g, g)`): group `o % groups` -/
def grpInterleaved (g : Nat) (o : Nat) : Nat := o % g

/-- nested-loop conv1d, one output element (`Cg = C/groups` input channels per group, `grp o` the group of output
    channel `o`): `out[n,o,l] = bias[o] + Σ_{c < Cg} Σ_{k < K} xpad[n, grp(o)·Cg + c, l·s + k·d] · w[o,c,k]` -/
def conv1dLoop (grp : Nat → Nat) (x w : Arr Int) (bias : Option (Arr Int)) (L Cg K s p d : Nat) (n o l : Nat) : Int :=
  sumTo Cg (fun c => sumTo K (fun k => padRead x L p n (grp o * Cg + c) (l * s + k * d) * w.get [o, c, k]))
    + (match bias with | none => 0 | some b => b.get [o])

/-- nested-loop conv2d, one output element, per-plane stride `(sH,sW)`, padding `(pH,pW)`, dilation `(dH,dW)`:
    `out[n,o,i,j] = bias[o] + Σ_c Σ_kh Σ_kw xpad[n, grp(o)·Cg + c, i·sH + kh·dH, j·sW + kw·dW] · w[o,c,kh,kw]` -/
def conv2dLoop (grp : Nat → Nat) (x w : Arr Int) (bias : Option (Arr Int)) (H W Cg KH KW sH sW pH pW dH dW : Nat) (n o i j : Nat) : Int :=
  sumTo Cg (fun c => sumTo KH (fun kh => sumTo KW (fun kw =>
      padRead2 x H W pH pW n (grp o * Cg + c) (i * sH + kh * dH) (j * sW + kw * dW) * w.get [o, c, kh, kw])))
    + (match bias with | none => 0 | some b => b.get [o])

/-! ### groups of a reduction (softmax / normalisation statistics) -/

/-- all multi-indices of `s` that agree with `i` on every axis `k` where `p (o + position)` is false — the reduced
    axes run over their whole extent, the others stay fixed — in row-major (C) order -/
def groupL (p : Nat → Bool) : Nat → Shape → Idx → List Idx
  | _, [], _ => [[]]
  | o, a :: t, i0 :: it =>
    if p o then (List.range a).flatMap fun k => (groupL p (o + 1) t it).map (k :: ·)
    else (groupL p (o + 1) t it).map (i0 :: ·)
  | _, _ :: _, [] => []

/-- the line through `i` along axis `ax`: `i` with coordinate `ax` running over `0 .. n−1` (`n` the extent of that axis) -/
def lineOf (s : Shape) (ax : Nat) (i : Idx) : List Idx :=
  match s[ax]? with
  | some n => (List.range n).map fun k => i.set ax k
  | none => []

/-- the block of `i` over the trailing axes `m ..`: the first `m` coordinates of `i` followed by every index of the
    trailing extents, row-major -/
def blockOf (s : Shape) (m : Nat) (i : Idx) : List Idx := (allIdx (s.drop m)).map fun r => i.take m ++ r

/-- the normalised value at `i` given the group `G` of `i`: `S = Σ_G x`, `μ = S/|G|`, `V = Σ_G |x − μ|²`,
    `(x[i] − μ) / sqrt(V/|G| + eps)`; `none` only for an empty group -/
def normAt (add sub div : α → α → α) (sqabs sqrt : α → α) (divn : α → Nat → α) (eps : α) (x : Idx → α) (G : List Idx)
    (i : Idx) : Option α :=
  (Reduce.foldFirst add none (G.map x)).bind fun S =>
    (Reduce.foldFirst add none (G.map fun k => sqabs (sub (x k) (divn S G.length)))).map fun V =>
      div (sub (x i) (divn S G.length)) (sqrt (add (divn V G.length) eps))

/-- `j` with the coordinate `k` inserted at position `ax` -/
def insAt (j : Idx) (ax k : Nat) : Idx := j.take ax ++ k :: j.drop ax

/-- the value `view::bilinear` computes for output `[b, o]` of rank-2 inputs: for each `j` the inner sum
    `Σ_i x[b,i]·w[o,i,j]` (folded from its first term) times `y[b,j]`, these `J` terms folded from the first -/
def bilinearAt (add mul : α → α → α) (x y w : Idx → α) (I J b o : Nat) : Option α :=
  ((List.range J).mapM fun j =>
      (Reduce.foldFirst add none ((List.range I).map fun i => mul (x [b, i]) (w [o, i, j]))).map fun S => mul S (y [b, j])).bind
    fun terms => Reduce.foldFirst add none terms

/-- the same for inputs `x : lead ++ [I]`, `y : lead ++ [J]` with any number of leading axes, output `p ++ [o]` (`p` an index
    of the leading axes): `Σ_j (Σ_i x[p,i]·w[o,i,j]) · y[p,j]`, every sum a left fold from its first term.
    `bilinearAt … b o` is `bilinearAtL … [b] o`. -/
def bilinearAtL (add mul : α → α → α) (x y w : Idx → α) (I J : Nat) (p : Idx) (o : Nat) : Option α :=
  ((List.range J).mapM fun j =>
      (Reduce.foldFirst add none ((List.range I).map fun i => mul (x (p ++ [i])) (w [o, i, j]))).map fun S => mul S (y (p ++ [j]))).bind
    fun terms => Reduce.foldFirst add none terms

end NmVerif.NN
