"""C14 — functors, currying, composition and extraction are equivalent to direct views.

IMPL   harness/h_c14_probe.cpp   the functor_t / functor_composition_t / combinator machinery observed with pure probe functors
       harness/h_c14_fn.cpp      functors of array/functional: all at once / curried in every split vs the direct view call
       harness/h_c14_ext.cpp     get_function_composition / get_function_operands / apply / get_compute_graph on views of depth 1..4
MODEL  lean/NmVerif/Functional.lean (applyFn, applyComp/run, FC.mul, combinators, compile, operandsOf, IView.graph) over symbolic values
ORACLE python: composition as function composition on operand lists following the parenthesisation tree; NumPy for the view
       programs; expected operand list = leaves in reading order; expected graph = one node per leaf occurrence and operation.
"""
import itertools
import re
import numpy as np
from runner import Case
from shapes import prod, fmt, fmt_lists

ID = 'C14'
LEVEL = 'proof'
RULE = ('probe machine: every composition of a menu of 50 (1..4 functors: unary/binary/ternary probes in every position, swap/dup/dig/bury, '
        'every parenthesisation of the 3- and 4-chains) x every split of the operand list into chunks (exact, over- and under-supplied), '
        'attribute/operand interleavings; functors: table of array/functional functors x every curry split vs direct view; '
        'extraction: view trees of depth 1..4. non-trivial = more than one functor or more than one chunk')
EXHAUSTIVE = {'quick': False, 'thorough': False}
ANCHORS = {'NmVerif.Functional.applyFn': 'functional::apply_function_t<functor_t>::operator() (functor.hpp:368-428), functor_t::operator[] / operator()',
           'NmVerif.Functional.applyComp/run': 'functional::apply_function_t<functor_composition_t>::operator() (functor.hpp:450-528)',
           'NmVerif.Functional.FC.mul': 'functor_t::operator* / operator*(functor_composition_t, ...) (functor.hpp:288-300,348-366)',
           'NmVerif.Functional.swapF/dupF/digF/buryF': 'combinator::swap / dup / dig_n / bury_n (combinator.hpp)',
           'NmVerif.Functional.View.compile': 'functional::get_function_composition (function_composition.hpp:14-128)',
           'NmVerif.Functional.View.operandsOf': 'functional::get_function_operands (functor.hpp:776-812)',
           'NmVerif.Functional.IView.graph': 'functional::get_compute_graph (compute_graph.hpp:14-275) over utility::ct_map / ct_digraph',
           'NmVerif.Functional.generateAlias': 'index::generate_alias (index/alias.hpp:60-88)'}
MANIFEST = dict(
    text='Proof: Lean theorems over ARBITRARY functors (any arity, any operand/attribute types): currying in every split equals one call (curry_any_split, curry_chunks), composition = apply the right-most functor and pass the rest on (comp_apply, comp_two), parenthesisation irrelevant (comp_assoc), combinators are the stated permutations, and a compiler-correctness theorem for extraction (compile_correct/compile_frame: extracted composition applied to extracted operands = host evaluation, by induction on the view tree) on the trees where it holds — with a machine-checked counterexample outside; tied to the C++ by differential runs of the real functor machinery (probe functors), of the array/functional functors against direct view calls, and of extraction / operand identity / compute graphs on view trees.',
    note='Lean kernel + propext/Classical.choice/Quot.sound. Node-id uniqueness of the compute graph is not a theorem (ids are hashes mod 1033 and graph-size counters): checked per explored program. Known findings: extraction is wrong when a view operand is not the first operand; dangling reference in get_function_composition.',
    technique='Lean 4 proofs over an abstract stack machine (compiler correctness by mutual structural induction) + differential correspondence')
ASSUMPTIONS = ['functors are pure functions of (attributes, operands)',
               'compute-graph node ids pairwise distinct (hypothesis of graph_nodes / graph_edges; explored, not proved)']
PARTIAL = []


def harness_specs(tier):
    return [dict(name='h_c14_probe', src='h_c14_probe.cpp', flavour='fast')]


# ---------------------------------------------------------------------------------------------------------------
# probe machine: reference semantics (independent of the stack machine: follows the parenthesisation tree)
# ---------------------------------------------------------------------------------------------------------------
ARITY = {'p1': 1, 'p2': 2, 'p3': 3, 'swap': 2, 'dup': 1, 'dig1': 2, 'dig2': 3, 'bury1': 2, 'bury2': 3}


class Partial(Exception):
    pass


def parse_term(s):
    """'M(M(p2,p1),dig2)' -> ('M', [('M', [...]), ('dig2', [])])"""
    pos = 0

    def term():
        nonlocal pos
        m = re.compile(r'[^(),]+').match(s, pos)
        name = m.group(0); pos = m.end(); args = []
        if pos < len(s) and s[pos] == '(':
            pos += 1
            while True:
                args.append(term())
                if s[pos] == ',':
                    pos += 1
                else:
                    assert s[pos] == ')'; pos += 1; break
        return (name, args)
    t = term(); assert pos == len(s), s
    return t


def atom_apply(name, ops, attrs=()):
    k = ARITY[name]
    if len(ops) < k:
        raise Partial()
    x, rest = list(ops[:k]), list(ops[k:])
    if name.startswith('p'):
        r = ['%s(%s)' % (name, ','.join(x + list(attrs)))]
    elif name == 'swap' or name == 'dig1' or name == 'bury1':
        r = [x[1], x[0]]
    elif name == 'dup':
        r = [x[0], x[0]]
    elif name == 'dig2':
        r = [x[2], x[0], x[1]]
    elif name == 'bury2':
        r = [x[1], x[2], x[0]]
    return r + rest


def tree_apply(t, ops):
    """(l * r)(ops) = l(r(ops)) — function composition on operand lists"""
    name, args = t
    if name == 'M':
        return tree_apply(args[0], tree_apply(args[1], ops))
    return atom_apply(name, ops)


def needed(t):
    for n in range(0, 8):
        try:
            tree_apply(t, [str(i) for i in range(n)]); return n
        except Partial:
            pass
    raise AssertionError(t)


def compositions(n):
    """all ways to cut a list of n items into non-empty chunks (sizes)"""
    if n == 0:
        yield []
        return
    for first in range(1, n + 1):
        for rest in compositions(n - first):
            yield [first] + rest


MENU = ['p1', 'p2', 'p3', 'swap', 'dup', 'dig1', 'dig2', 'bury1', 'bury2',
        'M(p1,p1)', 'M(p1,p2)', 'M(p2,p1)', 'M(p2,p2)', 'M(p1,p3)', 'M(p3,p1)', 'M(p3,p2)', 'M(p2,p3)',
        'M(p2,swap)', 'M(p2,dup)', 'M(p3,dig2)', 'M(p3,bury2)', 'M(dup,p1)', 'M(swap,swap)', 'M(bury2,dig2)', 'M(p2,dig1)', 'M(p2,bury1)',
        'M(M(p2,p1),dig2)', 'M(p2,M(p1,dig2))', 'M(M(p1,p2),p2)', 'M(p1,M(p2,p2))', 'M(M(p2,swap),p2)', 'M(p2,M(swap,p2))',
        'M(M(p2,p2),dup)', 'M(p2,M(p2,dup))', 'M(M(p3,bury2),p1)', 'M(p3,M(bury2,p1))', 'M(M(p2,p3),p2)', 'M(p2,M(p3,p2))',
        'M(M(p2,p2),M(p1,bury2))', 'M(p2,M(p2,M(p1,bury2)))', 'M(M(M(p2,p2),p1),bury2)', 'M(M(p2,M(p2,p1)),bury2)', 'M(p2,M(M(p2,p1),bury2))',
        'M(M(p1,p2),M(swap,dup))', 'M(p1,M(p2,M(swap,dup)))', 'M(M(p2,p1),M(p2,dig2))', 'M(M(M(p2,p1),p2),dig2)',
        'M(M(p3,p1),M(p2,p2))', 'M(p3,M(p1,M(p2,p2)))']


def nfun(t):
    return 1 if t[0] != 'M' else nfun(t[1][0]) + nfun(t[1][1])


def probe_cases(tier, rng):
    for comp in MENU:
        t = parse_term(comp)
        n = needed(t)
        nf = nfun(t)
        vals = [str(v) for v in rng.sample(range(1, 90), 6)]
        variants = []      # (chunk sizes, total operands)
        for total in sorted({max(n - 1, 0), n, min(n + 1, 5)}):
            if total == 0:
                continue
            for cs in compositions(total):
                variants.append(cs)
        for cs in variants:
            ops = vals[:sum(cs)]
            chunks = []; i = 0
            for c in cs:
                chunks.append(ops[i:i + c]); i += c
            steps = ';'.join('o:' + ','.join(c) for c in chunks)
            # spec: defined when the call sequence completes exactly with the last chunk
            oracle = None
            try:
                tree_apply(t, ops[:sum(cs[:-1])])
                early = True
            except Partial:
                early = False
            if not early:
                try:
                    oracle = 'ok values ' + ';'.join(tree_apply(t, ops))
                except Partial:
                    oracle = None      # still curried: the model is the judge
            yield Case('c14_probe comp=%s steps=%s' % (comp, steps), 'h_c14_probe', oracle=oracle,
                       nontrivial=(nf > 1 or len(cs) > 1),
                       tags=['probe', 'nfun=%d' % nf, 'chunks=%d' % len(cs), 'supply=' + ('exact' if sum(cs) == n else 'over' if sum(cs) > n else 'under'),
                             'spec' if oracle else 'model-only'])
    # attributes and operands in every interleaving (single probe functors)
    for name in ['p1', 'p2', 'p3']:
        k = ARITY[name]
        for na in [1, 2]:
            attrs = [str(v) for v in rng.sample(range(90, 100), na)]
            for cs in compositions(k):
                ops = [str(v) for v in rng.sample(range(1, 90), k)]
                chunks = []; i = 0
                for c in cs:
                    chunks.append(ops[i:i + c]); i += c
                # attribute steps can go before any operand chunk (after the last one the functor has been applied)
                slots = len(chunks)
                for pos in itertools.combinations_with_replacement(range(slots), na):
                    steps = []
                    ai = 0
                    for ci, c in enumerate(chunks):
                        while ai < na and pos[ai] == ci:
                            steps.append('a:' + attrs[ai]); ai += 1
                        steps.append('o:' + ','.join(c))
                    oracle = 'ok values %s(%s)' % (name, ','.join(ops + attrs))
                    yield Case('c14_probe comp=%s steps=%s' % (name, ';'.join(steps)), 'h_c14_probe', oracle=oracle,
                               tags=['probe', 'attrs=%d' % na, 'chunks=%d' % len(cs)])


def gen(tier, rng):
    yield from probe_cases(tier, rng)


KNOWN_PREDICATES = {}
