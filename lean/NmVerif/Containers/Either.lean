import NmVerif.Containers.Core
/-
  NmVerif.Containers.Either — mirror of `utl::either<L,R>` (utl/either.hpp) and `utl::maybe<T>` (utl/maybe.hpp;
  `maybe<T> : either<T, nothing_t>`), for trivial and non-trivial left types.

  Storage: a tag and a union `{left; right}`.  The model keeps, for the `left` member, the value bits and
  whether a `left` object is alive (`live`) — constructor runs (`new(&left) T(..)`, member initialiser) start its
  lifetime, `destroy_active` ends it.  `right` is always a trivial type here.

  Mirrored behaviours (non-trivial left type, `nt = true`; for trivial types the same value flow, no lifetime) —
  state of the code after the `fix:` commit C19-either-maybe-lifetime:
    either()                 left{} constructed, tag LEFT
    either(const left_t&)    left(val) constructed, tag LEFT; either(const right_t&) right(val)
    either(const either& o)  tag = o.tag; the active alternative of `o` is copy-CONSTRUCTED in place
    base_either::destroy_active   ends the lifetime of the active alternative (`~left_t()` when LEFT is active)
    base_either::assign_value(v)  same alternative active: member assignment (a live object); other alternative
                             active: `destroy_active()`, copy-construct `v` in place, switch the tag
    either::operator=(const either& o)  `&o == this`: nothing; else `assign_value` of `o`'s active alternative
    operator=(const left_t&) / operator=(const right_t&)   `assign_value`
    ~either()                `destroy_active()` (non-trivially destructible alternatives)
    maybe(const maybe& o)    base(nothing); engaged: tag = LEFT; `new(&left) T(other.left)`
    maybe::operator=(const maybe& o)  non-trivial T: either's assignment;  trivial T: member assignment
    maybe::operator=(const U&) → either's value assignment;  ~maybe() = default → ~either()
  Core Lean only.
-/
namespace NmVerif.Containers

structure Slot (α : Type) where
  val : Cell α := none
  live : Bool := false
  deriving Repr

structure Eith (α β : Type) where
  tagL : Bool
  left : Slot α
  right : Cell β
  deriving Repr

structure ECfg (α β : Type) where
  isMaybe : Bool
  nt : Bool
  zeroL : α
  zeroR : β

/-- operation alphabet for `either` / `maybe` -/
inductive EOp (α β : Type) where
  | mk (s : Nat)                 -- either(): left value-initialised;  maybe(): Nothing
  | mkL (s : Nat) (v : α)        -- from a left value / maybe(const T&)
  | mkR (s : Nat) (v : β)        -- from a right value / maybe(nothing)
  | copy (d s : Nat)
  | assign (d s : Nat)
  | setL (s : Nat) (v : α)       -- x = left value
  | setR (s : Nat) (v : β)       -- x = right value / m = nothing
  | writeL (s : Nat) (v : α)     -- `*m = v` / `*get_if<L>(&e) = v` while LEFT is active
  | read (s : Nat)
  | destroy (s : Nat)
  deriving Repr

def EOp.target : EOp α β → Nat
  | .mk s | .mkL s _ | .mkR s _ | .copy s _ | .assign s _ | .setL s _ | .setR s _ | .writeL s _ | .read s
  | .destroy s => s

namespace Eith
variable {α β : Type}

/-- storage in which nothing has been constructed -/
def raw : Eith α β := { tagL := false, left := {}, right := none }

/-- a constructor of the left type runs on the `left` storage -/
def ctorLeft (cfg : ECfg α β) (x : Eith α β) (c : Cell α) (L : Ledger) : Eith α β × Ledger :=
  ({ x with left := { val := c, live := true } },
   if cfg.nt then (if x.left.live then L.flag .overLive else L.ctor) else L)

/-- `left = …` (copy assignment operator of the left type) -/
def assignLeft (cfg : ECfg α β) (x : Eith α β) (c : Cell α) (L : Ledger) : Eith α β × Ledger :=
  ({ x with left := { x.left with val := c } },
   if cfg.nt && !x.left.live then L.flag .uninitAssign else L)

def mkDflt (cfg : ECfg α β) (L : Ledger) : Eith α β × Ledger :=
  if cfg.isMaybe then ({ (raw : Eith α β) with right := some cfg.zeroR }, L)
  else
    let r := ctorLeft cfg (raw : Eith α β) (some cfg.zeroL) L
    ({ r.1 with tagL := true }, r.2)

def mkL (cfg : ECfg α β) (v : α) (L : Ledger) : Eith α β × Ledger :=
  let r := ctorLeft cfg (raw : Eith α β) (some v) L
  ({ r.1 with tagL := true }, r.2)

def mkR (_cfg : ECfg α β) (v : β) (L : Ledger) : Eith α β × Ledger :=
  ({ (raw : Eith α β) with right := some v }, L)

/-- `destroy_active()`: the destructor of the left type runs when LEFT is active -/
def destroyActive (cfg : ECfg α β) (x : Eith α β) (L : Ledger) : Eith α β × Ledger :=
  if x.tagL then
    ({ x with left := { x.left with live := false } },
     if cfg.nt then (if x.left.live then L.dtor else L.flag .destroyDead) else L)
  else (x, L)

def mkCopy (cfg : ECfg α β) (o : Eith α β) (L : Ledger) : Eith α β × Ledger :=
  if !cfg.nt then ({ o with left := { o.left with live := false } }, L)     -- trivially copyable: bitwise
  else if cfg.isMaybe then
    if o.tagL then
      let r := ctorLeft cfg { (raw : Eith α β) with right := some cfg.zeroR } o.left.val L
      ({ r.1 with tagL := true }, r.2)
    else ({ (raw : Eith α β) with right := some cfg.zeroR }, L)
  else
    if o.tagL then
      let r := ctorLeft cfg (raw : Eith α β) o.left.val L
      ({ r.1 with tagL := true }, r.2)
    else ({ (raw : Eith α β) with right := o.right }, L)

/-- `assign_value(const left_t&)` -/
def assignValueL (cfg : ECfg α β) (x : Eith α β) (c : Cell α) (L : Ledger) : Eith α β × Ledger :=
  if x.tagL then assignLeft cfg x c L
  else
    let r := ctorLeft cfg x c L
    ({ r.1 with tagL := true }, r.2)

/-- `assign_value(const right_t&)` (the right type is trivial) -/
def assignValueR (cfg : ECfg α β) (x : Eith α β) (v : Cell β) (L : Ledger) : Eith α β × Ledger :=
  if x.tagL then
    let r := destroyActive cfg x L
    ({ r.1 with right := v, tagL := false }, r.2)
  else ({ x with right := v }, L)

/-- `x = o`, `o` a different object (`x = x` returns at once: `estep`) -/
def assign (cfg : ECfg α β) (x o : Eith α β) (L : Ledger) : Eith α β × Ledger :=
  if o.tagL then assignValueL cfg x o.left.val L else assignValueR cfg x o.right L

def setL (cfg : ECfg α β) (x : Eith α β) (v : α) (L : Ledger) : Eith α β × Ledger := assignValueL cfg x (some v) L

def setR (cfg : ECfg α β) (x : Eith α β) (v : β) (L : Ledger) : Eith α β × Ledger := assignValueR cfg x (some v) L

/-- `~either()` -/
def destroy (cfg : ECfg α β) (x : Eith α β) (L : Ledger) : Ledger := (destroyActive cfg x L).2

/-- the value the client reads: the active alternative -/
def get (x : Eith α β) : Option (Sum α β) :=
  if x.tagL then x.left.val.map Sum.inl else x.right.map Sum.inr

end Eith

structure EWorld (α β : Type) where
  objs : Nat → Option (Eith α β)
  led : Ledger

def EWorld.empty : EWorld α β := { objs := fun _ => none, led := {} }

def EWorld.put (w : EWorld α β) (k : Nat) (x : Option (Eith α β)) (L : Ledger) : EWorld α β :=
  { objs := fun j => if j = k then x else w.objs j, led := L }

def estep (cfg : ECfg α β) (w : EWorld α β) (op : EOp α β) : EWorld α β :=
  match op with
  | .mk s =>
    match w.objs s with
    | none => let r := Eith.mkDflt cfg w.led; w.put s (some r.1) r.2
    | some _ => w
  | .mkL s v =>
    match w.objs s with
    | none => let r := Eith.mkL cfg v w.led; w.put s (some r.1) r.2
    | some _ => w
  | .mkR s v =>
    match w.objs s with
    | none => let r := Eith.mkR cfg v w.led; w.put s (some r.1) r.2
    | some _ => w
  | .copy d s =>
    match w.objs d, w.objs s with
    | none, some o => let r := Eith.mkCopy cfg o w.led; w.put d (some r.1) r.2
    | _, _ => w
  | .assign d s =>
    match w.objs d, w.objs s with
    | some x, some o => if d = s then w else let r := Eith.assign cfg x o w.led; w.put d (some r.1) r.2
    | _, _ => w
  | .setL s v =>
    match w.objs s with
    | some x => let r := Eith.setL cfg x v w.led; w.put s (some r.1) r.2
    | none => w
  | .setR s v =>
    match w.objs s with
    | some x => let r := Eith.setR cfg x v w.led; w.put s (some r.1) r.2
    | none => w
  | .writeL s v =>
    match w.objs s with
    | some x => if x.tagL then let r := Eith.assignLeft cfg x (some v) w.led; w.put s (some r.1) r.2 else w
    | none => w
  | .read _ => w
  | .destroy s =>
    match w.objs s with
    | some x => w.put s none (Eith.destroy cfg x w.led)
    | none => w

def erun (cfg : ECfg α β) (w : EWorld α β) : List (EOp α β) → EWorld α β
  | [] => w
  | op :: h => erun cfg (estep cfg w op) h

/-- reference: `std::variant<L,R>` / `std::optional<T>` as `Sum α β` (`inr ()` = nullopt) -/
def sstep (isMaybe : Bool) (zeroL : α) (zeroR : β) (v : Nat → Option (Sum α β)) (op : EOp α β) : Nat → Option (Sum α β) :=
  let put (k : Nat) (x : Option (Sum α β)) : Nat → Option (Sum α β) := fun j => if j = k then x else v j
  match op with
  | .mk s => match v s with | none => put s (some (if isMaybe then .inr zeroR else .inl zeroL)) | some _ => v
  | .mkL s a => match v s with | none => put s (some (.inl a)) | some _ => v
  | .mkR s b => match v s with | none => put s (some (.inr b)) | some _ => v
  | .copy d s => match v d, v s with | none, some y => put d (some y) | _, _ => v
  | .assign d s => match v d, v s with | some _, some y => put d (some y) | _, _ => v
  | .setL s a => match v s with | some _ => put s (some (.inl a)) | none => v
  | .setR s b => match v s with | some _ => put s (some (.inr b)) | none => v
  | .writeL s a => match v s with | some (.inl _) => put s (some (.inl a)) | _ => v
  | .read _ => v
  | .destroy s => match v s with | some _ => put s none | none => v

def srun (isMaybe : Bool) (zeroL : α) (zeroR : β) (v : Nat → Option (Sum α β)) : List (EOp α β) → Nat → Option (Sum α β)
  | [] => v
  | op :: h => srun isMaybe zeroL zeroR (sstep isMaybe zeroL zeroR v op) h

end NmVerif.Containers
