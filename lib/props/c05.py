"""C05 — slicing follows Python/NumPy basic-indexing semantics.
IMPL: index::shape_slice/slice (packed), index::shape_dynamic_slice/dynamic_slice (list of either), index::apply_(shape_)slice,
view::slice / view::apply_slice / view::mutable_slice.  ORACLE: CPython `range(n)[slice]` and NumPy basic indexing."""
import itertools
import numpy as np
from runner import Case
from shapes import prod, fmt

ID = 'C05'
LEVEL = 'proof'
RULE = ('exhaustive per axis: extents n=1..N (quick 4, thorough 6), start/stop in [-(n+2),n+2] or None, step in {-3..-1,1..3} or None or '
        'omitted (2-part), packed and both dynamic encodings, index/apply/view/mutable levels incl. the variadic view::slice with a single '
        'range; 1..3 axes with integers (every in-range value), ranges and an ellipsis in every position (also covering 0 axes, also last); '
        'fewer entries than axes; extents up to 2^31 at index level (shape + one mapped index). non-trivial = result differs from the identity view')
EXHAUSTIVE = {'quick': True, 'thorough': True}
ANCHORS = {
    'Slice.sliceIndices/computeRange/computeStep/lengthOf': 'index::slice_indices, index::compute_range, index::compute_step, (s + step - 1) / step (slice.hpp)',
    'Slice.computeIndex': 'index::compute_index (slice.hpp)',
    'Slice.shapeSlice/sliceIdx': 'index::shape_slice, index::slice, index::apply_shape_slice/apply_slice (tuple)',
    'Slice.shapeDynamicSlice/dynamicSlice': 'index::shape_dynamic_slice, index::dynamic_slice, apply_* (list of either)',
    'Slice.sliceView/dynamicSliceView': 'view::slice, view::apply_slice, view::mutable_slice, view::apply_mutable_slice (view/slice.hpp)',
}
MANIFEST = dict(
    text='Proof: Lean model of slice_indices/compute_range/compute_step/compute_index, the integer-ceiling length and the packed and dynamic '
         'shape/index loops (headers after the fix: commits fixes/C05-*.diff); theorems for every extent, every start/stop/step (omitted, '
         'negative, out of range, empty, negative step), integers in range, one ellipsis in any position, fewer entries than axes, any rank: '
         'the normalisation equals CPython PySlice_AdjustIndices, shape and every element equal Python slice.indices / NumPy basic indexing, '
         'indices stay in the source shape, packed = dynamic encoding; the reference length is proved to count Python range(start,stop,step), a range never '
         'outgrows its axis, a[:] is the identity, a[::-1] the reversal, a slice of a slice is the single composed walk (one axis, and nested views of any rank), '
         'the element map is injective (mutable_slice writes do not collide). Correspondence: exhaustive per-axis run of the real headers against '
         'model and CPython/NumPy on every check.',
    note='Model is hand-written; fidelity rests on the differential run (IMPL = MODEL required on every generated input, also where IMPL = oracle). '
         'slice_indices works in signed 64 bit: modelled in unbounded Int, sound for extents below 2^62 (hypothesis of the theorems) and int parts. '
         'History: nine defect classes of the original case analysis were repaired by fix: commits; no known findings left.',
    technique='Lean 4 case analysis + induction over entry lists; differential correspondence (exhaustive small scope) against the C++ headers, CPython and NumPy')
ASSUMPTIONS = ['slice parts are C++ int (32 bit), shapes and indices size_t (64 bit) containers, as the views instantiate them; extents below 2^62',
               'array_slice (integer-array "fancy" indexing) is not basic indexing and is not covered',
               'integers outside [-n, n), more entries than axes (IndexError in NumPy) and step 0 (ValueError) are argument errors (C15), not generated here']
PARTIAL = []
TRUSTED = []

BIG = 2 ** 24


# ------------------------------------------------------------------------------------------------------------------
# entries: ('i', k) | ('e',) | ('r', a, b, c) | ('r2', a, b)      (None = omitted part)
# ------------------------------------------------------------------------------------------------------------------

def fp(x):
    return 'N' if x is None else str(x)


def fmt_entry(e):
    if e[0] == 'i':
        return 'i%d' % e[1]
    if e[0] == 'e':
        return 'e'
    if e[0] == 'r':
        return '%s:%s:%s' % (fp(e[1]), fp(e[2]), fp(e[3]))
    return '%s:%s' % (fp(e[1]), fp(e[2]))


def fmt_entries(es):
    return ';'.join(fmt_entry(e) for e in es) if es else '[]'


def parse_entries(s):
    out = []
    if s in ('[]', ''):
        return out
    pp = lambda t: None if t == 'N' else int(t)
    for t in s.split(';'):
        if t == 'e':
            out.append(('e',))
        elif t[0] == 'i':
            out.append(('i', int(t[1:])))
        else:
            p = t.split(':')
            out.append(('r', pp(p[0]), pp(p[1]), pp(p[2])) if len(p) == 3 else ('r2', pp(p[0]), pp(p[1])))
    return out


def parse_req(req):
    p = req.split()
    a = dict(kv.split('=', 1) for kv in p[1:])
    shape = [] if a['shape'] == '[]' else [int(x) for x in a['shape'].split(',')]
    return a['enc'], a['level'], shape, parse_entries(a['sl'])


def triple(e):
    return (e[1], e[2], e[3]) if e[0] == 'r' else (e[1], e[2], None)


# ------------------------------------------------------------------------------------------------------------------
# Dom — python mirror of NmVerif.Slice.domEntries (lean/NmVerif/Lemmas/SliceND.lean): every valid basic index.
# On dom=True cases the runner requires MODEL = ORACLE (a difference is reported as machinery drift).
# ------------------------------------------------------------------------------------------------------------------

EXT_MAX = 2 ** 62


def dom_entries(shape, es):
    """at most one ellipsis, no more entries than axes, integers in [-n, n), steps non-zero, extents below 2^62"""
    nell = sum(1 for e in es if e[0] == 'e')
    if nell > 1:
        return False
    nax = len(es) - nell
    if nax > len(shape):
        return False
    k = 0
    for e in es:
        if e[0] == 'e':
            k += len(shape) - nax
            continue
        n = shape[k]
        k += 1
        if n >= EXT_MAX:
            return False
        if e[0] == 'i':
            if not (-n <= e[1] < n):
                return False
        elif triple(e)[2] == 0:
            return False
    return True


def _pylen(n, a, b, c):
    return len(range(n)[slice(a, b, c)])


# known-finding input classes: none left (the five index-level classes, the float length, the trailing axes, the trailing
# empty ellipsis and the single-range CTAD defect were repaired by `fix:` commits, see fixes/C05-*.diff)
KNOWN_PREDICATES = {}


# ------------------------------------------------------------------------------------------------------------------
# ORACLE: CPython / NumPy
# ------------------------------------------------------------------------------------------------------------------

def np_index(es):
    out = []
    for e in es:
        if e[0] == 'i':
            out.append(e[1])
        elif e[0] == 'e':
            out.append(Ellipsis)
        else:
            out.append(slice(*triple(e)))
    return tuple(out)


def fmtl(ll):
    return ';'.join(fmt(l) for l in ll)


def oracle(level, shape, es, at=None):
    """expected answer line, from NumPy basic indexing on arange(prod(shape)).reshape(shape) (small) or from CPython's
    slice.indices per axis (large extents)."""
    idx = np_index(es)
    try:
        if at is not None or prod(shape) > 4096:
            # shape from a zero-stride array (no storage); the mapped index from slice.indices per axis
            z = np.broadcast_to(np.int8(0), shape)[idx]
            dst = list(z.shape)
            if at is None:
                return 'ok shape=%s idx=big' % fmt(dst)
            nell = sum(1 for e in es if e[0] == 'e')
            nax = len(es) - nell
            full = []
            for e in es:
                full += [('r', None, None, None)] * (len(shape) - nax) if e[0] == 'e' else [e]
            full += [('r', None, None, None)] * (len(shape) - len(full))
            src = []
            j = 0
            for n, e in zip(shape, full):
                if e[0] == 'i':
                    src.append(range(n)[e[1]])
                else:
                    src.append(range(n)[slice(*triple(e))][at[j]])
                    j += 1
            return 'ok shape=%s idx=%s' % (fmt(dst), fmt(src))
        base = np.arange(prod(shape), dtype=np.int64).reshape(shape)
        res = base[idx]
    except (IndexError, ValueError):
        return 'error'
    dst = list(res.shape)
    flat = [int(x) for x in np.asarray(res).ravel()]
    if level in ('index', 'apply'):
        if not flat:
            return 'ok shape=%s idx=[]' % fmt(dst)
        src = [[int(v) for v in t] for t in zip(*np.unravel_index(flat, shape))] if shape else [[] for _ in flat]
        return 'ok shape=%s idx=%s' % (fmt(dst), fmtl(src))
    if level in ('view', 'viewapply'):
        return 'ok shape=%s data=%s' % (fmt(dst), fmt(flat))
    # mutable: element k of the view := k+1, the source buffer afterwards
    buf = np.zeros(prod(shape), dtype=np.int64)
    v = buf.reshape(shape)
    v[idx] = np.arange(1, len(flat) + 1, dtype=np.int64).reshape(dst)
    return 'ok shape=%s buf=%s' % (fmt(dst), fmt([int(x) for x in buf]))


# ------------------------------------------------------------------------------------------------------------------
# cases
# ------------------------------------------------------------------------------------------------------------------

def cmp_unmodelled(a, b):
    """`unmodelled` = the model says the C++ has UB / throws here: no value to compare (dom cases are checked in post())"""
    return a == b or a == 'unmodelled' or b == 'unmodelled'


PM_KINDS = {'i': 0, 'e': 1, 'r': 2, 'rnn': 5}


def kind_of(e):
    if e[0] == 'i':
        return 0
    if e[0] == 'e':
        return 1
    if e[0] == 'r':
        return 2 + (1 if e[1] is None else 0) + (2 if e[2] is None else 0) + (4 if e[3] is None else 0)
    return 10 + (1 if e[1] is None else 0) + (2 if e[2] is None else 0)


def harness_for(enc, es):
    if enc != 'packed':
        return 'h_c05_dyn'
    if len(es) == 1:
        return 'h_c05_p1'
    if len(es) in (2, 3):
        return 'h_c05_pm23'
    return 'h_c05_pm4_%d' % kind_of(es[0])


def packed_ok(es):
    """entry kinds the multi-entry packed TUs instantiate"""
    if len(es) == 1:
        return True
    if not 2 <= len(es) <= 4:
        return False
    return all(kind_of(e) in (0, 1, 2, 5) for e in es)


def dyn_enc(es):
    """dynamic encodings able to carry these entries: all ranges all-int -> dynA and dynP; one None-pattern -> dynP"""
    pats = {kind_of(e) for e in es if e[0] in ('r', 'r2')}
    non_int = pats - {2}
    if not non_int:
        return ['dynA', 'dynP']
    if len(non_int) == 1:
        return ['dynP']
    return []


def mk(enc, level, shape, es, tags=(), at=None):
    dom = dom_entries(shape, es)
    req = 'slice enc=%s level=%s shape=%s sl=%s' % (enc, level, fmt(shape), fmt_entries(es))
    if at is not None:
        req += ' at=%s' % fmt(at)
    o = oracle(level, shape, es, at)
    ident = all(e[0] == 'e' or (e[0] in ('r', 'r2') and triple(e) in ((None, None, None), (None, None, 1))) for e in es)
    return Case(req, harness_for(enc, es), dom=dom, oracle=o, nontrivial=not ident, cmp=cmp_unmodelled,
                tags=list(tags) + ['enc=' + enc, 'level=' + level, 'dom' if dom else 'off-dom', 'rank=%d' % len(shape)])


def harness_specs(tier):
    specs = [dict(name='h_c05_p1', src='h_c05_p1.cpp', flavour='fast'),
             dict(name='h_c05_dyn', src='h_c05_dyn.cpp', flavour='fast'),
             dict(name='h_c05_pm23', src='h_c05_pm.cpp', flavour='fast')]
    for k in (0, 1, 2, 5):
        specs.append(dict(name='h_c05_pm4_%d' % k, src='h_c05_pm.cpp', flavour='fast', extra=['-DC05_LEN=4', '-DC05_FIRST=%d' % k]))
    return specs


def range_class(n, a, b, c):
    if _pylen(n, a, b, c) == 0:
        return 'range:empty'
    clamp = (a is not None and (a < -n or a >= n)) or (b is not None and (b < -n or b > n))
    return 'range:clamped' if clamp else 'range:in-range'


def gen_single_axis(tier):
    N = 4 if tier == 'quick' else 6
    cnt = 0
    for n in range(1, N + 1):
        vals = [None] + list(range(-(n + 2), n + 3))
        for a in vals:
            for b in vals:
                for c in [None, -3, -2, -1, 1, 2, 3, 'omit']:
                    e = ('r2', a, b) if c == 'omit' else ('r', a, b, c)
                    cnt += 1
                    t = [range_class(n, *triple(e)), 'single-axis']
                    yield mk('packed', 'index', [n], [e], t)
                    yield mk('packed', 'viewapply', [n], [e], t)
                    for enc in dyn_enc([e]):
                        yield mk(enc, 'index', [n], [e], t)
                    yield mk('dynP', 'view', [n], [e], t)
                    # the remaining entry points on a thinner grid (they forward to the functions above)
                    if cnt % 4 == 0 or tier == 'thorough':
                        yield mk('packed', 'apply', [n], [e], t)
                        yield mk('packed', 'mutableapply', [n], [e], t)
                        yield mk('dynP', 'apply', [n], [e], t)
                        yield mk('dynP', 'mutable', [n], [e], t)
                        yield mk('packed', 'view', [n], [e], t + ['variadic-single'])
                        yield mk('packed', 'mutable', [n], [e], t + ['variadic-single'])
                    # same range on the first / last axis of a rank-2 source (other axis full)
                    if n <= 3 and c != 'omit':
                        full = ('r', None, None, 1)
                        if kind_of(e) in (2, 5):
                            yield mk('packed', 'view', [n, 2], [e, full], t)
                            yield mk('packed', 'index', [2, n], [full, e], t)
                        yield mk('dynP', 'view', [2, n], [('e',), e], t)


def axis_pool(n, rng, tier):
    """entries for an axis of extent n in the multi-axis part: every in-range integer, Dom ranges of the four shapes the
    packed multi-entry TUs instantiate (all-int, None:None:step) and a few off-Dom ones"""
    ints = [('i', k) for k in range(-n, n)]
    rs = [('r', None, None, 1), ('r', None, None, -1), ('r', None, None, 2), ('r', None, None, -2),
          ('r', 0, n, 1), ('r', 1 if n > 1 else 0, n + 1, 1), ('r', -n, -1 if n > 1 else n, 1) if n > 1 else ('r', 0, 1, 1),
          ('r', 0, n, 2), ('r', n - 1, 0, -1) if n > 1 else ('r', 0, 0, -1), ('r', 1, 1, 1)]
    off = [('r', n - 1, 0, 1), ('r', -1, n - 1, 1) if n > 1 else ('r', 0, -3, 1), ('r', n - 1, -n - 1, -1)]
    return ints, rs, off


def gen_multi_axis(tier, rng):
    exts = [1, 2, 3] if tier == 'quick' else [1, 2, 3, 4]
    for rank in (1, 2, 3):
        shapes_ = list(itertools.product(exts, repeat=rank))
        if rank == 3 and tier == 'quick':
            shapes_ = [s for s in shapes_ if sorted(s) in ([1, 2, 3], [2, 2, 3], [2, 3, 3], [1, 1, 2], [3, 3, 3])]
        for shape in shapes_:
            shape = list(shape)
            # which axes are addressed explicitly, where the ellipsis sits (None = no ellipsis)
            for nexp in range(0, rank + 1):
                for epos in [None] + list(range(nexp + 1)):
                    if epos is None and nexp == 0:
                        continue
                    # axes taken by explicit entries: the first `epos` and the last `nexp-epos`; ellipsis covers the middle
                    if epos is None:
                        axes = list(range(nexp))
                    else:
                        axes = list(range(epos)) + list(range(rank - (nexp - epos), rank))
                    pools = [axis_pool(shape[ax], rng, tier) for ax in axes]
                    # entry kind pattern: integer or range per explicit axis
                    for pat in itertools.product('ir', repeat=nexp):
                        nsamp = 2 if tier == 'quick' else 8
                        for s in range(nsamp):
                            es = []
                            offdom = (s == nsamp - 1) and 'r' in pat
                            for p, (ints, rs, off) in zip(pat, pools):
                                if p == 'i':
                                    es.append(rng.choice(ints))
                                else:
                                    es.append(rng.choice(off) if offdom and rng.random() < 0.6 else rng.choice(rs))
                            if epos is not None:
                                es.insert(epos, ('e',))
                            t = ['multi-axis', 'ellipsis@%s' % epos if epos is not None else 'no-ellipsis',
                                 'pattern=' + (''.join(pat) or '-'), 'missing-axes' if (epos is None and nexp < rank) else 'all-axes']
                            levels = ['index', 'view'] + (['mutable'] if s == 0 else [])
                            for level in levels:
                                if packed_ok(es):
                                    yield mk('packed', level, shape, es, t)
                                for enc in dyn_enc(es):
                                    yield mk(enc, level, shape, es, t)


def gen_int_exhaustive(tier):
    """every in-range integer at every position of rank 1..3 sources together with full slices / an ellipsis"""
    full = ('r', None, None, 1)
    for shape in ([3], [2, 3], [3, 2], [2, 3, 2]):
        rank = len(shape)
        for ax in range(rank):
            for k in range(-shape[ax], shape[ax]):
                es = [full] * rank
                es[ax] = ('i', k)
                t = ['int-exhaustive']
                yield mk('packed', 'view', shape, es, t)
                yield mk('dynP', 'view', shape, es, t)
                yield mk('dynA', 'index', shape, [('i', k) if j == ax else ('r', 0, shape[j], 1) for j in range(rank)], t)
                if ax == 0:
                    yield mk('packed', 'view', shape, [('i', k), ('e',)], t)
                    yield mk('dynA', 'view', shape, [('i', k), ('e',)], t)
                if ax == rank - 1:
                    yield mk('packed', 'view', shape, [('e',), ('i', k)], t)
                    yield mk('dynA', 'view', shape, [('e',), ('i', k)], t)
        # all integers: rank-0 result
        for idx in itertools.product(*[range(-n, n) for n in shape]):
            es = [('i', k) for k in idx]
            yield mk('packed', 'view', shape, es, ['all-int'])
            yield mk('dynA', 'view', shape, es, ['all-int'])


def gen_large(tier, rng):
    """extents up to 2^31: shape function + one mapped destination index (no storage)"""
    cnt = 150 if tier == 'quick' else 4000
    specials = [2 ** 24 - 1, 2 ** 24, 2 ** 24 + 1, 2 ** 24 + 3, 2 ** 25 + 2, 2 ** 31 - 1, 2 ** 31 - 64, 2 ** 31 - 129, 2 ** 30 + 1, 10 ** 6 + 3, 2 ** 20]
    for t in range(cnt):
        n = specials[t] if t < len(specials) else (rng.randrange(2 ** 16, 2 ** 24) if t % 3 else rng.randrange(2 ** 24, 2 ** 31))
        kind = t % 6
        if kind == 0:
            e = ('r', None, None, rng.choice([None, 1, 2, 3, 7, -1, -2, -5]))
        elif kind == 1:
            a = rng.randrange(0, n); e = ('r', a, rng.choice([None, n, n + 5, rng.randrange(a + 1, n + 1)]), rng.choice([None, 1, 2, 3, 1000]))
        elif kind == 2:
            a = rng.randrange(-n, 0); b = rng.choice([n, n + 1, rng.randrange(a + 1, 0) if a < -1 else n])
            e = ('r', a, b, rng.choice([1, 2, 3]))
        elif kind == 3:
            e = ('r', rng.randrange(0, n), None, rng.choice([-1, -2, -3, -1000]))
        elif kind == 4:
            e = ('r', rng.randrange(1, n) if n > 1 else 0, 0, rng.choice([-1, -2, -7])) if n > 1 else ('r', None, None, -1)
        else:
            e = ('r2', rng.choice([None, 0, rng.randrange(0, n)]), rng.choice([None, n]))
        L = _pylen(n, *triple(e))
        at = [rng.choice([0, L - 1, rng.randrange(L)])] if L > 0 else None
        tg = ['large', 'n>=2^24' if n >= BIG else 'n<2^24', range_class(n, *triple(e))]
        yield mk('packed', 'index', [n], [e], tg, at=at)
        for enc in dyn_enc([e])[:1]:
            yield mk(enc, 'index', [n], [e], tg, at=at)
        if t % 5 == 0 and kind_of(e) in (2, 5):
            m = rng.randrange(1, 2 ** 20)
            yield mk('packed', 'index', [m, n], [('i', rng.randrange(-m, m)), e], tg, at=at)
            yield mk('dynP', 'index', [m, n, 3], [('i', rng.randrange(-m, m)), e, ('e',)], tg, at=(at + [1]) if at else None)


def witnesses():
    """witness requests of known/C05.json (re-executed on every run)"""
    import json, os
    p = os.path.join(os.path.dirname(os.path.dirname(os.path.dirname(os.path.abspath(__file__)))), 'known', 'C05.json')
    if not os.path.exists(p):
        return
    for e in json.load(open(p)):
        enc, level, shape, es = parse_req(e['witness'])
        yield mk(enc, level, shape, es, ['witness'])


def gen_nested(tier, rng):
    """a[sl][sl2]: a slice view of a slice view (theorems slice_of_slice, slice_of_slice_view): all-int entries (the
    array<int,3> run-time encoding), single axis exhaustively on a grid, then ranks 2..3 with integers and an ellipsis"""
    def one(shape, es1, es2, tags):
        try:
            base = np.arange(prod(shape), dtype=np.int64).reshape(shape)
            mid = base[np_index(es1)]
            res = mid[np_index(es2)]
        except (IndexError, ValueError):
            return None
        if not (dom_entries(shape, es1) and dom_entries(list(mid.shape), es2)):
            return None
        flat = [int(x) for x in np.asarray(res).ravel()]
        o = 'ok shape=%s data=%s' % (fmt(list(res.shape)), fmt(flat))
        req = 'slice2 shape=%s sl=%s sl2=%s' % (fmt(shape), fmt_entries(es1), fmt_entries(es2))
        return Case(req, 'h_c05_dyn', dom=True, oracle=o, nontrivial=len(flat) > 1, cmp=cmp_unmodelled,
                    tags=list(tags) + ['nested', 'rank=%d' % len(shape), 'empty' if not flat else 'non-empty'])
    N = 5 if tier == 'quick' else 7
    steps = [-2, -1, 1, 2] if tier == 'quick' else [-3, -2, -1, 1, 2, 3]
    k = 0
    for n in range(1, N + 1):
        vals = list(range(-(n + 1), n + 2))
        for a1 in vals:
            for b1 in vals:
                for c1 in steps:
                    l1 = _pylen(n, a1, b1, c1)
                    if l1 == 0:
                        continue
                    v2 = list(range(-(l1 + 1), l1 + 2))
                    for a2 in v2:
                        for b2 in v2:
                            for c2 in steps:
                                k += 1
                                if tier == 'quick' and k % 7:
                                    continue
                                if tier != 'quick' and k % 5:
                                    continue
                                yield one([n], [('r', a1, b1, c1)], [('r', a2, b2, c2)], ['single-axis'])
    def rentry(n, allow_int=True):
        t = rng.random()
        if allow_int and t < 0.3:
            return ('i', rng.randrange(-n, n))
        return ('r', rng.randrange(-(n + 1), n + 2), rng.randrange(-(n + 1), n + 2), rng.choice([-2, -1, 1, 2, 3]))
    def rindex(shape):
        es = []
        nax = rng.randint(0, len(shape))
        ell = rng.random() < 0.4
        pos = rng.randint(0, nax) if ell else None
        axes = list(range(len(shape)))
        # entries address the leading axes before the ellipsis and the trailing ones after it
        lead = nax if pos is None else pos
        for j in range(nax):
            ax = j if j < lead else len(shape) - (nax - j)
            es.append(rentry(shape[ax]))
        if ell:
            es.insert(pos, ('e',))
        return es
    for _ in range(1500 if tier == 'quick' else 12000):
        shape = [rng.randint(1, 5) for _ in range(rng.randint(2, 3))]
        es1 = rindex(shape)
        try:
            mid = list(np.broadcast_to(np.int8(0), shape)[np_index(es1)].shape)
        except (IndexError, ValueError):
            continue
        if not mid or 0 in mid:
            continue
        yield one(shape, es1, rindex(mid), ['multi-axis'])


def gen(tier, rng):
    for g in (witnesses(), gen_single_axis(tier), gen_int_exhaustive(tier), gen_multi_axis(tier, rng), gen_large(tier, rng), gen_nested(tier, rng)):
        for c in g:
            if c is not None:
                yield c


def post(cases, tier):
    """tightness of the known-finding classes: wherever the model has a value, IMPL must equal it — also off-domain, also when
    IMPL differs from the oracle (the runner reports only the oracle difference there); and on Dom the model must have a value."""
    out = []
    bad = [c for c in cases if c.mans is not None and c.impl is not None and c.impl != 'no-harness' and c.mans != 'unmodelled' and c.impl != c.mans]
    cj = lambda c: {'req': c.req, 'harness': c.harness, 'dom': c.dom, 'oracle': c.oracle, 'impl_answer': c.impl, 'model_answer': c.mans}
    # (a) IMPL wrong in a way the model does not mirror: a new kind of disagreement inside a known class -> failing input
    # (the runner itself reports IMPL != oracle unless a known-finding predicate swallowed the case)
    swallowed = lambda c: any(f(c) for f in KNOWN_PREDICATES.values())
    new_fail = sorted([c for c in bad if c.oracle is not None and c.impl != c.oracle and swallowed(c)], key=lambda c: (len(c.req), c.req))
    if new_fail:
        c = new_fail[0]
        out.append(('property-fails', 'IMPL differs from Python AND from the mirrored model on %d inputs (a disagreement of a new kind; known-finding classes '
                    'only cover the mirrored behaviour), e.g. %s impl=%s model=%s expected=%s' % (len(new_fail), c.req, c.impl, c.mans, c.oracle),
                    {'cases': [cj(c) for c in new_fail[:20]], 'count': len(new_fail)}, False))
    # (b) IMPL agrees with Python but not with the model: the model no longer mirrors the code (e.g. a defect was repaired)
    stale = sorted([c for c in bad if c.oracle is not None and c.impl == c.oracle], key=lambda c: (len(c.req), c.req))
    if stale:
        c = stale[0]
        out.append(('correspondence', 'IMPL agrees with Python but not with the Lean MODEL on %d inputs (model and known findings are stale), e.g. %s impl=%s model=%s' % (
            len(stale), c.req, c.impl, c.mans), {'cases': [cj(c) for c in stale[:20]], 'count': len(stale), 'correspondence': ANCHORS}, True))
    und = [c for c in cases if c.dom and c.mans == 'unmodelled']
    if und:
        c = und[0]
        out.append(('model-vs-oracle', 'Lean MODEL has no value inside the theorem domain on %d inputs, e.g. %s' % (len(und), c.req),
                    {'cases': [{'req': c.req, 'harness': c.harness, 'dom': True, 'oracle': c.oracle} for c in und[:20]]}, True))
    return out


def coverage_extra(cases, tier):
    n_dom = sum(1 for c in cases if c.dom)
    n_bad = sum(1 for c in cases if c.oracle is not None and c.impl != c.oracle)
    return {'cases_in_Dom': n_dom, 'cases_off_Dom': len(cases) - n_dom, 'impl_differs_from_python': n_bad,
            'model_unmodelled': sum(1 for c in cases if c.mans == 'unmodelled')}
