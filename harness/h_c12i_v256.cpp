// C12 harness, integer element types, vector extension 256 bit; flags as h_c12_v256.cpp
#include "nmtools/array/eval/simd/vector_256.hpp"
#define C12_CTX  nmtools::array::simd::vector_256
#define C12_BITS 256
#include "h_c12_int_common.hpp"
