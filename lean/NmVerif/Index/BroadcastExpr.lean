import NmVerif.Index.Broadcast
/-
  NmVerif.Index.BroadcastExpr — MODEL of a *nest* of `index::broadcast_shape` calls (C06).

  The mixed-kind harness (harness/gen_kinds_c06.py) evaluates, on the real headers, clauses such as
  `broadcast_shape(broadcast_shape(a,b),c)`, `broadcast_shape(a,broadcast_shape(b,c))`, `broadcast_shape(c,a,b)`,
  `broadcast_shape(a,broadcast_shape(a,b))` — every order and grouping of the operands, intermediate results being
  passed on as the library returned them (`nmtools_maybe<…>`: the `is_maybe` overloads of broadcast_shape.hpp:186-227
  make `Nothing` sticky).  `BExpr` is the syntax of such a clause, `BExpr.eval` its value.

  Core Lean only (linked into the `driver` executable).
-/
namespace NmVerif

/-- a nest of broadcast_shape calls over the operands `env[0], env[1], …` -/
inductive BExpr where
  /-- operand number `i` -/
  | leaf (i : Nat)
  /-- `index::broadcast_shape(l, r)` -/
  | pair (l r : BExpr)
  /-- `index::broadcast_shape(x, y, z)` (the variadic overload, broadcast_shape.hpp:229-245) -/
  | tri (x y z : BExpr)
  deriving Repr, DecidableEq

namespace BExpr

/-- value of the clause; `none` = `Nothing` (sticky through the `is_maybe` overloads), also for an operand number
    that does not exist -/
def eval (env : List Shape) : BExpr → Option Shape
  | leaf i => env[i]?
  | pair l r => (eval env l).bind (fun a => (eval env r).bind (fun b => broadcastShape2 a b))
  | tri x y z => (eval env x).bind (fun a => (eval env y).bind (fun b => (eval env z).bind (fun c =>
      broadcastShape [a, b, c])))

/-- the operand numbers of the clause, left to right (with repetitions) -/
def leaves : BExpr → List Nat
  | leaf i => [i]
  | pair l r => leaves l ++ leaves r
  | tri x y z => leaves x ++ leaves y ++ leaves z

/-- prefix notation used on the wire: a digit = operand, `*` = pair, `+` = tri -/
def parseAux : Nat → List Char → Option (BExpr × List Char)
  | 0, _ => none
  | _ + 1, [] => none
  | fuel + 1, c :: cs =>
    if c = '*' then do
      let (l, r1) ← parseAux fuel cs
      let (r, r2) ← parseAux fuel r1
      pure (pair l r, r2)
    else if c = '+' then do
      let (x, r1) ← parseAux fuel cs
      let (y, r2) ← parseAux fuel r1
      let (z, r3) ← parseAux fuel r2
      pure (tri x y z, r3)
    else if c.isDigit then some (leaf (c.toNat - '0'.toNat), cs)
    else none

def parse (s : String) : Option BExpr :=
  match parseAux (s.length + 1) s.toList with
  | some (e, []) => some e
  | _ => none

end BExpr
end NmVerif
