import NmVerif.Basic
/-
  Concrete n-d array model: shape + layout flag + flat buffer.
  Mirrors base_ndarray_t::operator()(indices...) = data_[offset_(indices)]
  with offset_ = row_major_offset_t / column_major_offset_t (base_ndarray.hpp).
-/
namespace NmVerif

structure NDA (α : Type) where
  shape : Shape
  colMajor : Bool
  data : List α
deriving Repr

namespace NDA
variable {α : Type}

def stridesOf (a : NDA α) : List Nat :=
  if a.colMajor then colStrides a.shape else strides a.shape

/-- `offset_(indices)` -/
def offset (a : NDA α) (i : Idx) : Nat := computeOffset i a.stridesOf

/-- element read; `none` = the access would leave the buffer -/
def get? (a : NDA α) (i : Idx) : Option α := a.data[a.offset i]?

/-- element write through `operator()` -/
def set (a : NDA α) (i : Idx) (v : α) : NDA α := { a with data := a.data.set (a.offset i) v }

/-- the class invariant: element count = product of the shape -/
def WF (a : NDA α) : Prop := a.data.length = prod a.shape

/-- inverse of the layout's offset function -/
def unoffset (colMajor : Bool) (s : Shape) (k : Nat) : Idx :=
  if colMajor then (ndindex s.reverse k).reverse else ndindex s k

/-- array of the given layout whose logical element at `i` is `f i` -/
def ofFn (colMajor : Bool) (s : Shape) (f : Idx → α) : NDA α :=
  { shape := s, colMajor := colMajor, data := (List.range (prod s)).map (fun k => f (unoffset colMajor s k)) }

end NDA
end NmVerif
