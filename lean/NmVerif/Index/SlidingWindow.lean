import NmVerif.Index.Roll
/-
  NmVerif.Index.SlidingWindow — MODEL of include/nmtools/array/index/sliding_window.hpp (+ view/sliding_window.hpp).

  Stable names:
    `Index.shapeSlidingWindow src ws axes scalarW : Option Shape`   index::shape_sliding_window
    `Index.indexSlidingWindow d srcDim axes winDim : Option Idx`     index::sliding_window
    `Index.slidingWindowView src ws axes scalarW : Option IxView`    view::sliding_window(a, window, axis)
        `ws`      window sizes (a scalar window is the one-element list with `scalarW = true`)
        `axes`    `none` = axis None, `some l` = int axis (one element) or axis list (raw, possibly negative)
  Facts mirrored:
    * dst rank = src rank + (1 for a scalar window, else len ws); window extents are appended;
    * scalar window, axis None: EVERY axis shrinks by `w - 1` but only ONE window axis is appended, whose offset is
      added to axis 0 (NumPy accepts this call for rank 1 only);
    * window list, axis None: `dst[i] = src[i] - (ws[i] - 1)`; axis list: `dst[axis_i] -= ws[i] - 1` on the normalised axes
      (repeated axes accumulate, as in NumPy); the index function adds `d[src_dim + a]` at the RAW axis through `nmtools::at`
      (Python-style wrap), so negative axes work;
    * no check `w ≤ extent` (`size_t` wrap; outside the scope, the model truncates at 0).
  Core Lean only.
-/
namespace NmVerif.Index

def shrinkAll (src : Shape) (ws : List Nat) : Shape := List.zipWith (fun e w => e - (w - 1)) src ws

def shrinkAxes : Shape → List Nat → List Nat → Shape
  | s, k :: ks, w :: ws =>
      match s[k]? with
      | some e => shrinkAxes (s.set k (e - (w - 1))) ks ws
      | none => s
  | s, _, _ => s

def shapeSlidingWindow (src : Shape) (ws : List Nat) (axes : Option (List Int)) (scalarW : Bool) : Option Shape :=
  match axes with
  | none =>
      if scalarW then some (src.map (fun e => e - (ws.headD 1 - 1)) ++ ws)
      else some (shrinkAll src ws ++ src.drop ws.length ++ ws)
  | some l =>
      (l.mapM (fun a => normalizeAxis1 a src.length)).map (fun ks => shrinkAxes src ks ws ++ ws)

/-- `res[at(axis, a)] += d[a + src_dim]` for every listed (raw) axis -/
def addWindowOffsets : Idx → List Int → List Nat → Option Idx
  | res, ax :: axes, o :: offs =>
      match atPy res ax with
      | some x => addWindowOffsets (setPy res ax (x + o)) axes offs
      | none => none
  | res, _, _ => some res

def indexSlidingWindow (d : Idx) (srcDim : Nat) (axes : Option (List Int)) : Option Idx :=
  let res := d.take srcDim
  let offs := d.drop srcDim
  match axes with
  | none => some (List.zipWith (· + ·) res (offs ++ List.replicate (srcDim - offs.length) 0))
  | some l => addWindowOffsets res l offs

def slidingWindowView (src : Shape) (ws : List Nat) (axes : Option (List Int)) (scalarW : Bool) : Option IxView :=
  (shapeSlidingWindow src ws axes scalarW).map (fun dst =>
    ⟨src, dst, fun d => some ((indexSlidingWindow d src.length axes).getD [u64 (-1)])⟩)

end NmVerif.Index
