"""C04, tiers B and C — generators + NumPy oracle for
B: stack hstack vstack dstack column_stack split sliding_window diagonal diagflat tril triu tri eye identity where
   compress resize expand            (harness h_c04b.cpp, h_c04d.cpp)
C: arange linspace full zeros ones full_like zeros_like ones_like      (harness h_c04c.cpp)

ORACLE: NumPy called on np.arange(size).reshape(shape) (+1000 / +2000 for the second / third operand, +1 for the
routines whose fill value is hard-wired to 0), so an output element is the flat id of the source element it was read
from.  resize (nearest-neighbour sampling) and expand (spacing insertion) have no NumPy counterpart: their documented
definition is written out directly below (resize_def, expand_def)."""
import itertools
from fractions import Fraction
import numpy as np
from numpy.lib.stride_tricks import sliding_window_view
from runner import Case
from shapes import shapes, prod, fmt

H_B = 'h_c04b'
H_C = 'h_c04c'
H_D = 'h_c04d'


def harness_specs_bc(tier):
    return [dict(name=H_B, src='h_c04b.cpp', flavour='fast'),
            dict(name=H_C, src='h_c04c.cpp', flavour='fast'),
            dict(name=H_D, src='h_c04d.cpp', flavour='fast')]


# ---------------------------------------------------------------------------------------------------------------
# helpers
# ---------------------------------------------------------------------------------------------------------------

def iota(s, base=0):
    return (np.arange(prod(s), dtype=np.int64) + base).reshape(s)


def ans(r):
    r = np.asarray(r)
    return 'ok shape=%s data=%s' % (fmt(r.shape), fmt(r.reshape(-1)))


def ans_real(r):
    r = np.asarray(r, dtype=np.float64)
    return 'ok shape=%s data=%s' % (fmt(r.shape), ','.join('%.17g' % x for x in r.reshape(-1)) if r.size else '[]')


def src_shapes(tier, rng=None):
    """exhaustive small scope (rank 1..3 / extents 1..3 quick, rank 1..4 / extents 1..4 thorough) + sampled larger shapes"""
    R, E = (3, 3) if tier == 'quick' else (4, 4)
    out = [s for s in shapes(R, E, min_rank=1)]
    if rng is not None:
        for _ in range(3 if tier == 'quick' else 16):
            r = rng.randint(1, 3)
            s = [rng.randint(1, 7 if r < 3 else 5) for _ in range(r)]
            s[rng.randrange(r)] = rng.randint(E + 1, 7 if r < 3 else 5)     # at least one extent beyond the exhaustive scope
            out.append(s)
    return out


def scope(tier):
    return (3, 3) if tier == 'quick' else (4, 4)


def sample(rng, items, k):
    items = list(items)
    if len(items) <= k:
        return items
    return rng.sample(items, k)


def all_axes(r):
    """every valid axis of a rank-r array, non-negative first, then the negative spellings"""
    return list(range(r)) + list(range(-r, 0))


def axtag(ax):
    if ax is None:
        return 'axis=None'
    return 'axis<0' if ax < 0 else 'axis>=0'


def parse_ans(a):
    """'ok shape=.. data=..' -> (shape string, [floats]) or None"""
    if not isinstance(a, str) or not a.startswith('ok shape='):
        return None
    try:
        sh, dt = a[3:].split(' ')
        sh = sh[len('shape='):]
        dt = dt[len('data='):]
        # the Lean model prints a non-integral rational element as `num/den`
        vals = [] if dt == '[]' else [float(Fraction(x)) if '/' in x else float(x) for x in dt.split(',')]
        return sh, vals
    except ValueError:
        return None


REL_TOL = 1e-6


def cmp_real(a, b):
    """shape exactly; every value within 1e-6 * max(1, |a|, |b|) (relative tolerance, floored at magnitude 1 so that
    a float32 step error on a value that should be 0 is not amplified); nan / inf never match a finite value"""
    pa, pb = parse_ans(a), parse_ans(b)
    if pa is None or pb is None:
        return a == b
    if pa[0] != pb[0] or len(pa[1]) != len(pb[1]):
        return False
    for x, y in zip(pa[1], pb[1]):
        if x != x or y != y:
            return False
        if abs(x - y) > REL_TOL * max(1.0, abs(x), abs(y)):
            return False
    return True


# ---------------------------------------------------------------------------------------------------------------
# documented definitions without a NumPy counterpart
# ---------------------------------------------------------------------------------------------------------------

def resize_def(a, to):
    """nearest-neighbour sampling: destination coordinate i on an axis of destination extent t and source extent n
    reads the source coordinate floor(i * n / t) (scale factor n/t applied to the destination coordinate)."""
    out = np.empty(to, dtype=a.dtype)
    for idx in itertools.product(*[range(t) for t in to]):
        src = tuple(int(Fraction(i * n, t).__floor__()) for i, n, t in zip(idx, a.shape, to))
        out[idx] = a[src]
    return out


def expand_def(a, axes, spacings, fill=-1):
    """spacing insertion: on every listed axis (extent n, spacing p) the result has extent n + (n-1)*p, source element
    k sits at position k*(p+1), every other position holds the fill value.  Several axes = one insertion after the other
    (so an axis listed twice is spaced twice: factors multiply)."""
    out = a
    for ax, p in zip(axes, spacings):
        ax = ax % a.ndim
        shp = list(out.shape)
        shp[ax] = out.shape[ax] + (out.shape[ax] - 1) * p
        nxt = np.full(shp, fill, dtype=a.dtype)
        nxt[tuple(slice(None, None, p + 1) if k == ax else slice(None) for k in range(a.ndim))] = out
        out = nxt
    return out


# ---------------------------------------------------------------------------------------------------------------
# tier B: joining
# ---------------------------------------------------------------------------------------------------------------

def gen_stack(tier, rng):
    for s in src_shapes(tier, rng):
        a, b = iota(s), iota(s, 1000)
        r = len(s)
        for ax in list(range(r + 1)) + list(range(-(r + 1), 0)):
            yield Case('stack shape=%s shape2=%s axis=%d' % (fmt(s), fmt(s), ax), H_B, oracle=ans(np.stack((a, b), axis=ax)),
                       model=False, tags=['stack', 'rank=%d' % r, axtag(ax)])


def _with(s, k, e):
    t = list(s)
    t[k] = e
    return t


def _join_cases(op, fn, s, seconds):
    a = iota(s)
    seen = set()
    for s2, tag in seconds:
        if tuple(s2) in seen:
            continue
        seen.add(tuple(s2))
        b = iota(s2, 1000)
        yield Case('%s shape=%s shape2=%s' % (op, fmt(s), fmt(s2)), H_B, oracle=ans(fn((a, b))), model=False,
                   tags=[op, 'rank=%d' % len(s), tag])


def gen_hstack(tier, rng):
    R, E = scope(tier)
    for s in src_shapes(tier, rng):
        k = 0 if len(s) == 1 else 1
        yield from _join_cases('hstack', np.hstack, s, [(_with(s, k, e), 'same-rank') for e in range(1, E + 1)])


def gen_vstack(tier, rng):
    R, E = scope(tier)
    for s in src_shapes(tier, rng):
        if len(s) == 1:
            sec = [(s, 'same-rank')] + [([e, s[0]], 'mixed-rank') for e in range(1, E + 1)]
        else:
            sec = [(_with(s, 0, e), 'same-rank') for e in range(1, E + 1)]
            if len(s) == 2:
                sec.append(([s[1]], 'mixed-rank'))
        yield from _join_cases('vstack', np.vstack, s, sec)


def gen_dstack(tier, rng):
    R, E = scope(tier)
    for s in src_shapes(tier, rng):
        if len(s) == 1:
            sec = [(s, 'same-rank'), ([1, s[0]], 'mixed-rank')] + [([1, s[0], e], 'mixed-rank') for e in range(1, E + 1)]
        elif len(s) == 2:
            sec = [(s, 'same-rank')] + [(s + [e], 'mixed-rank') for e in range(1, E + 1)]
            if s[0] == 1:
                sec.append(([s[1]], 'mixed-rank'))
        else:
            sec = [(_with(s, 2, e), 'same-rank') for e in range(1, E + 1)]
            if len(s) == 3 and s[2] == 1:
                sec.append((s[:2], 'mixed-rank'))
        yield from _join_cases('dstack', np.dstack, s, sec)


def gen_column_stack(tier, rng):
    R, E = scope(tier)
    for s in src_shapes(tier, rng):
        if len(s) == 1:
            sec = [(s, 'same-rank')] + [([s[0], e], 'mixed-rank') for e in range(1, E + 1)]
        else:
            sec = [(_with(s, 1, e), 'same-rank') for e in range(1, E + 1)]
            if len(s) == 2:
                sec.append(([s[0]], 'mixed-rank'))
        yield from _join_cases('column_stack', np.column_stack, s, sec)


# ---------------------------------------------------------------------------------------------------------------
# tier B: split
# ---------------------------------------------------------------------------------------------------------------

def split_index_lists(n):
    """(list, class) — class by the kind of entries
    interior : strictly increasing, all in 1..n-1  (every part non-empty)
    empty-part : non-decreasing, entries in 0..n, some part empty (repeated entry, 0 or n)
    beyond   : an entry > n (NumPy clamps: trailing empty parts)
    (unsorted lists are outside np.split's documented domain "1-D array of sorted integers": not generated)"""
    out = []
    for l in (1, 2):
        for c in itertools.combinations_with_replacement(range(0, n + 1), l):
            interior = all(0 < x < n for x in c) and len(set(c)) == len(c)
            out.append((list(c), 'idx-interior' if interior else 'idx-empty-part'))
    out.append(([n + 1], 'idx-beyond'))
    out.append(([1, n + 2], 'idx-beyond'))
    # three cut points (four parts): interior where the extent allows it, a repeated one, one beyond the extent
    out.append(([1, 2, 3], 'idx-interior' if n >= 4 else 'idx-beyond' if n < 3 else 'idx-empty-part'))
    out.append(([0, n, n + 3], 'idx-beyond'))
    # descending cut points: outside np.split's documented domain but accepted by it (a[hi:lo] is empty); covered by
    # splitIdx_elem / splitIdx_inBounds (not by splitIdx_partition, which needs sorted cut points)
    if n >= 2:
        out.append(([n, 1], 'idx-unsorted'))
    return out


def gen_split(tier, rng):
    for s in src_shapes(tier, rng):
        a = iota(s)
        r = len(s)
        for ax in all_axes(r):
            n = s[ax]
            for sec in [d for d in range(1, n + 1) if n % d == 0]:
                parts = np.split(a, sec, axis=ax)
                for j, p in enumerate(parts):
                    yield Case('split shape=%s sections=%d axis=%d part=%d' % (fmt(s), sec, ax, j), H_B,
                               oracle='ok parts=%d %s' % (len(parts), ans(p)[3:]), model=False, nontrivial=sec > 1,
                               tags=['split', 'sections', 'rank=%d' % r, axtag(ax)])
            lists = split_index_lists(n)
            if r >= 2:
                # rank 1: every list, every part; rank 2: sampled lists, every part; rank >= 3: sampled lists, one part each
                few = r >= 3 or tier != 'quick'
                keep = [x for x in lists if x[1] == 'idx-interior']
                lists = (sample(rng, keep, 2) if few else keep) + \
                    sample(rng, [x for x in lists if x[1] == 'idx-empty-part'], 2 if few else 4) + \
                    sample(rng, [x for x in lists if x[1] == 'idx-beyond'], 1 if few else 2) + \
                    sample(rng, [x for x in lists if x[1] == 'idx-unsorted'], 1)
            for il, cls in lists:
                parts = np.split(a, il, axis=ax)
                chosen = list(enumerate(parts))
                if r >= 3:
                    chosen = [rng.choice(chosen)]
                for j, p in chosen:
                    yield Case('split shape=%s indices=%s axis=%d part=%d' % (fmt(s), fmt(il), ax, j), H_B,
                               oracle='ok parts=%d %s' % (len(parts), ans(p)[3:]), model=False,
                               tags=['split', 'indices', cls, 'rank=%d' % r, axtag(ax)])


# ---------------------------------------------------------------------------------------------------------------
# tier B: sliding_window
# ---------------------------------------------------------------------------------------------------------------

def gen_sliding_window(tier, rng):
    cap = 12 if tier == 'quick' else 8
    for s in src_shapes(tier, rng):
        a = iota(s)
        r = len(s)

        def case(req, w, ax, tags):
            try:
                o = sliding_window_view(a, w, axis=ax)
            except ValueError:
                return None
            return Case(req, H_B, oracle=ans(o), model=False, nontrivial=True, tags=['sliding_window', 'rank=%d' % r] + tags)
        # window int, axis None: NumPy accepts it for rank 1 only
        if r == 1:
            for w in range(1, s[0] + 1):
                yield case('sliding_window shape=%s window=%d axis=None' % (fmt(s), w), w, None, ['window=int', 'axis=None'])
        # window int, axis int (every axis, both spellings)
        for ax in all_axes(r):
            for w in range(1, s[ax] + 1):
                yield case('sliding_window shape=%s window=%d axis=%d' % (fmt(s), w, ax), w, ax, ['window=int', axtag(ax)])
        # window tuple, axis None: one window size per axis
        wl = list(itertools.product(*[range(1, e + 1) for e in s]))
        for w in (wl if r <= 3 and max(s) <= scope(tier)[1] else sample(rng, wl, cap)):      # slidingWindowNone_*
            yield case('sliding_window shape=%s wlist=%s axis=None' % (fmt(s), fmt(w)), tuple(w), None, ['window=tuple', 'axis=None'])
        # window tuple, axis tuple (length 1..2, incl. negative and repeated axes)
        combos = []
        for l in (1, 2):
            for axs in itertools.product(all_axes(r), repeat=l):
                for w in itertools.product(range(1, 4 if tier == 'quick' else 5), repeat=l):
                    combos.append((axs, w))
        # rank <= 3 in the exhaustive extents scope: every axis list of length 1..2 (both spellings, repeats) x every
        # window list, plus sampled lists of length 3 (slidingWindowList_*); otherwise sampled
        if r <= 3 and max(s) <= scope(tier)[1]:
            triples = [(axs, w) for axs in itertools.product(all_axes(r), repeat=3) for w in itertools.product(range(1, 3), repeat=3)]
            chosen = combos + sample(rng, triples, cap)
        else:
            chosen = sample(rng, combos, cap * 4)
        for axs, w in chosen:
            tags = ['window=tuple', 'axis=tuple', 'alist<0' if any(x < 0 for x in axs) else 'alist>=0']
            if len(set(x % r for x in axs)) < len(axs):
                tags.append('alist-repeated')
            c = case('sliding_window shape=%s wlist=%s alist=%s' % (fmt(s), fmt(w), fmt(axs)), tuple(w), tuple(axs), tags)
            if c is not None:
                yield c


# ---------------------------------------------------------------------------------------------------------------
# tier B: diagonal family
# ---------------------------------------------------------------------------------------------------------------

OFFSETS = list(range(-3, 4))       # quick: offsets / k in [-3,3]


def offsets(tier):
    return OFFSETS if tier == 'quick' else list(range(-5, 6))


def gen_diagonal(tier, rng):
    extra = []
    if tier == 'quick':     # the quick scope stops at rank 3: a few rank-4 sources so that every rank-4 axis pair is run too
        extra = [[rng.randint(1, 3) for _ in range(4)] for _ in range(4)]
    for s in src_shapes(tier, rng) + extra:
        r = len(s)
        if r < 2:
            continue
        a = iota(s)
        pairs = [(p, q) for p in all_axes(r) for q in all_axes(r) if p % r != q % r]
        for p, q in pairs:
            neg = p < 0 or q < 0
            # the exhaustive extents scope (rank <= 3 quick, <= 4 thorough): every axis pair (both spellings) x every
            # offset, so that the general theorems diagonal_shape / _elem / _inBounds are tied to the code on their whole
            # small scope; the extra rank-4 sources of the quick tier and the sampled larger rank-3 shapes: sampled offsets
            offs = offsets(tier)
            if r > scope(tier)[0] or (r >= 3 and any(e > scope(tier)[1] for e in s)):
                offs = sample(rng, offs, 1 if neg else 3)
            for off in offs:
                yield Case('diagonal shape=%s offset=%d axis1=%d axis2=%d' % (fmt(s), off, p, q), H_B,
                           oracle=ans(np.diagonal(a, off, p, q)), model=False,
                           tags=['diagonal', 'rank=%d' % r, 'axes<0' if neg else 'axes>=0',
                                 'offset<0' if off < 0 else 'offset=0' if off == 0 else 'offset>0',
                                 'empty' if np.diagonal(a, off, p, q).size == 0 else 'non-empty'])


def gen_diagflat(tier, rng):
    for s in src_shapes(tier, rng):
        a = iota(s, 1)
        for k in offsets(tier):
            yield Case('diagflat shape=%s k=%d' % (fmt(s), k), H_B, oracle=ans(np.diagflat(a, k)), model=False,
                       tags=['diagflat', 'rank=%d' % len(s), 'k<0' if k < 0 else 'k=0' if k == 0 else 'k>0'])


def gen_tril_triu(tier, rng):
    for s in src_shapes(tier, rng):
        a = iota(s, 1)
        for k in offsets(tier):
            kt = 'k<0' if k < 0 else 'k=0' if k == 0 else 'k>0'
            yield Case('tril shape=%s k=%d' % (fmt(s), k), H_D, oracle=ans(np.tril(a, k)), model=False, tags=['tril', 'rank=%d' % len(s), kt])
            yield Case('triu shape=%s k=%d' % (fmt(s), k), H_D, oracle=ans(np.triu(a, k)), model=False, tags=['triu', 'rank=%d' % len(s), kt])


def gen_tri_eye(tier, rng):
    N = 4 if tier == 'quick' else 6
    for n in range(1, N + 1):
        yield Case('identity n=%d' % n, H_D, oracle=ans(np.identity(n, dtype=np.int64)), model=False, tags=['identity'])
        for m in [None] + list(range(1, N + 1)):
            for k in offsets(tier):
                ms = 'None' if m is None else str(m)
                kt = 'k<0' if k < 0 else 'k=0' if k == 0 else 'k>0'
                yield Case('tri n=%d m=%s k=%d' % (n, ms, k), H_D, oracle=ans(np.tri(n, m, k, dtype=np.int64)), model=False, tags=['tri', kt, 'm=' + ('None' if m is None else 'int')])
                yield Case('eye n=%d m=%s k=%d' % (n, ms, k), H_D, oracle=ans(np.eye(n, m, k, dtype=np.int64)), model=False, tags=['eye', kt, 'm=' + ('None' if m is None else 'int')])


# ---------------------------------------------------------------------------------------------------------------
# tier B: where / compress
# ---------------------------------------------------------------------------------------------------------------

def patterns(rng, n, cap):
    """all 0/1 lists of length n when 2^n <= cap, otherwise all-0, all-1 and random ones"""
    if 2 ** n <= cap:
        return [list(p) for p in itertools.product((0, 1), repeat=n)]
    out = [[0] * n, [1] * n]
    seen = {tuple(out[0]), tuple(out[1])}
    while len(out) < cap:
        p = tuple(rng.randint(0, 1) for _ in range(n))
        if p not in seen:
            seen.add(p)
            out.append(list(p))
    return out


def bcast_variants(s):
    """shapes broadcastable to s: s itself, axes replaced by 1, leading axes dropped"""
    out = [list(s)]
    for k in range(len(s)):
        if s[k] != 1:
            out.append(_with(s, k, 1))
    for k in range(1, len(s)):
        out.append(list(s[k:]))
    out.append([1])
    return out


def gen_where(tier, rng):
    cap = 16 if tier == 'quick' else 8
    for s in src_shapes(tier, rng):
        n = prod(s)
        for c in patterns(rng, n, cap):
            cond = np.array(c, dtype=np.int64).reshape(s)
            yield Case('where shape=%s cond=%s shape2=%s shape3=%s' % (fmt(s), fmt(c), fmt(s), fmt(s)), H_D,
                       oracle=ans(np.where(cond != 0, iota(s, 1000), iota(s, 2000))), model=False,
                       tags=['where', 'rank=%d' % len(s), 'same-shape'])
        # broadcasting between condition, x and y
        bv = bcast_variants(s)
        for _ in range(4 if tier == 'quick' else 3):
            sc, sx, sy = rng.choice(bv), rng.choice(bv), rng.choice(bv)
            c = [rng.randint(0, 1) for _ in range(prod(sc))]
            cond = np.array(c, dtype=np.int64).reshape(sc)
            yield Case('where shape=%s cond=%s shape2=%s shape3=%s' % (fmt(sc), fmt(c), fmt(sx), fmt(sy)), H_D,
                       oracle=ans(np.where(cond != 0, iota(sx, 1000), iota(sy, 2000))), model=False,
                       tags=['where', 'rank=%d' % len(s), 'broadcast'])


def gen_compress(tier, rng):
    cap = 16 if tier == 'quick' else 6
    for s in src_shapes(tier, rng):
        a = iota(s)
        r = len(s)
        for ax in all_axes(r) + [None]:
            n = prod(s) if ax is None else s[ax]
            lens = range(1, n + 1) if n <= 4 else sorted(set([1, n // 2, n - 1, n]))
            for l in lens:
                pats = patterns(rng, l, cap)
                if r >= 3 and ax is not None:
                    pats = sample(rng, pats, 4 if tier == 'quick' else 2)
                elif ax is None and l > 4:
                    pats = sample(rng, pats, 4)
                for c in pats:
                    o = np.compress(c, a, axis=ax)
                    yield Case('compress shape=%s cond=%s axis=%s' % (fmt(s), fmt(c), 'None' if ax is None else str(ax)), H_D,
                               oracle=ans(o), model=False, nontrivial=o.size != a.size,
                               tags=['compress', 'rank=%d' % r, axtag(ax), 'cond-short' if l < n else 'cond-full'])


# ---------------------------------------------------------------------------------------------------------------
# tier B: resize / expand (documented definitions)
# ---------------------------------------------------------------------------------------------------------------

def gen_resize(tier, rng):
    T = 4 if tier == 'quick' else 6
    cap = 12 if tier == 'quick' else 8
    for s in src_shapes(tier, rng):
        a = iota(s)
        targets = list(itertools.product(range(1, T + 1), repeat=len(s)))
        if len(s) >= 3 or (tier != 'quick' and len(s) >= 2):
            targets = sample(rng, targets, cap)
        for to in targets:
            kinds = {('up' if t > n else 'down' if t < n else 'same') for t, n in zip(to, s)}
            yield Case('resize shape=%s to=%s' % (fmt(s), fmt(to)), H_D, oracle=ans(resize_def(a, to)), model=False,
                       nontrivial=list(to) != list(s), tags=['resize', 'rank=%d' % len(s)] + sorted(kinds))


def gen_expand(tier, rng):
    for s in src_shapes(tier, rng):
        a = iota(s)
        r = len(s)
        # single axis given as an int (both spellings), scalar spacing
        for ax in all_axes(r):
            for p in (0, 1, 2):
                yield Case('expand shape=%s axis=%d spacing=%d' % (fmt(s), ax, p), H_D, oracle=ans(expand_def(a, [ax], [p])),
                           model=False, nontrivial=p > 0 and s[ax] > 1, tags=['expand', 'rank=%d' % r, 'axis=int', axtag(ax)])
        # every non-empty axis subset: scalar spacing, then one spacing per axis
        subsets = [c for l in range(1, r + 1) for c in itertools.combinations(range(r), l)]
        if tier != 'quick' and r >= 4:
            subsets = sample(rng, subsets, 6)
        for sub in subsets:
            spell = [[x for x in sub]]
            neg = [x - r if rng.random() < 0.6 else x for x in sub]
            if neg != spell[0]:
                spell.append(neg)
            for axs in spell:
                at = 'alist<0' if any(x < 0 for x in axs) else 'alist>=0'
                for p in ((0, 1, 2) if axs is spell[0] else (rng.randint(1, 2),)):
                    yield Case('expand shape=%s alist=%s spacing=%d' % (fmt(s), fmt(axs), p), H_D,
                               oracle=ans(expand_def(a, axs, [p] * len(axs))), model=False,
                               nontrivial=p > 0, tags=['expand', 'rank=%d' % r, 'axis=list', 'spacing=int', at])
                sp = [rng.randint(0, 2) for _ in axs]
                yield Case('expand shape=%s alist=%s slist=%s' % (fmt(s), fmt(axs), fmt(sp)), H_D,
                           oracle=ans(expand_def(a, axs, sp)), model=False, nontrivial=any(sp),
                           tags=['expand', 'rank=%d' % r, 'axis=list', 'spacing=list', at])
        # an axis listed twice (both spellings): the insertions compose (expandAxes_* cover repeats)
        for ax in sample(rng, list(range(r)), 2):
            sp = [rng.randint(0, 2), rng.randint(1, 2)]
            axs = [ax, ax - r]
            yield Case('expand shape=%s alist=%s slist=%s' % (fmt(s), fmt(axs), fmt(sp)), H_D,
                       oracle=ans(expand_def(a, axs, sp)), model=False, nontrivial=True,
                       tags=['expand', 'rank=%d' % r, 'axis=list', 'spacing=list', 'alist-repeated'])


# ---------------------------------------------------------------------------------------------------------------
# tier C: generators
# ---------------------------------------------------------------------------------------------------------------

def gen_arange(tier, rng):
    grid = list(range(-4, 7))
    steps = [1, 2, 3, -1, -2, -3]
    # integer grid: exact comparison
    for start in grid:
        for stop in grid:
            for step in [None] + steps:
                o = np.arange(start, stop, step, dtype=np.int64)
                yield Case('arange start=%d stop=%d step=%s dtype=int' % (start, stop, 'None' if step is None else str(step)), H_C,
                           oracle=ans(o), model=False, nontrivial=o.size > 1,
                           tags=['arange', 'int-grid', 'exact', 'empty' if o.size == 0 else 'non-empty',
                                 'step=None' if step is None else 'step<0' if step < 0 else 'step>0'])
    # real grid: real step (multiple of 0.25), integer start/stop (real start/stop do not instantiate), tolerance compare
    stepqs = [q for q in range(-12, 13) if q != 0]
    combos = [(a, b, q, d) for a in grid for b in grid for q in stepqs for d in ('float', 'double')]
    for start, stop, q, d in sample(rng, combos, 500 if tier == 'quick' else 6000):
        o = np.arange(start, stop, q / 4.0)
        yield Case('arange start=%d stop=%d stepq=%d dtype=%s' % (start, stop, q, d), H_C, oracle=ans_real(o), model=False,
                   cmp=cmp_real, nontrivial=o.size > 1,
                   tags=['arange', 'real-grid', 'tol=1e-6', 'dtype=' + d, 'empty' if o.size == 0 else 'non-empty',
                         'step<0' if q < 0 else 'step>0'])
    # integer parameters, real element type
    combos = [(a, b, st, d) for a in grid for b in grid for st in [None] + steps for d in ('float', 'double')]
    for start, stop, st, d in sample(rng, combos, 200 if tier == 'quick' else 1000):
        o = np.arange(start, stop, st, dtype=np.float64)
        yield Case('arange start=%d stop=%d step=%s dtype=%s' % (start, stop, 'None' if st is None else str(st), d), H_C,
                   oracle=ans_real(o), model=False, cmp=cmp_real, nontrivial=o.size > 1,
                   tags=['arange', 'int-grid', 'real-dtype', 'tol=1e-6', 'dtype=' + d, 'empty' if o.size == 0 else 'non-empty'])
    # real start / stop: not supported by the views (index::arange_shape resolves for index types only)
    yield Case('arange startq=2 stopq=9 stepq=3 dtype=double', H_C, oracle='unsupported', model=False, nontrivial=False,
               tags=['arange', 'unsupported-kind'])


def gen_linspace(tier, rng):
    qs = list(range(-16, 25))       # quarter units: -4 .. 6
    nums = list(range(1, 7))
    combos = [(a, b, n, e, d) for a in qs for b in qs for n in nums for e in (0, 1) for d in ('float', 'double')]
    picked = sample(rng, combos, 500 if tier == 'quick' else 8000)
    # the corner num=1 for both endpoint settings is always present
    picked += [(a, b, 1, e, d) for (a, b) in ((0, 4), (8, 8), (-6, 5)) for e in (0, 1) for d in ('float', 'double')]
    for a, b, n, e, d in picked:
        def key(name, q):
            return '%s=%d' % (name, q // 4) if q % 4 == 0 else '%sq=%d' % (name, q)
        o = np.linspace(a / 4.0, b / 4.0, n, endpoint=bool(e))
        yield Case('linspace %s %s num=%d endpoint=%d dtype=%s' % (key('start', a), key('stop', b), n, e, d), H_C,
                   oracle=ans_real(o), model=False, cmp=cmp_real, nontrivial=n > 1 and a != b,
                   tags=['linspace', 'real-grid', 'tol=1e-6', 'dtype=' + d, 'endpoint=%d' % e, 'num=%d' % n])


def gen_full(tier, rng):
    for s in src_shapes(tier, rng):
        a = iota(s)
        t = ['rank=%d' % len(s)]
        for v in (-1, 7):
            yield Case('full shape=%s value=%d' % (fmt(s), v), H_C, oracle=ans(np.full(s, v, dtype=np.int64)), model=False, tags=['full'] + t)
            yield Case('full_like shape=%s value=%d' % (fmt(s), v), H_C, oracle=ans(np.full_like(a, v)), model=False, tags=['full_like'] + t)
        yield Case('zeros shape=%s' % fmt(s), H_C, oracle=ans(np.zeros(s, dtype=np.int64)), model=False, tags=['zeros'] + t)
        yield Case('ones shape=%s' % fmt(s), H_C, oracle=ans(np.ones(s, dtype=np.int64)), model=False, tags=['ones'] + t)
        yield Case('zeros_like shape=%s' % fmt(s), H_C, oracle=ans(np.zeros_like(a)), model=False, tags=['zeros_like'] + t)
        yield Case('ones_like shape=%s' % fmt(s), H_C, oracle=ans(np.ones_like(a)), model=False, tags=['ones_like'] + t)


GENS_B = [gen_stack, gen_hstack, gen_vstack, gen_dstack, gen_column_stack, gen_split, gen_sliding_window, gen_diagonal,
          gen_diagflat, gen_tril_triu, gen_tri_eye, gen_where, gen_compress, gen_resize, gen_expand]
GENS_C = [gen_arange, gen_linspace, gen_full]


def gen_bc(tier, rng):
    for g in GENS_B + GENS_C:
        for c in g(tier, rng):
            if c is not None:
                yield c


# ---------------------------------------------------------------------------------------------------------------
# known findings: none.  The defect classes found on the original tree (stack / compress negative axis, diagonal with a
# negative or too large offset, split cut points beyond the extent, arange with a negative count or a negative integer
# step and real dtype, linspace num=1 with endpoint) are repaired in /repo by `fix:` commits; their inputs stay in the
# generators above as ordinary cases (tags idx-beyond, axis<0, ...).
# ---------------------------------------------------------------------------------------------------------------

KNOWN_PREDICATES_BC = {}
KNOWN_BC = []
