import NmVerif.Proto
import NmVerif.Functional
namespace NmVerif.Driver.C14
open NmVerif NmVerif.Proto NmVerif.Functional

/-! terms `name` / `name(t,t,…)` — compositions `M(M(p2,p1),dig2)`, view trees `add(mul(0,1),2)` -/
inductive Term where
  | mk (name : String) (args : List Term)
deriving Inhabited

partial def Term.toString : Term → String
  | .mk n [] => n
  | .mk n as => n ++ "(" ++ ",".intercalate (as.map Term.toString) ++ ")"

/-- recursive descent over the characters; returns the term and the rest -/
partial def parseTerm (cs : List Char) : Option (Term × List Char) :=
  let name := cs.takeWhile (fun c => c != '(' && c != ')' && c != ',')
  let rest := cs.dropWhile (fun c => c != '(' && c != ')' && c != ',')
  if name.isEmpty then none else
  match rest with
  | '(' :: r =>
    let rec args (cs : List Char) (acc : List Term) : Option (List Term × List Char) :=
      match parseTerm cs with
      | none => none
      | some (t, ',' :: r) => args r (acc ++ [t])
      | some (t, ')' :: r) => some (acc ++ [t], r)
      | _ => none
    (args r []).map fun (as, r') => (Term.mk (String.ofList name) as, r')
  | _ => some (Term.mk (String.ofList name) [], rest)

def parse (s : String) : Option Term :=
  match parseTerm s.toList with
  | some (t, []) => some t
  | _ => none

/-! probe functors: values are symbolic terms (strings), attributes are strings -/
abbrev PV := String
def probeF (k : Nat) : Functor String PV :=
  ⟨k, fun ats xs => [s!"p{k}(" ++ ",".intercalate (xs ++ ats) ++ ")"]⟩

def atom (n : String) : Option (Fn String PV) :=
  match n with
  | "p1" => some (.ofFunctor (probeF 1)) | "p2" => some (.ofFunctor (probeF 2)) | "p3" => some (.ofFunctor (probeF 3))
  | "p4" => some (.ofFunctor (probeF 4)) | "p5" => some (.ofFunctor (probeF 5))
  | "swap" => some (.ofFunctor swapF) | "dup" => some (.ofFunctor (dupF 2))
  | "dig1" => some (.ofFunctor (digF 1)) | "dig2" => some (.ofFunctor (digF 2))
  | "bury1" => some (.ofFunctor (buryF 1)) | "bury2" => some (.ofFunctor (buryF 2))
  | _ => none

/-- `M(l, r)` = `l * r` -/
partial def toFC : Term → Option (FC String PV)
  | .mk "M" [l, r] => do pure ((← toFC l).mul (← toFC r))
  | .mk n [] => (atom n).map .fn
  | _ => none

inductive St where
  | fn (g : Fn String PV)
  | comp (c : Comp String PV)
  | values (vs : List PV)
  | err (e : String)

def showSt : St → String
  | .fn g => s!"curried arity={g.arity}"
  | .comp c => s!"curried arity={c.arity}"
  | .values vs => "values " ++ ";".intercalate vs
  | .err e => e

def stepOps (st : St) (ops : List PV) : St :=
  match st with
  | .fn g => match applyFn g ops with | .curried g' => .fn g' | .values vs => .values vs
  | .comp c => match applyComp c ops with
    | some (.curried c') => .comp c' | some (.values vs) => .values vs | none => .err "void"
  | .values _ => .err "not-callable"
  | .err e => .err e

def stepAttr (st : St) (a : String) : St :=
  match st with
  | .fn g => .fn (g.withAttr a)
  | .comp _ => .err "no-attr"
  | .values _ => .err "not-callable"
  | .err e => .err e

/-! view trees over symbolic values -/
/-- a view function is opaque; its value shows the attributes (run-time parameters of the op) it was applied with -/
def viewF (name : String) (arity : Nat) : VFun String PV :=
  ⟨arity, fun ats xs => name ++ (if ats.isEmpty then "" else "[" ++ ";".intercalate ats ++ "]") ++ "(" ++ ",".intercalate xs ++ ")"⟩

/-- `name[p;q]` → (`name`, [`p`, `q`]): the run-time parameters of a parametrised op are attributes of its view -/
def splitParams (n : String) : String × List String :=
  let cs := n.toList
  let base := cs.takeWhile (· != '[')
  let rest := ((cs.dropWhile (· != '[')).drop 1).takeWhile (· != ']')
  (String.ofList base, if rest.isEmpty then [] else (String.ofList rest).splitOn ";")

/-- view functions whose result is a NUMBER (a reduction over all axes, keepdims false): `View.snode` -/
def numberValued (n : String) : Bool := n == "reduce_add_all" || n == "reduce_max_all"

mutual
partial def toView : Term → Option (View String PV)
  | .mk n [] =>
      -- `<j>` host array j, `a<j>` the same behind view::alias, `s<j>` operand j is a number literal
      if n.startsWith "a" then (n.drop 1).toString.toNat?.map .alias
      else if n.startsWith "s" then (n.drop 1).toString.toNat?.map .lit
      else n.toNat?.map .leaf
  | .mk n as => do
      let args ← toArgs as
      let (base, ps) := splitParams n
      pure (if numberValued base then .snode (viewF base as.length) ps args else .node (viewF base as.length) ps args)
partial def toArgs : List Term → Option (Args String PV)
  | [] => some .nil
  | t :: ts => do pure (.cons (← toView t) (← toArgs ts))
end

mutual
/-- decorate a view tree with distinct node ids (a counter in reading order): the hypothesis of the graph theorems -/
partial def decorate (n : Nat) : Term → Option (IView × Nat)
  | .mk nm [] =>
      -- `a<j>`: leaf behind view::alias(x_j, j): node id j, shared by every occurrence; `<j>`: un-aliased occurrence, fresh id
      if nm.startsWith "a" then (nm.drop 1).toString.toNat?.map fun i => (.leaf i i, n)
      else if nm.startsWith "s" then (nm.drop 1).toString.toNat?.map fun i => (.leaf n i, n + 1)
      else nm.toNat?.map fun i => (.leaf n i, n + 1)
  | .mk _ as => do
      let (args, n') ← decorateArgs n as
      pure (.node n' args, n' + 1)
partial def decorateArgs (n : Nat) : List Term → Option (IArgs × Nat)
  | [] => some (.nil, n)
  | t :: ts => do
      let (v, n1) ← decorate n t
      let (r, n2) ← decorateArgs n1 ts
      pure (.cons v r, n2)
end

def labelStr : GLabel → String
  | .leaf i => s!"L{i}"
  | .op ids => s!"F{ids.length}[{"/".intercalate (ids.map toString)}]"

def handle : Handler := fun op a =>
  match op with
  | "c14_probe" => orBad do
      let t ← (a.get? "comp").bind parse
      let fc ← toFC t
      let steps := ((a.get? "steps").getD "").splitOn ";"
      let st0 : St := match fc with
        | .fn g => .fn g
        | .comp fs => .comp ⟨fs, []⟩
      let st := steps.foldl (fun st s =>
        if s.startsWith "o:" then stepOps st ((s.drop 2).toString.splitOn ",")
        else if s.startsWith "a:" then stepAttr st (s.drop 2).toString
        else st) st0
      pure s!"ok {showSt st}"
  | "c14_extract" => orBad do
      -- what extraction + re-application computes for a view tree, symbolically (`x<i>` = leaf array i)
      let t ← (a.get? "tree").bind parse
      let v ← toView t
      let env : Nat → PV := fun i => s!"x{i}"
      let ops := v.operandsOf
      let res := match applyComp ⟨v.compile, []⟩ (ops.map env) with
        | some (.values vs) => ";".intercalate vs
        | some (.curried _) => "curried"
        | none => "void"
      pure s!"ok leaves={fmtNats ops} ll={if v.leftLinear then 1 else 0} nfun={v.compile.length} nops={v.nOps} arity={Comp.arity ⟨v.compile, []⟩} term={res} view={v.denote env}"
  | "c14_graph" => orBad do
      let t ← (a.get? "tree").bind parse
      let (iv, _) ← decorate 1000 t
      match iv.graph with
      | none => pure "no-graph"
      | some g =>
        let ns := ",".intercalate (g.nodes.map fun (k, l) => s!"{k}:{labelStr l}")
        let es := ",".intercalate (g.edges.map fun (s, d) => s!"{s}>{d}")
        pure s!"ok nodes={ns} edges={if es.isEmpty then "[]" else es}"
  | "c14_alias" => orBad do
      let ids ← a.nats "ids"
      pure s!"ok {generateAlias ids}"
  | _ => none

end NmVerif.Driver.C14
