import NmVerif.Basic
import NmVerif.Index.MachineAddr
import NmVerif.Lemmas.Addressing
/-
  Helper lemmas for the machine-width addressing model (C01).  Property statements live in Props/C01.lean.
-/
namespace NmVerif

theorem ITy.lim_le_SZ (t : ITy) (h : t.bits ≤ 64) : t.lim ≤ SZ := by
  have e : SZ = 2 ^ 64 := by decide
  rw [e]
  unfold ITy.lim
  split
  · exact Nat.pow_le_pow_right (by decide) (by omega)
  · exact Nat.pow_le_pow_right (by decide) h

theorem ITy.mul_exact (t : ITy) {a b : Nat} (h : a * b < t.lim) : t.mul a b = some (a * b) := by
  unfold ITy.mul
  split
  · simp [h]
  · rw [Nat.mod_eq_of_lt h]

theorem ITy.store_exact (t : ITy) {n : Nat} (h : n < t.lim) : t.store n = some n := by
  simp [ITy.store, h]

theorem mStrideFrom_exact (t : ITy) (xs : List Nat) (hx : Pos xs) (p : Nat)
    (hf : p * prod xs < t.lim) : mStrideFrom t p xs = some (p * prod xs) := by
  induction xs generalizing p with
  | nil => simp [mStrideFrom, prod]
  | cons x xs ih =>
    have hpx : 0 < prod xs := prod_pos hx.tail
    have e : p * prod (x :: xs) = p * x * prod xs := by simp only [prod, Nat.mul_assoc]
    rw [e] at hf ⊢
    have hle : p * x ≤ p * x * prod xs := Nat.le_mul_of_pos_right _ hpx
    have hm : t.mul p x = some (p * x) := t.mul_exact (by omega)
    simp only [mStrideFrom, hm, Option.bind_some]
    exact ih hx.tail (p * x) hf

theorem prod_tail_le {s : List Nat} (hs : Pos s) : prod s.tail ≤ prod s := by
  cases s with
  | nil => simp
  | cons a t =>
    simp only [List.tail_cons, prod]
    exact Nat.le_mul_of_pos_left _ hs.head

theorem mStrides_exact' (t : ITy) (s : List Nat) (hs : Pos s) (hf : prod s.tail < t.lim) :
    mStrides t s = some (strides s) := by
  induction s with
  | nil => simp [mStrides, strides]
  | cons a u ih =>
    simp only [List.tail_cons] at hf
    have h1 : mStrideFrom t 1 u = some (prod u) := by
      have := mStrideFrom_exact t u hs.tail 1 (by simpa using hf)
      simpa using this
    have h2 : mStrides t u = some (strides u) :=
      ih hs.tail (Nat.lt_of_le_of_lt (prod_tail_le hs.tail) hf)
    simp [mStrides, strides, h1, h2]

theorem mOffsetFrom_eq (idx st : List Nat) (acc : Nat) (ha : acc < SZ) :
    mOffsetFrom acc idx st = (acc + computeOffset idx st) % SZ := by
  induction idx generalizing acc st with
  | nil => simp [mOffsetFrom, computeOffset, Nat.mod_eq_of_lt ha]
  | cons i is ih =>
    cases st with
    | nil => simp [mOffsetFrom, computeOffset, Nat.mod_eq_of_lt ha]
    | cons s ss =>
      simp only [mOffsetFrom, computeOffset, szCast]
      rw [ih ss _ (Nat.mod_lt _ (by decide))]
      have h := Nat.mul_mod s i SZ
      generalize computeOffset is ss = c at *
      generalize s % SZ * (i % SZ) = q at *
      generalize s * i = m at *
      simp only [SZ] at *
      omega

theorem strides_pos {s : List Nat} (hs : Pos s) : Pos (strides s) := by
  induction s with
  | nil => intro x hx; simp [strides] at hx
  | cons a t ih =>
    intro x hx
    simp only [strides, List.mem_cons] at hx
    rcases hx with rfl | hx
    · exact prod_pos hs.tail
    · exact ih hs.tail x hx

theorem mIndices_exact' (t : ITy) (hb : t.bits ≤ 64) (s : List Nat) (hs : Pos s)
    (hfit : ∀ x ∈ s, x < t.lim) (hf : prod s.tail < t.lim) (off : Nat) :
    mIndices t off s (strides s) = some (computeIndices off s (strides s)) := by
  have hl := t.lim_le_SZ hb
  induction s with
  | nil => simp [mIndices, strides, computeIndices]
  | cons a u ih =>
    simp only [List.tail_cons] at hf
    have ha : 0 < a := hs.head
    have hpu : 0 < prod u := prod_pos hs.tail
    have hal : a < t.lim := hfit a (by simp)
    have e1 : szCast (prod u) = prod u := Nat.mod_eq_of_lt (by omega)
    have e2 : szCast a = a := Nat.mod_eq_of_lt (by omega)
    have hr : off / prod u % a < t.lim := Nat.lt_trans (Nat.mod_lt _ ha) hal
    have h2 := ih hs.tail (fun x hx => hfit x (by simp [hx]))
      (Nat.lt_of_le_of_lt (prod_tail_le hs.tail) hf)
    simp only [strides, mIndices, computeIndices, e1, e2, t.store_exact hr, h2]
    have n1 : ¬ (prod u = 0 ∨ a = 0) := by omega
    simp [n1]

end NmVerif
