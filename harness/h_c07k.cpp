// C07, "explicitly requested dtype": add / subtract / multiply called with casting::same_kind_t — the result element type is
// the operands' common element type (NumPy: uint8 * uint8 -> uint8, wrapping), not the promoted int of the C++ expression.
//   request: cast_uf op=<add|subtract|multiply> et=<u8|i8|u16|i16|i32|f32> api=<view|array> a=<shape> b=<shape> da=<..> db=<..>
//   answer : ok shape=<..> vals=<..> type=<ok|WRONG(sizeof,signed,float)>
#include "nmtools/array/array/ufuncs/add.hpp"
#include "nmtools/array/array/ufuncs/subtract.hpp"
#include "nmtools/array/array/ufuncs/multiply.hpp"
#include "nmtools/array/ndarray.hpp"
#include "nmtools/array/eval.hpp"
#include "proto.hpp"
#include <vector>
#include <cstdint>
#include <type_traits>
using namespace proto; namespace nm = nmtools; namespace na = nmtools::array; namespace view = nmtools::view;

template <typename T, typename R> static std::string show(const R& r) {
    if constexpr (nm::meta::is_maybe_v<R>) { if (!nm::has_value(r)) return "nothing"; return show<T>(*r); }
    else {
        using E = nm::meta::remove_cvref_t<nm::meta::get_element_type_t<R>>;
        auto ev = [&]{ if constexpr (nm::meta::is_view_v<R>) return na::eval(r); else return r; }();
        std::string o = "ok shape="; auto shp = nm::shape(ev); auto d = (size_t)nm::len(shp);
        for (size_t i = 0; i < d; i++) { if (i) o += ","; o += std::to_string((long long)nm::at(shp, i)); }
        if (!d) o += "[]";
        o += " vals="; auto n = (size_t)nm::size(ev);
        for (size_t i = 0; i < n; i++) { if (i) o += ","; o += std::to_string((long long)ev.data()[i]); }
        o += std::is_same_v<E, T> ? " type=ok" : (" type=WRONG(" + std::to_string(sizeof(E)) + "," + (std::is_signed_v<E> ? "s" : "u") + "," + (std::is_floating_point_v<E> ? "f" : "i") + ")");
        return o;
    }
}
template <typename T> static std::string run(const Args& a) {
    using arr_t = na::ndarray_t<std::vector<T>, std::vector<size_t>>;
    auto mk = [&](const char* sk, const char* dk) { arr_t x; x.resize(nats(a, sk)); auto d = ints(a, dk);
        if (d.size() != (size_t)nm::size(x)) throw bad_args("data"); for (size_t i = 0; i < d.size(); i++) x.data()[i] = (T)d[i]; return x; };
    auto x = mk("a", "da"), y = mk("b", "db");
    std::string op = get(a, "op"); bool eager = get(a, "api") == "array";
    constexpr auto K = nm::casting::same_kind_t{};
    if (op == "add")      return eager ? show<T>(na::add(x, y, K))      : show<T>(view::add(x, y, K));
    if (op == "subtract") return eager ? show<T>(na::subtract(x, y, K)) : show<T>(view::subtract(x, y, K));
    if (op == "multiply") return eager ? show<T>(na::multiply(x, y, K)) : show<T>(view::multiply(x, y, K));
    throw bad_args("op");
}
std::string handle(const std::string& op, const Args& a) {
    if (op != "cast_uf") return "unknown-op";
    std::string et = get(a, "et");
    if (et == "u8") return run<uint8_t>(a);
    if (et == "i8") return run<int8_t>(a);
    if (et == "u16") return run<uint16_t>(a);
    if (et == "i16") return run<int16_t>(a);
    if (et == "i32") return run<int32_t>(a);
    throw bad_args("et");
}
