// C20 harness: operation sequences on array objects (ndarray_t kinds, hybrid_ndarray, dynamic_ndarray) and
// writes through mutable views; prints shape/strides/element count/contents after every step.
#include "nmtools/array/ndarray.hpp"
#include "nmtools/array/ndarray/hybrid.hpp"
#include "nmtools/array/ndarray/dynamic.hpp"
#include "nmtools/array/view/mutable_reshape.hpp"
#include "nmtools/array/view/mutable_flatten.hpp"
#include "nmtools/array/view/mutable_ref.hpp"
#include "nmtools/utility/at.hpp"
#include "nmtools/array/index/ndindex.hpp"
#include "nmtools/utility/has_value.hpp"
#include "proto.hpp"
#include <array>
#include <vector>

namespace nm = nmtools; namespace na = nmtools::array; namespace view = nmtools::view;
using namespace proto;

template <typename V> static std::string fmtn(const V& v) {
    return fmt_with(v, [](const auto& x){ return (size_t)nm::len(x); }, [](const auto& x, size_t i){ return nm::at(x,i); });
}

struct Step { std::string op; ivec a; ivec b; };
static std::vector<Step> parse_ops(const std::string& s) {
    std::vector<Step> r;
    for (auto& t : split(s,';')) {
        auto p = split(t,':'); Step st; st.op = p.at(0);
        if (p.size()>1) st.a = parse_ints(p[1]);
        if (p.size()>2) st.b = parse_ints(p[2]);
        r.push_back(st);
    }
    return r;
}

template <typename A> static std::string state(A& a, size_t ndata) {
    std::string out = "shape=" + fmtn(nm::shape(a)) + " strides=" + fmtn(a.strides()) + " n=" + std::to_string((size_t)nm::len(a.data_));
    std::vector<long long> d; for (size_t k=0;k<ndata && k<(size_t)nm::len(a.data_);k++) d.push_back(a.data_[k]);
    return out + " data=" + fmt(d);
}

template <typename A> static std::string run_ndarray(const std::vector<Step>& ops) {
    A a; std::string out;
    for (auto& s : ops) {
        if (!out.empty()) out += " | ";
        if (s.op=="resize") {
            size_t old = nm::len(a.data_);
            uvec sh(s.a.begin(), s.a.end());
            bool r = a.resize(sh);
            size_t now = nm::len(a.data_);
            out += std::string("r=") + (r?"1":"0") + " " + state(a, r ? std::min(old,now) : now);
        } else if (s.op=="fill") {
            for (size_t k=0;k<(size_t)nm::len(a.data_);k++) a.data_[k] = (int)(s.a.at(0) + (long long)k);
            out += "r=1 " + state(a, nm::len(a.data_));
        } else if (s.op=="write") {
            uvec idx(s.a.begin(), s.a.end());
            nm::apply_at(a, idx) = (int)s.b.at(0);
            out += "r=1 " + state(a, nm::len(a.data_));
        } else if (s.op=="probe") {
            // write a distinct value at EVERY multi-index (row-major enumeration) through operator(): aliasing or an
            // out-of-buffer offset shows in the buffer dump
            auto shp = nm::shape(a); uvec sh; for (size_t i=0;i<(size_t)nm::len(shp);i++) sh.push_back((size_t)nm::at(shp,i));
            size_t n = 1; for (auto e : sh) n *= e;
            for (size_t k=0;k<(size_t)nm::len(a.data_);k++) a.data_[k] = -1;
            auto nd = nm::index::ndindex(sh);
            for (size_t k=0;k<n;k++) nm::apply_at(a, nd[k]) = (int)(100+k);
            out += "r=1 " + state(a, nm::len(a.data_));
        } else if (s.op=="copy") {
            // copy-construct, mutate the copy, the original must be unaffected; then assign back over a fresh object
            A b(a); for (size_t k=0;k<(size_t)nm::len(b.data_);k++) b.data_[k] = -5;
            A c; c = a;
            bool same = nm::len(c.data_)==nm::len(a.data_) && fmtn(nm::shape(c))==fmtn(nm::shape(a)) && fmtn(c.strides())==fmtn(a.strides());
            for (size_t k=0;same && k<(size_t)nm::len(a.data_);k++) same = (c.data_[k]==a.data_[k]);
            out += std::string("r=") + (same?"1":"0") + " " + state(a, nm::len(a.data_));
        } else out += "bad-op";
    }
    return "ok " + out;
}

template <typename A> static auto dataptr(A& a) {
    if constexpr (std::is_same_v<A, na::dynamic_ndarray<int>>) return a.data.data(); else return a.data();
}
// legacy classes: no public data_/strides_ uniformity -> own accessors
template <typename A, typename R, typename W> static std::string run_legacy(const std::vector<Step>& ops, R resize, W write) {
    A a; std::string out; size_t n = 0;
    auto st = [&](size_t nd){
        auto sh = nm::shape(a); size_t numel=1; for (size_t i=0;i<(size_t)nm::len(sh);i++) numel*= (size_t)nm::at(sh,i);
        std::string o = "shape=" + fmtn(sh) + " strides=" + fmtn(a.strides()) + " n=" + std::to_string(numel);
        std::vector<long long> d; for (size_t k=0;k<nd && k<numel;k++) d.push_back(dataptr(a)[k]);
        n = numel; return o + " data=" + fmt(d);
    };
    for (auto& s : ops) {
        if (!out.empty()) out += " | ";
        if (s.op=="resize") {
            size_t old = n; uvec sh(s.a.begin(), s.a.end());
            bool r = resize(a, sh);
            auto shp = nm::shape(a); size_t now=1; for (size_t i=0;i<(size_t)nm::len(shp);i++) now*= (size_t)nm::at(shp,i);
            out += std::string("r=") + (r?"1":"0") + " " + st(r ? std::min(old,now) : now);
        } else if (s.op=="fill") {
            for (size_t k=0;k<n;k++) dataptr(a)[k] = (int)(s.a.at(0) + (long long)k);
            out += "r=1 " + st(n);
        } else if (s.op=="write") {
            uvec idx(s.a.begin(), s.a.end());
            write(a, idx, (int)s.b.at(0));
            out += "r=1 " + st(n);
        } else if (s.op=="copy") {
            A b(a); for (size_t k=0;k<n;k++) dataptr(b)[k] = -5;
            out += "r=1 " + st(n);
        } else out += "bad-op";
    }
    return "ok " + out;
}

using nd_t = na::ndarray_t<std::vector<int>, std::vector<size_t>>;

std::string handle(const std::string& op, const Args& a) {
    if (op=="ndobj") {
        auto kind = get(a,"kind"); auto ops = parse_ops(get(a,"ops"));
        if (kind=="dd")  return run_ndarray<na::ndarray_t<std::vector<int>, std::vector<size_t>>>(ops);
        if (kind=="ddc") return run_ndarray<na::column_major_ndarray_t<std::vector<int>, std::vector<size_t>>>(ops);
        if (kind=="fd6") return run_ndarray<na::ndarray_t<std::array<int,6>, std::vector<size_t>>>(ops);
        if (kind=="fd6c") return run_ndarray<na::column_major_ndarray_t<std::array<int,6>, std::vector<size_t>>>(ops);
        if (kind=="df2") return run_ndarray<na::ndarray_t<std::vector<int>, std::array<size_t,2>>>(ops);
        if (kind=="df3c") return run_ndarray<na::column_major_ndarray_t<std::vector<int>, std::array<size_t,3>>>(ops);
        if (kind=="bb")  return run_ndarray<na::ndarray_t<nmtools_static_vector<int,8>, nmtools_static_vector<size_t,3>>>(ops);
        if (kind=="db3") return run_ndarray<na::ndarray_t<std::vector<int>, nmtools_static_vector<size_t,3>>>(ops);
        if (kind=="b8d") return run_ndarray<na::ndarray_t<nmtools_static_vector<int,8>, std::vector<size_t>>>(ops);
        if (kind=="ff")  return run_ndarray<na::ndarray_t<std::array<int,6>, std::array<size_t,2>>>(ops);
        if (kind=="hyb") return run_legacy<na::hybrid_ndarray<int,8,2>>(ops, [](auto& x, const uvec& sh){
            if (sh.size()!=2) return false;   // shape_type is std::array<size_t,2>: other ranks do not type-check
            std::array<size_t,2> s{sh[0],sh[1]}; return (bool)x.resize(s); },
            [](auto& x, const uvec& i, int v){ x(i.at(0), i.at(1)) = v; });
        if (kind=="dyn") return run_legacy<na::dynamic_ndarray<int>>(ops, [](auto& x, const uvec& sh){
            switch (sh.size()) { case 1: x.resize(sh[0]); return true; case 2: x.resize(sh[0],sh[1]); return true;
                                 case 3: x.resize(sh[0],sh[1],sh[2]); return true; default: return false; } },
            [](auto& x, const uvec& i, int v){ switch (i.size()) { case 1: x(i[0]) = v; break; case 2: x(i[0],i[1]) = v; break; case 3: x(i[0],i[1],i[2]) = v; break; } });
        return "unsupported-kind";
    }
    if (op=="mview") {
        // write `v` through a mutable view at index `idx`; print the source buffer afterwards (source data[k]=k)
        auto kind = get(a,"kind"); auto shape = nats(a,"shape"); auto idx = nats(a,"idx"); int v = (int)integer(a,"v");
        nd_t src; src.resize(shape); size_t n = nm::size(src); for (size_t k=0;k<n;k++) src.data()[k]=(int)k;
        auto dump = [&](){ std::vector<long long> d; for (size_t k=0;k<n;k++) d.push_back(src.data()[k]); return "ok data=" + fmt(d); };
        auto wr = [&](auto&& mvo) -> std::string {
            using M = nm::meta::remove_cvref_t<decltype(mvo)>;
            if constexpr (nm::meta::is_maybe_v<M>) { if (!nm::has_value(mvo)) return "nothing"; nm::apply_at(*mvo, idx) = v; }
            else nm::apply_at(mvo, idx) = v;
            return dump();
        };
        if (kind=="ref")     return wr(view::mutable_ref(src));
        if (kind=="flatten") return wr(view::mutable_flatten(src));
        if (kind=="reshape") { auto to = nats(a,"to"); return wr(view::mutable_reshape(src, to)); }
        return "unsupported-kind";
    }
    return "unknown-op";
}
