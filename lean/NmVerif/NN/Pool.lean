import NmVerif.NN.Views
/-
  NN/Pool — mirror of index::shape_pool2d / index::slice_pool2d (include/nmtools/array/index/pooling.hpp) and of
  `view::pool2d_t::operator()` (view/pooling.hpp): slice the source with the per-axis `(start, stop, 1)` triples through
  `apply_slice` (index/slice.hpp `compute_range` / `compute_index`, case "start ≥ 0, stop > 0, step > 0"), flatten,
  reduce.

  `shape_pool2d` computes `float(n + pad - ((k-1)*dilations + 1)) / stride + 1` with `pad = 0`, `dilations = 1` and
  takes `floor` or `ceil`; on naturals (k ≤ n) that is `(n-k)/s + 1` resp. `⌈(n-k)/s⌉ + 1`, and in ceil mode
  (fixes/C17-pool-ceil-window.diff) drops a last window that would start at or beyond the end of the input.
-/
namespace NmVerif.NN

/-- one spatial extent of `shape_pool2d` (requires `k ≤ n`; the C++ wraps in `size_t` otherwise) -/
def poolExtent (n k s : Nat) (ceil : Bool) : Nat :=
  if ceil then
    let o := (n - k + s - 1) / s + 1
    -- the last window must start inside the input, otherwise it is dropped
    if o > 1 ∧ (o - 1) * s ≥ n then o - 1 else o
  else (n - k) / s + 1

/-- `index::shape_pool2d`: `n_batch = dim - 2` leading axes copied, then axes `-2`, `-1` pooled
    (`none` = fewer than two axes or kernel/stride not pairs: out-of-range `at` in the C++) -/
def shapePool2d (shape kernel stride : List Nat) (ceil : Bool) : Option Shape :=
  if shape.length < 2 then none else
  let nb := shape.length - 2
  match shape.drop nb, kernel, stride with
  | [h, w], [kh, kw], [sh, sw] => some (shape.take nb ++ [poolExtent h kh sh ceil, poolExtent w kw sw ceil])
  | _, _, _ => none

/-- `index::slice_pool2d`: `(i, i+1, 1)` on the `dim - 2` leading axes, `(s*i, s*i + k, 1)` on axes `-2`, `-1` -/
def slicePool2d (idx : Idx) (shape kernel stride : List Nat) : Option (List (Nat × Nat × Nat)) :=
  if shape.length < 2 then none else
  let nb := shape.length - 2
  match idx.drop (idx.length - 2), kernel, stride with
  | [i, j], [kh, kw], [sh, sw] =>
      some ((idx.take nb).map (fun i => (i, i + 1, 1)) ++ [(sh * i, sh * i + kh, 1), (sw * j, sw * j + kw, 1)])
  | _, _, _ => none

/-- indices selected on an axis of extent `n` by the slice `(start, stop, 1)` as `apply_slice` computes them:
    `stop' = min stop n`, length `|stop' - start|` (absolute difference, as `compute_range` does), index `start + j` -/
def sliceRange (n : Nat) (sl : Nat × Nat × Nat) : List Nat :=
  let stop' := min sl.2.1 n
  let len := if stop' > sl.1 then stop' - sl.1 else sl.1 - stop'
  (List.range len).map (sl.1 + ·)

/-- row-major product of per-axis index lists (the flattened slice) -/
def cartesian : List (List Nat) → List Idx
  | [] => [[]]
  | l :: ls => l.flatMap fun i => (cartesian ls).map (i :: ·)

/-- source multi-indices read by `pool2d_t::operator()(idx)`, in the order the reducer sees them -/
def poolWindow (src : Shape) (kernel stride : List Nat) (idx : Idx) : Option (List Idx) :=
  (slicePool2d idx src kernel stride).map fun sls => cartesian (List.zipWith sliceRange src sls)

/-- the order-revealing reducer of the harness: `acc ↦ 31*acc + id + 1 (mod 2^32)` over the window's flat source ids;
    `none` = the window is empty or reaches outside the source (undefined behaviour of the real reducers) -/
def poolFold (src : Shape) (kernel stride : List Nat) (idx : Idx) : Option Nat :=
  match poolWindow src kernel stride idx with
  | none => none
  | some win =>
    if win.isEmpty ∨ win.any (fun i => !decide (InShape i src)) then none
    else some (win.foldl (fun acc i => (31 * acc + computeOffset i (strides src) + 1) % 4294967296) 0)

end NmVerif.NN
