import NmVerif.Containers.Core
/-
  NmVerif.Containers.Spec — the reference semantics: the std:: counterparts as plain lists.

  * `stdSpec zero`      `std::vector<T>`: `resize` grows with value-initialised elements (`zero`), truncates on shrink.
  * `boundedSpec c zero` a vector with fixed capacity `c` ("static_vector up to its capacity, beyond which the
                        operation is refused and contents are unchanged").
  The reference never touches the ledger.  Core Lean only.
-/
namespace NmVerif.Containers

def listResize (zero : α) (l : List α) (n : Nat) : List α :=
  if n ≤ l.length then l.take n else l ++ List.replicate (n - l.length) zero

def stdSpec (zero : α) : Impl (List α) α where
  mkDefault L := ([], L)
  mkSized n L := (List.replicate n zero, L)
  mkVariadic vs L := (vs, L)
  mkCopy l L := (l, L)
  assign _ src L := (src, L)
  assignSelf l L := (l, L)
  push l a L := (l ++ [a], L)
  pushAt l i L := (match l[i]? with | some a => l ++ [a] | none => l, L)
  resize l n L := (listResize zero l n, L)
  write l i a L := (l.set i a, L)
  read l i L := (l[i]?, L)
  destroy _ L := L
  size l := l.length
  view l := l.map some

def boundedSpec (c : Nat) (zero : α) : Impl (List α) α where
  mkDefault L := ([], L)
  mkSized n L := (if n ≤ c then List.replicate n zero else [], L)
  mkVariadic vs L := (if vs.length ≤ c then vs else [], L)
  mkCopy l L := (l, L)
  assign _ src L := (src, L)
  assignSelf l L := (l, L)
  push l a L := (if l.length + 1 ≤ c then l ++ [a] else l, L)
  pushAt l i L := (match l[i]? with | some a => if l.length + 1 ≤ c then l ++ [a] else l | none => l, L)
  resize l n L := (if n ≤ c then listResize zero l n else l, L)
  write l i a L := (l.set i a, L)
  read l i L := (l[i]?, L)
  destroy _ L := L
  size l := l.length
  view l := l.map some

/-- `std::array<T,N>`: fixed length; `{}` value-initialises, `{v…}` pads with value-initialised elements -/
def arraySpec (n : Nat) (zero : α) : Impl (List α) α where
  mkDefault L := (List.replicate n zero, L)
  mkSized _ L := (List.replicate n zero, L)
  mkVariadic vs L := ((vs ++ List.replicate (n - vs.length) zero).take n, L)
  mkCopy l L := (l, L)
  assign _ src L := (src, L)
  assignSelf l L := (l, L)
  push l _ L := (l, L)
  pushAt l _ L := (l, L)
  resize l _ L := (l, L)
  write l i a L := (l.set i a, L)
  read l i L := (l[i]?, L)
  destroy _ L := L
  size l := l.length
  view l := l.map some

end NmVerif.Containers
