// <sycl/sycl.hpp> of the C13 harness: see ../../c13_sycl_mock.hpp
#pragma once
#include "c13_sycl_mock.hpp"
