// C20 harness, write-through mutable views: for ONE view (mutable_ref / mutable_flatten / mutable_reshape / mutable_slice)
// over a row- or column-major source whose buffer cell k holds k, and for EVERY destination index d of the view:
// restore the buffer, write the marker v through the view at d on the real code, dump the WHOLE source buffer.
//   mviewall kind=<ref|flatten|reshape|slice> lay=<r|c> shape=<src shape> [to=<target, -1 allowed>]
//            [sl=<entries as in c05_common.hpp> enc=<packed|dynP|dynA>] v=<marker>
//   -> ok shape=<dst shape> bufs=<buffer after the write at d0>;<… at d1>;…   (row-major order of d; [] if none)
//      nothing   (the view constructor returned Nothing)
//      … oob@k   (the k-th destination index maps outside the source shape: write not executed)
// Slice encodings as in the C05 harness: packed (1 entry: all 14 None-patterns; 2 entries: int, ellipsis, a:b:c, N:N:c),
// dynP (run-time list of either, one None-pattern per request), dynA (all-int triples).
// Built as two TUs: -DC20_LAY=0 row-major source, -DC20_LAY=1 column-major source (compile time).
#include "c05_common.hpp"
#include "nmtools/array/view/mutable_reshape.hpp"
#include "nmtools/array/view/mutable_flatten.hpp"
#include "nmtools/array/view/mutable_ref.hpp"
#include "nmtools/utility/has_value.hpp"
using namespace c05;

using row_t = na::ndarray_t<std::vector<int>, std::vector<size_t>>;
using col_t = na::column_major_ndarray_t<std::vector<int>, std::vector<size_t>>;

// `mk(src)` builds the view over `src`.  Checked: the source index the indexer is going to use is tested against the source
// shape first (slice / reshape / flatten views expose `indexer`), so an out-of-bounds write is reported, not executed.
template <typename A, bool Checked, typename MK>
static std::string all_writes_impl(const uvec& shape, int marker, MK mk) {
    A src; src.resize(shape); size_t n = nm::size(src);
    auto reset = [&](){ for (size_t k=0;k<n;k++) src.data()[k] = (int)k; };
    reset();
    auto run = [&](auto& mv) -> std::string {
        auto dst = to_uvec(nm::shape(mv));
        std::string out = "ok shape=" + fmtu(dst) + " bufs=";
        size_t m = numel_sat(dst, MAX_ELEMS);
        if (m > MAX_ELEMS) return out + "big";
        if (m == 0) return out + "[]";
        for (size_t k=0;k<m;k++) {
            uvec d = unravel(k, dst);
            if constexpr (Checked) { if (!in_shape(to_uvec(mv.indexer.indices(d)), shape)) return out + "oob@" + std::to_string(k); }
            reset();
            nm::apply_at(mv, d) = marker;
            std::vector<int> b(src.data(), src.data()+n);
            if (k) out += ';';
            out += fmt(b);
        }
        return out;
    };
    auto mvo = mk(src);
    using M = nm::meta::remove_cvref_t<decltype(mvo)>;
    if constexpr (nm::meta::is_maybe_v<M>) { if (!nm::has_value(mvo)) return "nothing"; auto& mv = *mvo; return run(mv); }
    else return run(mvo);
}
template <typename A, typename MK> static std::string all_writes(const uvec& shape, int marker, MK mk) { return all_writes_impl<A, false>(shape, marker, mk); }
template <typename A, typename MK> static std::string all_writes_checked(const uvec& shape, int marker, MK mk) { return all_writes_impl<A, true>(shape, marker, mk); }

template <typename A, typename... S>
static std::string packed(const uvec& shape, int marker, const S&... s) {
    return all_writes_checked<A>(shape, marker, [&](auto& src){ return view::mutable_slice(src, s...); });
}
template <typename A>
static std::string packed1(const uvec& shape, int marker, const Entry& e) {
    switch (e.kind) {
#define CASE(K) case K: return packed<A>(shape, marker, make<K>(e));
        CASE(0) CASE(1) CASE(2) CASE(3) CASE(4) CASE(5) CASE(6) CASE(7) CASE(8) CASE(9) CASE(10) CASE(11) CASE(12) CASE(13)
#undef CASE
    }
    return "bad-args";
}
template <typename A, bool HasEll, typename... Acc>
static std::string packed2(const uvec& shape, int marker, const std::vector<Entry>& es, const Acc&... acc) {
    constexpr size_t pos = sizeof...(Acc);
    if constexpr (pos == 2) return packed<A>(shape, marker, acc...);
    else {
        const Entry& e = es[pos];
        switch (e.kind) {
            case K_INT:    return packed2<A, HasEll>(shape, marker, es, acc..., make<K_INT>(e));
            case K_R3:     return packed2<A, HasEll>(shape, marker, es, acc..., make<K_R3>(e));
            case K_R3 + 3: return packed2<A, HasEll>(shape, marker, es, acc..., make<K_R3 + 3>(e));
            case K_ELL:
                if constexpr (!HasEll) return packed2<A, true>(shape, marker, es, acc..., make<K_ELL>(e));
                else return "bad-args";
        }
        return "bad-args";
    }
}
template <typename A, int K>
static std::string dynP(const uvec& shape, int marker, const std::vector<Entry>& es) {
    using range_t = decltype(make<K>(Entry{}));
    using T = dyn_types<range_t>;
    nmtools_list<typename T::slice_t> l;
    for (auto& e : es) {
        if (e.kind == K_INT) l.push_back(T::of_int(e.a));
        else if (e.kind == K_ELL) l.push_back(T::of_ell());
        else if (e.kind == K) l.push_back(T::of_rng(make<K>(e)));
        else if (e.kind == K_R3) l.push_back(T::of_arr(e));
        else throw bad_args("mixed None-patterns in dynP");
    }
    return all_writes_checked<A>(shape, marker, [&](auto& src){ return view::apply_mutable_slice(src, l); });
}
template <typename A>
static std::string dynA(const uvec& shape, int marker, const std::vector<Entry>& es) {
    using T = dynA_types;
    nmtools_list<typename T::slice_t> l;
    for (auto& e : es) {
        if (e.kind == K_INT) l.push_back(T::of_int(e.a));
        else if (e.kind == K_ELL) l.push_back(T::of_ell());
        else if (e.kind == K_R3) l.push_back(T::of_arr(e));
        else throw bad_args("dynA needs all-int ranges");
    }
    return all_writes_checked<A>(shape, marker, [&](auto& src){ return view::apply_mutable_slice(src, l); });
}

template <typename A>
static std::string serve(const std::string& kind, const uvec& shape, int marker, const Args& a) {
    if (kind=="ref")     return all_writes<A>(shape, marker, [&](auto& src){ return view::mutable_ref(src); });
    if (kind=="flatten") return all_writes_checked<A>(shape, marker, [&](auto& src){ return view::mutable_flatten(src); });
    if (kind=="reshape") {
        auto to = intsi(a, "to");
        return all_writes_checked<A>(shape, marker, [&](auto& src){ return view::mutable_reshape(src, to); });
    }
    if (kind=="slice") {
        auto enc = get(a, "enc"); auto es = parse_slices(get(a, "sl"));
        if (enc=="packed") {
            if (es.size()==1) return packed1<A>(shape, marker, es[0]);
            if (es.size()==2) return packed2<A, false>(shape, marker, es);
            return "bad-args";
        }
        if (enc=="dynA") return dynA<A>(shape, marker, es);
        if (enc=="dynP") {
            int K = K_R3;
            for (auto& e : es) if (e.kind >= K_R3 && e.kind != K_R3) { K = e.kind; break; }
            switch (K) {
#define CASE(K) case K: return dynP<A, K>(shape, marker, es);
                CASE(2) CASE(3) CASE(4) CASE(5) CASE(6) CASE(7) CASE(8) CASE(9) CASE(10) CASE(11) CASE(12) CASE(13)
#undef CASE
            }
        }
        return "bad-args";
    }
    return "unsupported-kind";
}

std::string handle(const std::string& op, const Args& a) {
    if (op!="mviewall") return "unknown-op";
    auto kind = get(a,"kind"); auto lay = get(a,"lay"); auto shape = nats(a,"shape"); int marker = (int)integer(a,"v");
#ifndef C20_LAY
#define C20_LAY 0
#endif
#if C20_LAY == 0
    if (lay=="r") return serve<row_t>(kind, shape, marker, a);
#else
    if (lay=="c") return serve<col_t>(kind, shape, marker, a);
#endif
    return "bad-args";
}
