import NmVerif.Proto
import NmVerif.Basic
import NmVerif.NDA
import NmVerif.Arr
import NmVerif.Eval.Eval
import NmVerif.Eval.Cast
/-
  Driver handler of C10: answers with the MODEL of the evaluator (NmVerif.Eval) only.

  The view being evaluated is a parameter of the model (`Arr`): the request carries its shape and its elements in C
  order (`vshape`, `vdata`; elements are opaque tokens, so integer provenance ids and float bit patterns alike).

    eval_fresh vshape=… vdata=… [col=0]
        `evaluator_t::operator()()` with the row-major and the column-major resolver:
        ok shape=<shape> data=<logical elements of the row-major result, C order> col=<buffer of the column-major result>
    eval_into vshape=… vdata=… oshape=… olayout=row|col [init=<token>]
        `evaluator_t::operator()(output&)` on a caller-supplied output pre-filled with `init` (default -7):
        ok shape=<out shape> buf=<buffer of the output afterwards>   (+ ` events=3:1` on the silent return)
    eval_maybe has=0|1 vshape=… vdata=…
        maybe lifting of `detail::eval`: `nothing` for an empty optional, else as eval_fresh
    eval_cast vt=<et> vshape=… vdata=<decimal numbers> [to=<et>]
        mixed-element-type requests (harness op mixb / mixu): the library-allocated result of element type `to`
        (default: `vt`, the view's own element type — what both result-type resolvers take) filled by the converting
        copy loop `evalFreshCast`:
        ok vt=… shape=… data=<view elements> et=<to> ed=same|<shape:data of the result> ft=<vt> fd=same
-/
namespace NmVerif.Driver.C10
open NmVerif NmVerif.Proto NmVerif.Eval

def toks (s : String) : List String :=
  if s == "[]" || s == "" then [] else s.splitOn ","

def fmtToks (l : List String) : String :=
  if l.isEmpty then "[]" else ",".intercalate l

/-- the view given by its shape and its elements in C order -/
def viewOf (s : Shape) (d : List String) : Arr String :=
  ⟨s, fun i => d.getD (computeOffset i (strides s)) "?"⟩

/-- logical elements of a concrete array in C order of its shape -/
def logical (a : NDA String) : List String :=
  (allIdx a.shape).map (fun i => (a.get? i).getD "oob")

def parseView (a : Args) : Option (Arr String) := do
  let s ← a.nats "vshape"
  let d ← (a.get? "vdata").map toks
  if d.length == prod s then some (viewOf s d) else none

def show2 (a : Args) (r c : NDA String) : String :=
  let col := if a.get? "col" == some "0" then "-" else fmtToks c.data
  s!"ok shape={fmtNats r.shape} data={fmtToks (logical r)} col={col}"

def fresh (a : Args) (v : Arr String) : String := show2 a (evalFresh false v) (evalFresh true v)

/-- the implicit C++ conversion of a value (printed as a decimal number) to element type `to`: floating types hold the
    generated values exactly; integer types truncate toward zero; bool is `!= 0` -/
def castTok (to : String) (t : String) : String :=
  if to == "f32" || to == "f64" then t
  else
    let ip := (t.splitOn ".").headD t
    if to == "b" then (if t == "0" || t == "-0" then "0" else "1")
    else if ip == "-0" || ip == "-" || ip == "" then "0" else ip

def castReq (a : Args) : Option String := do
  let vt ← a.get? "vt"
  let s ← a.nats "vshape"
  let d ← (a.get? "vdata").map toks
  if d.length != prod s then none
  let v := viewOf s d
  let to := (a.get? "to").getD vt
  let r : NDA String := evalFreshCast (castTok to) false v
  let ed := if r.shape == s && logical r == d then "same" else s!"{fmtNats r.shape}:{fmtToks (logical r)}"
  -- old=0: bare eval(view) of the pairing is a compile error (std::vector as left operand), only array::fn is answered
  if a.get? "old" == some "0" then
    pure s!"ok vt={vt} shape={fmtNats s} data={fmtToks d} et=n/a ed=n/a ft={vt} fd=same"
  else
  pure s!"ok vt={vt} shape={fmtNats s} data={fmtToks d} et={to} ed={ed} ft={vt} fd=same"

def handle : Handler := fun op a =>
  match op with
  | "eval_fresh" => orBad do
      let v ← parseView a
      pure (fresh a v)
  | "eval_cast" => orBad (castReq a)
  | "eval_maybe" => orBad do
      let h ← a.nat "has"
      -- `detail::eval` on nmtools_maybe<view>: Nothing stays Nothing, a value is evaluated
      let ov : Option (Arr String) ← if h == 0 then some none else (parseView a).map some
      pure (match evalMaybe false ov, evalMaybe true ov with
        | some r, some c => show2 a r c
        | _, _ => "nothing")
  | "eval_into" => orBad do
      let v ← parseView a
      let os ← a.nats "oshape"
      let cm := (a.get? "olayout") == some "col"
      let init := (a.get? "init").getD "-7"
      let out : NDA String := { shape := os, colMajor := cm, data := List.replicate (prod os) init }
      let r := evalInto out v
      -- hook event 3 = the silent return of eval.hpp on a shape mismatch
      let ev := if os == v.shape then "" else " events=3:1"
      pure s!"ok shape={fmtNats r.shape} buf={fmtToks r.data}{ev}"
  | _ => none

end NmVerif.Driver.C10
