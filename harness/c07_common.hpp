// C07 harness engine: runs one element-wise function through view::op (element access) AND array::op (eval),
// compares both with an independent plain-scalar reference expression evaluated on the operand routing the Lean
// model prescribes (src[k] = shape[k]==1 ? 0 : d[k + rank offset]), and reports the result element type.
// The per-op dispatch lines are generated from the op table in lib/props/c07.py (see harness_specs there).
#pragma once
#include "nmtools/array/ndarray.hpp"
#include "nmtools/array/index/ndindex.hpp"
#include "nmtools/array/eval.hpp"
#include "nmtools/utility/at.hpp"
#include "nmtools/utility/shape.hpp"
#include "nmtools/dtypes.hpp"
#include "nmtools/array/view/ufunc.hpp"
#include "nmtools/array/view/broadcast_arrays.hpp"
#include "proto.hpp"
#include <cmath>
#include <cstring>
#include <cstdint>
#include <type_traits>
#include <limits>
#include <memory>

namespace nm = nmtools; namespace ix = nmtools::index; namespace na = nmtools::array; namespace view = nmtools::view;

namespace c07 {
using namespace proto;

template <typename T> using arr_t = na::ndarray_t<std::vector<T>, std::vector<size_t>>;

// ---- element types -------------------------------------------------------------------------------------------
template <typename T> struct tname { static const char* get() { return "other"; } };
#define C07_TN(T, S) template <> struct tname<T> { static const char* get() { return S; } };
C07_TN(bool, "bool") C07_TN(int8_t, "i8") C07_TN(uint8_t, "u8") C07_TN(int16_t, "i16") C07_TN(uint16_t, "u16")
C07_TN(int32_t, "i32") C07_TN(uint32_t, "u32") C07_TN(int64_t, "i64") C07_TN(uint64_t, "u64")
C07_TN(float, "f32") C07_TN(double, "f64") C07_TN(long long, "i64") C07_TN(unsigned long long, "u64")
#undef C07_TN

template <typename T> T parse_val(const std::string& s) {
    if constexpr (std::is_floating_point_v<T>) {
        if (s=="nan") return std::numeric_limits<T>::quiet_NaN();
        if (s=="inf") return std::numeric_limits<T>::infinity();
        if (s=="-inf") return -std::numeric_limits<T>::infinity();
        return (T)std::strtod(s.c_str(), nullptr);   // not stod: it throws on denormals
    } else if constexpr (std::is_unsigned_v<T>) {
        return (T)std::stoull(s);
    } else {
        return (T)std::stoll(s);
    }
}
template <typename T> std::vector<T> parse_data(const Args& a, const std::string& k) {
    std::vector<T> r; const auto& s = get(a,k); if (s=="[]"||s.empty()) return r;
    for (auto& t : split(s,',')) r.push_back(parse_val<T>(t));
    return r;
}
template <typename R> std::string fmt_val(R v) {
    char buf[64];
    if constexpr (std::is_same_v<R,bool>) return v ? "1" : "0";
    else if constexpr (std::is_floating_point_v<R>) {
        if (std::isnan(v)) return "nan";
        if (std::isinf(v)) return v > 0 ? "inf" : "-inf";
        if constexpr (std::is_same_v<R,float>) snprintf(buf, sizeof buf, "%.9g", (double)v);
        else snprintf(buf, sizeof buf, "%.17g", (double)v);
        return buf;
    } else if constexpr (std::is_unsigned_v<R>) return std::to_string((unsigned long long)v);
    else return std::to_string((long long)v);
}
// distance in units in the last place (0 = bit-identical; NaN matches NaN; different signs of zero = 1)
template <typename R> long long ulp_dist(R x, R y) {
    if constexpr (std::is_floating_point_v<R>) {
        if (std::isnan(x) && std::isnan(y)) return 0;
        if (std::isnan(x) || std::isnan(y)) return -1;
        using I = std::conditional_t<sizeof(R)==4, int32_t, int64_t>;
        I a, b; std::memcpy(&a,&x,sizeof a); std::memcpy(&b,&y,sizeof b);
        if (a==b) return 0;
        if ((a<0) != (b<0)) return (x==y) ? 1 : -1;
        long long d = (long long)a - (long long)b; return d<0 ? -d : d;
    } else {
        return x==y ? 0 : -1;
    }
}

template <typename T> arr_t<T> make(const uvec& shape, const std::vector<T>& data) {
    arr_t<T> a; a.resize(shape);
    size_t n = nm::size(a);
    if (data.size()!=n) throw bad_args("data length");
    for (size_t k=0;k<n;k++) a.data()[k] = data[k];
    return a;
}
inline size_t prod(const uvec& s) { size_t p=1; for (auto e:s) p*=e; return p; }
inline uvec unravel(size_t off, const uvec& s) { uvec i(s.size()); for (size_t k=s.size(); k-->0;) { i[k] = off % s[k]; off /= s[k]; } return i; }
// the routing the Lean model prescribes (Props.C07.ufunc_elem / C06 specBroadcastIdx), flat id in the operand
inline size_t route(const uvec& src, const uvec& d) {
    size_t off = d.size() - src.size(), flat = 0;
    for (size_t k=0;k<src.size();k++) { size_t i = (src[k]==1) ? 0 : d[k+off]; flat = flat*src[k] + i; }
    return flat;
}
template <typename V> uvec shape_of(const V& v) {
    auto shp = nm::shape(v); uvec s;
    if constexpr (!nm::is_none_v<decltype(shp)>) for (size_t i=0;i<(size_t)nm::len(shp);i++) s.push_back((size_t)nm::at(shp,i));
    return s;
}
template <typename M> decltype(auto) unwrap_ref(const M& m) {
    if constexpr (nm::meta::is_maybe_v<M>) return *m; else return (m);
}
template <typename M> bool present(const M& m) {
    if constexpr (nm::meta::is_maybe_v<M>) return nm::has_value(m); else return true;
}

struct report {
    std::string shape, plan, vals, eval = "same", ref = "same", type = "ok", rt;
    std::string str() const { return "ok shape=" + shape + " plan=" + plan + " vals=" + vals + " eval=" + eval + " ref=" + ref + " type=" + type + " rt=" + rt; }
};

// core: `mv` the (maybe) view, `me` the (maybe) evaluated array, `refv[k]` reference value of output element k,
// `plan` textual routing; R = type of the reference expression
template <typename R, typename MV, typename ME>
std::string finish(const MV& mv, const ME& me, const uvec& expect_shape, const std::vector<R>& refv, const std::string& plan, int ulps) {
    if (!present(mv)) return present(me) ? "nothing-view-only" : "nothing";
    const auto& v = unwrap_ref(mv);
    report r;
    uvec s = shape_of(v);
    r.shape = fmt(s); r.plan = plan;
    using E = nm::meta::get_element_type_t<nm::meta::remove_cvref_t<decltype(v)>>;
    r.rt = tname<E>::get();
    if (!std::is_same_v<E,R>) r.type = std::string("MISMATCH(view=") + tname<E>::get() + ",scalar-op=" + tname<R>::get() + ")";
    size_t n = prod(s);
    std::ostringstream o;
    std::unique_ptr<E[]> got(new E[n ? n : 1]);   // not std::vector: E may be bool
    auto nd = ix::ndindex(s);
    for (size_t k=0;k<n;k++) {
        // all-scalar operands give a scalar_ufunc_t: a number-like view converted to its result type
        if constexpr (nm::meta::is_num_v<nm::meta::remove_cvref_t<decltype(v)>>) got[k] = static_cast<E>(v);
        else got[k] = nm::apply_at(v, nd[k]);
        if (k) o << ','; o << fmt_val<E>(got[k]);
    }
    r.vals = n ? o.str() : "[]";
    if (s != expect_shape) r.ref = "SHAPE(" + fmt(expect_shape) + ")";
    else for (size_t k=0;k<n;k++) {
        long long dist = ulp_dist<R>((R)got[k], refv[k]);
        if (dist < 0 || dist > ulps) { r.ref = "DIFF@" + std::to_string(k) + "(impl=" + fmt_val<E>(got[k]) + ",ref=" + fmt_val<R>(refv[k]) + ")"; break; }
    }
    if (!present(me)) r.eval = "NOTHING";
    else {
        const auto& e = unwrap_ref(me);
        using EE = nm::meta::get_element_type_t<nm::meta::remove_cvref_t<decltype(e)>>;
        if constexpr (nm::meta::is_num_v<nm::meta::remove_cvref_t<decltype(e)>>) {
            // rank-0 results evaluate to a plain number
            if (n!=1 || ulp_dist<EE>((EE)e, (EE)got[0])!=0) r.eval = "DIFF@0";
            if (!std::is_same_v<EE,E>) r.eval = std::string("TYPE(") + tname<EE>::get() + ")";
        } else {
            uvec es = shape_of(e);
            if (es != s) r.eval = "SHAPE(" + fmt(es) + ")";
            else {
                auto end = ix::ndindex(es);
                for (size_t k=0;k<n;k++) {
                    EE x = nm::apply_at(e, end[k]);
                    if (ulp_dist<EE>(x, (EE)got[k])!=0) { r.eval = "DIFF@" + std::to_string(k) + "(eval=" + fmt_val<EE>(x) + ")"; break; }
                }
            }
            if (!std::is_same_v<EE,E>) r.eval = std::string("TYPE(") + tname<EE>::get() + ")";
        }
    }
    return r.str();
}

// shape the NumPy rule gives (computed independently of nmtools, right aligned); false = incompatible
inline bool bshape(const std::vector<uvec>& ss, uvec& out) {
    size_t r = 0; for (auto& s : ss) r = std::max(r, s.size());
    out.assign(r, 1);
    for (auto& s : ss) for (size_t k=0;k<s.size();k++) {
        size_t j = r - s.size() + k;
        if (out[j]==1) out[j] = s[k]; else if (s[k]!=1 && s[k]!=out[j]) return false;
    }
    return true;
}

inline bool is_num_operand(const Args& a, const std::string& k) { return has(a, "n"+k) && get(a, "n"+k)=="1"; }

// ---- unary ---------------------------------------------------------------------------------------------------
template <typename T, typename VF, typename EF, typename RF>
std::string run1(const Args& a, VF vf, EF ef, RF rf, int ulps) {
    uvec sa = nats(a,"a"); auto da = parse_data<T>(a,"da");
    using R = decltype(rf(std::declval<T>()));
    size_t n = prod(sa);
    std::vector<R> refv(n); std::ostringstream pl;
    for (size_t k=0;k<n;k++) { refv[k] = rf(da.at(k)); if (k) pl << ';'; pl << k; }
    std::string plan = n ? pl.str() : "[]";
    if (is_num_operand(a,"a")) { T x = da.at(0); return finish<R>(vf(x), ef(x), sa, refv, plan, ulps); }
    auto A = make<T>(sa, da);
    return finish<R>(vf(A), ef(A), sa, refv, plan, ulps);
}

// ---- binary --------------------------------------------------------------------------------------------------
template <typename T, typename U, typename VF, typename EF, typename RF>
std::string run2(const Args& a, VF vf, EF ef, RF rf, int ulps) {
    uvec sa = nats(a,"a"), sb = nats(a,"b");
    auto da = parse_data<T>(a,"da"); auto db = parse_data<U>(a,"db");
    using R = decltype(rf(std::declval<T>(), std::declval<U>()));
    uvec s; bool ok = bshape({sa,sb}, s);
    std::vector<R> refv; std::ostringstream pl; size_t n = ok ? prod(s) : 0;
    for (size_t k=0;k<n;k++) {
        uvec d = unravel(k, s); size_t ia = route(sa,d), ib = route(sb,d);
        refv.push_back(rf(da.at(ia), db.at(ib))); if (k) pl << ';'; pl << ia << ',' << ib;
    }
    std::string plan = n ? pl.str() : "[]";
    auto go = [&](const auto& A, const auto& B) {
        auto mv = vf(A,B);
        if (!ok) return std::string(present(mv) ? "accepted-incompatible" : "nothing");
        return finish<R>(mv, ef(A,B), s, refv, plan, ulps);
    };
    bool na_ = is_num_operand(a,"a"), nb_ = is_num_operand(a,"b");
    if (na_ && nb_) return go(da.at(0), db.at(0));
    if (na_) { auto B = make<U>(sb, db); return go(da.at(0), B); }
    if (nb_) { auto A = make<T>(sa, da); return go(A, db.at(0)); }
    auto A = make<T>(sa, da); auto B = make<U>(sb, db);
    return go(A, B);
}

// ---- ternary -------------------------------------------------------------------------------------------------
template <typename T, typename U, typename W, typename VF, typename EF, typename RF>
std::string run3(const Args& a, VF vf, EF ef, RF rf, int ulps) {
    uvec sa = nats(a,"a"), sb = nats(a,"b"), sc = nats(a,"c");
    auto da = parse_data<T>(a,"da"); auto db = parse_data<U>(a,"db"); auto dc = parse_data<W>(a,"dc");
    using R = decltype(rf(std::declval<T>(), std::declval<U>(), std::declval<W>()));
    uvec s; bool ok = bshape({sa,sb,sc}, s);
    std::vector<R> refv; std::ostringstream pl; size_t n = ok ? prod(s) : 0;
    for (size_t k=0;k<n;k++) {
        uvec d = unravel(k, s); size_t ia = route(sa,d), ib = route(sb,d), ic = route(sc,d);
        refv.push_back(rf(da.at(ia), db.at(ib), dc.at(ic))); if (k) pl << ';'; pl << ia << ',' << ib << ',' << ic;
    }
    std::string plan = n ? pl.str() : "[]";
    auto go = [&](const auto& A, const auto& B, const auto& C) {
        auto mv = vf(A,B,C);
        if (!ok) return std::string(present(mv) ? "accepted-incompatible" : "nothing");
        return finish<R>(mv, ef(A,B,C), s, refv, plan, ulps);
    };
    auto A = make<T>(sa, da);
    bool nb_ = is_num_operand(a,"b"), nc_ = is_num_operand(a,"c");
    if (nb_ && nc_) return go(A, db.at(0), dc.at(0));          // plain scalars for the 2nd and 3rd operand
    if (nc_) { auto B = make<U>(sb, db); return go(A, B, dc.at(0)); }
    if (nb_) throw bad_args("scalar b with array c not instantiated");
    auto B = make<U>(sb, db); auto C = make<W>(sc, dc);
    return go(A, B, C);
}

// ---- outer ---------------------------------------------------------------------------------------------------
template <typename T, typename U, typename VF, typename EF, typename RF>
std::string run_outer(const Args& a, VF vf, EF ef, RF rf, int ulps) {
    uvec sa = nats(a,"a"), sb = nats(a,"b");
    auto da = parse_data<T>(a,"da"); auto db = parse_data<U>(a,"db");
    using R = decltype(rf(std::declval<T>(), std::declval<U>()));
    uvec s = sa; s.insert(s.end(), sb.begin(), sb.end());
    size_t nb = prod(sb), n = prod(s);
    std::vector<R> refv; std::ostringstream pl;
    for (size_t k=0;k<n;k++) { size_t ia = k / nb, ib = k % nb; refv.push_back(rf(da.at(ia), db.at(ib))); if (k) pl << ';'; pl << ia << ',' << ib; }
    std::string plan = n ? pl.str() : "[]";
    auto A = make<T>(sa, da); auto B = make<U>(sb, db);
    return finish<R>(vf(A,B), ef(A,B), s, refv, plan, ulps);
}

// a function object as 3-operand ufunc over run-time shapes: broadcast_arrays, then ufunc_t (what view::ufunc does for
// operands whose broadcast cannot fail; view::ufunc itself does not accept the maybe-typed broadcast result)
template <typename op_t, typename X, typename Y, typename Z>
auto mk_ufunc3(op_t op, const X& x, const Y& y, const Z& z) {
    return view::decorator_t<view::ufunc_t, op_t, X, Y, Z>{{op, x, y, z}};   // as view::binary_ufunc builds its result
}
template <typename op_t, typename A, typename B, typename C>
auto ufunc3(op_t op, const A& a, const B& b, const C& c) {
    auto bc = view::broadcast_arrays(a, b, c);
    using r_t = decltype(mk_ufunc3(op, nm::get<0>(*bc), nm::get<1>(*bc), nm::get<2>(*bc)));
    using ret_t = nmtools_maybe<r_t>;
    return nm::has_value(bc) ? ret_t{mk_ufunc3(op, nm::get<0>(*bc), nm::get<1>(*bc), nm::get<2>(*bc))} : ret_t{nm::meta::Nothing};
}

inline std::string types(const Args& a) {
    std::string t = get(a,"ta");
    if (has(a,"tb")) t += "," + get(a,"tb");
    if (has(a,"tc")) t += "," + get(a,"tc");
    return t;
}
} // namespace c07
