import NmVerif.Proto
import NmVerif.Arr
import NmVerif.Index.Where
/-
  Driver ops of C04 answered from Index/Where.lean and Index/Generators.lean (dispatched from Driver/C04.lean).
-/
namespace NmVerif.Driver.C04Gen
open NmVerif NmVerif.Proto NmVerif.Index

/-- `where shape=<cond shape> cond=<entries, C order> shape2=<x shape> shape3=<y shape>`: x holds `1000 + k`, y holds
    `2000 + k`; an index computation that fails (never on accepted operands: `where_elem`) would print `oob` -/
def fmtWhere (c x y : Shape) (cond : List Int) : String :=
  match whereView c x y with
  | none => "nothing"
  | some w =>
    let cv : Idx → Int := fun ic => cond[computeOffset ic (strides c)]?.getD 0
    let data : List (Option Int) := (allIdx w.dst).map (fun d =>
      (w.select cv d).map (fun p =>
        if p.1 then (computeOffset p.2 (strides y) : Int) + 2000 else (computeOffset p.2 (strides x) : Int) + 1000))
    if data.any (·.isNone) then "oob"
    else s!"ok shape={fmtNats w.dst} data={fmtInts (data.map (·.getD 0))}"

def handle : Handler := fun op a =>
  match op with
  | "where" => orBad do
      let c ← a.nats "shape"
      let x ← a.nats "shape2"
      let y ← a.nats "shape3"
      let cond ← a.ints "cond"
      pure (fmtWhere c x y cond)
  | _ => none

end NmVerif.Driver.C04Gen
