import NmVerif.Containers.Spec
import NmVerif.Containers.StaticVector
import NmVerif.Containers.VectorProofs
/-
  Proofs about the `utl::static_vector` / `utl::array` mirrors: refinement of the capacity-bounded list
  (`boundedSpec`) resp. of `std::array` (`arraySpec`), and "no out-of-bounds access".
-/
namespace NmVerif.Containers
variable {α : Type}

/-- refinement relation of `static_vector<T,c>` towards the bounded list -/
structure RSVec (c : Nat) (v : SVec α) (l : List α) : Prop where
  len : v.cells.length = c
  le : v.size ≤ c
  view : v.view = l.map some

/-- the only guard left: a variadic construction has at most `Capacity` arguments (more do not compile) -/
def svecOk (c : Nat) : Option (List α) → Op α → Prop
  | _, .ctorV _ vs => vs.length ≤ c
  | _, _ => True

theorem RSVec.size_eq {c : Nat} {v : SVec α} {l : List α} (h : RSVec c v l) : v.size = l.length := by
  have h1 := h.len; have h2 := h.le
  have := congrArg List.length h.view
  simp [SVec.view, List.length_take] at this
  omega

theorem RSVec.cell {c : Nat} {v : SVec α} {l : List α} (h : RSVec c v l) (i : Nat) (hi : i < l.length) :
    v.cells[i]? = some (l[i]?) := by
  have hs := h.size_eq
  have hv := congrArg (fun t => t[i]?) h.view
  simp only [SVec.view, List.getElem?_take, List.getElem?_map] at hv
  have : i < v.size := by omega
  simp only [this, if_true] at hv
  rw [hv]
  simp [List.getElem?_eq_getElem hi]

theorem svec_store_view (v : SVec α) (i : Nat) (x : Cell α) (L : Ledger) (hi : i < v.cells.length) :
    (v.store i x L) = ({ v with cells := v.cells.set i x }, L) := by
  simp [SVec.store, hi]

/-- `resize(n)` within the capacity: the state, and the client-visible elements (`std::vector::resize`) -/
theorem svec_resize_spec (c : Nat) (zero : α) (x : SVec α) (n : Nat) (L : Ledger) (h1 : x.cells.length = c)
    (h2 : x.size ≤ c) (hn : n ≤ c) :
    SVec.resize c zero x n L = ({ cells := initRange zero x.cells x.size n, size := n }, L) ∧
    (initRange zero x.cells x.size n).length = c ∧
    (initRange zero x.cells x.size n).take n =
      (if n ≤ x.size then x.view.take n else x.view ++ List.replicate (n - x.size) (some zero)) := by
  have hc : decide (x.size < n ∧ x.cells.length < n) = false := by simp; omega
  refine ⟨by simp [SVec.resize, hn, hc, Ledger.flagIf], ?_, ?_⟩
  · rw [Vec.initRange_length zero x.cells x.size n (by omega)]; exact h1
  · by_cases hs : n ≤ x.size
    · have : ¬ x.size < n := by omega
      simp only [hs, if_true, initRange, this, if_false, SVec.view, List.take_take]
      congr 1; omega
    · simp only [hs, if_false, SVec.view]
      exact Vec.initRange_take zero x.cells x.size n (by omega) (by omega)

theorem svec_sim (c : Nat) (zero : α) : Sim (svecImpl c zero) (boundedSpec c zero) (RSVec c) (svecOk c) where
  size_eq := fun x y h => h.size_eq
  mkDefault := fun s L M _ => ⟨by simp [svecImpl, SVec.mkDefault], by simp [svecImpl, SVec.mkDefault],
    by simp [svecImpl, boundedSpec, SVec.mkDefault, SVec.view]⟩
  mkSized := fun s n L M _ => by
    by_cases hn : n ≤ c
    · refine ⟨by simp [svecImpl, SVec.mkSized], by simpa [svecImpl, SVec.mkSized, hn] using hn, ?_⟩
      simp [svecImpl, boundedSpec, SVec.mkSized, SVec.view, hn, List.take_replicate, Nat.min_eq_left hn]
    · refine ⟨by simp [svecImpl, SVec.mkSized], by simp [svecImpl, SVec.mkSized, hn], ?_⟩
      simp [svecImpl, boundedSpec, SVec.mkSized, SVec.view, hn]
  mkVariadic := fun s vs L M hok => by
    simp only [svecOk] at hok
    refine ⟨?_, by simpa [svecImpl, SVec.mkVariadic] using hok, ?_⟩
    · simp [svecImpl, SVec.mkVariadic, List.length_take]; omega
    · simp only [svecImpl, boundedSpec, SVec.mkVariadic, SVec.view, hok, if_true, List.take_take]
      rw [Nat.min_eq_left hok, List.take_left']
      simp
  mkCopy := fun d s x y L M _ h => h
  assign := fun d s x y x' y' L M _ h h' => by
    have h1 := h.len; have h2 := h.le; have h3 := h'.len; have h4 := h'.le
    obtain ⟨hr, hl, _⟩ := svec_resize_spec c zero x x'.size L h1 h2 h4
    refine ⟨?_, ?_, ?_⟩
    · simp [svecImpl, SVec.assign, hr, SVec.copyFrom, List.length_take, hl]; omega
    · simpa [svecImpl, SVec.assign, hr, SVec.copyFrom] using h4
    · simp only [svecImpl, boundedSpec, SVec.assign, hr, SVec.copyFrom, SVec.view]
      rw [List.take_left' (by simp [List.length_take]; omega)]
      exact h'.view
  assignSelf := fun d x y L M _ h => by
    have h1 := h.len; have h2 := h.le
    have hr : SVec.resize c zero x x.size L = (x, L) := by
      have hc : decide (x.size < x.size ∧ x.cells.length < x.size) = false := by simp
      simp [SVec.resize, h2, initRange, hc, Ledger.flagIf]
    have : (svecImpl c zero).assignSelf x L = (x, L.flagIf (decide (x.cells.length < x.size ∨ x.cells.length < x.size)) .oob) := by
      simp [svecImpl, SVec.assignSelf, hr, SVec.copyFrom]
    rw [this]; exact h
  push := fun s a x y L M _ h => by
    have h1 := h.len; have h2 := h.le; have hs := h.size_eq
    by_cases hc : c < x.size + 1
    · have : ¬ (y.length + 1 ≤ c) := by omega
      simpa [svecImpl, boundedSpec, SVec.push, hc, this] using h
    · have hle : x.size + 1 ≤ c := by omega
      have hle' : y.length + 1 ≤ c := by omega
      obtain ⟨hr, hl, _⟩ := svec_resize_spec c zero x (x.size + 1) L h1 h2 hle
      have hi : x.size < (initRange zero x.cells x.size (x.size + 1)).length := by omega
      simp only [svecImpl, boundedSpec, SVec.push, hc, if_false, hr, Nat.add_sub_cancel, hle', if_true]
      rw [svec_store_view _ _ _ _ (by simpa using hi)]
      refine ⟨by simp [hl], by simpa using hle, ?_⟩
      simp only [SVec.view]
      rw [take_succ_set _ _ _ hi, Vec.initRange_take_old zero x.cells x.size (x.size + 1) (by omega)]
      have := h.view; simp only [SVec.view] at this
      simp [this]
  pushAt := fun s i x y L M _ h hi => by
    have h1 := h.len; have h2 := h.le; have hs := h.size_eq
    have hi' : i < y.length := hi
    have hcell := h.cell i hi'
    by_cases hc : c < x.size + 1
    · have : ¬ (y.length + 1 ≤ c) := by omega
      simp only [svecImpl, boundedSpec, SVec.pushAt, hc, if_true, List.getElem?_eq_getElem hi', this, if_false]
      exact h
    · have hle : x.size + 1 ≤ c := by omega
      have hle' : y.length + 1 ≤ c := by omega
      obtain ⟨hr, hl, _⟩ := svec_resize_spec c zero x (x.size + 1) L h1 h2 hle
      have hlen : x.size < (initRange zero x.cells x.size (x.size + 1)).length := by omega
      simp only [svecImpl, boundedSpec, SVec.pushAt, hc, if_false, hr, Nat.add_sub_cancel,
        hle', if_true, hcell, List.getElem?_eq_getElem hi']
      rw [svec_store_view _ _ _ _ (by simpa using hlen)]
      refine ⟨by simp [hl], by simpa using hle, ?_⟩
      simp only [SVec.view]
      rw [take_succ_set _ _ _ hlen, Vec.initRange_take_old zero x.cells x.size (x.size + 1) (by omega)]
      have := h.view; simp only [SVec.view] at this
      simp [this]
  resize := fun s n x y L M _ h => by
    have h1 := h.len; have h2 := h.le; have hs := h.size_eq
    by_cases hnc : n ≤ c
    · obtain ⟨hr, hl, hv⟩ := svec_resize_spec c zero x n L h1 h2 hnc
      refine ⟨by simpa [svecImpl, hr] using hl, by simpa [svecImpl, hr] using hnc, ?_⟩
      simp only [svecImpl, boundedSpec, hr, hnc, if_true, SVec.view, listResize]
      rw [hv, h.view, hs]
      split
      · simp [List.map_take]
      · simp
    · simpa [svecImpl, boundedSpec, SVec.resize, hnc] using h
  write := fun s i a x y L M _ h hi => by
    have h1 := h.len; have h2 := h.le; have hs := h.size_eq
    have hi' : i < y.length := hi
    have hlen : i < x.cells.length := by omega
    simp only [svecImpl, boundedSpec, SVec.write]
    rw [svec_store_view _ _ _ _ hlen]
    refine ⟨by simp [h1], h2, ?_⟩
    have := h.view; simp only [SVec.view] at this
    simp [SVec.view, List.take_set, this, List.map_set]

end NmVerif.Containers

namespace NmVerif.Containers
variable {α : Type}

/-- object invariant of `static_vector<T,c>` -/
def SVec.Inv (c : Nat) (v : SVec α) : Prop := v.cells.length = c ∧ v.size ≤ c

/-- the ledger is never touched: no heap, no out-of-bounds event -/
def Ledger.Untouched (L : Ledger) : Prop := L.allocs = 0 ∧ L.freed = [] ∧ L.events = []

def svecSafeOk (c : Nat) : Op α → Prop
  | .ctorV _ vs => vs.length ≤ c
  | _ => True

theorem svec_pres (c : Nat) (zero : α) : Pres (svecImpl c zero) (SVec.Inv c) Ledger.Untouched (svecSafeOk c) where
  mkDefault := fun s L _ hq => ⟨by simp [svecImpl, SVec.mkDefault, SVec.Inv], hq⟩
  mkSized := fun s n L _ hq => by
    refine ⟨⟨by simp [svecImpl, SVec.mkSized], ?_⟩, hq⟩
    simp only [svecImpl, SVec.mkSized]; split <;> omega
  mkVariadic := fun s vs L hok hq => by
    simp only [svecSafeOk] at hok
    refine ⟨⟨?_, by simpa [svecImpl, SVec.mkVariadic] using hok⟩, hq⟩
    simp [svecImpl, SVec.mkVariadic, List.length_take]; omega
  mkCopy := fun d s x L _ hp hq => ⟨hp, hq⟩
  assign := fun d s x y L _ hx hy hq => by
    obtain ⟨h1, h2⟩ := hx; obtain ⟨h3, h4⟩ := hy
    obtain ⟨hr, hl, _⟩ := svec_resize_spec c zero x y.size L h1 h2 h4
    have hc : decide (y.cells.length < y.size ∨ (initRange zero x.cells x.size y.size).length < y.size) = false := by
      simp; omega
    refine ⟨⟨?_, ?_⟩, ?_⟩
    · simp [svecImpl, SVec.assign, hr, SVec.copyFrom, List.length_take, hl]; omega
    · simpa [svecImpl, SVec.assign, hr, SVec.copyFrom] using h4
    · simpa [svecImpl, SVec.assign, hr, SVec.copyFrom, hc, Ledger.flagIf] using hq
  assignSelf := fun d x L _ hx hq => by
    obtain ⟨h1, h2⟩ := hx
    have hr : SVec.resize c zero x x.size L = (x, L) := by
      have hc : decide (x.size < x.size ∧ x.cells.length < x.size) = false := by simp
      simp [SVec.resize, h2, initRange, hc, Ledger.flagIf]
    have hc' : ¬ x.cells.length < x.size := by omega
    have : (svecImpl c zero).assignSelf x L = (x, L) := by
      simp [svecImpl, SVec.assignSelf, hr, SVec.copyFrom, Ledger.flagIf, hc']
    rw [this]; exact ⟨⟨h1, h2⟩, hq⟩
  push := fun s a x L _ hx hq => by
    obtain ⟨h1, h2⟩ := hx
    by_cases hc : c < x.size + 1
    · simpa [svecImpl, SVec.push, hc] using ⟨⟨h1, h2⟩, hq⟩
    · have hle : x.size + 1 ≤ c := by omega
      obtain ⟨hr, hl, _⟩ := svec_resize_spec c zero x (x.size + 1) L h1 h2 hle
      have hi : x.size < (initRange zero x.cells x.size (x.size + 1)).length := by omega
      simp only [svecImpl, SVec.push, hc, if_false, hr, Nat.add_sub_cancel]
      rw [svec_store_view _ _ _ _ (by simpa using hi)]
      exact ⟨⟨by simp [hl], by simpa using hle⟩, hq⟩
  pushAt := fun s i x L _ hx hq hi => by
    obtain ⟨h1, h2⟩ := hx
    have hi' : i < x.size := hi
    by_cases hc : c < x.size + 1
    · simpa [svecImpl, SVec.pushAt, hc] using ⟨⟨h1, h2⟩, hq⟩
    · have hle : x.size + 1 ≤ c := by omega
      obtain ⟨hr, hl, _⟩ := svec_resize_spec c zero x (x.size + 1) L h1 h2 hle
      have hlen : x.size < (initRange zero x.cells x.size (x.size + 1)).length := by omega
      have hil : i < x.cells.length := by omega
      simp only [svecImpl, SVec.pushAt, hc, if_false, hr, Nat.add_sub_cancel, List.getElem?_eq_getElem hil]
      rw [svec_store_view _ _ _ _ (by simpa using hlen)]
      exact ⟨⟨by simp [hl], by simpa using hle⟩, hq⟩
  resize := fun s n x L _ hx hq => by
    obtain ⟨h1, h2⟩ := hx
    by_cases hn : n ≤ c
    · obtain ⟨hr, hl, _⟩ := svec_resize_spec c zero x n L h1 h2 hn
      simp only [svecImpl, hr]; exact ⟨⟨hl, hn⟩, hq⟩
    · simp only [svecImpl, SVec.resize, hn, if_false]; exact ⟨⟨h1, h2⟩, hq⟩
  write := fun s i a x L _ hx hq hi => by
    obtain ⟨h1, h2⟩ := hx
    have hi' : i < x.size := hi
    have hlen : i < x.cells.length := by omega
    simp only [svecImpl, SVec.write]
    rw [svec_store_view _ _ _ _ hlen]
    exact ⟨⟨by simp [h1], h2⟩, hq⟩
  read := fun s i x L _ hx hq hi => by
    obtain ⟨h1, h2⟩ := hx
    have hi' : i < x.size := hi
    have hlen : i < x.cells.length := by omega
    simpa [svecImpl, SVec.read, List.getElem?_eq_getElem hlen] using hq
  destroy := fun s x L _ _ hq => hq

/-! #### utl::array -/

structure RArr (n : Nat) (v : SVec α) (l : List α) : Prop where
  size : v.size = n
  len : l.length = n
  cells : v.cells = l.map some

theorem arr_sim (n : Nat) (zero : α) : Sim (arrImpl n zero) (arraySpec n zero) (RArr n) (fun _ _ => True) where
  size_eq := fun x y h => by
    show x.size = y.length
    rw [h.size, h.len]
  mkDefault := fun s L M _ => ⟨rfl, by simp [arraySpec], by simp [arrImpl, arraySpec, SVec.mkSized]⟩
  mkSized := fun s k L M _ => ⟨rfl, by simp [arraySpec], by simp [arrImpl, arraySpec, SVec.mkSized]⟩
  mkVariadic := fun s vs L M _ => ⟨rfl, by simp [arraySpec, List.length_take]; omega,
    by simp [arrImpl, arraySpec, SVec.mkVariadic, List.map_take]⟩
  mkCopy := fun d s x y L M _ h => h
  assign := fun d s x y x' y' L M _ _ h' => h'
  assignSelf := fun d x y L M _ h => h
  push := fun s a x y L M _ h => h
  pushAt := fun s i x y L M _ h _ => h
  resize := fun s k x y L M _ h => h
  write := fun s i a x y L M _ h hi => by
    have hi' : i < y.length := hi
    have hlen : i < x.cells.length := by rw [h.cells]; simpa using hi'
    simp only [arrImpl, arraySpec, SVec.write]
    rw [svec_store_view _ _ _ _ hlen]
    exact ⟨h.size, by simpa using h.len, by simp [h.cells, List.map_set]⟩

end NmVerif.Containers
