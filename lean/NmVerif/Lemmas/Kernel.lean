import NmVerif.Kernel
import NmVerif.Lemmas.Addressing
/-
  Helper lemmas for C13 (kernel body / schedules).  Property statements live in Props/C13.lean.
-/
namespace NmVerif.Kernel
open NmVerif

variable {α : Type}

theorem kstep_of_lt (res : List α) (bsz : Nat) (out : List α) (t : Nat × Nat)
    (hl : res.length = out.length) (h : threadOffset bsz t < out.length) :
    ∃ v, res[threadOffset bsz t]? = some v ∧ kstep res bsz out t = some (out.set (threadOffset bsz t) v) := by
  have hr : threadOffset bsz t < res.length := by omega
  refine ⟨res[threadOffset bsz t], List.getElem?_eq_getElem hr, ?_⟩
  simp [kstep, h, List.getElem?_eq_getElem hr]

theorem kstep_of_ge (res : List α) (bsz : Nat) (out : List α) (t : Nat × Nat)
    (h : out.length ≤ threadOffset bsz t) : kstep res bsz out t = some out := by
  have : ¬ threadOffset bsz t < out.length := by omega
  simp [kstep, this]

/-- one thread, cell by cell -/
theorem kstep_spec (res : List α) (bsz : Nat) (out : List α) (t : Nat × Nat) (hl : res.length = out.length) :
    ∃ o, kstep res bsz out t = some o ∧ o.length = out.length ∧
      ∀ i, i < out.length → o[i]? = if threadOffset bsz t = i then res[i]? else out[i]? := by
  by_cases h : threadOffset bsz t < out.length
  · obtain ⟨v, hv, hk⟩ := kstep_of_lt res bsz out t hl h
    refine ⟨_, hk, by simp, ?_⟩
    intro i hi
    rw [List.getElem?_set]
    by_cases he : threadOffset bsz t = i
    · subst he; simp [h, hv]
    · simp [he]
  · refine ⟨out, kstep_of_ge res bsz out t (by omega), rfl, ?_⟩
    intro i hi
    have : threadOffset bsz t ≠ i := by omega
    simp [this]

theorem hits_cons (bsz : Nat) (t : Nat × Nat) (ts : List (Nat × Nat)) (i : Nat) :
    Hits bsz (t :: ts) i ↔ threadOffset bsz t = i ∨ Hits bsz ts i := by
  unfold Hits
  constructor
  · rintro ⟨t', h, e⟩
    simp at h
    rcases h with rfl | h
    · exact Or.inl e
    · exact Or.inr ⟨t', h, e⟩
  · rintro (e | ⟨t', h, e⟩)
    · exact ⟨t, by simp, e⟩
    · exact ⟨t', by simp [h], e⟩

/-- the fold of ANY schedule: a cell holds `res[i]` iff some thread of the schedule addressed it, else its old value -/
theorem kfold_spec (res : List α) (bsz : Nat) (sched : List (Nat × Nat)) :
    ∀ (out : List α), res.length = out.length →
    ∃ o, kfold res bsz out sched = some o ∧ o.length = out.length ∧
      ∀ i, i < out.length → (Hits bsz sched i → o[i]? = res[i]?) ∧ (¬ Hits bsz sched i → o[i]? = out[i]?) := by
  induction sched with
  | nil =>
    intro out _
    refine ⟨out, by simp [kfold], rfl, ?_⟩
    intro i _
    refine ⟨?_, fun _ => rfl⟩
    rintro ⟨t, h, _⟩; simp at h
  | cons t ts ih =>
    intro out hl
    obtain ⟨o1, h1, hl1, hs1⟩ := kstep_spec res bsz out t hl
    obtain ⟨o, h2, hl2, hs2⟩ := ih o1 (by omega)
    refine ⟨o, ?_, by omega, ?_⟩
    · simp only [kfold, List.foldlM_cons, h1]
      exact h2
    · intro i hi
      have hi1 : i < o1.length := by omega
      obtain ⟨ha, hb⟩ := hs2 i hi1
      rw [hits_cons]
      constructor
      · rintro (e | h)
        · by_cases hts : Hits bsz ts i
          · exact ha hts
          · rw [hb hts, hs1 i hi]; simp [e]
        · exact ha h
      · intro hn
        have hne : threadOffset bsz t ≠ i := fun e => hn (Or.inl e)
        have hts : ¬ Hits bsz ts i := fun h => hn (Or.inr h)
        rw [hb hts, hs1 i hi]; simp [hne]

/-! ### the n-d body is the flat body -/

theorem flat_getElem? (a : Arr α) (hs : Pos a.shape) (k : Nat) (hk : k < prod a.shape) :
    a.flat[k]? = some (a.get (ndindex a.shape k)) := by
  unfold Arr.flat
  rw [← map_ndindex_range a.shape hs, List.map_map]
  simp [hk]

theorem flat_length (a : Arr α) (hs : Pos a.shape) : a.flat.length = prod a.shape := by
  unfold Arr.flat
  rw [← map_ndindex_range a.shape hs]
  simp

/-- a row-major output of positive extents whose buffer has `prod shape` cells -/
structure GoodOut (out : NDA α) : Prop where
  row : out.colMajor = false
  wf : out.WF
  pos : Pos out.shape

theorem assignResult_eq_kstep (result : Arr α) (bsz : Nat) (out : NDA α) (t : Nat × Nat)
    (g : GoodOut out) (hsh : result.shape = out.shape) :
    assignResult result bsz out t = (kstep result.flat bsz out.data t).map (fun d => { out with data := d }) := by
  have hw : out.data.length = prod out.shape := g.wf
  unfold assignResult kstep
  simp only
  by_cases h : threadOffset bsz t < prod out.shape
  · have hoff : out.offset (ndindex out.shape (threadOffset bsz t)) = threadOffset bsz t := by
      simp only [NDA.offset, NDA.stridesOf, g.row]
      exact offset_indices g.pos h
    have hfl := flat_getElem? result (hsh ▸ g.pos) (threadOffset bsz t) (hsh ▸ h)
    simp only [h, if_true, hw, hoff, hfl, Option.map_some, NDA.set, hsh]
  · simp [h, hw]

theorem goodOut_data (out : NDA α) (g : GoodOut out) (d : List α) (hd : d.length = out.data.length) :
    GoodOut ({ out with data := d }) :=
  ⟨g.row, by simpa [NDA.WF, hd] using g.wf, g.pos⟩

theorem runSchedule_eq_kfold (result : Arr α) (bsz : Nat) (sched : List (Nat × Nat)) :
    ∀ (out : NDA α), GoodOut out → result.shape = out.shape →
    runSchedule result bsz out sched = (kfold result.flat bsz out.data sched).map (fun d => { out with data := d }) := by
  induction sched with
  | nil => intro out _ _; simp [runSchedule, kfold]
  | cons t ts ih =>
    intro out g hsh
    have hl : result.flat.length = out.data.length := by
      rw [flat_length result (hsh ▸ g.pos), hsh]; exact g.wf.symm
    obtain ⟨o1, h1, hl1, _⟩ := kstep_spec result.flat bsz out.data t hl
    have hstep := assignResult_eq_kstep result bsz out t g hsh
    rw [h1] at hstep
    simp only [Option.map_some] at hstep
    have g1 := goodOut_data out g o1 hl1
    have := ih ({ out with data := o1 }) g1 hsh
    simp only [runSchedule, kfold, List.foldlM_cons, hstep, h1] at this ⊢
    exact this

/-! ### flat only looks at in-shape indices -/

theorem inShape_of_mem_allIdx (s : Shape) (i : Idx) (h : i ∈ allIdx s) : InShape i s := by
  induction s generalizing i with
  | nil => simp [allIdx] at h; subst h; trivial
  | cons a t ih =>
    simp only [allIdx, List.mem_flatMap, List.mem_range, List.mem_map] at h
    obtain ⟨j, hj, y, hy, rfl⟩ := h
    exact ⟨hj, ih y hy⟩

theorem flat_congr {a b : Arr α} (h : a.Equiv b) : a.flat = b.flat := by
  unfold Arr.flat
  rw [← h.1]
  apply List.map_congr_left
  intro i hi
  exact h.2 i (inShape_of_mem_allIdx _ _ hi)

/-! ### 1-d launches -/

theorem mem_launchAsc (bsz grid : Nat) (t : Nat × Nat) : t ∈ launchAsc bsz grid ↔ t.1 < bsz ∧ t.2 < grid := by
  unfold launchAsc
  simp only [List.mem_flatMap, List.mem_range, List.mem_map]
  constructor
  · rintro ⟨b, hb, x, hx, rfl⟩; exact ⟨hx, hb⟩
  · rintro ⟨h1, h2⟩; exact ⟨t.2, h2, t.1, h1, rfl⟩

theorem launchAsc_covers (bsz grid n : Nat) (h : n ≤ grid * bsz) : Covers bsz (launchAsc bsz grid) n := by
  intro i hi
  have hb : 0 < bsz := by
    rcases Nat.eq_zero_or_pos bsz with h0 | h0
    · subst h0; omega
    · exact h0
  refine ⟨(i % bsz, i / bsz), (mem_launchAsc bsz grid _).2 ⟨Nat.mod_lt _ hb, ?_⟩, ?_⟩
  · rw [Nat.div_lt_iff_lt_mul hb]; omega
  · simp only [threadOffset]
    rw [Nat.mul_comm]; exact Nat.div_add_mod i bsz

end NmVerif.Kernel
