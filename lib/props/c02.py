"""C02 — element access through arrays and views never leaves the operands' storage; bounded containers are
never asked to hold more than their capacity.

PROOF side (lean/NmVerif/Props/C02.lean): in-bounds-ness of every modelled view kind (re-exported from the owning
property), composition lemmas for chains of any depth and for two-operand trees, "in-shape index => offset below
the buffer length" for both layouts, capacity theorems for the bounded results of the index functions.

CORRESPONDENCE side (this file): the real headers under ASan + UBSan + _GLIBCXX_ASSERTIONS + asserts AND the
NMTOOLS_VERIF hooks (event 1 = bounded container asked to hold more than its capacity, 2 = clipped integer clamped,
3 = evaluator skipped an output of the wrong shape):
  (a) REPLAY: the ACCEPTED requests of the generators of the properties listed in `REPLAY` go through the harness
      sources of those properties, rebuilt with sanitizers + `-DPROTO_VERIF_EVENTS`.  Those harnesses read every
      element of every view and evaluate it.  A crash / exception / hook event on an accepted request is a C02
      violation (replay = the request).  Values are the owning property's business and are not compared here.
  (b) NEW: harness/h_c02*.cpp — compositions of 2 and 3 views (chains and two-operand trees) over dynamic, bounded
      and fixed storage, mutable views writing every element, eval into caller-supplied outputs; compared with a
      NumPy oracle and (indexing chains) with the Lean model `compAll` of the per-kind `IxView`s.

To add another property to the replay part append one entry to `REPLAY` (module name, harness filter, sampling).
"""
import re
import importlib, itertools, os, random
import numpy as np
import runner
from runner import Case
from shapes import shapes, prod, fmt

ID = 'C02'
LEVEL = 'proof'

# ------------------------------------------------------------------------------------------------
# (a) replay of other properties' accepted requests under sanitizers + hooks
# ------------------------------------------------------------------------------------------------
# mod      : module in lib/props
# take     : harness names of that module to rebuild (None = all) per tier
# stride   : keep every n-th accepted request per tier (1 = all)
REPLAY = [
    dict(mod='c03', take={'quick': None, 'thorough': None}, stride={'quick': 1, 'thorough': 30}),
    dict(mod='c04', take={'quick': None, 'thorough': None}, stride={'quick': 1, 'thorough': 3}),
    dict(mod='c06', take={'quick': None, 'thorough': None}, stride={'quick': 2, 'thorough': 4}),
    dict(mod='c07', take={'quick': ('h_c07q_0',), 'thorough': ('h_c07t_0', 'h_c07t_1', 'h_c07t_2')}, stride={'quick': 1, 'thorough': 1}),
    dict(mod='c08', take={'quick': ('h_c08', 'h_c08c', 'h_c08n', 'h_c08r'), 'thorough': ('h_c08', 'h_c08c', 'h_c08n', 'h_c08r')},
         stride={'quick': 2, 'thorough': 4}),
    # slices (negative steps, clamped / out-of-range bounds, ellipsis, integers) through the view and the eager function:
    # the index map of a slice is the one place where a wrong clamp reads one position outside the source (seeded C02-1)
    dict(mod='c05', take={'quick': ('h_c05_p1', 'h_c05_dyn'), 'thorough': ('h_c05_p1', 'h_c05_dyn', 'h_c05_pm23')},
         stride={'quick': 4, 'thorough': 2}),
    # C12 (SIMD), C16 (linear algebra), C17 (NN) have sanitizer flavours of their own in their checks
]
# requests whose operands have more elements than this are not replayed: under ASan they cost several ms each and the
# runner's time-out is per request STREAM (0.002 s per request), so a slow stream would be reported as a crash
REPLAY_MAX_ELEMS = {'quick': 128, 'thorough': 512}
# known-finding classes of a replayed property in which the unchanged code reads OUTSIDE the operand on arguments the
# reference accepts (observed: std::out_of_range from the buffer's at(), failed assert): they violate C02 as well
SHARED_KNOWN = {'c04': ('repeat_negative_axis', 'take_negative_index', 'concatenate_negative_axis',
                        'split_index_beyond_extent', 'diagonal_negative_offset')}
SAN_SUFFIX = '_sanev'      # sanitizers + events; a name of its own so that the owners' caches are not evicted
MAX_PARALLEL_COMPILES = 10

_mods = {}


def _mod(name):
    if name not in _mods:
        try:
            _mods[name] = importlib.import_module('props.' + name)
        except ImportError:
            _mods[name] = None
    return _mods[name]


def _replay_specs(tier):
    """san+events rebuilds of the harness sources of the replayed properties: {orig name: spec}"""
    out = {}
    for ent in REPLAY:
        m = _mod(ent['mod'])
        if m is None:
            continue
        take = ent['take'][tier]
        for s in m.harness_specs(tier):
            if s.get('flavour', 'fast').startswith('san'):
                continue                      # the owner's own sanitizer copy of a source already taken
            if take is not None and s['name'] not in take:
                continue
            out[s['name']] = dict(name=s['name'] + SAN_SUFFIX, src=s['src'], flavour='san-dbg',
                                  extra=list(s.get('extra', ())) + ['-DPROTO_VERIF_EVENTS'])
    return out


def _only(name):
    """developer switch: C02_ONLY=<substring>,<substring> restricts the run to the harness binaries whose name contains
    one of the substrings (mutant triage without rebuilding all sanitizer TUs); unset = everything"""
    sel = os.environ.get('C02_ONLY')
    return True if not sel else any(x and x in name for x in sel.split(','))


def harness_specs(tier):
    runner.JOBS = min(runner.JOBS, MAX_PARALLEL_COMPILES)     # sanitizer TUs are heavy; the machine is shared
    specs = [t['spec'] for t in tus(tier)] + [M_SPEC, CAP_SPEC] + CAPV_SPECS + list(_replay_specs(tier).values())
    return [s for s in specs if _only(s['name'])]


def c02_clean(ans):
    """the C02 observables of one answer line: no crash, no exception, no hook event"""
    if ans is None:
        return False
    if ans.startswith('crash:') or ans.startswith('exception:') or ans == 'oob':
        return False
    if re.search(r'\boob\b', ans):
        return False                       # a harness that guards its reads itself reports `oob` / `oob@<k>` inside the answer
    if ' events=' in ans:
        return False
    return True


def _accepted(txt):
    return txt is not None and txt.startswith('ok')


def _req_elems(req):
    """largest element count among the `shape=`/`shape2=`/`a=`/`b=` operands of a request line (0 when none is given)"""
    m = 0
    for kv in req.split()[1:]:
        k, _, v = kv.partition('=')
        if k in ('shape', 'shape2', 'a', 'b', 'src', 'dst') or k.startswith('shape'):
            try:
                for part in v.split(';'):
                    dims = [int(x) for x in part.split(',')] if part not in ('[]', '', 'None') else []
                    if all(d >= 0 for d in dims):
                        m = max(m, prod(dims))
            except ValueError:
                pass
    return m


def _cmp_replay(a, b):
    """a = IMPL answer; b = expected/model answer of the owning property.  Only the C02 observables are judged;
    a request the reference does not accept (b is `nothing`/bad-args) is outside the property."""
    if b is not None and not _accepted(b):
        return True
    return c02_clean(a)


def gen_replay(tier, rng):
    specs = _replay_specs(tier)
    for ent in REPLAY:
        m = _mod(ent['mod'])
        if m is None:
            continue
        # only the classes of OPEN known findings of the owning property are set aside (a predicate kept for a repaired
        # defect excludes nothing)
        open_names = {e.get('predicate') for e in runner.load_known(m.ID)}
        preds = [f for n, f in getattr(m, 'KNOWN_PREDICATES', {}).items() if n in open_names]
        stride = ent['stride'][tier]
        k = 0
        shared_n = {}
        sub = random.Random(rng.random())
        for c in m.gen(tier, sub):
            if c.harness not in specs:
                continue
            if c.oracle is not None and not _accepted(c.oracle):
                continue                       # not accepted by the reference
            if c.oracle is None and not c.model:
                continue                       # nobody says whether it is accepted
            if any(p(c) for p in preds):
                # known-finding class of the owning property: not replayed — except the classes whose defect IS an access
                # outside the operand (listed as C02 findings too, see known/C02.json), a bounded sample of them
                hit = [n for n in SHARED_KNOWN.get(ent['mod'], ()) if n in open_names and n in m.KNOWN_PREDICATES and m.KNOWN_PREDICATES[n](c)]
                if hit and shared_n.get(hit[0], 0) < (150 if tier == 'quick' else 1000) and _req_elems(c.req) <= 64:
                    shared_n[hit[0]] = shared_n.get(hit[0], 0) + 1
                    yield Case(c.req, c.harness + SAN_SUFFIX, dom=False, oracle=c.oracle, model=False, nontrivial=True,
                               tags=('replay', 'replay:' + m.ID, 'known-defect-class', 'known:' + hit[0]), cmp=_cmp_replay)
                continue
            if _req_elems(c.req) > REPLAY_MAX_ELEMS[tier] or (c.oracle is not None and len(c.oracle) > REPLAY_MAX_ANSWER_CHARS):
                continue
            k += 1
            if k % stride:
                continue
            yield Case(c.req, c.harness + SAN_SUFFIX, dom=True, oracle=c.oracle, model=(c.oracle is None), mreq=c.mreq,
                       nontrivial=c.nontrivial, tags=('replay', 'replay:' + m.ID), cmp=_cmp_replay)



# ------------------------------------------------------------------------------------------------
# (b) new harness: chains / trees of views over dynamic, bounded and fixed storage
# ------------------------------------------------------------------------------------------------
KINDS = ['transpose', 'reshape', 'tile', 'flip', 'bcast', 'pad', 'take', 'repeat', 'slice', 'neg', 'add2', 'sum', 'cumsum']
BIT = {k: 1 << i for i, k in enumerate(KINDS)}
ALL = (1 << len(KINDS)) - 1
MODELLED = {'transpose', 'reshape', 'tile', 'flip', 'bcast', 'pad', 'take', 'repeat'}     # Lean: Driver/C02.lean


def mask(*ks):
    m = 0
    for k in ks:
        m |= BIT[k]
    return m


G_A = mask('transpose', 'reshape', 'tile', 'flip')
G_B = mask('bcast', 'pad', 'take', 'repeat', 'slice')
G_C = mask('neg', 'add2', 'sum', 'cumsum')
STORES = {'dyn': 0, 'sv': 1, 'arr': 2, 'hyb': 3, 'fix': 4, 'dyc': 5}
EVAL, OUT = 1, 2


def _tu(name, store, m1, m2=0, m3=0, d1=0, d2=0, d3=0, D=None, N=None, fixed=None, tiers=('quick', 'thorough')):
    """one translation unit of harness/h_c02.cpp: stage kinds (bit masks) compiled per depth and the evaluation modes
    compiled for results of that depth"""
    extra = ['-DPROTO_VERIF_EVENTS', '-DC02_STORE=%d' % STORES[store], '-DC02_M1=%d' % m1, '-DC02_M2=%d' % m2, '-DC02_M3=%d' % m3,
             '-DC02_MODES1=%d' % d1, '-DC02_MODES2=%d' % d2, '-DC02_MODES3=%d' % d3]
    if D is not None:
        extra.append('-DC02_D=%d' % D)
    if N is not None:
        extra.append('-DC02_N=%d' % N)
    if fixed is not None:
        extra.append('-DC02_FIXED=' + ','.join(str(x) for x in fixed))
    return dict(name=name, store=store, m=(m1, m2, m3), modes=(d1, d2, d3), D=D, N=N, fixed=fixed, tiers=tiers,
                spec=dict(name=name, src='h_c02.cpp', flavour='san-dbg', extra=extra))


BND_M2 = mask('tile', 'bcast', 'sum')
BND_M2B = mask('transpose', 'reshape', 'pad', 'slice')
D3A = (mask('reshape', 'tile', 'pad', 'slice'), mask('transpose', 'bcast', 'take', 'add2'), mask('reshape', 'tile', 'sum'))
D3B = (mask('transpose', 'bcast', 'repeat', 'neg'), mask('reshape', 'pad', 'flip', 'cumsum'), mask('transpose', 'take', 'bcast', 'add2'))
TUS = [
    # dynamic storage: every kind at depth 1 (view + eval + out), every ordered pair at depth 2 (view + out), two families of depth 3
    _tu('h_c02_d1', 'dyn', ALL, d1=EVAL | OUT),
    _tu('h_c02_d2a', 'dyn', ALL, G_A, d2=OUT),
    _tu('h_c02_d2b', 'dyn', ALL, G_B, d2=OUT),
    _tu('h_c02_d2c', 'dyn', ALL, G_C, d2=0),          # ufunc / reduce on top: read only (their evaluation: depth 1, C07/C08 replay)
    _tu('h_c02_d3a', 'dyn', *D3A, d3=OUT),
    _tu('h_c02_d3b', 'dyn', *D3B, d3=OUT, tiers=('thorough',)),
    # dynamic COLUMN-MAJOR source (column_major_offset_t): every kind at depth 1, view + eval + out (seeded C02-2 / C01-1 / C10-1)
    _tu('h_c02_dyc', 'dyc', ALL, d1=EVAL | OUT),
    # bounded: buffer static_vector<int,64>, shape static_vector<size_t,4>, arguments static_vector<_,8> (na::eval() of such a
    # view does not resolve a buffer type at compile time, so results are evaluated into a caller-supplied output only)
    _tu('h_c02_sv', 'sv', ALL, BND_M2, d1=OUT, d2=OUT),
    # fixed buffer + fixed rank
    _tu('h_c02_arr2', 'arr', ALL, BND_M2, d1=EVAL | OUT, d2=OUT, D=2, N=6),
    _tu('h_c02_arr1', 'arr', ALL, BND_M2B, d1=EVAL | OUT, d2=OUT, D=1, N=4, tiers=('thorough',)),
    _tu('h_c02_arr3', 'arr', ALL, BND_M2, d1=EVAL | OUT, d2=OUT, D=3, N=12, tiers=('thorough',)),
    # hybrid_ndarray<int,64,D>
    _tu('h_c02_hyb2', 'hyb', ALL, BND_M2, d1=EVAL | OUT, d2=OUT, D=2),
    _tu('h_c02_hyb1', 'hyb', ALL, BND_M2B, d1=EVAL | OUT, d2=OUT, D=1, tiers=('thorough',)),
    _tu('h_c02_hyb3', 'hyb', ALL, BND_M2, d1=EVAL | OUT, d2=OUT, D=3, tiers=('thorough',)),
    # fixed_ndarray: the shape is a compile-time constant
    _tu('h_c02_fix23', 'fix', ALL, BND_M2, d1=EVAL | OUT, d2=OUT, fixed=(2, 3)),
    _tu('h_c02_fix4', 'fix', ALL, BND_M2B, d1=EVAL | OUT, d2=OUT, fixed=(4,), tiers=('thorough',)),
    _tu('h_c02_fix223', 'fix', ALL, BND_M2, d1=EVAL | OUT, d2=OUT, fixed=(2, 2, 3), tiers=('thorough',)),
]


def tus(tier):
    return [t for t in TUS if tier in t['tiers']]


def tu_accepts_shape(t, s):
    st = t['store']
    if st in ('dyn', 'dyc'):
        return True
    if st == 'sv':
        return len(s) <= 4 and prod(s) <= 64
    if st == 'arr':
        return len(s) == t['D'] and prod(s) == t['N']
    if st == 'hyb':
        return len(s) == t['D'] and prod(s) <= 64
    return list(s) == list(t['fixed'])


def tu_for(tier, store, s, kinds, mode):
    """a TU of this tier that compiled this chain (kinds per depth, evaluation mode of the result)"""
    for t in tus(tier):
        if t['store'] != store or not tu_accepts_shape(t, s):
            continue
        if any(not (t['m'][i] & BIT[k]) for i, k in enumerate(kinds)):
            continue
        md = t['modes'][len(kinds) - 1]
        if mode == 'eval' and not md & EVAL or mode == 'out' and not md & OUT:
            continue
        return t
    return None


# ---- reference semantics: NumPy -----------------------------------------------------------------

def np_stage(x, kind, args):
    if kind == 'transpose':
        return np.transpose(x, args[0])
    if kind == 'reshape':
        return np.reshape(x, args[0])
    if kind == 'tile':
        return np.tile(x, args[0])
    if kind == 'flip':
        return np.flip(x, tuple(args[0]))
    if kind == 'bcast':
        return np.broadcast_to(x, tuple(args[0]))
    if kind == 'pad':
        r = x.ndim
        return np.pad(x, list(zip(args[0][:r], args[0][r:])), constant_values=-1)
    if kind == 'take':
        return np.take(x, args[0], axis=args[1][0])
    if kind == 'repeat':
        return np.repeat(x, args[0][0], axis=args[1][0])
    if kind == 'slice':
        f = args[0]
        return x[tuple(slice(f[i], f[i + 1], f[i + 2]) for i in range(0, len(f), 3))]
    if kind == 'neg':
        return -x
    if kind == 'add2':
        return x + x
    if kind == 'sum':
        return np.sum(x, axis=args[0][0], keepdims=bool(args[1][0]))
    if kind == 'cumsum':
        return np.cumsum(x, axis=args[0][0])
    raise KeyError(kind)


def stage_txt(kind, args):
    return ':'.join([kind] + [fmt(a) for a in args])


def show(r):
    r = np.asarray(r)
    return 'ok shape=%s data=%s' % (fmt(r.shape), fmt(r.reshape(-1)))


def factorizations(n, rank):
    if rank == 0:
        if n == 1:
            yield []
        return
    for d in range(1, n + 1):
        if n % d == 0:
            for rest in factorizations(n // d, rank - 1):
                yield [d] + rest


def cands(kind, s, rng, full):
    """accepted argument lists of one stage kind for an operand of shape s (rank >= 1); `full`: the whole small family,
    else a seeded sample"""
    r = len(s)
    out = []
    if kind == 'transpose':
        perms = [list(p) for p in itertools.permutations(range(r))] if r <= 3 else [rng.sample(range(r), r) for _ in range(4)]
        for p in perms:
            out.append([p])
        p = rng.choice(perms)
        out.append([[a - r if rng.random() < .5 else a for a in p]])
    elif kind == 'reshape':
        n = prod(s)
        for tr in (1, 2, 3):
            for t in factorizations(n, tr):
                out.append([t])
                if rng.random() < .3:
                    k = rng.randrange(tr)
                    out.append([t[:k] + [-1] + t[k + 1:]])
        out.append([[1, 1, 1, 1, n]])                               # rank 5
        out.append([[1, -1, 1, 1, 1, 1]])                           # rank 6
    elif kind == 'tile':
        for l in range(1, r + 2):
            for reps in itertools.product((1, 2), repeat=l):
                out.append([list(reps)])
        out.append([[3] + [1] * (r - 1)])
        # results of rank 5 and 6: more axes than a shape container bounded by the operand's rank bound (4) can hold
        out.append([[2] + [1] * 4])
        out.append([[1, 2] + [1] * 4])
    elif kind == 'flip':
        for m in range(0, r + 1):
            for ax in itertools.combinations(range(r), m):
                out.append([list(ax)])
    elif kind == 'bcast':
        bases = [[(e if e > 1 else g) for e in s] for g in (1, 2, 3)]
        for b in bases:
            for pre in ([], [2], [1, 3]):
                out.append([pre + b])
        if r <= 4:
            out.append([[2] + [1] * (4 - r) + bases[0]])          # rank 5
            out.append([[1, 2] + [1] * (4 - r) + bases[1]])       # rank 6
    elif kind == 'pad':
        for _ in range(6 if full else 2):
            out.append([[rng.randint(0, 2) for _ in range(2 * r)]])
        out.append([[0] * (2 * r)])
        out.append([[1] * r + [0] * r])
    elif kind == 'take':
        for k in range(r):
            out.append([[rng.randrange(s[k]) for _ in range(rng.randint(1, 3))], [k]])
            out.append([list(range(s[k] - 1, -1, -1)), [k]])
    elif kind == 'repeat':
        for k in range(r):
            for rep in (1, 2, 3):
                out.append([[rep], [k]])
    elif kind == 'slice':
        def one(n):
            a = rng.randrange(n)
            b = rng.randint(a + 1, n)
            return [a, b, rng.choice((1, 1, 2))]
        for _ in range(6 if full else 2):
            out.append([[x for n in s for x in one(n)]])
        out.append([[x for n in s for x in (0, n, 1)]])
        out.append([[x for n in s for x in (n - 1, n, 1)]])
    elif kind in ('neg', 'add2'):
        out.append([])
    elif kind == 'sum':
        for k in range(-r, r):
            for keep in (0, 1):
                if r == 1 and not keep:
                    continue            # rank-0 result
                out.append([[k], [keep]])
    elif kind == 'cumsum':
        for k in range(r):
            out.append([[k]])
    return out


MAX_ELEMS = 400


def parse_chain(req):
    """(store, shape, [(kind, args)], mode) of a `chain` request line"""
    d = dict(kv.split('=', 1) for kv in req.split()[1:])
    s = [] if d['shape'] in ('[]', '') else [int(x) for x in d['shape'].split(',')]
    stages = []
    for st in d['ops'].split('/'):
        parts = st.split(':')
        stages.append((parts[0], [([] if a in ('[]', '') else [int(x) for x in a.split(',')]) for a in parts[1:]]))
    return d.get('store', 'dyn'), s, stages, d.get('mode', 'view')


def eval_fixed_buffer_numel_changes(case):
    """known finding `eval.fixed-buffer-result`: na::eval(view) with the DEFAULT output over an ndarray_t whose buffer is a
    std::array<T,N> and whose result has an element count other than N (pad / repeat / take / sum / tile / slice ...)"""
    if not case.req.startswith('chain ') or 'store=arr' not in case.req or 'mode=eval' not in case.req:
        return False
    _, s, stages, _ = parse_chain(case.req)
    x = np.empty(tuple(s), dtype=np.int8)
    for k, a in stages:
        x = np_stage(x, k, a)
    return x.size != prod(s)


class ChainGen:
    def __init__(self, tier, rng):
        self.tier, self.rng = tier, rng
        self.seen = set()

    def emit(self, store, s, stages, mode):
        """stages: list of (kind, args). None when no TU of this tier serves it or the result is too large"""
        kinds = [k for k, _ in stages]
        t = tu_for(self.tier, store, s, kinds, mode)
        if t is None:
            return None
        x = np.arange(prod(s), dtype=np.int64).reshape(tuple(s))
        for k, a in stages:
            x = np_stage(x, k, a)
            if x.size > MAX_ELEMS or x.ndim == 0:
                return None
        req = 'chain store=%s shape=%s ops=%s mode=%s' % (store, fmt(s), '/'.join(stage_txt(k, a) for k, a in stages), mode)
        key = (t['name'], req)
        if key in self.seen:
            return None
        self.seen.add(key)
        modelled = all(k in MODELLED for k in kinds)
        src = np.arange(prod(s), dtype=np.int64).reshape(tuple(s))
        nontrivial = not (x.shape == src.shape and (x == src).all())
        known = store == 'arr' and mode == 'eval' and x.size != src.size      # eval_fixed_buffer_numel_changes
        return Case(req, t['name'], dom=modelled and not known, oracle=show(x), model=modelled, nontrivial=nontrivial,
                    tags=('chain', 'store=' + store, 'depth=%d' % len(stages), 'mode=' + mode) + tuple('kind=' + k for k in kinds)
                    + (('known-defect-class',) if known else ()))

    def shape_after(self, s, stages):
        x = np.empty(tuple(s), dtype=np.int8)
        for k, a in stages:
            x = np_stage(x, k, a)
        return list(x.shape)

    def depth1(self, store, s):
        for k in KINDS:
            for a in cands(k, s, self.rng, True):
                for mode in ('view', 'eval', 'out'):
                    c = self.emit(store, s, [(k, a)], mode)
                    if c:
                        yield c

    def depth2(self, store, s, per_pair):
        rng = self.rng
        for k1 in KINDS:
            c1 = cands(k1, s, rng, False)
            for k2 in KINDS:
                for _ in range(per_pair):
                    a1 = rng.choice(c1)
                    s1 = self.shape_after(s, [(k1, a1)])
                    if not s1 or prod(s1) > MAX_ELEMS:
                        continue
                    a2 = rng.choice(cands(k2, s1, rng, False))
                    c = self.emit(store, s, [(k1, a1), (k2, a2)], rng.choice(('view', 'out'))) or self.emit(store, s, [(k1, a1), (k2, a2)], 'view')
                    if c:
                        yield c

    def random_chain(self, store, s, depth, allowed=None):
        rng = self.rng
        stages = []
        cur = list(s)
        for d in range(depth):
            ks = KINDS if allowed is None else [k for k in KINDS if allowed[d] & BIT[k]]
            k = rng.choice(ks)
            a = rng.choice(cands(k, cur, rng, False))
            stages.append((k, a))
            cur = self.shape_after(s, stages)
            if not cur or prod(cur) > MAX_ELEMS:
                return None
        return self.emit(store, s, stages, rng.choice(('view', 'out'))) or self.emit(store, s, stages, 'view')


def store_shapes(tier, t):
    """source shapes served by a TU"""
    st = t['store']
    R, E = (3, 3) if tier == 'quick' else (4, 5)
    if st == 'dyn':
        return None
    if st == 'dyc':
        # non-palindromic shapes matter: there the reversed strides of the reversed shape differ from those of the shape
        return [s for s in shapes(3, 3 if tier == 'quick' else 4, min_rank=1) if prod(s) > 1]
    if st == 'sv':
        return [s for s in shapes(min(R, 4), min(E, 4), min_rank=1) if prod(s) <= 64]
    if st == 'arr':
        return [s for s in factorizations(t['N'], t['D'])]
    if st == 'hyb':
        return [s for s in shapes(t['D'], 4 if tier == 'quick' else 5, min_rank=t['D']) if prod(s) <= 64]
    return [list(t['fixed'])]


def gen_chains(tier, rng):
    g = ChainGen(tier, rng)
    quick = tier == 'quick'
    # dynamic storage ---------------------------------------------------------------------------
    small = list(shapes(3, 3, min_rank=1))
    for s in small:
        yield from g.depth1('dyn', s)
    for s in small:
        yield from g.depth2('dyn', s, 1 if quick else 3)
    if not quick:
        big = [s for s in shapes(4, 5, min_rank=1) if s not in small and prod(s) <= 200]
        for s in rng.sample(big, 60):
            yield from g.depth1('dyn', s)
        for s in rng.sample(big, 60):
            yield from g.depth2('dyn', s, 1)
    families = [D3A] if quick else [D3A, D3B]
    n3 = 400 if quick else 6000
    k = 0
    tries = 0
    while k < n3 and tries < 20 * n3:
        tries += 1
        if quick or rng.random() < .5:
            s = rng.choice(small)
        else:
            s = [rng.randint(1, 5) for _ in range(rng.randint(1, 4))]
            if prod(s) > 120:
                continue
        c = g.random_chain('dyn', s, 3, rng.choice(families))
        if c:
            k += 1
            yield c
    # larger sampled sources, depth 1..2
    for _ in range(60 if quick else 1500):
        s = [rng.randint(1, 7) for _ in range(rng.randint(1, 5))]
        if prod(s) > 300:
            continue
        c = g.random_chain('dyn', s, rng.randint(1, 2))
        if c:
            yield c
    # bounded / fixed storage -------------------------------------------------------------------
    for t in tus(tier):
        if t['store'] == 'dyn':
            continue
        ss = store_shapes(tier, t)
        if len(ss) > 40:
            ss = [s for s in ss if prod(s) <= 27 and len(s) <= 3][:39] + rng.sample(ss, 25)
        for s in ss:
            yield from g.depth1(t['store'], s)
        per = max(1, (40 if quick else 120) // max(1, len(ss)))
        for s in ss:
            for _ in range(per):
                for k2 in [k for k in KINDS if t['m'][1] & BIT[k]]:
                    for k1 in KINDS:
                        a1 = rng.choice(cands(k1, s, rng, False))
                        s1 = g.shape_after(s, [(k1, a1)])
                        if not s1 or prod(s1) > MAX_ELEMS:
                            continue
                        a2 = rng.choice(cands(k2, s1, rng, False))
                        c = g.emit(t['store'], s, [(k1, a1), (k2, a2)], rng.choice(('view', 'out'))) or g.emit(t['store'], s, [(k1, a1), (k2, a2)], 'view')
                        if c:
                            yield c


# ---- mutable views, two-operand trees, kernel-style assignment (harness/h_c02m.cpp) ---------------------------
H_M = 'h_c02m'
M_SPEC = dict(name=H_M, src='h_c02m.cpp', flavour='san-dbg', extra=['-DPROTO_VERIF_EVENTS'])
MUT_STORES = ('dyn', 'sv', 'hyb', 'fix')
LEAF_KINDS = ('transpose', 'reshape', 'bcast', 'slice')


def mut_shapes(store, tier):
    if store == 'fix':
        return [[2, 3]]
    if store == 'hyb':
        return [s for s in shapes(2, 4 if tier == 'quick' else 6, min_rank=2) if prod(s) <= 64]
    if store == 'sv':
        return [s for s in shapes(3, 3, min_rank=1)] + ([[2, 2, 2, 2], [4, 4, 4], [1, 8, 2, 4]] if tier != 'quick' else [[2, 1, 2, 3]])
    R, E = (3, 3) if tier == 'quick' else (4, 4)
    return list(shapes(R, E, min_rank=1))


def gen_mut(tier, rng):
    for store in MUT_STORES:
        for s in mut_shapes(store, tier):
            n = prod(s)
            base = 'store=%s shape=%s' % (store, fmt(s))

            def case(kind, extra, view_of):
                a = np.arange(n, dtype=np.int64).reshape(tuple(s))
                v = view_of(a)
                assert np.shares_memory(a, v)
                v[...] = 1000 + np.arange(v.size, dtype=np.int64).reshape(v.shape)
                return Case('mut kind=%s %s%s' % (kind, base, extra), H_M, dom=False, model=False,
                            oracle='ok shape=%s data=%s' % (fmt(v.shape), fmt(a.reshape(-1))),
                            tags=('mut', 'mut:' + kind, 'store=' + store))
            yield case('flatten', '', lambda a: a.reshape(-1))
            yield case('ref', '', lambda a: a)
            tgts = [t for tr in (1, 2, 3) for t in factorizations(n, tr)]
            if len(tgts) > 8:
                tgts = rng.sample(tgts, 8)
            for t in tgts:
                yield case('reshape', ' to=' + fmt(t), lambda a, t=t: a.reshape(t))
                k = rng.randrange(len(t))
                t2 = t[:k] + [-1] + t[k + 1:]
                yield case('reshape', ' to=' + fmt(t2), lambda a, t2=t2: a.reshape(t2))
            for _ in range(6):
                f = []
                for e in s:
                    b = rng.randrange(e)
                    f += [b, rng.randint(b + 1, e), rng.choice((1, 1, 2))]
                sl = tuple(slice(f[i], f[i + 1], f[i + 2]) for i in range(0, len(f), 3))
                yield case('slice', ' slices=' + fmt(f), lambda a, sl=sl: a[sl])


def gen_tree(tier, rng):
    small = list(shapes(3, 3, min_rank=1))
    want = 700 if tier == 'quick' else 6000
    got = tries = 0
    seen = set()
    while got < want and tries < 40 * want:
        tries += 1
        f = rng.choice(('add', 'concat'))
        sa = rng.choice(small)
        ka = rng.choice(('id',) + LEAF_KINDS)
        aa = [] if ka == 'id' else rng.choice(cands(ka, sa, rng, False))
        A = np.arange(prod(sa), dtype=np.int64).reshape(tuple(sa))
        xa = A if ka == 'id' else np_stage(A, ka, aa)
        # second operand: a shape that can meet the first one
        if f == 'add':
            sb = [e if rng.random() < .6 else 1 for e in xa.shape][rng.randint(0, xa.ndim - 1):]
        else:
            sb = list(xa.shape)
        kb = rng.choice(('id',) + LEAF_KINDS)
        # choose the source of B so that stage_b(B) has shape sb: go through a transposable / reshapable preimage
        if kb == 'id':
            sB, ab = sb, []
        elif kb == 'transpose':
            p = rng.sample(range(len(sb)), len(sb))
            sB = [0] * len(sb)
            for i, q in enumerate(p):
                sB[q] = sb[i]
            ab = [p]
        elif kb == 'reshape':
            sB, ab = [prod(sb)], [sb]
        elif kb == 'tile':
            sB, ab = sb, [[1] * len(sb)]
        elif kb == 'bcast':
            sB, ab = [e if rng.random() < .5 else 1 for e in sb], [sb]
        else:
            sB = [e + rng.randint(0, 1) for e in sb]
            ab = [[x for e in sb for x in (0, e, 1)]]
        axis = None
        B = np.arange(prod(sB), dtype=np.int64).reshape(tuple(sB)) + 1000
        try:
            xb = B if kb == 'id' else np_stage(B, kb, ab)
            if f == 'add':
                r = xa + xb
            else:
                axis = rng.randrange(xa.ndim)
                if rng.random() < .5:      # different extent along the joined axis
                    xb = None
                    continue
                r = np.concatenate((xa, xb), axis=axis)
        except Exception:
            continue
        if r.size > MAX_ELEMS or r.ndim == 0:
            continue
        req = 'tree f=%s shape=%s shape2=%s opa=%s opb=%s%s mode=%s' % (
            f, fmt(sa), fmt(sB), stage_txt(ka, aa), stage_txt(kb, ab), '' if axis is None else ' axis=%d' % axis, rng.choice(('view', 'out')))
        if req in seen:
            continue
        seen.add(req)
        got += 1
        yield Case(req, H_M, dom=False, model=False, oracle=show(r), tags=('tree', 'tree:' + f, 'kind=' + ka, 'kind=' + kb))


def gen_assign(tier, rng):
    for s in shapes(2, 3, min_rank=1):
        n = prod(s)
        flipped = np.flip(np.arange(n, dtype=np.int64).reshape(tuple(s))).reshape(-1)
        for threads, bsz in ((n, 1), (n, 4), (n + 3, 4), (4 * n + 1, 3), (max(1, n - 1), 2), (64, 16)):
            d = [int(flipped[i]) if i < threads else -777 for i in range(n)]
            yield Case('assign shape=%s threads=%d bsz=%d' % (fmt(s), threads, bsz), H_M, dom=False, model=False,
                       oracle='ok data=' + fmt(d), tags=('assign', 'over-provisioned' if threads > n else 'exact-or-short'))



# ------------------------------------------------------------------------------------------------
# (c) capacity: index functions with bounded results, bounded operands up to FULL capacity (harness/h_c02cap.cpp)
# ------------------------------------------------------------------------------------------------
H_CAP = 'h_c02cap'
CAP_SPEC = dict(name=H_CAP, src='h_c02cap.cpp', flavour='san-dbg', extra=['-DPROTO_VERIF_EVENTS'])
CAP_S, CAP_L = 4, 3           # largest capacities instantiated by the TU: shapes / argument lists


def _pool_extent(n, k, s, ceil):
    if not ceil:
        return (n - k) // s + 1
    o = -((n - k) // -s) + 1
    return o - 1 if o > 1 and (o - 1) * s >= n else o


def _moveaxis_order(dim, src, dst):
    """NumPy's own construction (numpy/core/numeric.py: moveaxis)"""
    src = [a % dim for a in src]
    dst = [a % dim for a in dst]
    order = [n for n in range(dim) if n not in src]
    for d, sa in sorted(zip(dst, src)):
        order.insert(d, sa)
    return order


def _in_range(axes, n):
    return all(-n <= a < n for a in axes)


class CapGen:
    """requests `cap fn=…`; the oracle is the reference shape (NumPy where NumPy has the function) and the capacity formula of
    the result container read off the metafunction"""

    def __init__(self, tier, rng):
        self.tier, self.rng, self.seen = tier, rng, set()

    def case(self, fn, kv, cap, value, full):
        req = 'cap fn=%s %s' % (fn, ' '.join('%s=%s' % (k, v if isinstance(v, str) else (fmt(v) if isinstance(v, (list, tuple)) else v)) for k, v in kv))
        if req in self.seen:
            return None
        self.seen.add(req)
        oracle = 'nothing' if value is None else 'ok cap=%d value=%s' % (cap, fmt(value))
        return Case(req, H_CAP, dom=True, oracle=oracle, model=True, nontrivial=value is not None,
                    tags=('cap', 'cap:' + fn) + (('full-capacity',) if full else ()) + (('refused',) if value is None else ()))

    def caps(self, n, mx):
        """capacities tried for an operand of n entries: full, and (sampled) with slack"""
        out = [max(n, 1)]
        if max(n, 1) < mx and self.rng.random() < .4:
            out.append(self.rng.randint(max(n, 1) + 1, mx))
        return out

    def gen(self):
        rng = self.rng
        quick = self.tier == 'quick'
        pos = [s for s in shapes(CAP_S, 3, min_rank=1)]
        sample = lambda l, k: l if len(l) <= k else rng.sample(l, k)
        # --- expand_dims: every axis list of 1..3 distinct axes (negative forms sampled), and refused ones
        for s in sample(pos, 40 if quick else 120):
            for m in range(1, CAP_L + 1):
                n = len(s) + m
                combos = [list(c) for c in itertools.combinations(range(n), m)]
                for ax in sample(combos, 4 if quick else 10):
                    rng.shuffle(ax)
                    ax = [a - n if rng.random() < .4 else a for a in ax]
                    v = list(np.expand_dims(np.empty(tuple(s), dtype=np.int8), tuple(ax)).shape)
                    for bs in self.caps(len(s), CAP_S):
                        for ba in self.caps(m, CAP_L):
                            yield self.case('expand_dims', [('shape', s), ('bs', bs), ('axes', ax), ('ba', ba)], bs + ba, v,
                                            bs == len(s) and ba == m)
                bad = [rng.randint(-n - 2, n + 1) for _ in range(m)]
                if not _in_range(bad, n) or len({a % n for a in bad}) < m:
                    yield self.case('expand_dims', [('shape', s), ('bs', len(s)), ('axes', bad), ('ba', m)], 0, None, True)
            for a in range(-len(s) - 1, len(s) + 1):
                v = list(np.expand_dims(np.empty(tuple(s), dtype=np.int8), a).shape)
                for bs in self.caps(len(s), CAP_S):
                    yield self.case('expand_dims1', [('shape', s), ('bs', bs), ('axis', a)], bs + 1, v, bs == len(s))
        # --- squeeze / remove_single_dims (positive extents)
        for s in pos:
            v = [e for e in s if e != 1]
            for bs in self.caps(len(s), CAP_S):
                yield self.case('squeeze', [('shape', s), ('bs', bs)], bs, v, bs == len(s))
                yield self.case('remove_single_dims', [('shape', s), ('bs', bs)], bs, v, bs == len(s))
        # --- sliding_window
        wide = [[rng.randint(2, 6) for _ in range(r)] for r in range(1, CAP_S + 1) for _ in range(6 if quick else 25)]
        for s in wide:
            r = len(s)
            x = np.empty(tuple(s), dtype=np.int8)
            swv = np.lib.stride_tricks.sliding_window_view
            for _ in range(4):
                m = rng.randint(1, min(CAP_L, 3))
                axes = [rng.randrange(r) for _ in range(m)]
                budget = list(s)
                ws = []
                for a in axes:
                    w = rng.randint(1, budget[a])
                    budget[a] -= w - 1
                    ws.append(w)
                ax = [a - r if rng.random() < .4 else a for a in axes]
                v = list(swv(x, tuple(ws), tuple(ax)).shape)
                for bs in self.caps(r, CAP_S):
                    for bw in self.caps(m, CAP_L):
                        yield self.case('sliding_window', [('shape', s), ('bs', bs), ('window', ws), ('bw', bw), ('axes', ax)], bs + bw, v,
                                        bs == r and bw == m)
            if r <= CAP_L:
                ws = [rng.randint(1, e) for e in s]
                v = list(swv(x, tuple(ws)).shape)
                for bs in self.caps(r, CAP_S):
                    yield self.case('sliding_window', [('shape', s), ('bs', bs), ('window', ws), ('bw', r), ('axes', 'None')], bs + r, v, bs == r)
            w = rng.randint(1, min(s))
            v = list(swv(x, w).shape) if r == 1 else list(swv(x, (w,) * r).shape[:r]) + [w]
            for bs in self.caps(r, CAP_S):
                yield self.case('sliding_window', [('shape', s), ('bs', bs), ('window', w), ('scalar', 1), ('axes', 'None')], bs + 1, v, bs == r)
            a = rng.randrange(-r, r)
            w = rng.randint(1, s[a])
            v = list(swv(x, w, a).shape)
            for bs in self.caps(r, CAP_S):
                yield self.case('sliding_window', [('shape', s), ('bs', bs), ('window', w), ('scalar', 1), ('axes', a)], bs + 1, v, bs == r)
        # --- take / dynamic slice / roll / resize / expand / pool2d / diagonal / moveaxis: rank-preserving or rank-reducing
        for s in sample(pos, 40 if quick else 120) + wide:
            r = len(s)
            x = np.empty(tuple(s), dtype=np.int8)
            bss = self.caps(r, CAP_S)
            for bs in bss:
                full = bs == r
                a = rng.randrange(-r, r)
                n = rng.randint(1, 4)
                yield self.case('take', [('shape', s), ('bs', bs), ('nidx', n), ('axis', a)], bs, list(np.take(x, [0] * n, axis=a).shape), full)
                f = []
                for e in s[:rng.randint(1, r)]:
                    b = rng.randrange(e)
                    f += [b, rng.randint(b + 1, e), rng.choice((1, 1, 2))]
                sl = tuple(slice(f[i], f[i + 1], f[i + 2]) for i in range(0, len(f), 3))
                yield self.case('dslice', [('shape', s), ('bs', bs), ('sl', f)], bs, list(x[sl].shape), full)
                m = rng.randint(1, CAP_L)
                ax = [rng.randrange(-r, r) for _ in range(m)]
                sh = [rng.randint(-4, 4) for _ in range(m)]
                for ba in self.caps(m, CAP_L):
                    yield self.case('roll', [('shape', s), ('bs', bs), ('shift', sh), ('axes', ax), ('ba', ba)], bs, list(s), full and ba == m)
                    sp = [rng.randint(0, 2) for _ in range(m)]
                    t = list(s)
                    for a_, p_ in zip(ax, sp):
                        t[a_] += (t[a_] - 1) * p_
                    yield self.case('expand', [('shape', s), ('bs', bs), ('axes', ax), ('ba', ba), ('spacing', sp)], bs, t, full and ba == m)
                bad = list(ax)
                bad[rng.randrange(m)] = rng.choice((r, -r - 1, r + 1))
                yield self.case('roll', [('shape', s), ('bs', bs), ('shift', sh), ('axes', bad), ('ba', m)], 0, None, full)
                dst = [rng.randint(1, 5) for _ in range(r)]
                for bd in self.caps(r, CAP_S):
                    yield self.case('resize', [('shape', s), ('bs', bs), ('dst', dst), ('bd', bd)], bd, dst, full and bd == r)
                if rng.random() < .3:
                    z = list(dst)
                    z[rng.randrange(r)] = 0
                    yield self.case('resize', [('shape', s), ('bs', bs), ('dst', z), ('bd', r)], 0, None, full)
                if r >= 2:
                    a1, a2 = rng.sample(range(r), 2)
                    off = rng.randint(-3, 3)
                    v = list(np.diagonal(x, off, a1, a2).shape)
                    b1 = a1 - r if rng.random() < .4 else a1
                    b2 = a2 - r if rng.random() < .4 else a2
                    yield self.case('diagonal', [('shape', s), ('bs', bs), ('offset', off), ('axis1', b1), ('axis2', b2)], bs - 1, v, full)
                    kh, kw = rng.randint(1, s[-2]), rng.randint(1, s[-1])
                    sh_, sw_ = rng.randint(1, 3), rng.randint(1, 3)
                    c = rng.randint(0, 1)
                    v = list(s[:-2]) + [_pool_extent(s[-2], kh, sh_, c), _pool_extent(s[-1], kw, sw_, c)]
                    yield self.case('pool2d', [('shape', s), ('bs', bs), ('kernel', [kh, kw]), ('stride', [sh_, sw_]), ('ceil', c)], bs, v, full)
                m = rng.randint(1, min(r, CAP_L))
                src = rng.sample(range(r), m)
                dst_ = rng.sample(range(r), m)
                srcn = [a - r if rng.random() < .4 else a for a in src]
                dstn = [a - r if rng.random() < .4 else a for a in dst_]
                for ba in self.caps(m, CAP_L):
                    yield self.case('moveaxis', [('shape', s), ('bs', bs), ('source', srcn), ('ba', ba), ('destination', dstn), ('bb', ba)], bs,
                                    _moveaxis_order(r, srcn, dstn), full and ba == m)
                badm = list(srcn)
                badm[rng.randrange(m)] = rng.choice((r, -r - 1))
                yield self.case('moveaxis', [('shape', s), ('bs', bs), ('source', badm), ('ba', m), ('destination', dstn), ('bb', m)], 0, None, full)
        # --- normalize_axis on axis lists of 1..4 entries
        for ndim in range(1, 6):
            for m in range(1, CAP_S + 1):
                for _ in range(3 if quick else 10):
                    ax = [rng.randrange(-ndim, ndim) for _ in range(m)]
                    for ba in self.caps(m, CAP_S):
                        yield self.case('normalize_axis', [('axes', ax), ('ba', ba), ('ndim', ndim)], ba, [a % ndim for a in ax], ba == m)
                bad = [rng.randrange(-ndim, ndim) for _ in range(m)]
                bad[rng.randrange(m)] = rng.choice((ndim, -ndim - 1, ndim + 3))
                yield self.case('normalize_axis', [('axes', bad), ('ba', m), ('ndim', ndim)], 0, None, True)
        # --- matmul: every pair of ranks 1..4 (1-d promotion, broadcast batch axes), both operands at full capacity and with slack
        for ra in range(1, CAP_S + 1):
            for rb in range(1, CAP_S + 1):
                for _ in range(4 if quick else 16):
                    k = rng.randint(1, 3)
                    ba_ = [rng.randint(1, 3) for _ in range(max(ra - 2, 0))]
                    bb_ = [rng.choice((e, 1)) for e in ba_[max(0, len(ba_) - max(rb - 2, 0)):]]
                    bb_ = [rng.randint(1, 3) for _ in range(max(rb - 2, 0) - len(bb_))] + bb_
                    if rng.random() < .5:
                        ba_ = [rng.choice((e, 1)) if i >= len(ba_) - len(bb_) else e for i, e in enumerate(ba_)]
                    A = ba_ + ([rng.randint(1, 3), k] if ra >= 2 else [k])
                    B = bb_ + ([k, rng.randint(1, 3)] if rb >= 2 else [k])
                    if rng.random() < .15:
                        B[-2 if rb >= 2 else 0] = k + 1
                    try:
                        v = list(np.matmul(np.empty(tuple(A), dtype=np.int8), np.empty(tuple(B), dtype=np.int8)).shape)
                    except ValueError:
                        v = None
                    for bs in self.caps(ra, CAP_S):
                        for bb in self.caps(rb, CAP_S):
                            yield self.case('matmul', [('shape', A), ('bs', bs), ('shape2', B), ('bb', bb)], max(bs, bb), v, bs == ra and bb == rb)


def gen_cap(tier, rng):
    for c in CapGen(tier, rng).gen():
        if c is not None:
            yield c


# ---- the same functions at view level over bounded storage at full capacity (harness/h_c02capv.cpp) --------------------
CAPV_KINDS = {'expand_dims': 1, 'squeeze': 2, 'sliding_window': 4, 'moveaxis': 8, 'roll': 16, 'resize': 32, 'expand': 64,
              'diagonal': 128, 'matmul': 256, 'max_pool2d': 512, 'avg_pool2d': 512}
CAPV_TUS = {'h_c02capv_a': 1 | 2 | 4, 'h_c02capv_b': 8 | 16 | 32 | 64 | 128 | 512, 'h_c02capv_c': 256}
CAPV_SPECS = [dict(name=n, src='h_c02capv.cpp', flavour='san-dbg', extra=['-DPROTO_VERIF_EVENTS', '-DC02V_MASK=%d' % m])
              for n, m in CAPV_TUS.items()]
CAPV_MODELLED = {'expand_dims', 'squeeze', 'sliding_window', 'moveaxis', 'roll', 'resize', 'expand', 'diagonal'}


def _capv_tu(kind):
    return next(n for n, m in CAPV_TUS.items() if m & CAPV_KINDS[kind])


def _np_resize(x, dst):
    out = np.empty(tuple(dst), dtype=np.int64)
    for d in itertools.product(*[range(e) for e in dst]):
        out[d] = x[tuple(s * i // t for s, i, t in zip(x.shape, d, dst))]
    return out


def _np_expand(x, axes, spacing):
    for a, sp in zip(axes, spacing):
        a %= x.ndim
        t = list(x.shape)
        t[a] = t[a] + (t[a] - 1) * sp
        y = np.full(tuple(t), -1, dtype=np.int64)
        sl = [slice(None)] * x.ndim
        sl[a] = slice(None, None, sp + 1)
        y[tuple(sl)] = x
        x = y
    return x


def _np_max_pool(x, k, st, ceil):
    H, W = x.shape[-2:]
    oh, ow = _pool_extent(H, k[0], st[0], ceil), _pool_extent(W, k[1], st[1], ceil)
    out = np.empty(x.shape[:-2] + (oh, ow), dtype=np.int64)
    for i in range(oh):
        for j in range(ow):
            out[..., i, j] = x[..., st[0] * i: st[0] * i + k[0], st[1] * j: st[1] * j + k[1]].max(axis=(-2, -1))
    return out


def _cmp_shape_clean(a, b):
    """avg_pool2d: the element type of the result is the library's business (C17); here: accepted, clean, the reference shape"""
    return c02_clean(a) and a.split(' data=')[0] == b.split(' data=')[0]


def known_diagonal_equal_axes(case):
    """known finding `diagonal.equal-axes`: view::diagonal(a, offset, axis1, axis2) with axis1 and axis2 naming the SAME axis"""
    if not case.req.startswith('capv kind=diagonal '):
        return False
    d = dict(kv.split('=', 1) for kv in case.req.split()[1:])
    r = len(d['shape'].split(','))
    return int(d['axis1']) % r == int(d['axis2']) % r


def gen_capv(tier, rng):
    quick = tier == 'quick'
    seen = set()

    def case(kind, kv, ref, cmp=None):
        req = 'capv kind=%s %s' % (kind, ' '.join('%s=%s' % (k, v if isinstance(v, str) else (fmt(v) if isinstance(v, (list, tuple)) else v)) for k, v in kv))
        if req in seen or (ref is not None and ref.size > MAX_ELEMS):
            return None
        seen.add(req)
        mod = kind in CAPV_MODELLED
        return Case(req, _capv_tu(kind), dom=mod, oracle='nothing' if ref is None else show(ref), model=mod, cmp=cmp,
                    tags=('capv', 'capv:' + kind, 'store=sv-full', 'full-capacity'))

    def iota(s, base=0):
        return np.arange(prod(s), dtype=np.int64).reshape(tuple(s)) + base

    pool = [s for s in shapes(4, 3, min_rank=1) if prod(s) <= 64]
    pick = pool if not quick else [s for s in pool if len(s) <= 2] + rng.sample([s for s in pool if len(s) > 2], 30)
    swv = np.lib.stride_tricks.sliding_window_view
    for s in pick:
        r = len(s)
        x = iota(s)
        # expand_dims: 1..3 axes (a rank-4 source at capacity 4 with 3 axes at capacity 3 gives the largest result: 7 axes)
        for m in range(1, 4):
            n = r + m
            ax = rng.sample(range(n), m)
            ax = [a - n if rng.random() < .4 else a for a in ax]
            yield case('expand_dims', [('shape', s), ('axes', ax)], np.expand_dims(x, tuple(ax)))
        yield case('squeeze', [('shape', s)], np.squeeze(x))
        # moveaxis / roll / expand with 1..3 axes
        for m in range(1, min(r, 3) + 1):
            src, dst = rng.sample(range(r), m), rng.sample(range(r), m)
            src = [a - r if rng.random() < .4 else a for a in src]
            dst = [a - r if rng.random() < .4 else a for a in dst]
            yield case('moveaxis', [('shape', s), ('source', src), ('destination', dst)], np.moveaxis(x, src, dst))
        for m in range(1, 4):
            ax = [rng.randrange(-r, r) for _ in range(m)]
            sh = [rng.randint(-4, 4) for _ in range(m)]
            yield case('roll', [('shape', s), ('shift', sh), ('axes', ax)], np.roll(x, tuple(sh), tuple(ax)))
            sp = [rng.randint(0, 2) for _ in range(m)]
            yield case('expand', [('shape', s), ('axes', ax), ('spacing', sp)], _np_expand(x, ax, sp))
        dst = [rng.randint(1, 4) for _ in range(r)]
        yield case('resize', [('shape', s), ('dst', dst)], _np_resize(x, dst))
        if r >= 2:
            a1, a2 = rng.sample(range(r), 2)
            off = rng.randint(-2, 2)
            b1 = a1 - r if rng.random() < .4 else a1
            b2 = a2 - r if rng.random() < .4 else a2
            yield case('diagonal', [('shape', s), ('offset', off), ('axis1', b1), ('axis2', b2)], np.diagonal(x, off, a1, a2))
    # sliding windows and pooling want larger extents
    for _ in range(60 if quick else 400):
        r = rng.randint(1, 4)
        s = [rng.randint(2, 4) for _ in range(r)]
        if prod(s) > 64:
            continue
        x = iota(s)
        m = rng.randint(1, 3)
        axes = [rng.randrange(r) for _ in range(m)]
        budget = list(s)
        ws = []
        for a in axes:
            w = rng.randint(1, budget[a])
            budget[a] -= w - 1
            ws.append(w)
        ax = [a - r if rng.random() < .4 else a for a in axes]
        yield case('sliding_window', [('shape', s), ('window', ws), ('axes', ax)], swv(x, tuple(ws), tuple(ax)))
        if r <= 3:
            ws = [rng.randint(1, e) for e in s]
            yield case('sliding_window', [('shape', s), ('window', ws), ('axes', 'None')], swv(x, tuple(ws)))
        a = rng.randrange(-r, r)
        w = rng.randint(1, s[a])
        yield case('sliding_window', [('shape', s), ('window', w), ('scalar', 1), ('axes', a)], swv(x, w, a))
        if r == 1:
            yield case('sliding_window', [('shape', s), ('window', w), ('scalar', 1), ('axes', 'None')], swv(x, w))
        if r >= 2:
            k = [rng.randint(1, s[-2]), rng.randint(1, s[-1])]
            st = [rng.randint(1, 3), rng.randint(1, 3)]
            c = rng.randint(0, 1)
            ref = _np_max_pool(x, k, st, c)
            yield case('max_pool2d', [('shape', s), ('kernel', k), ('stride', st), ('ceil', c)], ref)
            yield case('avg_pool2d', [('shape', s), ('kernel', k), ('stride', st), ('ceil', c)], ref, cmp=_cmp_shape_clean)
    # matmul: every pair of ranks, both operands at full capacity
    for ra in range(1, 5):
        for rb in range(1, 5):
            for _ in range(3 if quick else 12):
                k = rng.randint(1, 3)
                ba_ = [rng.randint(1, 2) for _ in range(max(ra - 2, 0))]
                nb = max(rb - 2, 0)
                bb_ = [rng.choice((e, 1)) for e in ba_[max(0, len(ba_) - nb):]]
                bb_ = [rng.randint(1, 2) for _ in range(nb - len(bb_))] + bb_
                A = ba_ + ([rng.randint(1, 3), k] if ra >= 2 else [k])
                B = bb_ + ([k, rng.randint(1, 3)] if rb >= 2 else [k])
                if prod(A) > 64 or prod(B) > 64:
                    continue
                yield case('matmul', [('shape', A), ('shape2', B)], np.matmul(iota(A), iota(B, 1000)))
    # known finding diagonal.equal-axes: must be refused (NumPy: ValueError), the unchanged code builds the view
    for s, a1, a2 in (([2, 3], 0, 0), ([3, 3], 1, -1), ([2, 2, 3], -1, 2)):
        req = 'capv kind=diagonal shape=%s offset=0 axis1=%d axis2=%d' % (fmt(s), a1, a2)
        yield Case(req, _capv_tu('diagonal'), dom=False, oracle='nothing', model=False,
                   tags=('capv', 'capv:diagonal', 'known-defect-class', 'known:diagonal.equal-axes'))


def gen_all(tier, rng):
    yield from gen_chains(tier, random.Random(rng.random()))
    sub = random.Random(rng.random())
    yield from gen_mut(tier, sub)
    yield from gen_tree(tier, sub)
    yield from gen_assign(tier, sub)
    yield from gen_cap(tier, random.Random(sub.random()))
    yield from (c for c in gen_capv(tier, random.Random(sub.random())) if c is not None)
    yield from gen_replay(tier, rng)


# The runner's time-out is per request stream: max(60 s, 20 s + 2 ms per request).  Sanitizer binaries on a loaded machine
# need up to ~3 ms per request, so every stream is kept short enough for the flat 60 s to be a wide margin; a longer
# stream is subsampled uniformly (known-defect-class requests are always kept).
STREAM_CAP = {'quick': 12000, 'thorough': 10000}
REPLAY_MAX_ANSWER_CHARS = 3000       # replayed requests whose reference answer is longer (huge results) are skipped


def gen(tier, rng):
    by = {}
    for c in gen_all(tier, rng):
        if _only(c.harness):
            by.setdefault(c.harness, []).append(c)
    cap = STREAM_CAP[tier]
    for h, l in by.items():
        keep = [c for c in l if 'known-defect-class' in c.tags]
        rest = [c for c in l if 'known-defect-class' not in c.tags]
        room = max(0, cap - len(keep))
        if len(rest) > room:
            rest = [rest[(i * len(rest)) // room] for i in range(room)]
        yield from keep
        yield from rest


# ------------------------------------------------------------------------------------------------
# evidence / manifest
# ------------------------------------------------------------------------------------------------

def coverage_extra(cases, tier):
    ev = {}
    crashes = 0
    for c in cases:
        a = c.impl or ''
        if a.startswith('crash:') or a.startswith('exception:'):
            crashes += 1
        if ' events=' in a:
            for kv in a.rsplit(' events=', 1)[1].split(','):
                k, n = kv.split(':')
                ev[k] = ev.get(k, 0) + int(n)
    by = {}
    for c in cases:
        for t in c.tags:
            if t.startswith('replay:') or t.startswith('store=') or t.startswith('depth='):
                by[t] = by.get(t, 0) + 1
    # which observer saw what (used for mutant triage): answers that are not clean per harness binary, by class, and
    # clean answers whose value differs from the NumPy oracle (intra-buffer errors the sanitizers cannot see)
    unclean, wrong = {}, {}
    for c in cases:
        a = c.impl or ''
        if not c02_clean(a):
            cls = 'event' if ' events=' in a else a.split(' ')[0][:40]
            d = unclean.setdefault(c.harness, {})
            d[cls] = d.get(cls, 0) + 1
        elif 'replay' not in c.tags and c.oracle is not None and a != c.oracle:
            wrong[c.harness] = wrong.get(c.harness, 0) + 1
    return {'hook_events': ev, 'crash_or_exception_answers': crashes, 'cases_by_source': by,
            'unclean_answers_by_harness': unclean, 'clean_but_wrong_value_by_harness': wrong,
            'sanitizer_flavour': ' '.join(runner.FLAVOURS['san-dbg']) + ' -DNMTOOLS_VERIF -DPROTO_VERIF_EVENTS',
            'replayed_properties': [e['mod'].upper() for e in REPLAY if _mod(e['mod']) is not None]}


RULE = ('every request runs in a binary built with ASan+UBSan, _GLIBCXX_ASSERTIONS, asserts on and the NMTOOLS_VERIF hooks; an answer '
        'with crash:* / exception:* / events=* on an accepted request is a violation. NEW (harness/h_c02.cpp, h_c02m.cpp): chains of 13 '
        'view kinds (transpose reshape tile flip broadcast_to pad take repeat slice negative add sum cumsum) over a dynamic ndarray: depth 1 '
        'every kind x a small family of accepted arguments x every source shape of rank 1..3 / extents 1..3 x {read every element, '
        'eval(), eval into a supplied output}; depth 2 every ordered pair of kinds on every such shape (seeded arguments); depth 3 seeded '
        '(quick 400, thorough 6000 over two kind families); thorough adds sampled shapes of rank <= 4 / extents <= 5 and larger; the same '
        'depth-1 set and a subset of depth 2 over BOUNDED storage (ndarray_t<static_vector<int,64>,static_vector<size_t,4>> with '
        'static_vector<_,8> arguments), FIXED buffers (ndarray_t<std::array,std::array>), hybrid_ndarray and fixed_ndarray; mutable_reshape/'
        'flatten/slice/ref writing every element over four storage kinds; add / concatenate of two views (trees); assign_result over '
        'over-provisioned launches. CAPACITY (h_c02cap.cpp): 16 index functions called with static_vector operands of a capacity chosen per request '
        '(full capacity and with slack): expand_dims (1..3 axes, int axis), squeeze, remove_single_dims, sliding_window (window / axis lists, None, scalars), take, '
        'dynamic slice, moveaxis, normalize_axis, roll, resize, expand, diagonal, matmul (all rank pairs 1..4), pool2d, incl. refused arguments; the answer carries '
        'bounded_size_v of the real result type. (h_c02capv.cpp) the same kinds as VIEWS over ndarray_t<static_vector<int,64>,static_vector<size_t,rank>> '
        '(shape container at full capacity, argument lists in static_vector<_,len>), every element read. Values are compared with NumPy, indexing chains also with the Lean model (composition of the per-kind '
        'IxViews). REPLAY: the accepted requests (reference answer is a value; not in a known-finding class of the owning property) of the '
        'generators of C03, C04, C06, C07 (first TU), C08 through their own harness sources rebuilt with sanitizers + hook events '
        '(operands <= 128 / 512 elements; at most 12000 / 10000 requests per binary, uniformly subsampled beyond that); only '
        'crash / exception / event is judged there. non-trivial = result differs from the source / owning property\'s definition.')
EXHAUSTIVE = {'quick': False, 'thorough': False}
ANCHORS = {
    'IxView.InBounds / Props.C02.comp_inBounds / chain_inBounds': 'view::indexing_t::operator() -> indexer.indices(dst) -> apply_at(array, src) (view/indexing.hpp, decorator.hpp)',
    'Props.C02.buffer_access_in_bounds (NDA.offset < data.length)': 'base_ndarray_t::operator() -> offset_(indices) -> at(data_, offset) (ndarray/base_ndarray.hpp)',
    'Props.C02.eval_indices_inShape': 'evaluator_t<view,none>::operator()(output&): ndindex(shape) for both sides (eval.hpp)',
    'Props.C02.*_len_le_cap': 'resolve_optype of index::shape_transpose / shape_reshape / broadcast_shape / shape_tile / remove_dims / shape_concatenate / shape_pad / shape_repeat for bounded operands; utl::static_vector::resize/push_back (hook event 1)',
    'Cap.capExpandDims / capSame / capSlidingWindow / capDiagonal / capMatmul (Index/Capacity.lean) + Props.C02.shapeExpandDims_len_le_cap … shapePool2d_len_le_cap':
        'meta::resolve_optype<index::shape_expand_dims_t | shape_squeeze_t | remove_single_dims_t | shape_sliding_window_t | shape_take_t | shape_dynamic_slice_t | '
        'moveaxis_to_transpose_t | normalize_axis_t | shape_roll_t | shape_resize_t | shape_expand_t | shape_diagonal_t | shape_matmul_t | shape_pool2d_t> '
        '(bounded branch) and the resize()/at() loops of the functions (index/*.hpp, view/expand.hpp, view/diagonal.hpp, view/matmul.hpp); the harness prints '
        'meta::bounded_size_v of the real result type (h_c02cap.cpp)',
    'Driver.C02.chainView (IxView.comp of the per-kind models)': 'nested view::X(view::Y(array,...),...) read through apply_at',
    'Props.C02.<kind>_inBounds': 'the index function of that view kind, see ANCHORS of C03 / C04 / C06 / C07 / C08 / C17',
}
ASSUMPTIONS = [
    'accepted arguments only: a request the reference (NumPy / the owning property\'s oracle) rejects, and the known-finding classes of C03/C04/C07/C08 (negative axes ignored by take/repeat/concatenate/..., rank-0 results, ...) are outside this check and stay with their owning property',
    'the Lean theorems are index-level: "source multi-index inside the source shape" and "offset < length of the modelled buffer" (C20 invariant data.length = prod shape); the intra-object layout of std::array / static_vector members and the real allocation sizes are NOT modelled — they are observed by ASan/UBSan/_GLIBCXX_ASSERTIONS and the NMTOOLS_VERIF hooks on the explored inputs only',
    'an overread that stays inside the same allocation (e.g. a wrong index that is still < buffer length) is invisible to the sanitizers; it is caught by the value comparison (NumPy oracle here for chains, the owning property for single views)',
    'slices are exercised only on the domain 0 <= start < stop <= extent, step >= 1 (C05 owns the rest); SIMD evaluation is C12\'s',
    'size_t arithmetic does not wrap: element counts explored are <= 600 per view',
]
PARTIAL = [
    'capacity theorems (X_len_le_cap) cover the SHAPE functions shape_transpose, shape_reshape, broadcast_shape, shape_tile, remove_dims, '
    'shape_concatenate, shape_pad, shape_repeat, shape_expand_dims, shape_squeeze, remove_single_dims, shape_sliding_window, shape_take, '
    'shape_slice, shape_dynamic_slice, moveaxis_to_transpose, normalize_axis, shape_roll, shape_resize, shape_expand, shape_diagonal, '
    'shape_matmul, shape_pool2d, and the index MAPS index::sliding_window / take / roll / resize / expand / diagonal (result bound = the source '
    'shape\'s bound); not covered by a theorem (capacity hook + sanitizers on bounded operands at full capacity only): index::matmul / '
    'slice_pool2d slice lists, the convolution helpers of view/convnd.hpp (conv_reshape_input / weight / reduce / '
    'bias, conv_kernel_size, conv_window_axis, conv_sum_axes, conv_expand_spacing, conv_pad), shape_flip (flip_slices over a clipped '
    'rank), the stack family (vstack / dstack / column_stack shapes), kron / tensordot / dot / inner shapes',
    'the capacity functions of Index/Capacity.lean model the branch "every operand bounded, none fixed" of each result-type metafunction; '
    'mixed fixed/bounded operand kinds are C11\'s / C09\'s',
]
def _shared_pred(mod, name):
    def f(case):
        m = _mod(mod)
        return m is not None and case.harness.endswith(SAN_SUFFIX) and m.KNOWN_PREDICATES[name](case)
    return f


KNOWN_PREDICATES = {'eval_fixed_buffer_numel_changes': eval_fixed_buffer_numel_changes,
                    'known_diagonal_equal_axes': known_diagonal_equal_axes}
for _m, _names in SHARED_KNOWN.items():
    for _n in _names:
        KNOWN_PREDICATES[_m + '_' + _n] = _shared_pred(_m, _n)
TRUSTED = ['AddressSanitizer / UndefinedBehaviorSanitizer of g++ 12 and libstdc++ debug assertions as observers of real accesses',
           'the NMTOOLS_VERIF hook commits in $VERIF_REPO (hooks.json)']
MANIFEST = dict(
    text='Proof (index level): 89 Lean theorems. Every modelled view kind (55 obligations re-exported from C03/C04/C06/C07/C08/C17: transpose, '
         'reshape family, flip, swapaxes, moveaxis, tile, pad, take, repeat, concatenate, roll, resize, compress, expand, tril/triu, diagflat, '
         'sliding_window (scalar / list windows, axis lists, None), split (sections and cut lists), diagonal (any rank / axis pair / offset), where, stack family, broadcast_to/broadcast_arrays, ufunc operand reads, reduce/accumulate reads, pooling windows) maps '
         'every in-shape destination index to an in-shape source index for all ranks/extents/accepted arguments; in-bounds-ness composes through '
         'chains of any depth and through two-operand trees; an in-shape index addresses a position below the buffer length in both layouts; '
         'evaluators only enumerate in-shape indices; index functions with bounded results (23 shape functions, 6 index maps) write at most as many entries as the bound the result-type metafunction picks from the operands\' bounds (the bound itself is compared with bounded_size_v of the real result type on every run). '
         'Tied to the headers on every run: the real code under ASan+UBSan+_GLIBCXX_ASSERTIONS+asserts and the capacity/clamp/eval-skip hooks, on '
         'chains/trees of 13 view kinds over dynamic, bounded, fixed, hybrid storage (values vs NumPy and vs the Lean composition model), '
         'mutable views, and a replay of the accepted requests of C03/C04/C05/C06/C07/C08.',
    note='Lean kernel + propext/Classical.choice/Quot.sound. Said plainly: the theorems are about the hand-written index model; the intra-object '
         'layout of the real buffers (std::array / static_vector members), the real allocation sizes and which bounded container type a '
         'metafunction picks are NOT proved — they are observed by sanitizers + NMTOOLS_VERIF hooks on the explored inputs (sampling, not proof). '
         'An intra-allocation overread is invisible to ASan and is caught only by the value comparison. Slices are used on their safe domain only '
         '(C05), SIMD access intervals are C12\'s; known-finding classes of the replayed properties are excluded. diagonal (any rank / axis pair / offset), expand over axis lists, sliding_window lists, split cut lists and where are re-exported from C04 in full.',
    technique='Lean 4 induction proofs (per-kind in-bounds, composition, capacity) + sanitizer/hook-instrumented differential run with NumPy oracle and replay of other properties\' request streams')
