// C13 harness (SYCL path, end to end): the REAL evaluator of include/nmtools/array/eval/sycl/{evaluator,context}.hpp —
// get_function_composition + get_function_operands, context_t::create_array (operand upload), map_to_device, the launch
// geometry of context_t::run_ (work-group 32, global size rounded up), the kernel lambda (create_mutable_array, fn::apply,
// assign_result) and copy_buffer — run on the host over c13_sycl_mock.hpp, a sequential stand-in for the SYCL runtime in
// which the harness chooses which work items run, in which order and how often.
//   c13_sycl prog=<name> shapes=<s0;s1;..> <attributes> data=prov|small init=<sentinel> sched=<g,0;g,0;...>|all
//     -> ok shape=<out shape> out=<result, row-major listing> hosteq=<1 iff equal to na::eval(view) on the host>
//   c13_sycl_launch prog=... (same arguments) -> ok launches=<n> global=<global range> local=<work-group size>
// One source, several TUs (-DC13_SYCL_GROUP=n).  Programs named *_col take column-major host arrays.
#include "c13_kernel.hpp"
#include "nmtools/array/eval/sycl.hpp"
#include "nmtools/array/view/cumsum.hpp"
#include "nmtools/array/view/activations/leaky_relu.hpp"
#include "nmtools/array/view/activations/elu.hpp"
#include "nmtools/array/view/activations/celu.hpp"
#include "nmtools/array/view/activations/hardtanh.hpp"
#include "nmtools/array/view/activations/softplus.hpp"
#include "nmtools/array/view/activations/hardshrink.hpp"
#include "nmtools/array/view/activations/softshrink.hpp"
#include "nmtools/array/view/activations/prelu.hpp"
using namespace c13;

#ifndef C13_SYCL_GROUP
#error "C13_SYCL_GROUP not set"
#endif

#define AXIS ((int)integer(a,"axis"))
#define AXES (intsi(a,"axes"))
#define KEEP nm::None, nm::None, nm::True
#define DROP nm::None, nm::None, nm::False
#define SUMALL(x) view::reduce_add(x, nm::None)
#define MAXALL(x) view::reduce_maximum(x, nm::None)

// run-time parameter i of a parametrised activation: request pq=<ints>, in quarter units (exact in binary32)
#define PQ(i) (0.25f * (float)par_q(a, i))
static int par_q(const Args& a, size_t i) { auto v = intsi(a, "pq"); if (i >= v.size()) throw bad_args("pq"); return v[i]; }

template <typename view_t>
static std::string run_sycl(const std::string& op, const view_t& v, const Args& a) {
    if constexpr (meta::is_maybe_v<view_t>) { if (!nm::has_value(v)) return "nothing"; }
    uvec hshape; std::vector<long long> hdata;
    if (!host_eval(v, hshape, hdata)) return "nothing-eval";
    sycl::mock::fill = has(a, "init") ? integer(a, "init") : -7;
    sycl::mock::launches = 0;
    sycl::mock::use_order = false; sycl::mock::order.clear();
    if (has(a, "sched") && get(a, "sched") != "all") {
        sycl::mock::use_order = true;
        for (auto& p : int_lists(a, "sched")) { if (p.size() != 2 || p[1] != 0) throw bad_args("sched"); sycl::mock::order.push_back((size_t)p[0]); }
    }
    auto ctx = std::make_shared<na::sycl::context_t>();
    auto dev = na::eval(v, ctx);
    sycl::mock::use_order = false;
    if (op == "c13_sycl_launch")
        return "ok launches=" + std::to_string(sycl::mock::launches) + " global=" + std::to_string(sycl::mock::last_global) + " local=" + std::to_string(sycl::mock::last_local);
    uvec dshape; std::vector<long long> ddata;
    if constexpr (meta::is_maybe_v<decltype(dev)>) { if (!nm::has_value(dev)) return "nothing-dev"; dump(nm::unwrap(dev), dshape, ddata); }
    else dump(dev, dshape, ddata);
    if (dshape != hshape) return "ok shape=" + fmt(dshape) + " out=" + fmt(ddata) + " hosteq=0";
    return answer_codes(hshape, hdata, ddata);
}

#if C13_SYCL_GROUP == 3
#define LEAF(i) L.c(i)
#else
#define LEAF(i) L.r(i)
#endif
#define PROG1(name, expr) if (prog == name) { const auto& x0 = LEAF(0); return run_sycl(op, expr, a); }
#define PROG2(name, expr) if (prog == name) { const auto& x0 = LEAF(0); const auto& x1 = LEAF(1); return run_sycl(op, expr, a); }
#define PROG3(name, expr) if (prog == name) { const auto& x0 = LEAF(0); const auto& x1 = LEAF(1); const auto& x2 = LEAF(2); return run_sycl(op, expr, a); }

std::string handle(const std::string& op, const Args& a) {
    if (op != "c13_sycl" && op != "c13_sycl_launch") return "unknown-op";
    auto prog = get(a, "prog");
    auto L = make_leaves(a, C13_SYCL_GROUP == 3);
#if C13_SYCL_GROUP == 1
    PROG1("transpose",   view::transpose(x0, AXES))
    PROG2("add",         view::add(x0, x1))
    if (prog == "reduce_add") {
        if (integer(a,"keepdims")) { PROG1("reduce_add", view::reduce_add(x0, AXIS, KEEP)) }
        PROG1("reduce_add", view::reduce_add(x0, AXIS, DROP)) }
    PROG1("accumulate_add", view::accumulate_add(x0, AXIS))
    PROG2("neg_add",     view::negative(view::add(x0, x1)))
    PROG2("add_tr",      view::add(view::transpose(x0, AXES), x1))
#elif C13_SYCL_GROUP == 2
    PROG2("sum_mul",     view::reduce_add(view::multiply(x0, x1), AXIS, DROP))
    PROG3("neg_add_mul", view::negative(view::add(view::multiply(x0, x1), x2)))
    PROG2("tr_neg_add",  view::transpose(view::negative(view::add(x0, x1)), AXES))
    // a view operand that is not the first operand (known finding extract.nonfirst-view-operand)
    PROG3("add_mul2",    view::add(x0, view::multiply(x1, x2)))
#elif C13_SYCL_GROUP == 4
    // number-valued sub-views (reduction over all axes) as operands of binary ufuncs; add_x_maxall: non-first position (known finding)
    PROG2("mul_sumall_x",     view::multiply(SUMALL(x0), x1))
    PROG2("sub_maxall_x",     view::subtract(MAXALL(x0), x1))
    PROG3("neg_mul_sumall_mul_x", view::negative(view::multiply(SUMALL(view::multiply(x0, x1)), x2)))
    PROG2("add_x_maxall",     view::add(x0, MAXALL(x1)))
    // a number literal operand: passed to the kernel by value (context_t::run, sycl/context.hpp:585)
    PROG1("add_x_lit",        view::add(x0, (int)integer(a,"lit")))
    PROG1("mul_lit_x",        view::multiply((int)integer(a,"lit"), x0))
#elif C13_SYCL_GROUP == 5
    // (float leaves) unary ufuncs whose op carries run-time parameters, alone and in chains
    PROG1("act_leaky",      view::leaky_relu(x0, PQ(0)))
    PROG1("act_hardtanh",   view::hardtanh(x0, PQ(0), PQ(1)))
    PROG1("act_softplus",   view::softplus(x0, PQ(0), PQ(1)))
    PROG2("leaky_add",      view::leaky_relu(view::add(x0, x1), PQ(0)))
    PROG2("add_leaky_x",    view::add(view::leaky_relu(x0, PQ(0)), x1))
    PROG2("hardtanh_mul_elu_x", view::hardtanh(view::multiply(view::elu(x0, PQ(0)), x1), PQ(1), PQ(2)))
#elif C13_SYCL_GROUP == 3
    // column-major host arrays (known finding kernel.colmajor-operand)
    PROG1("transpose_col", view::transpose(x0, AXES))
    PROG2("add_col",       view::add(x0, x1))
#endif
    return "unknown-prog";
}
