// C10 harness (regression of the repaired defect adl.eager-apply_slice): array/array/slice.hpp declares
//     array::apply_slice(const array_t&, const tuple_t<slices_t...>&, context, output, resolver)
// which argument-dependent lookup found — and partial ordering preferred — for the *unqualified* calls
// `apply_slice(…)` inside view::matmul_t::view_at, view::flip, view::slice, view::split, reduce_t and accumulate_t.
// In view::matmul the slices then were evaluated temporaries whose addresses the returned reduce view kept (reads of
// dead stack memory); view::flip / view::slice / view::split silently returned evaluated copies instead of views.
// The calls are now qualified (view::apply_slice).  This TU includes the eager header together with those views and is
// built with ASan/UBSan:
//   adl what=matmul a=<n,k> b=<k,m>     ok shape=… data=… of array::matmul(a, b), checked against view::matmul(a, b)
//   adl what=flip a=<shape> axis=<k>    ok lazy=<is_view> shape=… data=…      (view::flip must stay a view)
//   adl what=slice a=<r,c>              ok lazy=<is_view> … of view::slice(a, {0,r}, {1,c})
//   adl what=split a=<shape>            ok lazy=<is_view> … of the first part of view::split(a, 2, 0)
//   adl what=sum|cumsum a=<shape> axis=<k>   ok shape=… data=… of array::sum(a, axis) / array::cumsum(a, axis, None)
#include "nmtools/array/ndarray.hpp"
#include "nmtools/array/array/slice.hpp"
#include "nmtools/array/array/matmul.hpp"
#include "nmtools/array/array/flip.hpp"
#include "nmtools/array/array/sum.hpp"
#include "nmtools/array/array/cumsum.hpp"
#include "nmtools/array/view/split.hpp"
#include "nmtools/array/index/ndindex.hpp"
#include "proto.hpp"
namespace nm = nmtools; namespace na = nmtools::array; namespace view = nmtools::view; namespace ix = nmtools::index;
namespace meta = nmtools::meta;
using namespace proto;
using arr_t = na::ndarray_t<std::vector<int>, std::vector<size_t>>;

static arr_t mk(const uvec& s, int base) { arr_t a; a.resize(s); for (size_t k = 0; k < nm::size(a); k++) a.data()[k] = (int)k + base; return a; }
template <typename V> static std::string dump(const V& v) {
    if constexpr (meta::is_maybe_v<V>) { if (!nm::has_value(v)) return "nothing"; return dump(*v); }
    else {
        auto sh = nm::shape(v); uvec s; for (size_t i = 0; i < nm::len(sh); i++) s.push_back(nm::at(sh, i));
        auto nd = ix::ndindex(s); ivec d;
        for (size_t k = 0; k < nd.size(); k++) d.push_back((long long)nm::apply_at(v, nd[k]));
        return "shape=" + fmt(s) + " data=" + fmt(d);
    }
}
template <typename V> static std::string lazy(const V& v) {
    if constexpr (meta::is_maybe_v<V>) { if (!nm::has_value(v)) return "nothing"; return lazy(*v); }
    else return std::string("lazy=") + (meta::is_view_v<V> ? "1 " : "0 ") + dump(v);
}
std::string handle(const std::string& op, const Args& a) {
    if (op != "adl") return "unknown-op";
    std::string what = get(a, "what");
    auto A = mk(nats(a, "a"), 0);
    if (what == "matmul") {
        auto B = mk(nats(a, "b"), 1000);
        auto v = view::matmul(A, B);
        auto e = na::matmul(A, B);
        auto dv = dump(v), de = dump(e);
        if (dv != de) return "view-eval-differ view{" + dv + "} eval{" + de + "}";
        return "ok " + de;
    }
    if (what == "flip") { auto ax = intsi(a, "axis"); return "ok " + lazy(view::flip(A, ax)); }
    if (what == "slice") {
        auto s = nats(a, "a"); if (s.size() != 2) throw bad_args("a");
        return "ok " + lazy(view::slice(A, nmtools_tuple{0, (int)s[0]}, nmtools_tuple{1, (int)s[1]}));
    }
    if (what == "split") { auto parts = view::split(A, 2, 0); return "ok " + lazy(nm::at(nm::unwrap(parts), 0)); }
    if (what == "sum") { int ax = (int)integer(a, "axis"); return "ok " + dump(na::sum(A, ax)); }
    if (what == "cumsum") { int ax = (int)integer(a, "axis"); return "ok " + dump(na::cumsum(A, ax, nm::None)); }
    return "bad-args";
}
