import Lean
/-
  `#audit NS` prints one JSON line per theorem whose name has prefix `NS`
  with the axioms it depends on (Lean.collectAxioms = what `#print axioms` shows).
-/
open Lean Elab Command

elab "#audit " ns:ident : command => do
  let env ← getEnv
  let nsName := ns.getId
  let mut out : Array String := #[]
  for (n, ci) in env.constants.toList do
    if nsName.isPrefixOf n && !n.isInternal then
      match ci with
      | .thmInfo _ =>
        let axs ← Lean.collectAxioms n
        let axl := ",".intercalate (axs.toList.map (fun a => "\"" ++ toString a ++ "\""))
        out := out.push s!"AUDIT \{\"theorem\":\"{n}\",\"axioms\":[{axl}]}"
      | _ => pure ()
  for l in out.qsort (· < ·) do
    IO.println l
