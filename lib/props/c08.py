"""C08 — reductions and accumulations fold exactly the addressed elements, in order.
IMPL: view::reduce / view::accumulate (custom order-revealing functor and the named ufuncs), index::remove_dims,
index::reduction_slices, sum/prod/amax/amin/mean/var/stddev/cumsum/cumprod/vector_norm/trace.
ORACLE: the property text stated directly in python (group source elements by their non-reduced coordinates in C
order, left fold) and NumPy (ufunc.reduce / ufunc.accumulate / np.sum / np.mean / ...)."""
import itertools
import numpy as np
from runner import Case
from shapes import shapes, prod, fmt

ID = 'C08'
LEVEL = 'proof'
RULE = ('exhaustive: every shape of rank 1..R with extents 1..E (quick R=E=3, thorough R=E=4) x every non-empty subset of axes '
        '(all-positive, all-negative, mixed-sign + shuffled order) and None x keepdims false/true (compile-time True/False, run-time bool, '
        'argument omitted) x initial absent/present x axis kind int/vector, through view::reduce with the order-revealing functor '
        'f(a,b)=31a+b on uint32 (data[k]=k+1); view::accumulate on every axis; index::remove_dims / reduction_slices directly; '
        'named routines against NumPy on integer-valued data (dtype absent/int64/float32/float64 x initial absent/present); '
        'fixed-dim sources (shape in std::array) with every axis listed explicitly as run-time int / std::array / tuple of ct, '
        'where the view is a number read through reduce_t::operator num_type(); every shape of rank 1..R with extents 0..2 containing a 0 '
        '(empty results; folds over no element = initial value / identity); an axis named several times under keepdims; trace for every ordered axis '
        'pair (positive / negative spelling) and every offset, through the Lean model; plus seeded random shapes of rank 1..5 / extents 1..7. '
        'non-trivial = some fold combines >= 2 elements')
EXHAUSTIVE = {'quick': True, 'thorough': True}
ANCHORS = {
    'NmVerif.Reduce.normalizeAxis/normalizeAxes': 'index::normalize_axis',
    'NmVerif.Reduce.removeDims': 'index::remove_dims',
    'NmVerif.Reduce.reductionSlices': 'index::reduction_slices',
    'NmVerif.Reduce.reducer': 'view::reducer_t::operator()',
    'NmVerif.Reduce.flattenReduce': 'unwrap(view::flatten(x)) + reducer_t in reduce_t / accumulate_t (Nothing for a zero-size x)',
    'NmVerif.Reduce.reduceElem/reduce': 'view::reduce_t::operator(), operator num_type(), reduce_t<axis=None>, view::reduce (run-time keepdims -> either)',
    'NmVerif.Reduce.accumulateElem/accumulate': 'view::accumulate_t::operator()',
    'NmVerif.Reduce.diagonal/trace': 'view::diagonal (index::shape_diagonal, index::diagonal), view::trace = view::sum(diagonal, -1)',
}
MANIFEST = dict(
    text='Proof: 41 Lean theorems over every rank/extent/axis list and an arbitrary binary op (no commutativity or associativity assumed): '
         'result shape = NumPy (single/multi/negative/unsorted axes, keepdims, None; extents 0 included), each result element = left fold of '
         'exactly the source elements with matching non-reduced coordinates in increasing C order, for EVERY shape (a fold over no element = '
         'the initial value, else the identity of the functor), independence of the order of the axis list and, under keepdims, of repetitions in it, accumulate = '
         'running fold, all addressed indices in bounds, sum/prod/amax/amin/cumsum/cumprod as instances, mean/var/stddev/vector_norm as '
         'plumbing statements over abstract element operations, trace = fold of the diagonal elements for every axis pair and EVERY offset '
         '(0 on an empty diagonal); tied to the C++ by an exhaustive small-scope differential run of view::reduce/accumulate with an '
         'order-revealing functor (dynamic-dim and fixed-dim sources, array- and number-typed views) and of the named routines against '
         'NumPy on every check.',
    note='Lean kernel + propext/Classical.choice/Quot.sound; model hand-written, fidelity rests on the correspondence run; slicing by in-range '
         '(start,stop) pairs is taken as C05 proves it, the broadcast inside var as C06 proves it; float arithmetic of mean/var/stddev/vector_norm '
         'is compared with NumPy under a tolerance; model and theorems follow the tree repaired by fixes/C08-trace-empty-diagonal.diff '
         '(a fold over no element); '
         'fixed-shape and clipped container kinds are in C09.',
    technique='Lean 4 induction proofs over List Nat shapes + differential correspondence (exhaustive small scope) + NumPy oracle')
ASSUMPTIONS = ['apply_slice with in-range pairs 0 <= start < stop <= extent has shape stop-start and reads start+d (C05 domain theorem; observed here through every element of every reduction)',
               'uint32 arithmetic of the order-revealing functor is modelled as Nat mod 2^32',
               'compile-time axes are exercised as meta::ct<k> and tuples of ct on dynamic-dim arrays (rank <= 3) and on fixed-dim arrays (all axes listed); fixed-shape / clipped kinds are covered by the C09 kind matrix, not here',
               'the diagonal index functions (Linalg.shapeDiagonal / diagonalIdx) are the mirrors written for C16; here they are tied to the code through every element of every trace request']
PARTIAL = ['mean_eq_sum_div_count / var_eq_mean_sq_dev / stddev_eq_sqrt_var / vector_norm_eq (and their _pos_axes forms) are plumbing statements over abstract element operations (which elements are folded, in which order, divided by their count); var takes the broadcast of the keepdims mean against the input as the index map C06 proves; the float arithmetic itself is compared with NumPy under a tolerance',
           'mean / var / stddev / vector_norm over NO element (a reduced extent 0) stay outside the modelled domain (their theorems ask the reduced extents to be positive; NumPy gives nan with a warning)',
           'var / stddev on a shape with a REDUCED extent 0 are not requested (NumPy gives nan with a warning; the broadcast of the keepdims mean against the input, which used to fail on (0,0) vs (1,0), is repaired by fix commit f45d8fe)']
TRUSTED = []


CT_PAIRS = {(0, 1), (1, 0), (0, 2), (2, 0), (1, 2), (-1, 0), (-1, -3), (1, -1), (-2, -1)}


def harness_specs(tier):
    return [dict(name='h_c08', src='h_c08.cpp', flavour='fast'),
            dict(name='h_c08c', src='h_c08c.cpp', flavour='fast'),
            dict(name='h_c08_san', src='h_c08.cpp', flavour='san-dbg'),   # asserts on, ASan + UBSan: reduce_inBounds observed
            dict(name='h_c08n', src='h_c08n.cpp', flavour='fast'),
            dict(name='h_c08r', src='h_c08r.cpp', flavour='fast'),
            dict(name='h_c08f1', src='h_c08f.cpp', flavour='fast', extra=['-DC08F_PART=1']),
            dict(name='h_c08f2', src='h_c08f.cpp', flavour='fast', extra=['-DC08F_PART=2']),
            dict(name='h_c08f3', src='h_c08f.cpp', flavour='fast', extra=['-DC08F_PART=3']),
            dict(name='h_c08f4', src='h_c08f.cpp', flavour='fast', extra=['-DC08F_PART=4']),
            # fixed-dim sources, every axis listed: the view is a number, read through reduce_t::operator num_type()
            dict(name='h_c08s1', src='h_c08s.cpp', flavour='fast', extra=['-DC08S_PART=1']),
            dict(name='h_c08s2', src='h_c08s.cpp', flavour='fast', extra=['-DC08S_PART=2']),
            # asserts on: a fold over no element must not trip anything (repaired defect reduce.empty-fold)
            dict(name='h_c08r_dbg', src='h_c08r.cpp', flavour='dbg'),
            # narrow element types with a wider result dtype: the fold is carried out in the dtype
            dict(name='h_c08e', src='h_c08e.cpp', flavour='fast'),
            # mean / var / stddev with an explicit result dtype (every intermediate is carried in it)
            dict(name='h_c08v', src='h_c08v.cpp', flavour='fast')]


# ------------------------------------------------------------------------------------------------
# ORACLE: the property text, directly
# ------------------------------------------------------------------------------------------------

def f31(a, b):
    return (31 * int(a) + int(b)) & 0xffffffff


def ref_reduce(op, data, shape, axes, keep, init):
    """result shape (NumPy) and, per result index, the left fold of the source elements whose
    non-reduced coordinates match, in increasing C order."""
    nd = len(shape)
    R = set(range(nd)) if axes is None else {a % nd for a in axes}
    out_shape = [1 if k in R else e for k, e in enumerate(shape) if keep or k not in R]
    groups = {}
    for flat, idx in enumerate(itertools.product(*[range(e) for e in shape])):
        j = tuple(0 if k in R else x for k, x in enumerate(idx) if keep or k not in R)
        groups.setdefault(j, []).append(data[flat])
    res = []
    for j in itertools.product(*[range(e) for e in out_shape]):
        es = groups.get(j, [])
        if init is None:
            if not es:
                raise ValueError('zero-size array to reduction operation which has no identity')
            acc, rest = es[0], es[1:]
        else:
            acc, rest = init, es
        for x in rest:
            acc = op(acc, x)
        res.append(acc)
    return out_shape, res


def ref_accumulate(op, data, shape, axis):
    """running fold along `axis` (NumPy normalisation of a negative axis), source shape."""
    nd = len(shape)
    ax = axis % nd
    a = np.array(data, dtype=object).reshape(shape)
    out = a.copy()
    for idx in itertools.product(*[range(e) for e in shape]):
        if idx[ax] > 0:
            prev = list(idx); prev[ax] -= 1
            out[idx] = op(out[tuple(prev)], a[idx])
    return list(shape), [int(x) for x in out.reshape(-1)]


def ans(shape, data):
    return 'ok shape=%s data=%s' % (fmt(shape), fmt(data))


_uf31 = np.frompyfunc(f31, 2, 1)


def numpy_f31_single_axis(data, shape, axis, keep, init):
    a = np.array(data, dtype=object).reshape(shape)
    kw = {} if init is None else {'initial': init}
    r = _uf31.reduce(a, axis=axis, keepdims=keep, **kw)
    r = np.asarray(r, dtype=object)
    return list(r.shape), [int(x) for x in r.reshape(-1)]


# ------------------------------------------------------------------------------------------------
# known findings
# ------------------------------------------------------------------------------------------------

def _kv(req):
    return dict(t.split('=', 1) for t in req.split()[1:])


def pred_trace_negative_offset(case):
    """trace with a negative diagonal offset"""
    if case.req.split()[0] != 'trace':
        return False
    return _kv(case.req).get('offset', '0').startswith('-')


def _ints(v):
    return [] if v in ('[]', '') else [int(x) for x in v.split(',')]


def empty_fold_class(shape, axes, keep):
    """some reduced axis has extent 0 while the result has at least one element (so an element is evaluated)"""
    nd = len(shape)
    if axes is not None and any(not (-nd <= a < nd) for a in axes):
        return False
    R = set(range(nd)) if axes is None else {a % nd for a in axes}
    if not any(shape[k] == 0 for k in R):
        return False
    return all(e > 0 for k, e in enumerate(shape) if k not in R)


def pred_reduce_empty_fold(case):
    """reduce / sum / prod / amax / amin over an axis of extent 0 with a non-empty result"""
    t = case.req.split()
    if t[0] != 'reduce':
        return False
    kv = _kv(case.req)
    shape = _ints(kv.get('shape', ''))
    axes = None if kv.get('axis') == 'None' else _ints(kv.get('axis', ''))
    return empty_fold_class(shape, axes, kv.get('keepdims') == '1')


def diag_len(shape, off, a1, a2):
    n1, n2 = shape[a1], shape[a2]
    return max(0, min(n1 - max(-off, 0), n2 - max(off, 0)))


def pred_trace_empty_diagonal(case):
    """trace whose diagonal is empty (offset beyond the extent, or an extent 0) with a non-empty result"""
    if case.req.split()[0] != 'trace':
        return False
    kv = _kv(case.req)
    shape = _ints(kv.get('shape', ''))
    nd = len(shape)
    a1, a2, off = int(kv['axis1']), int(kv['axis2']), int(kv['offset'])
    if nd < 2 or not (-nd <= a1 < nd and -nd <= a2 < nd) or a1 % nd == a2 % nd:
        return False
    a1 %= nd; a2 %= nd
    return diag_len(shape, off, a1, a2) == 0 and all(e > 0 for k, e in enumerate(shape) if k not in (a1, a2))


KNOWN_PREDICATES = {'trace_negative_offset': pred_trace_negative_offset,
                    'reduce_empty_fold': pred_reduce_empty_fold,
                    'trace_empty_diagonal': pred_trace_empty_diagonal}


# ------------------------------------------------------------------------------------------------
# generator
# ------------------------------------------------------------------------------------------------

def axis_variants(subset, nd, rng):
    """the subset as positive numbers, as negative numbers, and mixed-sign in shuffled order"""
    pos = list(subset)
    neg = [k - nd for k in subset]
    out = [('pos', pos), ('neg', neg)]
    if len(subset) >= 2:
        mixed = [k - nd if rng.random() < 0.5 else k for k in subset]
        rng.shuffle(mixed)
        if mixed != pos and mixed != neg:
            out.append(('mixed-unsorted', mixed))
        rev = list(reversed(pos))
        out.append(('reversed', rev))
    return out


def gen(tier, rng):
    R, E = (3, 3) if tier == 'quick' else (4, 4)
    for s in shapes(R, E, min_rank=1):
        nd = len(s)
        n = prod(s)
        data = list(range(1, n + 1))
        srank = 'rank=%d' % nd
        # ---- reduce over every non-empty subset of axes -------------------------------------------------
        for k in range(1, nd + 1):
            for subset in itertools.combinations(range(nd), k):
                nt = any(s[a] > 1 for a in subset)
                for vname, axes in axis_variants(subset, nd, rng):
                    for keep in (0, 1):
                        for init in (None, 7):
                            oshape, ores = ref_reduce(f31, data, s, axes, bool(keep), init)
                            if k == 1:
                                assert (oshape, ores) == numpy_f31_single_axis(data, s, axes[0], bool(keep), init)
                            kds = ['ct', 'rt'] + (['def'] if not keep else [])
                            for kd in kds:
                                axkinds = ['vec'] + (['int'] if k == 1 else [])
                                if kd == 'ct' and nd <= 3 and (k == 1 or tuple(axes) in CT_PAIRS):
                                    axkinds.append('ct')        # meta::ct<k> / tuple of ct, harness h_c08c
                                for axk in axkinds:
                                    if tier != 'quick' and nd == 4 and kd == 'def' and axk == 'vec':
                                        continue
                                    yield Case('reduce op=f31 shape=%s axis=%s keepdims=%d init=%s kd=%s ax=%s' % (
                                        fmt(s), fmt(axes), keep, init, kd, axk), 'h_c08c' if axk == 'ct' else 'h_c08', oracle=ans(oshape, ores), nontrivial=nt,
                                        tags=['reduce', srank, 'axes=' + vname, 'naxes=%d' % k, 'keepdims=%d' % keep, 'kd=' + kd,
                                              'init=' + ('absent' if init is None else 'present'), 'ax=' + axk] +
                                             (['size1-axis'] if any(s[a] == 1 for a in subset) else []) +
                                             (['all-axes'] if k == nd else []))
                    # index level, directly
                    for keep in (0, 1):
                        oshape, _ = ref_reduce(f31, data, s, axes, bool(keep), None)
                        yield Case('remove_dims shape=%s axis=%s keepdims=%d' % (fmt(s), fmt(axes), keep), 'h_c08',
                                   oracle='ok ' + fmt(oshape), nontrivial=nt, tags=['remove_dims', srank])
                        for j in list(itertools.product(*[range(e) for e in oshape]))[:4]:
                            yield Case('reduction_slices shape=%s idx=%s axis=%s keepdims=%d' % (fmt(s), fmt(j), fmt(axes), keep), 'h_c08',
                                       nontrivial=nt, tags=['reduction_slices', srank])
        # ---- None axis ---------------------------------------------------------------------------------
        for keep in (0, 1):
            for init in (None, 7):
                oshape, ores = ref_reduce(f31, data, s, None, bool(keep), init)
                for kd in ['ct', 'rt'] + (['def'] if not keep else []):
                    yield Case('reduce op=f31 shape=%s axis=None keepdims=%d init=%s kd=%s' % (fmt(s), keep, init, kd), 'h_c08',
                               oracle=ans(oshape, ores), nontrivial=n > 1,
                               tags=['reduce', srank, 'axes=None', 'keepdims=%d' % keep, 'kd=' + kd, 'init=' + ('absent' if init is None else 'present')])
            oshape, _ = ref_reduce(f31, data, s, None, bool(keep), None)
            yield Case('remove_dims shape=%s axis=None keepdims=%d' % (fmt(s), keep), 'h_c08', oracle='ok ' + fmt(oshape),
                       nontrivial=n > 1, tags=['remove_dims', srank, 'axes=None'])
        # ---- accumulate --------------------------------------------------------------------------------
        for ax in range(nd):
            oshape, ores = ref_accumulate(f31, data, s, ax)
            yield Case('accumulate op=f31 shape=%s axis=%d' % (fmt(s), ax), 'h_c08', oracle=ans(oshape, ores), nontrivial=s[ax] > 1,
                       tags=['accumulate', srank, 'axis=pos'])
            # negative axis = counted from the last axis
            yield Case('accumulate op=f31 shape=%s axis=%d' % (fmt(s), ax - nd), 'h_c08', oracle=ans(oshape, ores),
                       nontrivial=s[ax] > 1, tags=['accumulate', srank, 'axis=neg'])


# ------------------------------------------------------------------------------------------------
# library functors and named routines against NumPy
# ------------------------------------------------------------------------------------------------

NP_UFUNC = {'add': np.add, 'mul': np.multiply, 'max': np.maximum, 'min': np.minimum, 'sub': np.subtract,
            'band': np.bitwise_and, 'bor': np.bitwise_or, 'bxor': np.bitwise_xor,
            'land': np.logical_and, 'lor': np.logical_or}
PY_OP = {'add': lambda a, b: a + b, 'mul': lambda a, b: a * b, 'max': lambda a, b: a if a > b else b,
         'min': lambda a, b: a if a < b else b, 'sub': lambda a, b: a - b,
         'band': lambda a, b: a & b, 'bor': lambda a, b: a | b, 'bxor': lambda a, b: a ^ b,
         'land': lambda a, b: int(bool(a) and bool(b)), 'lor': lambda a, b: int(bool(a) or bool(b))}
INIT_OF = {'add': 5, 'mul': 2, 'max': 3, 'min': -3, 'sub': 4, 'band': 15, 'bor': 64, 'bxor': 21, 'land': 1, 'lor': 0}


def data_for(op, n, rng):
    if op == 'mul':      # few non-unit factors: the product of everything stays far below 2^31
        d = [rng.choice([1, 1, -1]) for _ in range(n)]
        for k in rng.sample(range(n), min(n, 6)):
            d[k] = rng.choice([2, 3, -2])
        return d
    if op in ('band', 'bor', 'bxor'):
        return [rng.randrange(256) for _ in range(n)]
    if op in ('land', 'lor'):
        return [rng.randrange(2) for _ in range(n)]
    return [rng.randint(-9, 9) for _ in range(n)]


def numpy_reduce(op, data, shape, axes, keep, init):
    """NumPy ufunc.reduce; subtract is not reorderable: NumPy accepts one axis only"""
    a = np.array(data, dtype=np.int64).reshape(shape)
    kw = {} if init is None else {'initial': init}
    ax = None if axes is None else tuple(axes)
    if op == 'sub' and (axes is None or len(axes) > 1):
        if len(shape) > 1:
            return None
        ax = 0
    r = np.asarray(NP_UFUNC[op].reduce(a, axis=ax, keepdims=keep, **kw))
    return list(r.shape), [int(x) for x in r.reshape(-1)]


def numpy_accumulate(op, data, shape, axis):
    a = np.array(data, dtype=np.int64).reshape(shape)
    r = np.asarray(NP_UFUNC[op].accumulate(a, axis=axis))
    return list(r.shape), [int(x) for x in r.reshape(-1)]


def subsets(nd):
    for k in range(1, nd + 1):
        for sub in itertools.combinations(range(nd), k):
            yield list(sub)


def gen_ufuncs(tier, rng):
    """view::reduce / view::accumulate with the library functors (h_c08n) and the named routines (h_c08r)"""
    R, E = (3, 3) if tier == 'quick' else (4, 3)
    for s in shapes(R, E, min_rank=1):
        nd, n = len(s), prod(s)
        srank = 'rank=%d' % nd
        for op in NP_UFUNC:
            data = data_for(op, n, rng)
            for sub in list(subsets(nd)) + [None]:
                if sub is None:
                    axes = None
                else:
                    axes = [k - nd if rng.random() < 0.4 else k for k in sub]
                    rng.shuffle(axes)
                nt = n > 1 if sub is None else any(s[k] > 1 for k in sub)
                for keep in (0, 1):
                    for init in (None, INIT_OF[op]):
                        oshape, ores = ref_reduce(PY_OP[op], data, s, axes, bool(keep), init)
                        npr = numpy_reduce(op, data, s, axes, bool(keep), init)
                        assert npr is None or npr == (oshape, ores), (op, data, s, axes, keep, init, npr, oshape, ores)
                        base = 'shape=%s axis=%s keepdims=%d init=%s data=%s' % (fmt(s), 'None' if axes is None else fmt(axes), keep, init, fmt(data))
                        tags = ['ufunc-reduce', 'op=' + op, srank, 'keepdims=%d' % keep, 'init=' + ('absent' if init is None else 'present')]
                        yield Case('reduce op=%s %s' % (op, base), 'h_c08n', oracle=ans(oshape, ores), nontrivial=nt, tags=tags)
                        if op in ('add', 'mul') and not keep:
                            for api in ['view4'] + (['view2'] if init is None and op == 'add' else []):
                                yield Case('reduce op=%s api=%s %s' % (op, api, base), 'h_c08r', oracle=ans(oshape, ores), nontrivial=nt,
                                           tags=['named-' + ('sum' if op == 'add' else 'prod'), 'api=' + api, srank])
                        if op in ('add', 'mul', 'max', 'min'):
                            for api in ('view', 'array'):
                                axk = 'int' if (axes is not None and len(axes) == 1 and rng.random() < 0.5) else 'vec'
                                yield Case('reduce op=%s api=%s ax=%s %s' % (op, api, axk, base), 'h_c08r', oracle=ans(oshape, ores), nontrivial=nt,
                                           tags=['named-' + {'add': 'sum', 'mul': 'prod', 'max': 'amax', 'min': 'amin'}[op], 'api=' + api, srank])
                    if op in ('add', 'mul') and axes is not None:
                        # dtype absent/int/float x initial absent/present (NumPy: np.sum(a, axis, dtype=…, initial=…))
                        for dt in ('i64', 'f32', 'f64'):
                            for init in (None, INIT_OF[op]):
                                oshape, ores = ref_reduce(PY_OP[op], data, s, axes, bool(keep), init)
                                npdt = {'i64': np.int64, 'f32': np.float32, 'f64': np.float64}[dt]
                                kw = {} if init is None else {'initial': init}
                                npr = np.asarray((np.sum if op == 'add' else np.prod)(np.array(data, dtype=np.int32).reshape(s), axis=tuple(axes),
                                                 dtype=npdt, keepdims=bool(keep), **kw))
                                assert (list(npr.shape), [int(x) for x in npr.reshape(-1)]) == (oshape, ores)
                                api = rng.choice(['view', 'array'])
                                yield Case('reduce op=%s api=%s dtype=%s shape=%s axis=%s keepdims=%d init=%s data=%s' % (
                                    op, api, dt, fmt(s), fmt(axes), keep, init, fmt(data)), 'h_c08r', oracle=ans(oshape, ores), nontrivial=nt,
                                    tags=['named-' + ('sum' if op == 'add' else 'prod'), 'dtype=' + dt, srank,
                                          'dtype+init=' + ('absent' if init is None else 'present')])
            for ax in range(nd):
                oshape, ores = ref_accumulate(PY_OP[op], data, s, ax)
                assert (oshape, ores) == numpy_accumulate(op, data, s, ax)
                yield Case('accumulate op=%s shape=%s axis=%d data=%s' % (op, fmt(s), ax, fmt(data)), 'h_c08n', oracle=ans(oshape, ores),
                           nontrivial=s[ax] > 1, tags=['ufunc-accumulate', 'op=' + op, srank])
                if op in ('add', 'mul'):
                    for api in ('view', 'array'):
                        for dt in ('None', 'i64', 'f64'):
                            yield Case('accumulate op=%s api=%s dtype=%s shape=%s axis=%d data=%s' % (op, api, dt, fmt(s), ax, fmt(data)), 'h_c08r',
                                       oracle=ans(oshape, ores), nontrivial=s[ax] > 1,
                                       tags=['named-' + ('cumsum' if op == 'add' else 'cumprod'), 'api=' + api, 'dtype=' + dt, srank])
                    # negative axis through cumsum / cumprod
                    yield Case('accumulate op=%s api=%s dtype=None shape=%s axis=%d data=%s' % (op, rng.choice(['view', 'array']), fmt(s), ax - nd, fmt(data)), 'h_c08r',
                               oracle=ans(oshape, ores), nontrivial=s[ax] > 1,
                               tags=['named-' + ('cumsum' if op == 'add' else 'cumprod'), 'axis=neg', srank])


# ------------------------------------------------------------------------------------------------
# float routines: NumPy under a tolerance; float fold order exactly
# ------------------------------------------------------------------------------------------------

def parse_ans(a):
    if a is None or not a.startswith('ok shape='):
        return None
    try:
        sh, da = a[3:].split(' ')
        shape = [] if sh == 'shape=[]' else [int(x) for x in sh[6:].split(',')]
        data = [] if da == 'data=[]' else [float(x) for x in da[5:].split(',')]
        return shape, data
    except Exception:
        return None


def close_cmp(rtol, atol):
    def cmp(a, b):
        pa, pb = parse_ans(a), parse_ans(b)
        if pa is None or pb is None:
            return a == b
        return pa[0] == pb[0] and len(pa[1]) == len(pb[1]) and bool(np.allclose(pa[1], pb[1], rtol=rtol, atol=atol, equal_nan=True))
    return cmp


def fans(r):
    r = np.asarray(r, dtype=np.float64)
    return 'ok shape=%s data=%s' % (fmt(r.shape), ','.join(repr(float(x)) for x in r.reshape(-1)) if r.size else '[]')


def gen_float(tier, rng):
    R, E = (3, 3) if tier == 'quick' else (4, 3)
    for s in shapes(R, E, min_rank=1):
        nd, n = len(s), prod(s)
        srank = 'rank=%d' % nd
        data = [rng.randint(-6, 6) for _ in range(n)]
        a = np.array(data, dtype=np.float64).reshape(s)
        for sub in list(subsets(nd)) + [None]:
            if sub is None:
                axes, count = None, n
            else:
                axes = [k - nd if rng.random() < 0.4 else k for k in sub]
                rng.shuffle(axes)
                count = prod([s[k] for k in sub])
            ax = None if axes is None else tuple(axes)
            nt = count > 1
            axs = 'None' if axes is None else fmt(axes)
            for keep in (0, 1):
                for api in ('view', 'array'):
                    for et in ('f64', 'i32'):
                        axk = 'int' if (axes is not None and len(axes) == 1 and rng.random() < 0.5) else 'vec'
                        base = 'api=%s et=%s ax=%s shape=%s axis=%s keepdims=%d data=%s' % (api, et, axk, fmt(s), axs, keep, fmt(data))
                        tol = close_cmp(1e-9, 1e-12) if et == 'f64' else close_cmp(2e-5, 1e-6)
                        tg = ['api=' + api, 'et=' + et, srank, 'keepdims=%d' % keep]
                        yield Case('mean ' + base, 'h_c08f1', model=True, oracle=fans(np.mean(a, axis=ax, keepdims=bool(keep))), cmp=tol,
                                   nontrivial=nt, tags=['mean'] + tg)
                        for ddof in (0, 1, 2):
                            if count - ddof <= 0:
                                continue
                            yield Case('var ddof=%d %s' % (ddof, base), 'h_c08f1', model=True, cmp=tol, nontrivial=nt, tags=['var', 'ddof=%d' % ddof] + tg,
                                       oracle=fans(np.var(a, axis=ax, ddof=ddof, keepdims=bool(keep))))
                            yield Case('stddev ddof=%d %s' % (ddof, base), 'h_c08f2', model=True, cmp=tol, nontrivial=nt, tags=['stddev', 'ddof=%d' % ddof] + tg,
                                       oracle=fans(np.std(a, axis=ax, ddof=ddof, keepdims=bool(keep))))
                    for ord_ in (1, 2, 3, 4):
                        axk = 'int' if (axes is not None and len(axes) == 1 and rng.random() < 0.5) else 'vec'
                        yield Case('vector_norm api=%s et=f64 ax=%s ord=%d shape=%s axis=%s keepdims=%d data=%s' % (api, axk, ord_, fmt(s), axs, keep, fmt(data)),
                                   'h_c08f3', model=True, cmp=close_cmp(1e-5, 1e-6), nontrivial=nt, tags=['vector_norm', 'ord=%d' % ord_, 'api=' + api, srank],
                                   oracle=fans(np.linalg.vector_norm(a, axis=ax, keepdims=bool(keep), ord=ord_)))
                    if api == 'view':
                        # a real order (5/2), passed to the view as double
                        axk = 'int' if (axes is not None and len(axes) == 1 and rng.random() < 0.5) else 'vec'
                        yield Case('vector_norm api=view et=f64 ax=%s ord=5 ordden=2 shape=%s axis=%s keepdims=%d data=%s' % (axk, fmt(s), axs, keep, fmt(data)),
                                   'h_c08f3', model=True, cmp=close_cmp(1e-5, 1e-6), nontrivial=nt, tags=['vector_norm', 'ord=2.5', 'api=view', srank],
                                   oracle=fans(np.linalg.vector_norm(a, axis=ax, keepdims=bool(keep), ord=2.5)))
        # trace: every ordered pair of distinct axes (each written as a positive or as a negative number), every offset
        # with a non-empty diagonal: in the domain of trace_eq_sum_diag, answered by the Lean model too
        if nd >= 2:
            for a1, a2 in itertools.permutations(range(nd), 2):
                for off in range(-s[a1] + 1, s[a2]):
                    for api in ('view', 'array'):
                        et = rng.choice(['f64', 'i32'])
                        w1 = a1 - nd if rng.random() < 0.5 else a1
                        w2 = a2 - nd if rng.random() < 0.5 else a2
                        req = 'trace api=%s et=%s shape=%s offset=%d axis1=%d axis2=%d data=%s' % (api, et, fmt(s), off, w1, w2, fmt(data))
                        yield Case(req, 'h_c08f4', model=True, dom=True, cmp=close_cmp(1e-12, 1e-12), nontrivial=diag_len(s, off, a1, a2) > 1,
                                   oracle=fans(np.trace(a, offset=off, axis1=a1, axis2=a2)),
                                   tags=['trace', 'api=' + api, srank, 'offset<0' if off < 0 else 'offset>=0',
                                         'axes=' + ('neg' if w1 < 0 and w2 < 0 else 'mixed' if w1 < 0 or w2 < 0 else 'pos')])
                # the offsets just beyond the extent: empty diagonal, the sum over no element is 0 (NumPy; repaired defect
                # trace.empty-diagonal), theorem trace_eq_sum_diag_any_offset
                for off in (-s[a1], s[a2]):
                    api = rng.choice(['view', 'array'])
                    yield Case('trace api=%s et=i32 shape=%s offset=%d axis1=%d axis2=%d data=%s' % (api, fmt(s), off, a1, a2, fmt(data)),
                               'h_c08f4', model=True, dom=True, cmp=close_cmp(1e-12, 1e-12), nontrivial=False,
                               oracle=fans(np.trace(a, offset=off, axis1=a1, axis2=a2)), tags=['trace', 'empty-diagonal', srank])
        # the DEFAULT axis pair: trace(a) and trace(a, offset) take the FIRST two axes (NumPy), whatever the rank (seeded C08-3
        # defaulted to the last two: invisible on matrices)
        if nd >= 2:
            for form, offs in (('d0', [0]), ('d1', [o for o in (-1, 0, 1) if -s[0] < o < s[1]])):
                for off in offs:
                    for api in ('view', 'array'):
                        base = 'trace api=%s et=i32 shape=%s offset=%d axis1=0 axis2=1 data=%s' % (api, fmt(s), off, fmt(data))
                        yield Case(base + ' form=' + form, 'h_c08f4', mreq=base, model=True, dom=True, cmp=close_cmp(1e-12, 1e-12), nontrivial=nd > 2,
                                   oracle=fans(np.trace(a, offset=off)), tags=['trace', 'default-axes', srank, 'form=' + form])
    # float fold order: the sum of (1e16, 1, -1e16, …) depends on the order; the reference is the sequential left fold in IEEE double
    vals = [1e16, 1.0, -1e16, 3.0, 1e16, -1e16, 0.5]
    nord = 60 if tier == 'quick' else 400
    for t in range(nord):
        nd = rng.randint(1, 3)
        s = [rng.randint(1, 4) for _ in range(nd)]
        n = prod(s)
        data = [rng.choice(vals) for _ in range(n)]
        sub = rng.choice(list(subsets(nd)) + [None])
        axes = None if sub is None else list(sub)
        keep = rng.randint(0, 1)
        oshape, ores = ref_reduce(lambda x, y: x + y, data, s, axes, bool(keep), None)
        api = rng.choice(['view', 'array'])
        yield Case('fsum api=%s et=f64 shape=%s axis=%s keepdims=%d data=%s' % (api, fmt(s), 'None' if axes is None else fmt(axes), keep,
                   ','.join(repr(x) for x in data)), 'h_c08f4', model=False, cmp=close_cmp(0.0, 0.0),
                   oracle='ok shape=%s data=%s' % (fmt(oshape), ','.join(repr(float(x)) for x in ores)), tags=['float-fold-order', 'api=' + api])


def gen_random_large(tier, rng):
    """sampled larger shapes (rank 1..5, extents 1..7), random axis subsets / signs / order, VERIF_SEED-dependent"""
    nrand = 150 if tier == 'quick' else 1500
    for t in range(nrand):
        nd = rng.randint(1, 5)
        s = [rng.randint(1, 7) for _ in range(nd)]
        while prod(s) > 3000:
            s[rng.randrange(nd)] = 1
        n = prod(s)
        data = list(range(1, n + 1))
        sub = rng.sample(range(nd), rng.randint(1, nd))
        axes = [k - nd if rng.random() < 0.5 else k for k in sub]
        keep = rng.randint(0, 1)
        init = rng.choice([None, 7])
        kd = rng.choice(['ct', 'rt'])
        oshape, ores = ref_reduce(f31, data, s, axes, bool(keep), init)
        yield Case('reduce op=f31 shape=%s axis=%s keepdims=%d init=%s kd=%s ax=vec' % (fmt(s), fmt(axes), keep, init, kd), 'h_c08',
                   oracle=ans(oshape, ores), nontrivial=any(s[k] > 1 for k in sub), tags=['reduce', 'random-large', 'rank=%d' % nd])
        ax = rng.randrange(nd)
        oshape, ores = ref_accumulate(f31, data, s, ax)
        yield Case('accumulate op=f31 shape=%s axis=%d' % (fmt(s), ax - nd if rng.random() < 0.5 else ax), 'h_c08', oracle=ans(oshape, ores), nontrivial=s[ax] > 1,
                   tags=['accumulate', 'random-large', 'rank=%d' % nd])
        if t % 10 == 0:
            oshape, ores = ref_reduce(f31, data, s, None, bool(keep), init)
            yield Case('reduce op=f31 shape=%s axis=None keepdims=%d init=%s kd=%s' % (fmt(s), keep, init, kd), 'h_c08',
                       oracle=ans(oshape, ores), nontrivial=n > 1, tags=['reduce', 'random-large', 'axes=None'])


S_CT = {1: [[0], [-1]], 2: [[0, 1], [1, 0], [-1, -2]], 3: [[0, 1, 2], [2, 0, 1], [-1, 0, -2]]}
S_CT_NAMED = {1: [[0]], 2: [[1, 0]], 3: [[2, 0, 1]]}


def gen_scalar(tier, rng):
    """fixed-dim sources (shape in std::array<size_t,N>) with EVERY axis listed explicitly (run-time int, std::array<int,N>,
    tuple of ct; any order, positive / negative): with keepdims False the number of axes is known at compile time to equal
    the rank, the view is a number and its value comes from the conversion operator of the primary reduce_t template —
    initial absent/present x dtype absent/present x order-revealing op, add, multiply, maximum."""
    E = 3 if tier == 'quick' else 4
    for s in shapes(3, E, min_rank=1):
        nd, n = len(s), prod(s)
        srank = 'rank=%d' % nd
        data = list(range(1, n + 1))
        perms = [list(p) for p in itertools.permutations(range(nd))]
        alls = []
        for p in perms:
            alls.append(p)
            alls.append([k - nd for k in p])
            if nd >= 2:
                m = [k - nd if rng.random() < 0.5 else k for k in p]
                if m not in alls:
                    alls.append(m)
        # ---- order-revealing functor through view::reduce --------------------------------------------------
        for axes in alls:
            for keep in (0, 1):
                for init in (None, 7):
                    oshape, ores = ref_reduce(f31, data, s, axes, bool(keep), init)
                    for kd in ('ct', 'rt'):
                        kinds = ['arr'] + (['int'] if nd == 1 else [])
                        if kd == 'ct' and not keep and axes in S_CT[nd]:
                            kinds.append('ct')
                        for axk in kinds:
                            yield Case('reduce op=f31 shape=%s axis=%s keepdims=%d init=%s kd=%s ax=%s num=%d' % (fmt(s), fmt(axes), keep, init, kd, axk, 0 if keep else 1), 'h_c08s1',
                                       oracle=ans(oshape, ores), nontrivial=n > 1,
                                       tags=['reduce', 'fixed-dim', 'all-axes-explicit', srank, 'keepdims=%d' % keep, 'kd=' + kd, 'ax=' + axk,
                                             'init=' + ('absent' if init is None else 'present')] + (['scalar-result'] if not keep else []))
        # fewer axes than the rank on the same sources: an array again (operator()(indices...))
        if nd >= 2:
            for sub in itertools.combinations(range(nd), nd - 1):
                axes = [k - nd if rng.random() < 0.5 else k for k in sub]
                rng.shuffle(axes)
                for init in (None, 7):
                    keep = rng.randint(0, 1)
                    oshape, ores = ref_reduce(f31, data, s, axes, bool(keep), init)
                    yield Case('reduce op=f31 shape=%s axis=%s keepdims=%d init=%s kd=%s ax=arr num=0' % (fmt(s), fmt(axes), keep, init, rng.choice(['ct', 'rt'])), 'h_c08s1',
                               oracle=ans(oshape, ores), nontrivial=any(s[k] > 1 for k in sub),
                               tags=['reduce', 'fixed-dim', srank, 'init=' + ('absent' if init is None else 'present')])
        # ---- sum / prod / amax, lazily and eagerly, dtype absent / float32 ------------------------------------
        for op in ('add', 'mul', 'max'):
            d = data_for(op, n, rng)
            cand = [rng.choice(alls), rng.choice(alls)] + [a for a in S_CT_NAMED[nd]]
            for axes in cand:
                for init in (None, INIT_OF[op]):
                    oshape, ores = ref_reduce(PY_OP[op], d, s, axes, False, init)
                    assert numpy_reduce(op, d, s, axes, False, init) == (oshape, ores)
                    for dt in ('None', 'f32'):
                        for api in ('view', 'array'):
                            kinds = ['arr'] + (['int'] if nd == 1 else []) + (['ct'] if axes in S_CT_NAMED[nd] else [])
                            for axk in kinds:
                                yield Case('reduce op=%s api=%s dtype=%s shape=%s axis=%s keepdims=0 init=%s kd=ct ax=%s num=1 data=%s' % (
                                    op, api, dt, fmt(s), fmt(axes), init, axk, fmt(d)), 'h_c08s2', oracle=ans(oshape, ores),
                                    nontrivial=n > 1, tags=['named-' + {'add': 'sum', 'mul': 'prod', 'max': 'amax'}[op], 'fixed-dim', 'all-axes-explicit',
                                                            'scalar-result', srank, 'api=' + api, 'dtype=' + dt, 'ax=' + axk,
                                                            'init=' + ('absent' if init is None else 'present')])
                    if op == 'add':
                        # run-time keepdims: either<array, number>
                        for keep in (0, 1):
                            oshape, ores = ref_reduce(PY_OP[op], d, s, axes, bool(keep), init)
                            api, dt = rng.choice(['view', 'array']), rng.choice(['None', 'f32'])
                            yield Case('reduce op=add api=%s dtype=%s shape=%s axis=%s keepdims=%d init=%s kd=rt ax=arr num=%d data=%s' % (
                                api, dt, fmt(s), fmt(axes), keep, init, 0 if keep else 1, fmt(d)), 'h_c08s2', oracle=ans(oshape, ores),
                                nontrivial=n > 1, tags=['named-sum', 'fixed-dim', 'all-axes-explicit', 'kd=rt', srank,
                                                                    'init=' + ('absent' if init is None else 'present')])


def zero_shapes(R, E):
    """every shape of rank 1..R with extents 0..E that contains at least one 0"""
    for nd in range(1, R + 1):
        for s in itertools.product(range(E + 1), repeat=nd):
            if 0 in s:
                yield list(s)


def gen_zero(tier, rng):
    """shapes containing the extent 0.  Two classes, decided by the shape and the axis argument alone:
    * every reduced extent is positive (`PosAxes`, the domain of reduce_elem_eq_foldl_pos_axes): some kept extent is 0, the
      result has the NumPy shape and no element; answered by IMPL, MODEL and ORACLE alike;
    * some reduced extent is 0: when the result has an element, the code folds nothing -> known finding reduce.empty-fold
      (NumPy: the initial value / the identity); when it has none, nothing is evaluated and all three agree again."""
    R, E = (3, 2) if tier == 'quick' else (4, 2)
    for s in zero_shapes(R, E):
        nd = len(s)
        srank = 'rank=%d' % nd
        for sub in list(subsets(nd)) + [None]:
            variants = [None] if sub is None else [list(sub), [k - nd if rng.random() < 0.6 else k for k in reversed(sub)]]
            for axes in variants:
                axs = 'None' if axes is None else fmt(axes)
                Rset = set(range(nd)) if axes is None else {a % nd for a in axes}
                for keep in (0, 1):
                    oshape = [1 if k in Rset else e for k, e in enumerate(s) if keep or k not in Rset]
                    osize = prod(oshape)
                    yield Case('remove_dims shape=%s axis=%s keepdims=%d' % (fmt(s), axs, keep), 'h_c08', oracle='ok ' + fmt(oshape),
                               nontrivial=False, tags=['remove_dims', 'zero-extent', srank])
                    if not empty_fold_class(s, axes, bool(keep)):
                        assert osize == 0
                        tg = ['zero-extent', 'empty-result', srank, 'keepdims=%d' % keep]
                        o = ans(oshape, [])
                        for init in (None, 7):
                            for kd in ('ct', 'rt'):
                                c = Case('reduce op=f31 shape=%s axis=%s keepdims=%d init=%s kd=%s ax=vec' % (fmt(s), axs, keep, init, kd), 'h_c08',
                                         oracle=o, nontrivial=False, tags=['reduce'] + tg)
                                yield c
                                if kd == 'rt':
                                    yield Case(c.req, 'h_c08_san', oracle=o, model=False, nontrivial=False, tags=['sanitizer'] + tg)
                        if axes is not None and len(axes) == 1 and nd <= 3:
                            yield Case('reduce op=f31 shape=%s axis=%s keepdims=%d init=None kd=ct ax=ct' % (fmt(s), axs, keep), 'h_c08c',
                                       oracle=o, nontrivial=False, tags=['reduce', 'ax=ct'] + tg)
                        for op in ('add', 'mul', 'max'):
                            init = rng.choice([None, INIT_OF[op]])
                            base = 'shape=%s axis=%s keepdims=%d init=%s' % (fmt(s), axs, keep, init)
                            yield Case('reduce op=%s %s' % (op, base), 'h_c08n', oracle=o, nontrivial=False, tags=['ufunc-reduce', 'op=' + op] + tg)
                            for api in ('view', 'array'):
                                yield Case('reduce op=%s api=%s ax=vec %s' % (op, api, base), 'h_c08r', oracle=o, nontrivial=False,
                                           tags=['named-' + {'add': 'sum', 'mul': 'prod', 'max': 'amax'}[op], 'api=' + api] + tg)
                        if axes is not None:
                            yield Case('reduce op=add api=%s dtype=f32 shape=%s axis=%s keepdims=%d init=None' % (rng.choice(['view', 'array']), fmt(s), axs, keep),
                                       'h_c08r', oracle=o, nontrivial=False, tags=['named-sum', 'dtype=f32'] + tg)
                        fo = 'ok shape=%s data=[]' % fmt(oshape)
                        for api in ('view', 'array'):
                            base = 'api=%s et=f64 ax=vec shape=%s axis=%s keepdims=%d' % (api, fmt(s), axs, keep)
                            yield Case('mean ' + base, 'h_c08f1', oracle=fo, nontrivial=False, tags=['mean'] + tg)
                            # var broadcasts the keepdims mean (extent 1) against the input: with a REDUCED extent 0 that is
                            # index::broadcast_shape((..0..), (..1..)), which answers 1 instead of 0 (a broadcasting matter, C06;
                            # reported, not judged here) -> var only where every reduced extent is positive
                            if all(s[k] > 0 for k in Rset):
                                yield Case('var ddof=0 ' + base, 'h_c08f1', oracle=fo, nontrivial=False, tags=['var'] + tg)
                    else:
                        # a fold over no element: the initial value, or the identity of add / multiply (NumPy; repaired defect
                        # reduce.empty-fold; theorems reduce_elem_eq_numpy_any_shape, sum/prod_elem_eq_any_shape)
                        tg = ['zero-extent', 'empty-fold', srank, 'keepdims=%d' % keep]
                        for kd in ('ct', 'rt'):
                            c = Case('reduce op=f31 shape=%s axis=%s keepdims=%d init=7 kd=%s ax=vec' % (fmt(s), axs, keep, kd), 'h_c08',
                                     oracle=ans(oshape, [7] * osize), nontrivial=False, tags=['reduce'] + tg)
                            yield c
                            if kd == 'rt':
                                yield Case(c.req, 'h_c08_san', oracle=c.oracle, model=False, nontrivial=False, tags=['sanitizer'] + tg)
                        for op, ident in (('add', 0), ('mul', 1)):
                            for init in (None, INIT_OF[op]):
                                a0 = np.zeros(s, dtype=np.int64)
                                kw = {} if init is None else {'initial': init}
                                r = np.asarray(NP_UFUNC[op].reduce(a0, axis=None if axes is None else tuple(axes), keepdims=bool(keep), **kw))
                                assert list(r.shape) == oshape and all(int(x) == (ident if init is None else init) for x in r.reshape(-1))
                                o = ans(oshape, [int(x) for x in r.reshape(-1)])
                                base = 'shape=%s axis=%s keepdims=%d init=%s' % (fmt(s), axs, keep, init)
                                yield Case('reduce op=%s %s' % (op, base), 'h_c08n', oracle=o, nontrivial=False, tags=['ufunc-reduce', 'op=' + op] + tg)
                                for api in ('view', 'array'):
                                    yield Case('reduce op=%s api=%s ax=vec %s' % (op, api, base), rng.choice(['h_c08r', 'h_c08r_dbg']), oracle=o, nontrivial=False,
                                               tags=['named-' + ('sum' if op == 'add' else 'prod'), 'api=' + api] + tg)
                        yield Case('reduce op=max api=%s ax=vec shape=%s axis=%s keepdims=%d init=3' % (rng.choice(['view', 'array']), fmt(s), axs, keep), 'h_c08r',
                                   oracle=ans(oshape, [3] * osize), nontrivial=False, tags=['named-amax'] + tg)
        # accumulate keeps the source shape: no element, nothing folded
        for ax in range(nd):
            o = ans(s, [])
            yield Case('accumulate op=f31 shape=%s axis=%d' % (fmt(s), ax if rng.random() < 0.5 else ax - nd), 'h_c08', oracle=o, nontrivial=False,
                       tags=['accumulate', 'zero-extent', srank])
            yield Case('accumulate op=add api=%s dtype=None shape=%s axis=%d' % (rng.choice(['view', 'array']), fmt(s), ax), 'h_c08r', oracle=o,
                       nontrivial=False, tags=['named-cumsum', 'zero-extent', srank])
        # trace of an array with an extent 0: off the two axes -> empty result; on one of them -> empty diagonal (known finding)
        if 2 <= nd <= 3:
            for a1, a2 in itertools.permutations(range(nd), 2):
                rest = [e for k, e in enumerate(s) if k not in (a1, a2)]
                req = 'trace api=%s et=i32 shape=%s offset=0 axis1=%d axis2=%d' % (rng.choice(['view', 'array']), fmt(s), a1, a2)
                if prod(rest) == 0 and diag_len(s, 0, a1, a2) > 0:
                    yield Case(req, 'h_c08f4', dom=True, oracle='ok shape=%s data=[]' % fmt(rest), nontrivial=False,
                               tags=['trace', 'zero-extent', 'empty-result', srank])
                elif prod(rest) > 0:
                    yield Case(req, 'h_c08f4', dom=True, cmp=close_cmp(1e-12, 1e-12), nontrivial=False,
                               oracle=fans(np.zeros(rest)), tags=['trace', 'zero-extent', 'empty-diagonal', srank])


def gen_repeated(tier, rng):
    """an axis named twice: NumPy refuses the argument ("duplicate value in 'axis'"), the code does not look.  With keepdims the
    loops of remove_dims / reduction_slices are indifferent to the repetition: the view is NumPy's result for the
    de-duplicated list (theorem reduce_repeated_axes_keepdims; the oracle folds by the SET of axes).  Without keepdims
    remove_dims writes past its result (model: UB) — not requested."""
    R, E = (3, 3) if tier == 'quick' else (4, 3)
    for s in shapes(R, E, min_rank=1):
        nd, n = len(s), prod(s)
        data = list(range(1, n + 1))
        for t in range(2):
            k = rng.randrange(nd)
            axes = [k, k - nd] if t == 0 else [rng.randrange(nd) for _ in range(rng.randint(2, 3))] + [k, k]
            rng.shuffle(axes)
            for init in (None, 7):
                kd = rng.choice(['ct', 'rt'])
                oshape, ores = ref_reduce(f31, data, s, axes, True, init)
                yield Case('reduce op=f31 shape=%s axis=%s keepdims=1 init=%s kd=%s ax=vec' % (fmt(s), fmt(axes), init, kd), 'h_c08',
                           oracle=ans(oshape, ores), nontrivial=any(s[a % nd] > 1 for a in axes), tags=['reduce', 'repeated-axis', 'rank=%d' % nd])
            yield Case('remove_dims shape=%s axis=%s keepdims=1' % (fmt(s), fmt(axes)), 'h_c08', oracle='ok ' + fmt(oshape),
                       tags=['remove_dims', 'repeated-axis'])


_gen_f31 = gen


def gen_witnesses():
    """the witnesses of known/C08.json, re-executed on every run"""
    # repaired (efdf09d): kept as a regression guard, now inside the domain of trace_eq_sum_diag
    yield Case('trace api=view et=i32 shape=2,3 offset=-1 axis1=0 axis2=1 data=1,2,3,4,5,6', 'h_c08f4', model=True, dom=True,
               oracle='ok shape=[] data=4.0', cmp=close_cmp(1e-12, 1e-12), tags=['witness'])
    # repaired (fixes/C08-trace-empty-diagonal.diff): regression guards, inside the domain of the _any_shape theorems
    yield Case('reduce op=add api=view shape=2,0 axis=1 keepdims=0 init=5', 'h_c08r_dbg', oracle='ok shape=2 data=5,5', tags=['witness', 'empty-fold'])
    yield Case('trace api=view et=i32 shape=3,4 offset=4 axis1=0 axis2=1 data=1,2,3,4,5,6,7,8,9,10,11,12', 'h_c08f4',
               oracle='ok shape=[] data=0.0', cmp=close_cmp(1e-12, 1e-12), tags=['witness', 'empty-diagonal'])


def gen_narrow(tier, rng):
    """cumsum / cumprod / sum / prod of int8 / uint8 / int16 data with a wider result dtype: the running value leaves the
    element range, so an accumulator held in the element type wraps (seeded change C08-2).  Reference: NumPy with dtype=."""
    NPT = {'i8': np.int8, 'u8': np.uint8, 'i16': np.int16}
    NPD = {'i32': np.int32, 'i64': np.int64, 'f64': np.float64}
    lim = {'i8': (-128, 127), 'u8': (0, 255), 'i16': (-32768, 32767)}
    shp = [[3], [5], [2, 3], [3, 2], [2, 2, 3]] if tier == 'quick' else [[3], [5], [7], [2, 3], [3, 2], [4, 3], [2, 2, 3], [3, 2, 2]]
    for et in ('i8', 'u8', 'i16'):
        lo, hi = lim[et]
        for s in shp:
            n = prod(s)
            for variant in range(2 if tier == 'quick' else 4):
                # values close to the limits of the element type (sums leave the range after two terms), and small factors
                big = [rng.choice([hi, hi - 1, hi // 2 + 1, lo, lo // 2] if lo < 0 else [hi, hi - 1, hi // 2 + 1, hi // 3]) for _ in range(n)]
                small = [rng.choice([2, 3, 5, 7, -2, -3] if lo < 0 else [2, 3, 5, 7]) * (10 if et != 'i16' else 60) for _ in range(n)]
                for ax in range(-len(s), len(s)):
                    for fn, data in (('cumsum', big), ('sum', big), ('cumprod', small), ('prod', small)):
                        for dt in ('i32', 'i64', 'f64'):
                            a = np.array(data, dtype=NPT[et]).reshape(s)
                            with np.errstate(all='ignore'):
                                r = {'cumsum': np.cumsum, 'cumprod': np.cumprod, 'sum': np.sum, 'prod': np.prod}[fn](a, axis=ax, dtype=NPD[dt])
                            r = np.asarray(r)
                            if dt == 'i32' and fn in ('cumprod', 'prod') and np.abs(np.asarray({'cumprod': np.cumprod, 'prod': np.prod}[fn](a.astype(np.float64), axis=ax))).max() >= 2 ** 31:
                                continue       # would overflow the requested dtype itself: not a statement about the fold
                            api = ('view', 'array')[(variant + ax + len(fn)) % 2]
                            vals = [int(x) for x in r.reshape(-1)]
                            yield Case('narrow et=%s fn=%s api=%s dtype=%s shape=%s axis=%d data=%s' % (et, fn, api, dt, fmt(s), ax, fmt(data)), 'h_c08e',
                                       oracle=ans(list(r.shape), vals), model=False, nontrivial=s[ax] > 1,
                                       tags=['narrow-element-type', 'fn=' + fn, 'et=' + et, 'dtype=' + dt])


def gen_var_dtype(tier, rng):
    """mean / var / stddev with dtype=float64 on int32 and float32 sources whose values sit near 2^24: the float32 mean (the
    promotion these routines use when no dtype is given) is inexact there, so a float32 intermediate anywhere shows as an
    error of order 1 in the variance; NumPy with dtype=float64 is the reference"""
    R, E = (3, 3) if tier == 'quick' else (3, 4)
    k = 0
    for s in shapes(R, E, min_rank=1):
        nd, n = len(s), prod(s)
        if n < 2:
            continue
        for et in ('i32', 'f32'):
            if et == 'i32':
                data = [16777216 + rng.choice([1, 3, 5, 7, 9, -3, -7, 11, 13]) + 2 * rng.randint(-3, 3) * (j % 2) for j in range(n)]
                a = np.array(data, dtype=np.int32).reshape(s)
            else:
                data = [16777216 + 2 * rng.randint(-40, 40) for j in range(n)]       # even: exact in float32
                a = np.array(data, dtype=np.float32).reshape(s)
            for sub in list(subsets(nd)) + [None]:
                k += 1
                if tier == 'quick' and nd == 3 and k % 2:
                    continue
                if sub is None:
                    axes, count = None, n
                else:
                    axes = [x - nd if rng.random() < 0.4 else x for x in sub]
                    count = prod([s[x] for x in sub])
                if count < 2:
                    continue
                ax = None if axes is None else tuple(axes)
                axs = 'None' if axes is None else fmt(axes)
                for keep in (0, 1):
                    api = 'view' if (k + keep) % 2 else 'array'
                    axk = 'int' if (axes is not None and len(axes) == 1 and rng.random() < 0.5) else 'vec'
                    base = 'api=%s et=%s dtype=f64 shape=%s axis=%s ax=%s keepdims=%d' % (api, et, fmt(s), axs, axk, keep)
                    tol = close_cmp(1e-7, 1e-6)
                    tg = ['explicit-dtype', 'api=' + api, 'et=' + et, 'rank=%d' % nd, 'keepdims=%d' % keep]
                    yield Case('vardt op=mean %s data=%s' % (base, fmt(data)), 'h_c08v', model=False, cmp=tol, tags=['mean'] + tg,
                               oracle=fans(np.mean(a, axis=ax, dtype=np.float64, keepdims=bool(keep))))
                    for ddof in (0, 1):
                        yield Case('vardt op=var %s ddof=%d data=%s' % (base, ddof, fmt(data)), 'h_c08v', model=False, cmp=tol, tags=['var'] + tg,
                                   oracle=fans(np.var(a, axis=ax, dtype=np.float64, ddof=ddof, keepdims=bool(keep))))
                        yield Case('vardt op=stddev %s ddof=%d data=%s' % (base, ddof, fmt(data)), 'h_c08v', model=False, cmp=tol, tags=['stddev'] + tg,
                                   oracle=fans(np.std(a, axis=ax, dtype=np.float64, ddof=ddof, keepdims=bool(keep))))


def gen(tier, rng):
    yield from gen_witnesses()
    yield from gen_narrow(tier, rng)
    yield from gen_var_dtype(tier, rng)
    k = 0
    for c in _gen_f31(tier, rng):
        yield c
        # every 4th request of the f31 stream again under ASan + UBSan with asserts enabled
        k += 1
        if c.harness == 'h_c08' and k % 4 == 0:
            yield Case(c.req, 'h_c08_san', dom=c.dom, oracle=c.oracle, model=False, nontrivial=c.nontrivial, tags=['sanitizer'])
    yield from gen_ufuncs(tier, rng)
    yield from gen_float(tier, rng)
    yield from gen_random_large(tier, rng)
    yield from gen_zero(tier, rng)
    yield from gen_repeated(tier, rng)
    yield from gen_scalar(tier, rng)
