import NmVerif.Lemmas.SliceND
/-
  C05 helper lemmas, part 3: the run-time (list of either) loops of shape_dynamic_slice / dynamic_slice compute what the
  compile-time (`template_for`) recursion of shape_slice / slice computes, wherever the latter has a value.
-/
namespace NmVerif.Slice
open NmVerif

theorem getElem?_pre (pre : List Nat) (n : Nat) (t : List Nat) : (pre ++ n :: t)[pre.length]? = some n := by
  simp

theorem foldl_none_shape (shape : List Nat) (nEll : Nat) (es : List Entry) :
    es.foldl (shapeDynStep shape nEll) none = none := by
  induction es with
  | nil => rfl
  | cons e es ih => simp [List.foldl, shapeDynStep, ih]

/-- the counter-based loop of `shape_dynamic_slice` computes what the `template_for` recursion of `shape_slice` does -/
theorem shapeDyn_go (nEll : Nat) : ∀ (es : List Entry) (sh pre acc r : List Nat),
    shapeGo nEll sh es = some r →
    (es.foldl (shapeDynStep (pre ++ sh) nEll) (some ⟨acc, pre.length⟩)).map (·.res) = some (acc ++ r) := by
  intro es
  induction es with
  | nil => intro sh pre acc r h; simp [shapeGo] at h; subst h; simp
  | cons e es ih =>
    intro sh pre acc r h
    cases sh with
    | nil => simp [shapeGo] at h
    | cons n t =>
      cases e with
      | ellipsis =>
        simp only [shapeGo] at h
        split at h
        · rename_i hle
          obtain ⟨r', hr', rfl⟩ := Option.map_eq_some_iff.1 h
          have key := ih ((n :: t).drop nEll) (pre ++ (n :: t).take nEll) (acc ++ (n :: t).take nEll) r' hr'
          have e1 : pre ++ (n :: t).take nEll ++ (n :: t).drop nEll = pre ++ n :: t := by
            rw [List.append_assoc, List.take_append_drop]
          rw [e1] at key
          simp only [List.foldl, shapeDynStep]
          have hle' : pre.length + nEll ≤ (pre ++ n :: t).length := by simp only [List.length_append]; omega
          rw [if_pos hle']
          have e2 : (pre ++ n :: t).drop pre.length = n :: t := by simp
          rw [e2]
          have e3 : (pre ++ (n :: t).take nEll).length = pre.length + nEll := by
            rw [List.length_append, List.length_take]; omega
          rw [e3] at key
          rw [key, List.append_assoc]
        · simp at h
      | int k =>
        simp only [shapeGo] at h
        have key := ih t (pre ++ [n]) acc r h
        have e1 : pre ++ [n] ++ t = pre ++ n :: t := by simp
        rw [e1] at key
        simp only [List.foldl, shapeDynStep]
        simpa using key
      | range a b c =>
        simp only [shapeGo] at h
        split at h
        · rename_i l hl
          obtain ⟨r', hr', rfl⟩ := Option.map_eq_some_iff.1 h
          have key := ih t (pre ++ [n]) (acc ++ [l.toNat]) r' hr'
          have e1 : pre ++ [n] ++ t = pre ++ n :: t := by simp
          rw [e1] at key
          simp only [List.foldl, shapeDynStep, getElem?_pre, hl]
          simpa using key
        · simp at h
      | range2 a b =>
        simp only [shapeGo] at h
        split at h
        · rename_i l hl
          obtain ⟨r', hr', rfl⟩ := Option.map_eq_some_iff.1 h
          have key := ih t (pre ++ [n]) (acc ++ [l.toNat]) r' hr'
          have e1 : pre ++ [n] ++ t = pre ++ n :: t := by simp
          rw [e1] at key
          simp only [List.foldl, shapeDynStep, getElem?_pre, hl]
          simpa using key
        · simp at h

theorem shape_packed_eq_dynamic (shape : List Nat) (es : List Entry) (r : List Nat)
    (h : shapeSlice shape es = some r) : shapeDynamicSlice shape es = some r := by
  unfold shapeSlice at h
  unfold shapeDynamicSlice
  simp only at h ⊢
  split at h
  · simp at h
  · rename_i h1
    split at h
    · simp at h
    · rename_i h2
      rw [if_neg h1, if_neg h2]
      obtain ⟨r', hr', hp⟩ := Option.bind_eq_some_iff.1 h
      have key := shapeDyn_go _ es shape [] [] r' hr'
      simp only [List.nil_append, List.length_nil] at key
      rw [key]
      simpa using hp

theorem idxDyn_range_step (nEll n i : Nat) (t ix pre ipre acc : List Nat) (e : Entry) (es : List Entry)
    (he : (∃ a b c, e = .range a b c) ∨ (∃ a b, e = .range2 a b)) :
    (e :: es).foldl (idxDynStep (pre ++ n :: t) (ipre ++ i :: ix) nEll) (some ⟨acc, pre.length, ipre.length⟩) =
    es.foldl (idxDynStep (pre ++ n :: t) (ipre ++ i :: ix) nEll) (some ⟨acc ++ [(e.idx n i).toNat], pre.length + 1, ipre.length + 1⟩) := by
  rcases he with ⟨a, b, c, rfl⟩ | ⟨a, b, rfl⟩ <;> simp [List.foldl, idxDynStep]

theorem idxDyn_go (nEll : Nat) : ∀ (es : List Entry) (sh pre ix ipre acc r : List Nat),
    idxGo nEll sh ix es = some r →
    (es.foldl (idxDynStep (pre ++ sh) (ipre ++ ix) nEll) (some ⟨acc, pre.length, ipre.length⟩)).map (·.res) = some (acc ++ r) := by
  intro es
  induction es with
  | nil => intro sh pre ix ipre acc r h; simp [idxGo] at h; subst h; simp
  | cons e es ih =>
    intro sh pre ix ipre acc r h
    cases sh with
    | nil => simp [idxGo] at h
    | cons n t =>
      cases e with
      | ellipsis =>
        simp only [idxGo] at h
        split at h
        · rename_i hle
          obtain ⟨r', hr', rfl⟩ := Option.map_eq_some_iff.1 h
          have key := ih ((n :: t).drop nEll) (pre ++ (n :: t).take nEll) (ix.drop nEll) (ipre ++ ix.take nEll)
            (acc ++ ix.take nEll) r' hr'
          have e1 : pre ++ (n :: t).take nEll ++ (n :: t).drop nEll = pre ++ n :: t := by
            rw [List.append_assoc, List.take_append_drop]
          have e1' : ipre ++ ix.take nEll ++ ix.drop nEll = ipre ++ ix := by
            rw [List.append_assoc, List.take_append_drop]
          rw [e1, e1'] at key
          simp only [List.foldl, idxDynStep]
          have hle' : pre.length + nEll ≤ (pre ++ n :: t).length ∧ ipre.length + nEll ≤ (ipre ++ ix).length := by
            simp only [List.length_append]; omega
          rw [if_pos hle']
          have e2 : (ipre ++ ix).drop ipre.length = ix := by simp
          rw [e2]
          have e3 : (pre ++ (n :: t).take nEll).length = pre.length + nEll := by
            rw [List.length_append, List.length_take]; omega
          have e3' : (ipre ++ ix.take nEll).length = ipre.length + nEll := by
            rw [List.length_append, List.length_take]; omega
          rw [e3, e3'] at key
          rw [key, List.append_assoc]
        · simp at h
      | int k =>
        simp only [idxGo] at h
        obtain ⟨r', hr', rfl⟩ := Option.map_eq_some_iff.1 h
        have key := ih t (pre ++ [n]) ix ipre (acc ++ [(intIndex n k).toNat]) r' hr'
        have e1 : pre ++ [n] ++ t = pre ++ n :: t := by simp
        rw [e1] at key
        simp only [List.foldl, idxDynStep, getElem?_pre]
        simpa using key
      | range a b c =>
        cases ix with
        | nil => simp [idxGo] at h
        | cons i ix =>
          simp only [idxGo] at h
          obtain ⟨r', hr', rfl⟩ := Option.map_eq_some_iff.1 h
          have key := ih t (pre ++ [n]) ix (ipre ++ [i]) (acc ++ [((Entry.range a b c).idx n i).toNat]) r' hr'
          have e1 : pre ++ [n] ++ t = pre ++ n :: t := by simp
          have e1' : ipre ++ [i] ++ ix = ipre ++ i :: ix := by simp
          rw [e1, e1'] at key
          rw [idxDyn_range_step _ _ _ _ _ _ _ _ _ _ (Or.inl ⟨a, b, c, rfl⟩)]
          simpa using key
      | range2 a b =>
        cases ix with
        | nil => simp [idxGo] at h
        | cons i ix =>
          simp only [idxGo] at h
          obtain ⟨r', hr', rfl⟩ := Option.map_eq_some_iff.1 h
          have key := ih t (pre ++ [n]) ix (ipre ++ [i]) (acc ++ [((Entry.range2 a b).idx n i).toNat]) r' hr'
          have e1 : pre ++ [n] ++ t = pre ++ n :: t := by simp
          have e1' : ipre ++ [i] ++ ix = ipre ++ i :: ix := by simp
          rw [e1, e1'] at key
          rw [idxDyn_range_step _ _ _ _ _ _ _ _ _ _ (Or.inr ⟨a, b, rfl⟩)]
          simpa using key

theorem idx_packed_eq_dynamic (shape : List Nat) (es : List Entry) (d r : List Nat)
    (h : sliceIdx shape es d = some r) : dynamicSlice shape es d = some r := by
  unfold sliceIdx at h
  unfold dynamicSlice
  simp only at h ⊢
  split at h
  · simp at h
  · rename_i h1
    rw [if_neg h1]
    obtain ⟨r', hr', hp⟩ := Option.bind_eq_some_iff.1 h
    have key := idxDyn_go _ es shape [] d [] [] r' hr'
    simp only [List.nil_append, List.length_nil] at key
    rw [key]
    simpa using hp


end NmVerif.Slice
