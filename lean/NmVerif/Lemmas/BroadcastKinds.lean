import NmVerif.Index.BroadcastKinds
import NmVerif.Lemmas.Broadcast
/-
  Lemmas for the kinded model of broadcast_shape (Index/BroadcastKinds.lean): the result container that
  `resolveBroadcast` (mirror of meta::resolve_optype<broadcast_shape_t>) picks is never too small for the broadcast
  of well-formed operands, for single calls (`resolveBroadcast_fits`, `kPair_faithful`) and for nests
  (`keval_faithful`).  The property-level statements are in Props/C06.lean.
-/
namespace NmVerif

/-- pointwise `≤` of two lists of the same length -/
def LeL : List Nat → List Nat → Prop
  | [], [] => True
  | x :: xs, y :: ys => x ≤ y ∧ LeL xs ys
  | _, _ => False

instance : (a b : List Nat) → Decidable (LeL a b)
  | [], [] => isTrue trivial
  | x :: xs, y :: ys => by
      unfold LeL
      have := instDecidableLeL xs ys
      exact inferInstance
  | [], _ :: _ => isFalse (by simp [LeL])
  | _ :: _, [] => isFalse (by simp [LeL])

theorem LeL.length_eq {a b : List Nat} (h : LeL a b) : a.length = b.length := by
  induction a generalizing b with
  | nil => cases b <;> simp_all [LeL]
  | cons x xs ih => cases b with
    | nil => simp [LeL] at h
    | cons y ys => simp only [LeL] at h; simp [ih h.2]

theorem LeL.refl (a : List Nat) : LeL a a := by
  induction a with
  | nil => trivial
  | cons x xs ih => exact ⟨Nat.le_refl x, ih⟩

theorem LeL.append {a b c d : List Nat} (h1 : LeL a b) (h2 : LeL c d) : LeL (a ++ c) (b ++ d) := by
  induction a generalizing b with
  | nil => cases b <;> simp_all [LeL]
  | cons x xs ih => cases b with
    | nil => simp [LeL] at h1
    | cons y ys => simp only [LeL] at h1; exact ⟨h1.1, ih h1.2⟩

theorem LeL.reverse {a b : List Nat} (h : LeL a b) : LeL a.reverse b.reverse := by
  induction a generalizing b with
  | nil => cases b <;> simp_all [LeL]
  | cons x xs ih => cases b with
    | nil => simp [LeL] at h
    | cons y ys =>
      simp only [LeL] at h
      simp only [List.reverse_cons]
      exact LeL.append (ih h.2) ⟨h.1, trivial⟩

theorem LeL.gd_le {a b : List Nat} (h : LeL a b) (k : Nat) : gd a k ≤ gd b k := by
  induction a generalizing b k with
  | nil => cases b <;> simp_all [LeL]
  | cons x xs ih => cases b with
    | nil => simp [LeL] at h
    | cons y ys =>
      simp only [LeL] at h
      cases k with
      | zero => simpa using h.1
      | succ n => simpa using ih h.2 n

theorem LeL_of_gd {a b : List Nat} (hl : a.length = b.length) (h : ∀ k, k < a.length → gd a k ≤ gd b k) : LeL a b := by
  induction a generalizing b with
  | nil => cases b <;> simp_all [LeL]
  | cons x xs ih => cases b with
    | nil => simp at hl
    | cons y ys =>
      refine ⟨by simpa using h 0 (by simp), ih (by simpa using hl) (fun k hk => ?_)⟩
      simpa using h (k+1) (by simp; omega)

theorem LeL.of_reverse {a b : List Nat} (h : LeL a.reverse b.reverse) : LeL a b := by
  simpa using h.reverse

theorem LeL.pos {a b : List Nat} (h : LeL a b) (hp : Pos a) : Pos b := by
  induction a generalizing b with
  | nil => cases b with
    | nil => intro x hx; simp at hx
    | cons y ys => simp [LeL] at h
  | cons x xs ih => cases b with
    | nil => simp [LeL] at h
    | cons y ys =>
      simp only [LeL] at h
      intro v hv
      simp only [List.mem_cons] at hv
      rcases hv with rfl | hv
      · have := hp x (by simp); omega
      · exact ih h.2 (fun u hu => hp u (by simp [hu])) v hv

theorem zipWith_min_of_LeL {r bs : List Nat} (h : LeL r bs) : List.zipWith min r bs = r := by
  induction r generalizing bs with
  | nil => simp
  | cons x xs ih => cases bs with
    | nil => simp [LeL] at h
    | cons y ys =>
      simp only [LeL] at h
      simp [ih h.2, Nat.min_eq_left h.1]

theorem clampCount_of_LeL {r bs : List Nat} (h : LeL r bs) :
    (List.zipWith (fun v b => if v > b then 1 else 0) r bs).sum = 0 := by
  induction r generalizing bs with
  | nil => simp
  | cons x xs ih => cases bs with
    | nil => simp [LeL] at h
    | cons y ys =>
      simp only [LeL] at h
      have : ¬ x > y := by omega
      simp [ih h.2, this]


theorem LeL.le_listMax {r bs : List Nat} (h : LeL r bs) {v : Nat} (hv : v ∈ r) : v ≤ listMax bs := by
  induction r generalizing bs with
  | nil => simp at hv
  | cons x xs ih => cases bs with
    | nil => simp [LeL] at h
    | cons y ys =>
      simp only [LeL] at h
      simp only [List.mem_cons] at hv
      simp only [listMax]
      rcases hv with rfl | hv
      · omega
      · have := ih h.2 hv; omega

/-! ### well-formed operands, and what it means for a value to fit a result container -/

/-- the run-time value of an operand is consistent with what its type says -/
def KShape.WF (a : KShape) : Prop :=
  Pos a.vals ∧
  (a.info.isNone = true → a.vals = [] ∧ a.info.const = false ∧ a.info.bounds = none) ∧
  (a.info.const = true → a.info.bounds = none ∧ a.info.lenv = a.vals.length) ∧
  (∀ bs, a.info.bounds = some bs → LeL a.vals bs ∧ a.info.lenv = bs.length) ∧
  (0 < a.info.lenv → a.info.lenv = a.vals.length) ∧
  (∀ c, a.info.bsize = some c → a.vals.length ≤ c)

/-- the extents `r` can be stored into the container `t` without clamping / overflow (and are the constant the
    type carries, for a constant type) -/
def RType.Fits (t : RType) (r : Shape) : Prop :=
  match t with
  | .error => False
  | .noneT => r = []
  | .constT v => r = v
  | .clippedT bs => LeL r bs
  | .arr n => r.length = n
  | .clippedArr m n => r.length = n ∧ ∀ v ∈ r, v ≤ m
  | .svec c => r.length ≤ c
  | .list => True

theorem map_min_of_le {r : List Nat} {m : Nat} (h : ∀ v ∈ r, v ≤ m) : r.map (min · m) = r := by
  induction r with
  | nil => rfl
  | cons x xs ih =>
    have := h x (by simp)
    simp [ih (fun v hv => h v (by simp [hv])), Nat.min_eq_left this]

theorem clampCountArr_of_le {r : List Nat} {m : Nat} (h : ∀ v ∈ r, v ≤ m) :
    (r.map (fun v => if v > m then 1 else 0)).sum = 0 := by
  induction r with
  | nil => rfl
  | cons x xs ih =>
    have : ¬ x > m := by have := h x (by simp); omega
    simp [ih (fun v hv => h v (by simp [hv])), this]

theorem RType.store_of_fits {t : RType} {r : Shape} (h : t.Fits r) : t.store r = (r, 0, 0) := by
  cases t with
  | error => exact absurd h (by simp [RType.Fits])
  | noneT => rfl
  | constT v => rfl
  | clippedT bs =>
    simp only [RType.Fits] at h
    simp [RType.store, zipWith_min_of_LeL h, clampCount_of_LeL h]
  | arr n => rfl
  | clippedArr m n =>
    simp only [RType.Fits] at h
    simp [RType.store, map_min_of_le h.2, clampCountArr_of_le h.2]
  | svec c =>
    simp only [RType.Fits] at h
    simp [RType.store, h]
  | list => rfl

theorem replicate_LeL {r : List Nat} {m : Nat} (h : ∀ v ∈ r, v ≤ m) : LeL r (List.replicate r.length m) := by
  induction r with
  | nil => trivial
  | cons x xs ih =>
    exact ⟨h x (by simp), ih (fun v hv => h v (by simp [hv]))⟩

/-- a value that fits its container is a well-formed operand of the next call -/
theorem RType.wf_of_fits {t : RType} {r : Shape} (hp : Pos r) (h : t.Fits r) : KShape.WF ⟨t.info, r⟩ := by
  cases t with
  | error => exact absurd h (by simp [RType.Fits])
  | noneT =>
    simp only [RType.Fits] at h; subst h
    simp [KShape.WF, RType.info, KInfo.none', Pos]
  | constT v =>
    simp only [RType.Fits] at h; subst h
    exact ⟨hp, by simp [RType.info, KInfo.ct], by simp [RType.info, KInfo.ct], by simp [RType.info, KInfo.ct],
      by simp [RType.info, KInfo.ct], by simp [RType.info, KInfo.ct]⟩
  | clippedT bs =>
    simp only [RType.Fits] at h
    have hl := h.length_eq
    refine ⟨hp, by simp [RType.info, KInfo.cl], by simp [RType.info, KInfo.cl], ?_, ?_, ?_⟩
    · intro bs' e; simp only [RType.info, KInfo.cl, Option.some.injEq] at e; subst e; exact ⟨h, rfl⟩
    · intro _; simp [RType.info, KInfo.cl, hl]
    · intro c e; simp only [RType.info, KInfo.cl, Option.some.injEq] at e; show r.length ≤ c; omega
  | arr n =>
    simp only [RType.Fits] at h
    refine ⟨hp, by simp [RType.info, KInfo.arr], by simp [RType.info, KInfo.arr], by simp [RType.info, KInfo.arr], ?_, ?_⟩
    · intro _; simp [RType.info, KInfo.arr, h]
    · intro c e; simp only [RType.info, KInfo.arr, Option.some.injEq] at e; show r.length ≤ c; omega
  | clippedArr m n =>
    simp only [RType.Fits] at h
    obtain ⟨hl, hm⟩ := h
    refine ⟨hp, by simp [RType.info, KInfo.cl], by simp [RType.info, KInfo.cl], ?_, ?_, ?_⟩
    · intro bs' e
      simp only [RType.info, KInfo.cl, Option.some.injEq] at e; subst e
      exact ⟨by rw [← hl]; exact replicate_LeL hm, by simp [RType.info, KInfo.cl]⟩
    · intro _; simp [RType.info, KInfo.cl, hl]
    · intro c e; simp only [RType.info, KInfo.cl, List.length_replicate, Option.some.injEq] at e; show r.length ≤ c; omega
  | svec c =>
    simp only [RType.Fits] at h
    refine ⟨hp, by simp [RType.info, KInfo.sv], by simp [RType.info, KInfo.sv], by simp [RType.info, KInfo.sv], by simp [RType.info, KInfo.sv], ?_⟩
    intro c' e; simp only [RType.info, KInfo.sv, Option.some.injEq] at e; show r.length ≤ c'; omega
  | list =>
    exact ⟨hp, by simp [RType.info, KInfo.dyn], by simp [RType.info, KInfo.dyn], by simp [RType.info, KInfo.dyn],
      by simp [RType.info, KInfo.dyn], by simp [RType.info, KInfo.dyn]⟩

/-- an operand fits the container it has itself -/
theorem RType.ofOperand_fits {a : KShape} (h : a.WF) : (RType.ofOperand a).Fits a.vals := by
  obtain ⟨hp, hn, hc, hb, hl, hs⟩ := h
  unfold RType.ofOperand
  split
  · rename_i h1; exact (hn h1).1
  · split
    · rfl
    · cases hbs : a.info.bounds with
      | some bs =>
        simp only
        split
        · exact ⟨(hb bs hbs).1.length_eq, fun v hv => LeL.le_listMax (hb bs hbs).1 hv⟩
        · exact (hb bs hbs).1
      | none =>
        simp only
        split
        · rename_i h3; exact (hl h3).symm
        · cases hbz : a.info.bsize with
          | some c => exact hs c hbz
          | none => trivial


/-! ### values: what `broadcastShape2` returns in the situations the resolver distinguishes -/

theorem bc2_some {a b r : Shape} (h : broadcastShape2 a b = some r) : ∃ rR, bcRev a.reverse b.reverse = some rR ∧ r = rR.reverse := by
  unfold broadcastShape2 at h
  simp only [Option.map_eq_some_iff] at h
  obtain ⟨rR, h1, h2⟩ := h
  exact ⟨rR, h1, h2.symm⟩

theorem bc2_length {a b r : Shape} (ha : Pos a) (hb : Pos b) (h : broadcastShape2 a b = some r) :
    r.length = max a.length b.length := by
  obtain ⟨rR, h1, rfl⟩ := bc2_some h
  have := ((bcRev_spec ha.reverse hb.reverse rR).1 h1).1
  simpa using this

theorem bc2_pos {a b r : Shape} (ha : Pos a) (hb : Pos b) (h : broadcastShape2 a b = some r) : Pos r := by
  obtain ⟨rR, h1, rfl⟩ := bc2_some h
  exact (bcRev_pos ha.reverse hb.reverse h1).reverse

theorem bc2_nil_left (b : Shape) : broadcastShape2 [] b = some b := by
  simp [broadcastShape2, bcRev]

theorem bc2_nil_right (a : Shape) : broadcastShape2 a [] = some a := by
  simp [broadcastShape2, bcRev_nil_right]

/-- monotone in both operands: below the bounds the result is below the result of the bounds -/
theorem bc2_LeL {a b A B r R : Shape} (ha : Pos a) (hb : Pos b) (hA : LeL a A) (hB : LeL b B)
    (h : broadcastShape2 a b = some r) (hR : broadcastShape2 A B = some R) : LeL r R := by
  obtain ⟨rR, h1, rfl⟩ := bc2_some h
  obtain ⟨RR, h2, rfl⟩ := bc2_some hR
  obtain ⟨l1, k1⟩ := (bcRev_spec ha.reverse hb.reverse rR).1 h1
  obtain ⟨l2, k2⟩ := (bcRev_spec (hA.pos ha).reverse (hB.pos hb).reverse RR).1 h2
  apply LeL.reverse
  apply LeL_of_gd
  · have := hA.length_eq; have := hB.length_eq
    simp only [List.length_reverse] at l1 l2; omega
  · intro k _
    rw [(k1 k).2, (k2 k).2]
    have := hA.reverse.gd_le k; have := hB.reverse.gd_le k
    omega

/-- against a shape whose extents are all > 1 and that is not shorter, a compatible operand changes nothing -/
theorem bc2_eq_left {A b r : Shape} (hA : ∀ v ∈ A, 1 < v) (hb : Pos b) (hl : b.length ≤ A.length)
    (h : broadcastShape2 A b = some r) : r = A := by
  have hpA : Pos A := fun v hv => by have := hA v hv; omega
  obtain ⟨rR, h1, rfl⟩ := bc2_some h
  obtain ⟨l1, k1⟩ := (bcRev_spec hpA.reverse hb.reverse rR).1 h1
  have : rR = A.reverse := by
    apply ext_gd
    · simp only [List.length_reverse] at l1 ⊢; omega
    · intro k
      rw [(k1 k).2]
      by_cases hk : k < A.reverse.length
      · have hc := (k1 k).1
        have hmem : gd A.reverse k ∈ A := by
          rw [gd_of_lt hk]; exact List.mem_reverse.1 (List.getElem_mem hk)
        have := hA _ hmem
        unfold compat at hc
        omega
      · have e1 : gd A.reverse k = 1 := gd_of_ge (by omega)
        have e2 : gd b.reverse k = 1 := gd_of_ge (by simp only [List.length_reverse] at hk ⊢; omega)
        omega
  rw [this]; simp

theorem bc2_eq_right {a B r : Shape} (hB : ∀ v ∈ B, 1 < v) (ha : Pos a) (hl : a.length ≤ B.length)
    (h : broadcastShape2 a B = some r) : r = B := by
  have : broadcastShape2 B a = some r := by
    unfold broadcastShape2 at h ⊢; rw [bcRev_comm]; exact h
  exact bc2_eq_left hB ha hl this

theorem le_listMax {l : List Nat} {v : Nat} (h : v ∈ l) : v ≤ listMax l := by
  induction l with
  | nil => simp at h
  | cons x xs ih =>
    simp only [List.mem_cons] at h
    simp only [listMax]
    rcases h with rfl | h
    · omega
    · have := ih h; omega

theorem all_gt_one_of_not_any_one {A : Shape} (hp : Pos A) (h : A.any (fun v => v == 1) = false) : ∀ v ∈ A, 1 < v := by
  intro v hv
  have h1 := hp v hv
  have : v ≠ 1 := by
    intro e
    have : A.any (fun v => v == 1) = true := List.any_eq_true.2 ⟨v, hv, by simp [e]⟩
    rw [h] at this; cases this
  omega

theorem all_gt_one_of_all {A : Shape} (h : A.all (fun v => decide (1 < v)) = true) : ∀ v ∈ A, 1 < v := by
  intro v hv
  have := List.all_eq_true.1 h v hv
  simpa using this


/-! ### the resolver picks a container the result fits -/

theorem bc2_comm' (a b : Shape) : broadcastShape2 a b = broadcastShape2 b a := by
  unfold broadcastShape2; rw [bcRev_comm]

theorem KShape.toValue_spec {a : KShape} (h : a.WF) (hs : a.isStatic = true) :
    ∃ A, a.toValue = some A ∧ LeL a.vals A ∧ a.info.lenv = A.length ∧ (a.info.const = true → A = a.vals) := by
  obtain ⟨hp, hn, hc, hb, hl, hz⟩ := h
  unfold KShape.toValue
  by_cases c : a.info.const = true
  · refine ⟨a.vals, by simp [c], LeL.refl _, (hc c).2, fun _ => rfl⟩
  · have c' : a.info.const = false := by simpa using c
    simp only [KShape.isStatic, c', Bool.false_or] at hs
    obtain ⟨bs, hbs⟩ := Option.isSome_iff_exists.1 hs
    refine ⟨bs, by simp [c, hbs], (hb bs hbs).1, (hb bs hbs).2, fun e => absurd e c⟩

theorem constVsFixed_fits {A : Shape} {n : Nat} {r : Shape} (hr : r = A ∨ ¬ (A.all (fun v => decide (1 < v)) = true)) (hn : r.length = n) :
    (constVsFixed A n).Fits r := by
  unfold constVsFixed
  split
  · rename_i h
    rcases hr with rfl | h'
    · exact LeL.refl _
    · exact absurd h h'
  · exact hn

theorem resolveFixed_fits {a b : KShape} (ha : a.WF) (hb : b.WF) (hla : 0 < a.info.lenv) (hlb : 0 < b.info.lenv)
    {r : Shape} (hr : broadcastShape2 a.vals b.vals = some r) : (resolveFixed a b).Fits r := by
  have ea := ha.2.2.2.2.1 hla
  have eb := hb.2.2.2.2.1 hlb
  have hlen := bc2_length ha.1 hb.1 hr
  unfold resolveFixed
  simp only
  split
  · rename_i h
    simp only [Bool.and_eq_true, decide_eq_true_eq] at h
    apply constVsFixed_fits _ (by omega)
    by_cases hall : a.vals.all (fun v => decide (1 < v)) = true
    · left; exact bc2_eq_left (all_gt_one_of_all hall) hb.1 (by omega) hr
    · right; exact hall
  · split
    · rename_i h
      simp only [Bool.and_eq_true, decide_eq_true_eq] at h
      apply constVsFixed_fits _ (by omega)
      by_cases hall : b.vals.all (fun v => decide (1 < v)) = true
      · left; exact bc2_eq_right (all_gt_one_of_all hall) ha.1 (by omega) hr
      · right; exact hall
    · show r.length = _; omega

/-- `x` of known length against `y` of bounded length `cy` -/
theorem resolveVsBounded_fits {x y : KShape} (hx : x.WF) (hy : y.WF) (hlx : 0 < x.info.lenv) {cy : Nat}
    (hcy : y.info.bsize = some cy) {r : Shape} (hr : broadcastShape2 x.vals y.vals = some r) :
    (resolveVsBounded x cy).Fits r := by
  have ex := hx.2.2.2.2.1 hlx
  have ey := hy.2.2.2.2.2 cy hcy
  have hlen := bc2_length hx.1 hy.1 hr
  unfold resolveVsBounded
  simp only
  split
  · rename_i h
    simp only [Bool.and_eq_true, decide_eq_true_eq] at h
    unfold constVsBounded
    split
    · show r.length ≤ _; omega
    · rename_i hany
      have hall := all_gt_one_of_not_any_one hx.1 (Bool.eq_false_iff.2 hany)
      have e : r = x.vals := bc2_eq_left hall hy.1 (by omega) hr
      subst e
      exact ⟨rfl, fun v hv => le_listMax hv⟩
  · show r.length ≤ _; omega

theorem resolveIndex_fits {a b : KShape} (ha : a.WF) (hb : b.WF) {r : Shape}
    (hr : broadcastShape2 a.vals b.vals = some r) : (resolveIndex a b).Fits r := by
  have hlen := bc2_length ha.1 hb.1 hr
  unfold resolveIndex
  split
  · rename_i h; exact resolveFixed_fits ha hb h.1 h.2 hr
  · split
    · rename_i cb hla hcb
      exact resolveVsBounded_fits ha hb (by simpa using hla) hcb hr
    · split
      · rename_i ca hlb hca
        exact resolveVsBounded_fits hb ha (by simpa using hlb) hca (by rw [bc2_comm']; exact hr)
      · split
        · rename_i ca cb hca hcb
          have := ha.2.2.2.2.2 ca hca; have := hb.2.2.2.2.2 cb hcb
          show r.length ≤ _; omega
        · trivial

theorem resolveStatic_fits {a b : KShape} (ha : a.WF) (hb : b.WF) {A B : Shape}
    (hA : LeL a.vals A) (hB : LeL b.vals B) (hla : a.info.lenv = A.length) (hlb : b.info.lenv = B.length)
    (hcA : a.info.const = true → A = a.vals) (hcB : b.info.const = true → B = b.vals)
    {r : Shape} (hr : broadcastShape2 a.vals b.vals = some r)
    (hne : resolveStatic (a.info.const && b.info.const) (max a.info.lenv b.info.lenv) A B ≠ .error) :
    (resolveStatic (a.info.const && b.info.const) (max a.info.lenv b.info.lenv) A B).Fits r := by
  unfold resolveStatic at hne ⊢
  cases hR : broadcastShape2 A B with
  | some R =>
    simp only
    split
    · rename_i hc
      simp only [Bool.and_eq_true] at hc
      rw [hcA hc.1, hcB hc.2, hr] at hR
      cases hR; rfl
    · exact bc2_LeL ha.1 hb.1 hA hB hr hR
  | none =>
    simp only [hR] at hne
    simp only
    split
    · rename_i hc; simp [hc] at hne
    · have := bc2_length ha.1 hb.1 hr
      have := hA.length_eq; have := hB.length_eq
      show r.length = _; omega

/-- **the container never is too small**: whatever the kinds of two well-formed operands, if the call compiles the
    broadcast result fits the container `meta::resolve_optype` chose for it -/
theorem resolveBroadcast_fits {a b : KShape} (ha : a.WF) (hb : b.WF) {r : Shape}
    (hr : broadcastShape2 a.vals b.vals = some r) (hne : resolveBroadcast a b ≠ .error) :
    (resolveBroadcast a b).Fits r := by
  unfold resolveBroadcast at hne ⊢
  split
  · rename_i hs
    simp only [Bool.and_eq_true] at hs
    obtain ⟨A, eA, lA, nA, cA⟩ := KShape.toValue_spec ha hs.1
    obtain ⟨B, eB, lB, nB, cB⟩ := KShape.toValue_spec hb hs.2
    simp only [hs.1, hs.2, Bool.and_self, if_true, eA, eB] at hne
    simp only [eA, eB]
    exact resolveStatic_fits ha hb lA lB nA nB cA cB hr hne
  · split
    · rename_i hna
      have ea := (ha.2.1 hna).1
      rw [ea, bc2_nil_left] at hr
      cases hr
      split
      · rename_i hnb; exact (hb.2.1 hnb).1
      · exact RType.ofOperand_fits hb
    · split
      · rename_i hnb
        have eb := (hb.2.1 hnb).1
        rw [eb, bc2_nil_right] at hr
        cases hr
        exact RType.ofOperand_fits ha
      · exact resolveIndex_fits ha hb hr

/-- a call that does not compile (two constant shapes that are incompatible) is a refusal -/
theorem resolveBroadcast_error {a b : KShape} (ha : a.WF) (hb : b.WF) (he : resolveBroadcast a b = .error) :
    broadcastShape2 a.vals b.vals = none := by
  cases hr : broadcastShape2 a.vals b.vals with
  | none => rfl
  | some r =>
    -- the value exists, so the resolver cannot have failed
    exfalso
    unfold resolveBroadcast at he
    split at he
    · rename_i hs
      simp only [Bool.and_eq_true] at hs
      obtain ⟨A, eA, lA, nA, cA⟩ := KShape.toValue_spec ha hs.1
      obtain ⟨B, eB, lB, nB, cB⟩ := KShape.toValue_spec hb hs.2
      simp only [eA, eB] at he
      unfold resolveStatic at he
      cases hR : broadcastShape2 A B with
      | some R => simp only [hR] at he; split at he <;> cases he
      | none =>
        simp only [hR] at he
        split at he
        · rename_i hc
          simp only [Bool.and_eq_true] at hc
          rw [cA hc.1, cB hc.2, hr] at hR
          cases hR
        · cases he
    · split at he
      · split at he
        · cases he
        · have := RType.ofOperand_fits hb; rw [he] at this; exact this
      · split at he
        · have := RType.ofOperand_fits ha; rw [he] at this; exact this
        · have := resolveIndex_fits ha hb hr; rw [he] at this; exact this


/-! ### nests of calls -/

/-- the resolver looks at the VALUES of an operand only when they are part of its type -/
theorem resolveBroadcast_vals_irrel (i j : KInfo) (v v' w w' : Shape)
    (hv : i.const = true → v = v') (hw : j.const = true → w = w') :
    resolveBroadcast ⟨i, v⟩ ⟨j, w⟩ = resolveBroadcast ⟨i, v'⟩ ⟨j, w'⟩ := by
  cases hci : i.const <;> cases hcj : j.const
  · simp [resolveBroadcast, KShape.isStatic, KShape.toValue, resolveIndex, resolveFixed, resolveVsBounded, RType.ofOperand, hci, hcj]
  · have := hw hcj; subst this
    simp [resolveBroadcast, KShape.isStatic, KShape.toValue, resolveIndex, resolveFixed, resolveVsBounded, RType.ofOperand, hci, hcj]
  · have := hv hci; subst this
    simp [resolveBroadcast, KShape.isStatic, KShape.toValue, resolveIndex, resolveFixed, resolveVsBounded, RType.ofOperand, hci, hcj]
  · have := hv hci; subst this; have := hw hcj; subst this; rfl

/-- invariant of the results of a nest: no hook event, a real container, the value (if any) fits it, and a constant /
    None type is never Nothing -/
structure KOut.Good (o : KOut) : Prop where
  ev : o.clamps = 0 ∧ o.overflows = 0
  ne : o.ty ≠ .error
  fits : ∀ r, o.val = some r → o.ty.Fits r ∧ Pos r
  constSome : ∀ v, o.ty = .constT v → o.val = some v
  noneSome : o.ty = .noneT → o.val = some []

theorem RType.info_const_iff (t : RType) : t.info.const = true ↔ ∃ v, t = .constT v := by
  cases t <;> simp [RType.info, KInfo.ct, KInfo.cl, KInfo.arr, KInfo.sv, KInfo.dyn, KInfo.none']

theorem KOut.Good.operand {o : KOut} (h : o.Good) {r : Shape} (hr : o.val = some r) :
    KShape.WF ⟨o.ty.info, r⟩ ∧ (o.ty.info.const = true → r = o.ty.constVals) := by
  obtain ⟨hf, hp⟩ := h.fits r hr
  refine ⟨RType.wf_of_fits hp hf, fun hc => ?_⟩
  obtain ⟨v, hv⟩ := (RType.info_const_iff o.ty).1 hc
  have := h.constSome v hv
  rw [hr] at this
  cases this
  simp [hv, RType.constVals]

theorem KShape.out_good {a : KShape} (h : a.WF) : a.out.Good where
  ev := ⟨rfl, rfl⟩
  ne := by
    intro e
    have := RType.ofOperand_fits h
    simp only [KShape.out] at e
    rw [e] at this; exact this
  fits := by
    intro r hr
    simp only [KShape.out, Option.some.injEq] at hr
    subst hr
    exact ⟨RType.ofOperand_fits h, h.1⟩
  constSome := by
    intro v hv
    have := RType.ofOperand_fits h
    simp only [KShape.out] at hv ⊢
    rw [hv] at this
    simp only [RType.Fits] at this
    rw [this]
  noneSome := by
    intro hv
    have := RType.ofOperand_fits h
    simp only [KShape.out] at hv ⊢
    rw [hv] at this
    simp only [RType.Fits] at this
    rw [this]


theorem resolveIndex_not_static (a b : KShape) : (∀ v, resolveIndex a b ≠ .constT v) ∧ resolveIndex a b ≠ .noneT ∧ resolveIndex a b ≠ .error := by
  refine ⟨fun v h => ?_, fun h => ?_, fun h => ?_⟩ <;>
  · unfold resolveIndex resolveFixed resolveVsBounded constVsFixed constVsBounded at h
    simp only at h
    repeat' split at h
    all_goals cases h

theorem RType.ofOperand_constT {a : KShape} {v : Shape} (h : RType.ofOperand a = .constT v) :
    a.info.isNone = false ∧ a.info.const = true ∧ v = a.vals := by
  unfold RType.ofOperand at h
  by_cases h1 : a.info.isNone = true
  · simp [h1] at h
  · by_cases h2 : a.info.const = true
    · simp only [h1, h2, if_true, Bool.false_eq_true, if_false, RType.constT.injEq] at h
      exact ⟨by simpa using h1, h2, h.symm⟩
    · simp only [h1, h2, Bool.false_eq_true, if_false] at h
      exfalso
      split at h
      · split at h <;> cases h
      · split at h
        · cases h
        · split at h <;> cases h

theorem RType.ofOperand_noneT {a : KShape} (h : RType.ofOperand a = .noneT) : a.info.isNone = true := by
  unfold RType.ofOperand at h
  by_cases h1 : a.info.isNone = true
  · exact h1
  · simp only [h1, Bool.false_eq_true, if_false] at h
    exfalso
    split at h
    · cases h
    · split at h
      · split at h <;> cases h
      · split at h
        · cases h
        · split at h <;> cases h

/-- a constant / None result type arises only from constant / None operand types, and is the value -/
theorem resolveBroadcast_constT {a b : KShape} {v : Shape} (h : resolveBroadcast a b = .constT v) :
    (a.info.const = true ∨ a.info.isNone = true) ∧ (b.info.const = true ∨ b.info.isNone = true) := by
  unfold resolveBroadcast at h
  split at h
  · split at h
    · rename_i A B eA eB
      unfold resolveStatic at h
      cases hR : broadcastShape2 A B with
      | some R =>
        simp only [hR] at h
        by_cases hc : (a.info.const && b.info.const) = true
        · simp only [Bool.and_eq_true] at hc; exact ⟨Or.inl hc.1, Or.inl hc.2⟩
        · simp [hc] at h
      | none => simp only [hR] at h; split at h <;> cases h
    · cases h
  · split at h
    · rename_i hna
      split at h
      · cases h
      · exact ⟨Or.inr hna, Or.inl (RType.ofOperand_constT h).2.1⟩
    · split at h
      · rename_i hnb
        exact ⟨Or.inl (RType.ofOperand_constT h).2.1, Or.inr hnb⟩
      · exact absurd h ((resolveIndex_not_static a b).1 v)

/-- … and carries the broadcast of the operand values -/
theorem resolveBroadcast_constT_value {a b : KShape} (ha : a.WF) (hb : b.WF) {v : Shape}
    (h : resolveBroadcast a b = .constT v) : broadcastShape2 a.vals b.vals = some v := by
  unfold resolveBroadcast at h
  split at h
  · rename_i hs
    simp only [Bool.and_eq_true] at hs
    obtain ⟨A, eA, lA, nA, cA⟩ := KShape.toValue_spec ha hs.1
    obtain ⟨B, eB, lB, nB, cB⟩ := KShape.toValue_spec hb hs.2
    simp only [eA, eB] at h
    unfold resolveStatic at h
    cases hR : broadcastShape2 A B with
    | some R =>
      simp only [hR] at h
      by_cases hc : (a.info.const && b.info.const) = true
      · simp only [hc, if_true, RType.constT.injEq] at h
        simp only [Bool.and_eq_true] at hc
        rw [cA hc.1, cB hc.2] at hR
        rw [hR, h]
      · simp [hc] at h
    | none => simp only [hR] at h; split at h <;> cases h
  · split at h
    · rename_i hna
      rw [(ha.2.1 hna).1, bc2_nil_left]
      split at h
      · cases h
      · rw [(RType.ofOperand_constT h).2.2]
    · split at h
      · rename_i hnb
        rw [(hb.2.1 hnb).1, bc2_nil_right, (RType.ofOperand_constT h).2.2]
      · exact absurd h ((resolveIndex_not_static a b).1 v)

theorem resolveBroadcast_noneT {a b : KShape} (h : resolveBroadcast a b = .noneT) :
    a.info.isNone = true ∧ b.info.isNone = true := by
  unfold resolveBroadcast at h
  split at h
  · split at h
    · unfold resolveStatic at h
      repeat' split at h
      all_goals cases h
    · cases h
  · split at h
    · rename_i hna
      split at h
      · rename_i hnb; exact ⟨hna, hnb⟩
      · exact ⟨hna, RType.ofOperand_noneT h⟩
    · split at h
      · rename_i hna hnb
        exact absurd (RType.ofOperand_noneT h) hna
      · exact absurd h (resolveIndex_not_static a b).2.1

theorem RType.info_isNone_iff (t : RType) : t.info.isNone = true ↔ t = .noneT := by
  cases t <;> simp [RType.info, KInfo.ct, KInfo.cl, KInfo.arr, KInfo.sv, KInfo.dyn, KInfo.none']

/-- an operand whose type is constant or None has a value -/
theorem KOut.Good.val_of_static {o : KOut} (h : o.Good) (hs : o.ty.info.const = true ∨ o.ty.info.isNone = true) :
    ∃ r, o.val = some r := by
  rcases hs with hc | hn
  · obtain ⟨v, hv⟩ := (RType.info_const_iff o.ty).1 hc
    exact ⟨v, h.constSome v hv⟩
  · exact ⟨[], h.noneSome ((RType.info_isNone_iff o.ty).1 hn)⟩

theorem kRuntime_good {t : RType} {x y : KOut} (hx : x.Good) (hy : y.Good)
    (ht : resolveBroadcast x.ty.asOperand y.ty.asOperand = t)
    (h1 : t ≠ .error) (h2 : ∀ v, t ≠ .constT v) (h3 : t ≠ .noneT)
    (key : ∀ xv yv, x.val = some xv → y.val = some yv →
      KShape.WF ⟨x.ty.info, xv⟩ ∧ KShape.WF ⟨y.ty.info, yv⟩ ∧
      resolveBroadcast x.ty.asOperand y.ty.asOperand = resolveBroadcast ⟨x.ty.info, xv⟩ ⟨y.ty.info, yv⟩) :
    (kRuntime t x.val y.val).Good ∧
    (kRuntime t x.val y.val).val = (x.val.bind fun a => y.val.bind fun b => broadcastShape2 a b) := by
  have trivialGood : KOut.Good { ty := t, val := none } :=
    { ev := ⟨rfl, rfl⟩, ne := h1, fits := fun r h => (by cases h), constSome := fun v h => absurd h (h2 v), noneSome := fun h => absurd h h3 }
  unfold kRuntime
  cases hxv : x.val with
  | none => exact ⟨trivialGood, rfl⟩
  | some xv =>
    cases hyv : y.val with
    | none => exact ⟨trivialGood, rfl⟩
    | some yv =>
      obtain ⟨w1, w2, e⟩ := key xv yv hxv hyv
      simp only [Option.bind_some]
      cases hr : broadcastShape2 xv yv with
      | none => exact ⟨trivialGood, rfl⟩
      | some r =>
        have hf : t.Fits r := by
          rw [← ht, e]
          exact resolveBroadcast_fits w1 w2 hr (by rw [← e, ht]; exact h1)
        simp only [RType.store_of_fits hf]
        refine ⟨{ ev := ⟨rfl, rfl⟩, ne := h1,
                  fits := fun r' h => (by cases h; exact ⟨hf, bc2_pos w1.1 w2.1 hr⟩),
                  constSome := fun v h => absurd h (h2 v), noneSome := fun h => absurd h h3 }, ?_⟩
        first | rfl | trivial

/-- one call on results of earlier calls: if it does not compile the kind-blind value is a refusal as well; if it
    compiles the result is the kind-blind value, without hook event, in a container it fits -/
theorem kPair_faithful (x y : KOut) (hx : x.Good) (hy : y.Good) :
    (kPair x y = none → (x.val.bind fun a => y.val.bind fun b => broadcastShape2 a b) = none) ∧
    (∀ o, kPair x y = some o → o.Good ∧ o.val = (x.val.bind fun a => y.val.bind fun b => broadcastShape2 a b)) := by
  -- the type-level call equals the call on the well-formed value-level operands, when both have values
  have key : ∀ xv yv, x.val = some xv → y.val = some yv →
      KShape.WF ⟨x.ty.info, xv⟩ ∧ KShape.WF ⟨y.ty.info, yv⟩ ∧
      resolveBroadcast x.ty.asOperand y.ty.asOperand = resolveBroadcast ⟨x.ty.info, xv⟩ ⟨y.ty.info, yv⟩ := by
    intro xv yv h1 h2
    obtain ⟨w1, c1⟩ := hx.operand h1
    obtain ⟨w2, c2⟩ := hy.operand h2
    refine ⟨w1, w2, ?_⟩
    unfold RType.asOperand
    exact resolveBroadcast_vals_irrel _ _ _ _ _ _ (fun h => (c1 h).symm) (fun h => (c2 h).symm)
  have runtime : ∀ t, resolveBroadcast x.ty.asOperand y.ty.asOperand = t → t ≠ .error → (∀ v, t ≠ .constT v) → t ≠ .noneT →
      ∀ o, o = { kRuntime t x.val y.val with clamps := x.clamps + y.clamps + (kRuntime t x.val y.val).clamps,
                                             overflows := x.overflows + y.overflows + (kRuntime t x.val y.val).overflows } →
      o.Good ∧ o.val = (x.val.bind fun a => y.val.bind fun b => broadcastShape2 a b) := by
    intro t ht h1 h2 h3 o ho
    obtain ⟨g, e⟩ := kRuntime_good hx hy ht h1 h2 h3 key
    subst ho
    refine ⟨{ ev := ?_, ne := g.ne, fits := g.fits, constSome := g.constSome, noneSome := g.noneSome }, e⟩
    simp [hx.ev.1, hx.ev.2, hy.ev.1, hy.ev.2, g.ev.1, g.ev.2]
  unfold kPair
  cases ht : resolveBroadcast x.ty.asOperand y.ty.asOperand with
  | error =>
    simp only
    refine ⟨fun _ => ?_, fun o h => (by cases h)⟩
    cases hxv : x.val with
    | none => rfl
    | some xv =>
      cases hyv : y.val with
      | none => rfl
      | some yv =>
        obtain ⟨w1, w2, e⟩ := key xv yv hxv hyv
        rw [ht] at e
        simpa using resolveBroadcast_error w1 w2 e.symm
  | constT v =>
    simp only
    refine ⟨fun h => (by cases h), fun o h => ?_⟩
    simp only [Option.some.injEq] at h
    subst h
    obtain ⟨sa, sb⟩ := resolveBroadcast_constT ht
    obtain ⟨xv, hxv⟩ := hx.val_of_static sa
    obtain ⟨yv, hyv⟩ := hy.val_of_static sb
    obtain ⟨w1, w2, e⟩ := key xv yv hxv hyv
    rw [ht] at e
    have hval : broadcastShape2 xv yv = some v := resolveBroadcast_constT_value w1 w2 e.symm
    refine ⟨{ ev := (by simp [hx.ev.1, hx.ev.2, hy.ev.1, hy.ev.2]), ne := (by simp),
              fits := fun r h => ?_, constSome := fun v' h => (by cases h; rfl), noneSome := fun h => (by cases h) }, ?_⟩
    · simp only [Option.some.injEq] at h; subst h
      exact ⟨rfl, bc2_pos w1.1 w2.1 hval⟩
    · simp [hxv, hyv, hval]
  | noneT =>
    simp only
    refine ⟨fun h => (by cases h), fun o h => ?_⟩
    simp only [Option.some.injEq] at h
    subst h
    obtain ⟨na, nb⟩ := resolveBroadcast_noneT ht
    obtain ⟨xv, hxv⟩ := hx.val_of_static (Or.inr na)
    obtain ⟨yv, hyv⟩ := hy.val_of_static (Or.inr nb)
    obtain ⟨w1, w2, e⟩ := key xv yv hxv hyv
    have e1 : xv = [] := (w1.2.1 na).1
    have e2 : yv = [] := (w2.2.1 nb).1
    subst e1; subst e2
    refine ⟨{ ev := (by simp [hx.ev.1, hx.ev.2, hy.ev.1, hy.ev.2]), ne := (by simp),
              fits := fun r h => ?_, constSome := fun v' h => (by cases h), noneSome := fun _ => rfl }, ?_⟩
    · simp only [Option.some.injEq] at h; subst h
      exact ⟨rfl, fun v hv => by simp at hv⟩
    · simp [hxv, hyv, bc2_nil_left]
  | clippedT bs =>
    simp only
    exact ⟨fun h => (by cases h), fun o h => runtime _ ht (by simp) (by simp) (by simp) o (by simpa using h.symm)⟩
  | arr n =>
    simp only
    exact ⟨fun h => (by cases h), fun o h => runtime _ ht (by simp) (by simp) (by simp) o (by simpa using h.symm)⟩
  | clippedArr m n =>
    simp only
    exact ⟨fun h => (by cases h), fun o h => runtime _ ht (by simp) (by simp) (by simp) o (by simpa using h.symm)⟩
  | svec c =>
    simp only
    exact ⟨fun h => (by cases h), fun o h => runtime _ ht (by simp) (by simp) (by simp) o (by simpa using h.symm)⟩
  | list =>
    simp only
    exact ⟨fun h => (by cases h), fun o h => runtime _ ht (by simp) (by simp) (by simp) o (by simpa using h.symm)⟩


/-- a kinded result `k` is faithful to the kind-blind value `v` -/
def Faithful (k : Option KOut) (v : Option Shape) : Prop :=
  (k = none → v = none) ∧ ∀ o, k = some o → o.Good ∧ o.val = v

theorem faithful_pair {k1 k2 : Option KOut} {v1 v2 : Option Shape} (h1 : Faithful k1 v1) (h2 : Faithful k2 v2) :
    Faithful (k1.bind fun x => k2.bind fun y => kPair x y) (v1.bind fun a => v2.bind fun b => broadcastShape2 a b) := by
  cases hk1 : k1 with
  | none =>
    have := h1.1 hk1
    subst this
    exact ⟨fun _ => rfl, fun o h => by simp at h⟩
  | some x =>
    obtain ⟨gx, ex⟩ := h1.2 x hk1
    cases hk2 : k2 with
    | none =>
      have := h2.1 hk2
      subst this
      refine ⟨fun _ => ?_, fun o h => by simp at h⟩
      cases v1 <;> rfl
    | some y =>
      obtain ⟨gy, ey⟩ := h2.2 y hk2
      have := kPair_faithful x y gx gy
      rw [ex, ey] at this
      simpa [Faithful] using this

theorem eval_tri_eq (env : List Shape) (x y z : BExpr) :
    (BExpr.tri x y z).eval env =
      ((x.eval env).bind fun a => (y.eval env).bind fun b => broadcastShape2 a b).bind
        fun p => (z.eval env).bind fun c => broadcastShape2 p c := by
  simp only [BExpr.eval]
  cases x.eval env with
  | none => rfl
  | some a =>
    cases y.eval env with
    | none => rfl
    | some b =>
      cases z.eval env with
      | none => simp only [Option.bind_some, Option.bind_none]; cases broadcastShape2 a b <;> rfl
      | some c => simp [broadcastShape, broadcastFold]

theorem keval_tri_eq (env : List KShape) (x y z : BExpr) :
    (BExpr.tri x y z).keval env =
      ((x.keval env).bind fun a => (y.keval env).bind fun b => kPair a b).bind
        fun p => (z.keval env).bind fun c => kPair p c := by
  simp only [BExpr.keval, bind, Option.bind]
  cases x.keval env with
  | none => rfl
  | some a =>
    cases y.keval env with
    | none => rfl
    | some b =>
      cases z.keval env with
      | none => simp only; cases kPair a b <;> rfl
      | some c => rfl

/-- **a nest of calls under any operand kinds**: it is faithful to the kind-blind nest -/
theorem keval_faithful (env : List KShape) (henv : ∀ a ∈ env, a.WF) (e : BExpr) :
    Faithful (e.keval env) (e.eval (env.map (·.vals))) := by
  induction e with
  | leaf i =>
    simp only [BExpr.keval, BExpr.eval, List.getElem?_map]
    cases h : env[i]? with
    | none => exact ⟨fun _ => rfl, fun o ho => by simp at ho⟩
    | some a =>
      refine ⟨fun ho => by simp at ho, fun o ho => ?_⟩
      simp only [Option.map_some, Option.some.injEq] at ho
      subst ho
      exact ⟨KShape.out_good (henv a (List.mem_of_getElem? h)), rfl⟩
  | pair l r ihl ihr =>
    have := faithful_pair ihl ihr
    simpa only [BExpr.keval, BExpr.eval, bind] using this
  | tri x y z ihx ihy ihz =>
    rw [keval_tri_eq, eval_tri_eq]
    exact faithful_pair (faithful_pair ihx ihy) ihz


/-- the operands the driver builds from the wire (`KShape.ofKind`) are well-formed: positive extents, clipped values
    within their bounds, a None operand of rank 0, a static_vector within its capacity 8 -/
theorem KShape.ofKind_wf {kind : String} {vals bounds : List Nat} {a : KShape}
    (h : KShape.ofKind kind vals bounds = some a) (hp : Pos vals) (hb : kind = "cl" → LeL vals bounds)
    (hn : kind = "none" → vals = []) (hsv : kind = "sv" → vals.length ≤ 8) : a.WF := by
  unfold KShape.ofKind at h
  split at h
  all_goals cases h
  · have := hn rfl; subst this
    simp [KShape.WF, KInfo.none', Pos]
  · exact ⟨hp, by simp [KInfo.ct], by simp [KInfo.ct], by simp [KInfo.ct], by simp [KInfo.ct], by simp [KInfo.ct]⟩
  · have hl := hb rfl
    refine ⟨hp, by simp [KInfo.cl], by simp [KInfo.cl], ?_, ?_, ?_⟩
    · intro bs e; simp only [KInfo.cl, Option.some.injEq] at e; subst e; exact ⟨hl, rfl⟩
    · intro _; simp [KInfo.cl, hl.length_eq]
    · intro c e; simp only [KInfo.cl, Option.some.injEq] at e; have := hl.length_eq; show vals.length ≤ c; omega
  · exact ⟨hp, by simp [KInfo.arr], by simp [KInfo.arr], by simp [KInfo.arr], by simp [KInfo.arr], by simp [KInfo.arr]⟩
  · exact ⟨hp, by simp [KInfo.arr], by simp [KInfo.arr], by simp [KInfo.arr], by simp [KInfo.arr], by simp [KInfo.arr]⟩
  · exact ⟨hp, by simp [KInfo.dyn], by simp [KInfo.dyn], by simp [KInfo.dyn], by simp [KInfo.dyn], by simp [KInfo.dyn]⟩
  · have := hsv rfl
    exact ⟨hp, by simp [KInfo.sv], by simp [KInfo.sv], by simp [KInfo.sv], by simp [KInfo.sv], by simp [KInfo.sv]; exact this⟩
  · exact ⟨hp, by simp [KInfo.sv], by simp [KInfo.sv], by simp [KInfo.sv], by simp [KInfo.sv], by simp [KInfo.sv]⟩

end NmVerif
