#!/bin/sh
# usage: tools/try_mutant.sh <worktree> <patch> <check ids...> ; applies the patch in the worktree, runs the checks against it, reverts
W="$1"; P="$2"; shift 2
git -C "$W" checkout -q -- . ; git -C "$W" apply "$P" || { echo "PATCH DOES NOT APPLY"; exit 2; }
for c in "$@"; do
  VERIF_REPO="$W" VERIF_NO_WIDEN=1 ./check $c > /var/tmp/trymut_$c.log 2>&1
  echo "$c: viol=$(grep -c '^VIOLATION' /var/tmp/trymut_$c.log) $(grep -A1 '^VIOLATION' /var/tmp/trymut_$c.log | grep -v '^VIOLATION\|^--' | head -2 | cut -c1-230)"
done
git -C "$W" checkout -q -- .
