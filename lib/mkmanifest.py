"""regenerates /verif/MANIFEST.json from the property modules in lib/props (run: python3 lib/mkmanifest.py)"""
import os, sys, json, importlib
HERE = os.path.dirname(os.path.abspath(__file__))
sys.path.insert(0, HERE)
ROOT = os.path.dirname(HERE)
ids = [json.loads(l)['id'] for l in open(os.path.join(ROOT, 'properties.jsonl'))]
checks, na = [], []
for pid in ids:
    p = os.path.join(HERE, 'props', pid.lower() + '.py')
    if not os.path.exists(p):
        na.append({'property_id': pid, 'reason': 'check not built yet (Lean model planned, see DESIGN.md section 6); not claimed'})
        continue
    m = importlib.import_module('props.' + pid.lower())
    if not getattr(m, 'READY', True):
        na.append({'property_id': pid, 'reason': 'check under construction (module present, not yet green on the unchanged tree); not claimed'})
        continue
    mf = getattr(m, 'MANIFEST', {})
    checks.append({
        'property_id': pid,
        'quick_cmd': './check %s --tier quick' % pid,
        'thorough_cmd': './check %s --tier thorough' % pid,
        'evidence_file': 'evidence/%s.json' % pid,
        'replay_cmd_template': './check %s --replay {path}' % pid,
        'engine': 'lean4-model+correspondence',
        'level_claimed': {'category': getattr(m, 'LEVEL', 'proof'), 'text': mf.get('text', ''), 'design_ref': mf.get('design_ref', 'DESIGN.md section 6 ' + pid)},
        'level_note': mf.get('note', ''),
        'technique': mf.get('technique', 'Lean 4 theorems about a hand-written model + differential correspondence check against the C++ headers'),
    })
man = {
    'version': 1,
    'setup_cmd': './check --setup',
    'hooks': {
        'guard': 'NMTOOLS_VERIF',
        'enable': 'lib/runner.py passes -DNMTOOLS_VERIF to every harness build (g++ -std=c++17 -I$VERIF_REPO/include -DNMTOOLS_VERIF ...); the library is header-only, so that is the whole build',
        'baseline_off_cmd': 'cmake --build /repo/_build -j16 && ctest --test-dir /repo/_build -j8 --timeout 900',
        'source_commits': json.load(open(os.path.join(ROOT, 'hooks.json'))) if os.path.exists(os.path.join(ROOT, 'hooks.json')) else [],
        'add_only': True,
    },
    'engines': [{'name': 'lean4-model+correspondence', 'path': 'check', 'serves_properties': [c['property_id'] for c in checks],
                 'kind_free_text': 'Lean 4 (core only) model + theorems in lean/NmVerif, audited with Lean.collectAxioms on every run; C++ line-protocol harness in harness/ rebuilt from /repo/include on every run; python orchestration in lib/'}],
    'checks': checks,
    'not_applicable': na,
    'notes': 'VERIF_REPO selects the tree (default /repo); VERIF_SEED seeds the random part of every generator; known_findings.json lists genuine defects of the unchanged tree by predicate + witness.',
}
if '--known-only' not in sys.argv:
    json.dump(man, open(os.path.join(ROOT, 'MANIFEST.json'), 'w'), indent=1)
# known findings: fragments known/*.json -> known_findings.json (committed; never written at run time)
kf = []
kd = os.path.join(ROOT, 'known')
for f in sorted(os.listdir(kd)) if os.path.isdir(kd) else []:
    if f.endswith('.json'):
        kf += json.load(open(os.path.join(kd, f)))
json.dump(kf, open(os.path.join(ROOT, 'known_findings.json'), 'w'), indent=1)
print('checks:', len(checks), 'not_applicable:', len(na))
