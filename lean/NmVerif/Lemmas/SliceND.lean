import NmVerif.Lemmas.Slice
/-
  C05 helper lemmas, part 2: Dom for a whole index (any rank, integers and one ellipsis in any position) and the
  induction over the entry list that lifts the per-axis agreement (Lemmas/Slice.lean) to shape_slice / slice.
-/
namespace NmVerif.Slice

open NmVerif

/-! ### Dom for a whole index (any rank, any position of integers and of the ellipsis) -/

def domEntry (n : Nat) : Entry → Bool
  | .int k => decide (-(n : Int) ≤ k) && decide (k < n) && decide (n < 4611686018427387904)
  | .range _ _ c => decide (stepVal c ≠ 0) && decide (n < 4611686018427387904)
  | .range2 _ _ => decide (n < 4611686018427387904)
  | .ellipsis => false

/-- entries against axes: every entry has an axis (the ellipsis takes `nEll` of them), integers lie in `[-n, n)`,
    steps are non-zero, extents stay below 2^62; axes left over at the end are allowed (kept whole) -/
def domGo (nEll : Nat) : List Nat → List Entry → Bool
  | _, [] => true
  | sh, .ellipsis :: es => decide (nEll ≤ sh.length) && domGo nEll (sh.drop nEll) es
  | [], _ :: _ => false
  | n :: t, e :: es => domEntry n e && domGo nEll t es

/-- `Dom` = every valid basic index: at most one ellipsis, no more entries than axes -/
def domEntries (shape : List Nat) (es : List Entry) : Bool :=
  decide (numEllipsis es ≤ 1) && decide (es.length - numEllipsis es ≤ shape.length) &&
  domGo (shape.length - (es.length - 1)) shape es

/-! ### list facts -/

theorem inShape_append {a b : List Nat} {s t : List Nat} (h1 : InShape a s) (h2 : InShape b t) : InShape (a ++ b) (s ++ t) := by
  induction s generalizing a with
  | nil => cases a <;> simp_all [InShape]
  | cons x xs ih =>
    cases a with
    | nil => simp [InShape] at h1
    | cons y ys => simp only [InShape, List.cons_append] at h1 ⊢; exact ⟨h1.1, ih h1.2⟩

theorem inShape_split {d s t : List Nat} (h : InShape d (s ++ t)) :
    InShape (d.take s.length) s ∧ InShape (d.drop s.length) t := by
  induction s generalizing d with
  | nil => simpa [InShape] using h
  | cons x xs ih =>
    cases d with
    | nil => simp [InShape] at h
    | cons y ys =>
      simp only [List.cons_append, InShape] at h
      simp only [List.length_cons, List.take_succ_cons, List.drop_succ_cons, InShape]
      exact ⟨⟨h.1, (ih h.2).1⟩, (ih h.2).2⟩

theorem specShape_append (a b : List AxisSel) : specShape (a ++ b) = specShape a ++ specShape b := by
  induction a with
  | nil => rfl
  | cons x xs ih => cases x <;> simp [specShape, ih]

theorem specShape_full (s : List Nat) : specShape (s.map fullSel) = s := by
  induction s with
  | nil => rfl
  | cons x xs ih => simp [specShape, fullSel, ih]

/-- full slices copy the destination index -/
theorem specIdx_full (s : List Nat) (rest : List AxisSel) (d : List Nat) (hd : s.length ≤ d.length) :
    specIdx (s.map fullSel ++ rest) d = (specIdx rest (d.drop s.length)).map (d.take s.length ++ ·) := by
  induction s generalizing d with
  | nil => simp
  | cons x xs ih =>
    cases d with
    | nil => simp at hd
    | cons y ys =>
      simp only [List.map_cons, List.cons_append, fullSel, specIdx, List.length_cons, List.drop_succ_cons, List.take_succ_cons]
      rw [ih ys (by simpa using hd)]
      cases specIdx rest (List.drop xs.length ys) <;> simp

/-- what the induction carries for a shape suffix `sh` and the remaining entries `es` -/
def GoOk (nEll : Nat) (sh : List Nat) (es : List Entry) : Prop :=
  ∃ sels, specGo nEll sh es = some sels ∧ shapeGo nEll sh es = some (specShape sels) ∧
    (specShape sels).length + numInt es = sh.length ∧
    ∀ d, InShape d (specShape sels) → ∃ i, specIdx sels d = some i ∧ idxGo nEll sh d es = some i ∧ InShape i sh

theorem numInt_cons_int (k : Int) (es : List Entry) : numInt (.int k :: es) = numInt es + 1 := by
  simp [numInt, Entry.isInt, List.filter_cons]
theorem numInt_cons_ellipsis (es : List Entry) : numInt (.ellipsis :: es) = numInt es := by
  simp [numInt, Entry.isInt]
theorem numInt_cons_range (a b c : Option Int) (es : List Entry) : numInt (.range a b c :: es) = numInt es := by
  simp [numInt, Entry.isInt]
theorem numInt_cons_range2 (a b : Option Int) (es : List Entry) : numInt (.range2 a b :: es) = numInt es := by
  simp [numInt, Entry.isInt]

theorem go_range_step (nEll n : Nat) (t : List Nat) (es : List Entry) (e : Entry) (a b c : Option Int)
    (he : e = .range a b c ∨ (e = .range2 a b ∧ c = none))
    (hn : n < 4611686018427387904) (hk : stepVal c ≠ 0) (ih : GoOk nEll t es) : GoOk nEll (n :: t) (e :: es) := by
  obtain ⟨l, f, k, hpy, hlen, hidx⟩ := range_entry_all n a b c (by omega) hk
  obtain ⟨sels, hs, hsh, hlenl, hi⟩ := ih
  have hspec : specEntry n e = some (.walk l f k) := by
    rcases he with rfl | ⟨rfl, rfl⟩ <;> simp [specEntry, hpy]
  have hel : e.len n = some (l : Int) := by
    rcases he with rfl | ⟨rfl, rfl⟩ <;> simp [Entry.len, hlen]
  have heidx : ∀ j : Nat, e.idx n j = computeIndex n a b c j := by
    intro j; rcases he with rfl | ⟨rfl, rfl⟩ <;> simp [Entry.idx]
  have hni : numInt (e :: es) = numInt es := by
    rcases he with rfl | ⟨rfl, rfl⟩ <;> simp [numInt, Entry.isInt]
  refine ⟨.walk l f k :: sels, ?_, ?_, ?_, ?_⟩
  · rcases he with rfl | ⟨rfl, rfl⟩ <;> simp [specGo, hspec, hs]
  · rcases he with rfl | ⟨rfl, rfl⟩ <;> simp [shapeGo, hel, hsh, specShape]
  · simp only [specShape, List.length_cons, hni]; omega
  · intro d hdin
    cases d with
    | nil => simp [specShape, InShape] at hdin
    | cons j d' =>
      simp only [specShape, InShape] at hdin
      obtain ⟨i', h1, h2, h3⟩ := hi d' hdin.2
      obtain ⟨hc, h0, hn⟩ := hidx j hdin.1
      refine ⟨(f + j * k).toNat :: i', ?_, ?_, ?_⟩
      · simp [specIdx, h1]
      · have : (e.idx n j).toNat = (f + j * k).toNat := by rw [heidx, hc]
        rcases he with rfl | ⟨rfl, rfl⟩ <;> simp [idxGo, h2, this]
      · simp only [InShape]; exact ⟨by omega, h3⟩

theorem specIdx_full_all (s : List Nat) (d : List Nat) (hd : InShape d s) : specIdx (s.map fullSel) d = some d := by
  have h := specIdx_full s [] d (by rw [hd.length_eq]; exact Nat.le_refl _)
  rw [List.append_nil] at h
  rw [h, ← hd.length_eq, List.drop_length, List.take_length]
  simp [specIdx]

theorem go_dom (nEll : Nat) : ∀ (es : List Entry) (sh : List Nat), domGo nEll sh es = true → GoOk nEll sh es := by
  intro es
  induction es with
  | nil =>
    intro sh _
    refine ⟨sh.map fullSel, by simp [specGo], by simp [shapeGo, specShape_full], by simp [specShape_full, numInt], ?_⟩
    intro d hd
    rw [specShape_full] at hd
    refine ⟨d, specIdx_full_all sh d hd, ?_, hd⟩
    simp [idxGo, ← hd.length_eq]
  | cons e es ih =>
    intro sh h
    cases e with
    | ellipsis =>
      have h' : nEll ≤ sh.length ∧ domGo nEll (sh.drop nEll) es = true := by
        cases sh <;> simpa [domGo] using h
      obtain ⟨hle, hrest⟩ := h'
      obtain ⟨sels, hs, hsh, hlenl, hi⟩ := ih _ hrest
      have hdrop : (sh.drop nEll).length = sh.length - nEll := List.length_drop
      have htl : (sh.take nEll).length = nEll := by rw [List.length_take]; omega
      refine ⟨(sh.take nEll).map fullSel ++ sels, ?_, ?_, ?_, ?_⟩
      · cases sh <;> simp only [specGo, hle, if_true, hs, Option.map_some]
      · cases sh <;> simp only [shapeGo, hle, if_true, hsh, Option.map_some, specShape_append, specShape_full]
      · rw [specShape_append, specShape_full, numInt_cons_ellipsis, List.length_append, htl]
        omega
      · intro d hdin
        rw [specShape_append, specShape_full] at hdin
        obtain ⟨hd1, hd2⟩ := inShape_split hdin
        rw [htl] at hd1 hd2
        obtain ⟨i', h1, h2, h3⟩ := hi _ hd2
        have hdl : nEll ≤ d.length := by
          have := hd1.length_eq
          simp only [List.length_take] at this
          omega
        refine ⟨d.take nEll ++ i', ?_, ?_, ?_⟩
        · rw [specIdx_full _ _ _ (by rw [List.length_take]; omega), htl, h1]; rfl
        · cases sh <;> simp only [idxGo, hle, hdl, and_self, if_true, h2, Option.map_some]
        · have := inShape_append hd1 h3
          rwa [List.take_append_drop] at this
    | int k =>
      cases sh with
      | nil => simp [domGo] at h
      | cons n t =>
        simp only [domGo, domEntry, Bool.and_eq_true, decide_eq_true_eq] at h
        obtain ⟨⟨⟨hk1, hk2⟩, hn⟩, hrest⟩ := h
        obtain ⟨sels, hs, hsh, hlenl, hi⟩ := ih _ hrest
        obtain ⟨hv, h0, hlt⟩ := intIndex_dom n k hk1 hk2 hn
        refine ⟨.pick (if k < 0 then k + n else k).toNat :: sels, ?_, ?_, ?_, ?_⟩
        · simp [specGo, specEntry, hk1, hk2, hs]
        · simp [shapeGo, hsh, specShape]
        · rw [numInt_cons_int]; simp only [specShape, List.length_cons]; omega
        · intro d hdin
          simp only [specShape] at hdin
          obtain ⟨i', h1, h2, h3⟩ := hi d hdin
          refine ⟨(if k < 0 then k + n else k).toNat :: i', ?_, ?_, ?_⟩
          · simp [specIdx, h1]
          · simp [idxGo, h2, hv]
          · simp only [InShape]; exact ⟨by rw [← hv]; omega, h3⟩
    | range a b c =>
      cases sh with
      | nil => simp [domGo] at h
      | cons n t =>
        simp only [domGo, domEntry, Bool.and_eq_true, decide_eq_true_eq] at h
        exact go_range_step nEll n t es _ a b c (Or.inl rfl) h.1.2 h.1.1 (ih _ h.2)
    | range2 a b =>
      cases sh with
      | nil => simp [domGo] at h
      | cons n t =>
        simp only [domGo, domEntry, Bool.and_eq_true, decide_eq_true_eq] at h
        exact go_range_step nEll n t es _ a b none (Or.inr ⟨rfl, rfl⟩) h.1 (by simp [stepVal]) (ih _ h.2)

theorem numEllipsis_cons (e : Entry) (es : List Entry) :
    numEllipsis (e :: es) = numEllipsis es + (if e.isEllipsis then 1 else 0) := by
  unfold numEllipsis
  cases h : e.isEllipsis <;> simp [List.filter_cons, h]

/-- without an ellipsis among the entries the expansion count is irrelevant -/
theorem specGo_noEllipsis (a b : Nat) : ∀ (es : List Entry) (sh : List Nat), numEllipsis es = 0 →
    specGo a sh es = specGo b sh es := by
  intro es
  induction es with
  | nil => intro sh _; simp [specGo]
  | cons e es ih =>
    intro sh h
    rw [numEllipsis_cons] at h
    cases e with
    | ellipsis => simp [Entry.isEllipsis] at h
    | int k => cases sh <;> simp [specGo, ih _ (by simpa [Entry.isEllipsis] using h)]
    | range x y z => cases sh <;> simp [specGo, ih _ (by simpa [Entry.isEllipsis] using h)]
    | range2 x y => cases sh <;> simp [specGo, ih _ (by simpa [Entry.isEllipsis] using h)]

theorem padZeros_exact (l : List Nat) (n : Nat) (h : l.length = n) : padZeros n l = some l := by
  unfold padZeros
  rw [if_pos (by omega)]
  simp [h]

/-- MODEL = SPEC for every valid basic index, packed encoding, any rank, any position of integers and of the ellipsis -/
theorem slice_dom (shape : List Nat) (es : List Entry) (h : domEntries shape es = true) :
    ∃ sels, specSlice shape es = some sels ∧ shapeSlice shape es = some (specShape sels) ∧
      ∀ d, InShape d (specShape sels) →
        ∃ i, specIdx sels d = some i ∧ sliceIdx shape es d = some i ∧ InShape i shape := by
  simp only [domEntries, Bool.and_eq_true, decide_eq_true_eq] at h
  obtain ⟨⟨h1, h2⟩, h4⟩ := h
  obtain ⟨sels, hs, hsh, hlen, hi⟩ := go_dom _ es shape h4
  refine ⟨sels, ?_, ?_, ?_⟩
  · unfold specSlice
    simp only
    rw [if_neg (by omega), ← hs]
    by_cases h0 : numEllipsis es = 0
    · exact specGo_noEllipsis _ _ es shape h0
    · have : numEllipsis es = 1 := by omega
      rw [this]
  · unfold shapeSlice
    simp only
    rw [if_neg (by omega), if_neg (by omega), hsh]
    exact padZeros_exact _ _ (by omega)
  · intro d hd
    obtain ⟨i, a1, a2, a3⟩ := hi d hd
    refine ⟨i, a1, ?_, a3⟩
    unfold sliceIdx
    simp only
    rw [if_neg (by omega), a2]
    exact padZeros_exact _ _ a3.length_eq


end NmVerif.Slice
