import NmVerif.Lemmas.LinalgList
import NmVerif.Lemmas.LinalgViews
/-
  Lemmas for the matmul part of C16: `shape_matmul` against NumPy's rule, the slices of `view::matmul`.
-/
namespace NmVerif
open NmVerif.MB
open Linalg

@[simp] theorem take_len_sub_two (b : List Nat) (x y : Nat) : (b ++ [x, y]).take ((b ++ [x, y]).length - 2) = b := by
  simp
@[simp] theorem take_len_sub_two' (b : List Nat) (x y : Nat) : (b ++ [x, y]).take (b.length + 2 - 2) = b := by
  simp
@[simp] theorem batchOf_append_two (b : List Nat) (x y : Nat) : batchOf (b ++ [x, y]) = b := by simp [batchOf]
@[simp] theorem batchOf_single (x : Nat) : batchOf [x] = [] := by simp [batchOf]

theorem shapeMatmul_eq_spec (sa sb : Shape) (ha : 1 ≤ sa.length) (hb : 1 ≤ sb.length) :
    shapeMatmul sa sb = specMatmulShape sa sb := by
  by_cases ha2 : 2 ≤ sa.length <;> by_cases hb2 : 2 ≤ sb.length
  · obtain ⟨ba, m, k, rfl⟩ := exists_append_two sa ha2
    obtain ⟨bb, k', n, rfl⟩ := exists_append_two sb hb2
    simp [shapeMatmul, specMatmulShape]
    cases broadcastShape ba bb <;> by_cases hk : k = k' <;> simp [hk]
  · obtain ⟨ba, m, k, rfl⟩ := exists_append_two sa ha2
    obtain ⟨k', rfl⟩ : ∃ k', sb = [k'] := by
      match sb, hb, hb2 with
      | [x], _, _ => exact ⟨x, rfl⟩
      | [], h, _ => simp at h
      | _ :: _ :: _, _, h => simp at h
    simp [shapeMatmul, specMatmulShape]
    have : List.take (ba.length + 1) (ba ++ [m, k]) = ba ++ [m] := by
      rw [List.take_append]; simp [List.take_of_length_le]
    rw [this]
  · obtain ⟨bb, k', n, rfl⟩ := exists_append_two sb hb2
    obtain ⟨k, rfl⟩ : ∃ k, sa = [k] := by
      match sa, ha, ha2 with
      | [x], _, _ => exact ⟨x, rfl⟩
      | [], h, _ => simp at h
      | _ :: _ :: _, _, h => simp at h
    have h1 : getNeg? [k] 1 = some k := getNeg?_append_one [] k
    simp [shapeMatmul, specMatmulShape, h1]
    rw [List.eraseIdx_append_of_length_le (by simp)]; simp
  · obtain ⟨k, rfl⟩ : ∃ k, sa = [k] := by
      match sa, ha, ha2 with
      | [x], _, _ => exact ⟨x, rfl⟩
      | [], h, _ => simp at h
      | _ :: _ :: _, _, h => simp at h
    obtain ⟨k', rfl⟩ : ∃ k', sb = [k'] := by
      match sb, hb, hb2 with
      | [x], _, _ => exact ⟨x, rfl⟩
      | [], h, _ => simp at h
      | _ :: _ :: _, _, h => simp at h
    have h1 : getNeg? [k] 1 = some k := getNeg?_append_one [] k
    simp [shapeMatmul, specMatmulShape, h1]

theorem bcIdx_eq_map_range (β s : List Nat) (h : s.length ≤ β.length) :
    bcIdx β s = (List.range s.length).map (fun i => if s.getD i 0 = 1 then 0 else β.getD (i + (β.length - s.length)) 0) := by
  apply List.ext_getElem
  · simp [bcIdx]; omega
  · intro i h1 h2
    simp [bcIdx] at h1 ⊢
    have hi : i < s.length := by omega
    simp [List.getD_eq_getElem?_getD, List.getElem?_eq_getElem hi, List.getElem?_eq_getElem (show i + (β.length - s.length) < β.length by omega)]
    have : β.length - s.length + i = i + (β.length - s.length) := by omega
    simp [this]

/-- batch part of a slice list for an operand of rank ≥ 2, for any tail `t` of the result index behind its batch part -/
theorem matmulBatchIdx_eq' (β b t : List Nat) (x y : Nat) (n : Nat) (hn : n = β.length + 2) (h : b.length ≤ β.length) :
    matmulBatchIdx (β ++ t) (b ++ [x, y]) n = some (bcIdx β b) := by
  unfold matmulBatchIdx
  have e : (b ++ [x, y]).length - 2 = b.length := by simp
  rw [e, bcIdx_eq_map_range β b h]
  apply mapM_range_some
  intro u hu
  have h1 : (b ++ [x, y])[u]? = some (b[u]) := by rw [List.getElem?_append_left hu]; simp
  have h2 : (β ++ t)[u + (n - (b ++ [x, y]).length)]? = some (β[u + (β.length - b.length)]'(by omega)) := by
    have : u + (n - (b ++ [x, y]).length) = u + (β.length - b.length) := by simp; omega
    rw [this, List.getElem?_append_left (by omega)]; simp
  simp only [h1, h2]
  simp [List.getD_eq_getElem?_getD, List.getElem?_eq_getElem hu, List.getElem?_eq_getElem (show u + (β.length - b.length) < β.length by omega)]
  split <;> rfl

theorem matmulBatchIdx_eq (β b : List Nat) (x y i j : Nat) (n : Nat) (hn : n = β.length + 2) (h : b.length ≤ β.length) :
    matmulBatchIdx (β ++ [i, j]) (b ++ [x, y]) n = some (bcIdx β b) :=
  matmulBatchIdx_eq' β b [i, j] x y n hn h

/-- a 1-d operand has no batch part -/
theorem matmulBatchIdx_single (d : List Nat) (k n : Nat) : matmulBatchIdx d [k] n = some [] := by
  simp [matmulBatchIdx]

theorem matmulV1_elem (ba bb bs : Shape) (m k n : Nat) (hbs : broadcastShape ba bb = some bs) :
    ∃ r, matmulV1 (ba ++ [m, k]) (bb ++ [k, n]) = some r ∧ r.shape = bs ++ [m, n] ∧
      ∀ (β : Idx) (i j : Nat), β.length = bs.length →
      r.get (β ++ [i, j]) = some ((List.range k).map (fun kk => (bcIdx β ba ++ [i, kk], bcIdx β bb ++ [kk, j]))) := by
  have hsh : shapeMatmul (ba ++ [m, k]) (bb ++ [k, n]) = some (bs ++ [m, n]) := by
    rw [shapeMatmul_eq_spec _ _ (by simp) (by simp)]
    simp [specMatmulShape, hbs]
  have hlen := broadcastShape_length hbs
  unfold matmulV1
  rw [hsh]
  refine ⟨_, rfl, rfl, ?_⟩
  intro β i j hβ
  simp only
  have hs : matmulSlices (β ++ [i, j]) (ba ++ [m, k]) (bb ++ [k, n]) (bs ++ [m, n]) =
      some (bcIdx β ba, some i, bcIdx β bb, some j) := by
    unfold matmulSlices
    have e1 : ¬ (ba ++ [m, k]).length = 1 := by simp
    have e2 : ¬ (bb ++ [k, n]).length = 1 := by simp
    simp only [e1, e2, if_false, Nat.add_zero, getNeg?_append_two_2, getNeg?_append_two_1, Option.map_some]
    rw [matmulBatchIdx_eq β ba m k i j _ (by simp; omega) (by omega), matmulBatchIdx_eq β bb k n i j _ (by simp; omega) (by omega)]
    simp [hβ]
  rw [hs]
  have e2 : ¬ (bb ++ [k, n]).length = 1 := by simp
  simp only [e2, if_false, getNeg?_append_two_2, getNeg?_append_two_1, Option.toList_some]
  simp only [mulT, bcast2, broadcastShape, List.reverse_cons, List.reverse_nil, List.nil_append, bcRev, bc1_self]
  simp only [Option.map_some, List.reverse_cons, List.reverse_nil, List.nil_append]
  rw [sumLast_one_get _ [] k rfl]
  simp only [List.nil_append]
  congr 1
  apply List.map_congr_left
  intro kk hkk
  rw [bcIdx_single (List.mem_range.1 hkk)]
  simp

theorem specMatmulTerms_22 (ba bb β : List Nat) (m k k' n i j : Nat) :
    specMatmulTerms (ba ++ [m, k]) (bb ++ [k', n]) (β ++ [i, j]) =
      (List.range k).map (fun kk => (bcIdx β ba ++ [i, kk], bcIdx β bb ++ [kk, j])) := by
  simp [specMatmulTerms]

/-- `view::matmul` (both operands of rank ≥ 2, NumPy accepts): NumPy's shape, and every element is the sum of exactly
    the products `a[β_a…, i, k] · b[β_b…, k, j]`, `k = 0 … K-1` in order -/
theorem matmulV1_eq_spec (sa sb dst : Shape) (ha : 2 ≤ sa.length) (hb : 2 ≤ sb.length)
    (hacc : specMatmulShape sa sb = some dst) :
    ∃ r, matmulV1 sa sb = some r ∧ r.shape = dst ∧
      ∀ d, InShape d dst → r.get d = some (specMatmulTerms sa sb d) := by
  obtain ⟨ba, m, k, rfl⟩ := exists_append_two sa ha
  obtain ⟨bb, k', n, rfl⟩ := exists_append_two sb hb
  simp [specMatmulShape] at hacc
  obtain ⟨rfl, bs, hbs, rfl⟩ := hacc
  obtain ⟨r, hr, hsh, hget⟩ := matmulV1_elem ba bb bs m k n hbs
  refine ⟨r, hr, hsh, ?_⟩
  intro d hd
  obtain ⟨β, i, j, rfl, hβ, -, -⟩ := inShape_append_two hd
  rw [hget β i j hβ.length_eq, specMatmulTerms_22]

end NmVerif
