// C01: ndarray_t with a USER-CHOSEN strides container (third template parameter) whose type differs from what
// index::compute_strides deduces for the shape: base_ndarray_t::compute_strides converts element by element.
//   request: nd_strides kind=<a_al|a_vu|a_ai|v_vl|v_vi> layout=<row|col> shape=<s>
//   answer : ok strides=<strides()> pos=<buffer position written by element (i0..ik), for every index in C order>
#include "nmtools/array/ndarray.hpp"
#include "proto.hpp"
#include <array>
#include <vector>
using namespace proto; namespace nm = nmtools; namespace na = nmtools::array;

template <typename arr_t, typename shape_t> static std::string probe(const shape_t& shape, const uvec& s) {
    arr_t a; a.resize(shape);
    size_t n = 1; for (auto e : s) n *= e;
    if ((size_t)nm::size(a) != n) return "size-mismatch";
    std::string o = "ok strides=";
    { auto st = a.strides(); auto d = (size_t)nm::len(st); for (size_t i = 0; i < d; i++) { if (i) o += ","; o += std::to_string((long long)nm::at(st, i)); } }
    o += " pos=";
    std::vector<size_t> idx(s.size(), 0);
    for (size_t k = 0; k < n; k++) {
        for (size_t j = 0; j < n; j++) a.data()[j] = 0;
        nm::apply_at(a, idx) = 1;
        long long where = -1; size_t cnt = 0;
        for (size_t j = 0; j < n; j++) if (a.data()[j] == 1) { where = (long long)j; cnt++; }
        if (k) o += ",";
        o += (cnt == 1) ? std::to_string(where) : std::string("none");
        for (size_t d = s.size(); d-- > 0;) { if (++idx[d] < s[d]) break; idx[d] = 0; }
    }
    return o;
}
// the strides container is a template template parameter: one alias per (element type, container, rank)
template <typename T, size_t N> struct arr_strides { template <typename...> using type = std::array<T, N>; };
template <typename T> struct vec_strides { template <typename...> using type = std::vector<T>; };

template <size_t N, template<typename...> typename stride_t, template<typename...> typename offset_t> static std::string fixed_rank(const uvec& s) {
    std::array<size_t, N> shape; for (size_t i = 0; i < N; i++) shape[i] = s[i];
    using arr_t = na::ndarray_t<std::vector<int>, std::array<size_t, N>, stride_t, offset_t>;
    return probe<arr_t>(shape, s);
}
template <template<typename...> typename stride_t, template<typename...> typename offset_t> static std::string dyn_rank(const uvec& s) {
    using arr_t = na::ndarray_t<std::vector<int>, std::vector<size_t>, stride_t, offset_t>;
    return probe<arr_t>(s, s);
}
template <template<typename...> typename offset_t> static std::string by_kind(const std::string& k, const uvec& s) {
    size_t N = s.size();
#define RANKS(T) (N==1 ? fixed_rank<1, arr_strides<T,1>::template type, offset_t>(s) : N==2 ? fixed_rank<2, arr_strides<T,2>::template type, offset_t>(s) : N==3 ? fixed_rank<3, arr_strides<T,3>::template type, offset_t>(s) : std::string("bad-args"))
#define RANKSV(T) (N==1 ? fixed_rank<1, vec_strides<T>::template type, offset_t>(s) : N==2 ? fixed_rank<2, vec_strides<T>::template type, offset_t>(s) : N==3 ? fixed_rank<3, vec_strides<T>::template type, offset_t>(s) : std::string("bad-args"))
    if (k == "a_al") return RANKS(long);
    if (k == "a_ai") return RANKS(int);
    if (k == "a_vu") return RANKSV(size_t);
    if (k == "v_vl") return dyn_rank<vec_strides<long>::template type, offset_t>(s);
    if (k == "v_vi") return dyn_rank<vec_strides<int>::template type, offset_t>(s);
    return "bad-args";
}
std::string handle(const std::string& op, const Args& a) {
    if (op != "nd_strides") return "unknown-op";
    auto s = nats(a, "shape");
    return get(a, "layout") == "col" ? by_kind<na::column_major_offset_t>(get(a, "kind"), s) : by_kind<na::row_major_offset_t>(get(a, "kind"), s);
}
