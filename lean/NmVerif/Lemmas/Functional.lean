import NmVerif.Functional
/-
  Helper lemmas for C14 (functors, compositions, extraction).  Property statements live in Props/C14.lean.
-/
namespace NmVerif.Functional

variable {A V : Type}

@[simp] theorem Fn.bind_nil (g : Fn A V) : g.bind [] = g := by
  cases g; simp [Fn.bind]

theorem Fn.bind_bind (g : Fn A V) (xs ys : List V) : (g.bind xs).bind ys = g.bind (xs ++ ys) := by
  simp [Fn.bind, List.append_assoc]

theorem Fn.arity_bind (g : Fn A V) (xs : List V) : (g.bind xs).arity = g.arity - xs.length := by
  simp only [Fn.arity, Fn.bind, List.length_append]; omega

theorem Fn.call_bind (g : Fn A V) (xs zs : List V) : (g.bind xs).call zs = g.call (xs ++ zs) := by
  simp [Fn.call, Fn.bind, List.append_assoc]

theorem applyFn_lt (g : Fn A V) (xs : List V) (h : xs.length < g.arity) : applyFn g xs = .curried (g.bind xs) := by
  unfold applyFn
  by_cases h0 : xs.length = 0
  · have : xs = [] := List.eq_nil_of_length_eq_zero h0
    subst this
    have : g.arity ≠ 0 := by simp at h; omega
    simp [this]
  · have h1 : ¬ g.arity < xs.length := by omega
    simp [h0, h1, h]

theorem applyFn_eq (g : Fn A V) (xs : List V) (h : xs.length = g.arity) : applyFn g xs = .values (g.call xs) := by
  unfold applyFn
  by_cases h0 : xs.length = 0
  · have : xs = [] := List.eq_nil_of_length_eq_zero h0
    subst this
    have : g.arity = 0 := by simpa using h.symm
    simp [this]
  · have h1 : ¬ g.arity < xs.length := by omega
    have h2 : ¬ xs.length < g.arity := by omega
    simp [h0, h1, h2]

theorem applyFn_gt (g : Fn A V) (xs : List V) (h : g.arity < xs.length) :
    applyFn g xs = .values (g.call (xs.take g.arity) ++ xs.drop g.arity) := by
  unfold applyFn
  have h0 : ¬ xs.length = 0 := by omega
  simp [h0, h]

/-! ### the stack machine -/

theorem run_step (g : Fn A V) (rest : List (Fn A V)) (ops : List V) (h : g.arity ≤ ops.length) :
    run (g :: rest) ops = run rest (g.call (ops.take g.arity) ++ ops.drop g.arity) := by
  simp [run, h]

/-! ### extraction: code in execution order -/

/-- the operand dispatch never drops the composition of a view: for every operand kind it yields exactly the operand's
    own composition (empty for host arrays, aliases and literals) -/
theorem View.dispatch_compile (v : View A V) : v.dispatch v.compile = v.compile := by
  cases v <;> simp [View.dispatch, View.isAlias, View.isView, View.compile]

theorem View.isLeaf_compile : ∀ (v : View A V), v.isLeaf = true → v.compile = []
  | .leaf _, _ => rfl
  | .alias _, _ => rfl
  | .lit _, _ => rfl
  | .node .., h => by simp [View.isLeaf] at h
  | .snode .., h => by simp [View.isLeaf] at h

theorem View.isLeaf_denote (env : Nat → V) : ∀ (v : View A V), v.isLeaf = true → [v.denote env] = v.operandsOf.map env
  | .leaf _, _ => rfl
  | .alias _, _ => rfl
  | .lit _, _ => rfl
  | .node .., h => by simp [View.isLeaf] at h
  | .snode .., h => by simp [View.isLeaf] at h

theorem View.isLeaf_operands : ∀ (v : View A V), v.isLeaf = true → v.operandsOf.length = 1
  | .leaf _, _ => rfl
  | .alias _, _ => rfl
  | .lit _, _ => rfl
  | .node .., h => by simp [View.isLeaf] at h
  | .snode .., h => by simp [View.isLeaf] at h

theorem View.isLeaf_wellFormed : ∀ (v : View A V), v.isLeaf = true → v.wellFormed = true
  | .leaf _, _ => rfl
  | .alias _, _ => rfl
  | .lit _, _ => rfl
  | .node .., h => by simp [View.isLeaf] at h
  | .snode .., h => by simp [View.isLeaf] at h

theorem allLeaves_compileRev : ∀ (r : Args A V), r.allLeaves = true → Args.compileRev r = []
  | .nil, _ => rfl
  | .cons v rest, h => by
      simp only [Args.allLeaves, Bool.and_eq_true] at h
      rw [Args.compileRev, View.dispatch_compile, View.isLeaf_compile v h.1, allLeaves_compileRev rest h.2]; rfl

theorem allLeaves_denote (env : Nat → V) : ∀ (r : Args A V), r.allLeaves = true →
    Args.denote env r = (Args.operandsOf r).map env
  | .nil, _ => rfl
  | .cons v rest, h => by
      simp only [Args.allLeaves, Bool.and_eq_true] at h
      have := View.isLeaf_denote env v h.1
      simp only [Args.denote, Args.operandsOf, List.map_append, allLeaves_denote env rest h.2, ← this]
      rfl

theorem Args.denote_length (env : Nat → V) : ∀ (r : Args A V), (Args.denote env r).length = r.length
  | .nil => rfl
  | .cons _ rest => by simp [Args.denote, Args.length, Args.denote_length env rest]; omega

mutual
/-- frame property: running the code of a left-linear view on its leaves, in front of any other operands and before any
    other code, leaves the view's value in front of those operands -/
theorem View.run_compile (env : Nat → V) : ∀ (v : View A V) (K : List (Fn A V)) (rest : List V),
    v.leftLinear = true →
    run (v.compile.reverse ++ K) (v.operandsOf.map env ++ rest) = run K (v.denote env :: rest)
  | .leaf i, K, rest, _ => by simp [View.compile, View.operandsOf, View.denote]
  | .alias i, K, rest, _ => by simp [View.compile, View.operandsOf, View.denote]
  | .lit i, K, rest, _ => by simp [View.compile, View.operandsOf, View.denote]
  | .node f ats args, K, rest, h | .snode f ats args, K, rest, h => by
      simp only [View.leftLinear, Bool.and_eq_true, beq_iff_eq] at h
      have ih := Args.run_compile env args ([⟨f.toFunctor, ats, []⟩] ++ K) rest h.2
      simp only [View.compile, View.operandsOf, View.denote, List.reverse_cons, List.append_assoc]
      rw [ih]
      have hl : (Args.denote env args).length = f.arity := by rw [Args.denote_length]; exact h.1
      have har : (⟨f.toFunctor, ats, []⟩ : Fn A V).arity = f.arity := by simp [Fn.arity, VFun.toFunctor]
      rw [List.singleton_append, run_step _ _ _ (by rw [har]; simp [hl]), har]
      have ht : (Args.denote env args ++ rest).take f.arity = Args.denote env args := by
        rw [← hl]; simp
      have hd : (Args.denote env args ++ rest).drop f.arity = rest := by
        rw [← hl]; simp
      rw [ht, hd]
      simp [Fn.call, VFun.toFunctor]
theorem Args.run_compile (env : Nat → V) : ∀ (args : Args A V) (K : List (Fn A V)) (rest : List V),
    args.leftLinear = true →
    run ((Args.compileRev args).reverse ++ K) ((Args.operandsOf args).map env ++ rest) = run K (Args.denote env args ++ rest)
  | .nil, K, rest, _ => by simp [Args.compileRev, Args.operandsOf, Args.denote]
  | .cons v r, K, rest, h => by
      simp only [Args.leftLinear, Bool.and_eq_true] at h
      have ih := View.run_compile env v K ((Args.operandsOf r).map env ++ rest) h.1
      simp only [Args.compileRev, View.dispatch_compile, allLeaves_compileRev r h.2, List.nil_append, Args.operandsOf, List.map_append,
        List.append_assoc, Args.denote, allLeaves_denote env r h.2, List.cons_append]
      exact ih
end

mutual
theorem View.leavesAcc_eq : ∀ (v : View A V) (acc : List Nat), v.leavesAcc acc = v.operandsOf ++ acc
  | .leaf i, acc => by simp [View.leavesAcc, View.operandsOf]
  | .alias i, acc => by simp [View.leavesAcc, View.operandsOf]
  | .lit i, acc => by simp [View.leavesAcc, View.operandsOf]
  | .node _ _ args, acc | .snode _ _ args, acc => by simp [View.leavesAcc, View.operandsOf, Args.leavesAcc_eq args acc]
theorem Args.leavesAcc_eq : ∀ (a : Args A V) (acc : List Nat), a.leavesAcc acc = a.operandsOf ++ acc
  | .nil, acc => by simp [Args.leavesAcc, Args.operandsOf]
  | .cons v r, acc => by
      simp [Args.leavesAcc, Args.operandsOf, View.leavesAcc_eq v, Args.leavesAcc_eq r acc, List.append_assoc]
end

/-! ### static arity of the extracted composition -/

def sumArity (fs : List (Fn A V)) : Nat := (fs.map Fn.arity).sum

theorem sumArity_append (xs ys : List (Fn A V)) : sumArity (xs ++ ys) = sumArity xs + sumArity ys := by
  simp [sumArity]

theorem Comp.arity_eq (fs : List (Fn A V)) (held : List V) :
    Comp.arity ⟨fs, held⟩ = (sumArity fs : Int) - ((fs.length : Int) - 1) := by
  have h : ∀ l : List (Fn A V), ((l.map (fun g => (g.arity : Int))).sum) = ((sumArity l : Nat) : Int) := by
    intro l
    induction l with
    | nil => simp [sumArity]
    | cons g t ih => simp only [List.map_cons, List.sum_cons, sumArity] at ih ⊢; rw [ih]; omega
  simp [Comp.arity, h]

theorem allLeaves_length : ∀ (r : Args A V), r.allLeaves = true → (Args.operandsOf r).length = r.length
  | .nil, _ => rfl
  | .cons v rest, h => by
      simp only [Args.allLeaves, Bool.and_eq_true] at h
      simp [Args.operandsOf, View.isLeaf_operands v h.1, Args.length, allLeaves_length rest h.2]

mutual
/-- (sum of the functor arities) + 1 = (number of leaves) + (number of functors): every functor but the outermost hands
    one result to its parent -/
theorem View.sumArity_compile : ∀ (v : View A V), v.wellFormed = true →
    sumArity v.compile + 1 = v.operandsOf.length + v.compile.length
  | .leaf _, _ => by simp [View.compile, View.operandsOf, sumArity]
  | .alias _, _ => by simp [View.compile, View.operandsOf, sumArity]
  | .lit _, _ => by simp [View.compile, View.operandsOf, sumArity]
  | .node f ats args, h | .snode f ats args, h => by
      simp only [View.wellFormed, Bool.and_eq_true, beq_iff_eq] at h
      have ih := Args.sumArity_compileRev args h.2
      have hc : sumArity (⟨f.toFunctor, ats, []⟩ :: Args.compileRev args) = f.arity + sumArity (Args.compileRev args) := by
        simp [sumArity, Fn.arity, VFun.toFunctor]
      simp only [View.compile, View.operandsOf, List.length_cons, hc]
      omega
theorem Args.sumArity_compileRev : ∀ (a : Args A V), a.wellFormed = true →
    sumArity (Args.compileRev a) + a.length = (Args.operandsOf a).length + (Args.compileRev a).length
  | .nil, _ => by simp [Args.compileRev, Args.operandsOf, Args.length, sumArity]
  | .cons v r, h => by
      simp only [Args.wellFormed, Bool.and_eq_true] at h
      have ih1 := View.sumArity_compile v h.1
      have ih2 := Args.sumArity_compileRev r h.2
      simp only [Args.compileRev, View.dispatch_compile, Args.operandsOf, Args.length, sumArity_append, List.length_append]
      omega
end

mutual
theorem View.leftLinear_wellFormed : ∀ (v : View A V), v.leftLinear = true → v.wellFormed = true
  | .leaf _, _ => rfl
  | .alias _, _ => rfl
  | .lit _, _ => rfl
  | .node f ats args, h | .snode f ats args, h => by
      simp only [View.leftLinear, Bool.and_eq_true, beq_iff_eq] at h
      simp only [View.wellFormed, Bool.and_eq_true, beq_iff_eq]
      exact ⟨h.1, Args.leftLinear_wellFormed args h.2⟩
theorem Args.leftLinear_wellFormed : ∀ (a : Args A V), a.leftLinear = true → a.wellFormed = true
  | .nil, _ => rfl
  | .cons v r, h => by
      simp only [Args.leftLinear, Bool.and_eq_true] at h
      simp only [Args.wellFormed, Bool.and_eq_true]
      exact ⟨View.leftLinear_wellFormed v h.1, Args.allLeaves_wellFormed r h.2⟩
theorem Args.allLeaves_wellFormed : ∀ (a : Args A V), a.allLeaves = true → a.wellFormed = true
  | .nil, _ => rfl
  | .cons v r, h => by
      simp only [Args.allLeaves, Bool.and_eq_true] at h
      simp [Args.wellFormed, View.isLeaf_wellFormed v h.1, Args.allLeaves_wellFormed r h.2]
end

mutual
/-- one functor per operation of the view tree — array- and number-valued views alike — and none for anything else -/
theorem View.compile_length : ∀ (v : View A V), v.compile.length = v.nOps
  | .leaf _ => rfl
  | .alias _ => rfl
  | .lit _ => rfl
  | .node f ats args | .snode f ats args => by
      simp only [View.compile, View.nOps, List.length_cons, Args.compileRev_length args]; omega
theorem Args.compileRev_length : ∀ (a : Args A V), (Args.compileRev a).length = a.nOps
  | .nil => rfl
  | .cons v r => by
      simp only [Args.compileRev, View.dispatch_compile, List.length_append, Args.nOps, View.compile_length v,
        Args.compileRev_length r]; omega
end

mutual
/-- the extracted composition, read in execution order, is the post-order list of the tree's operations, each functor with
    exactly the attribute list of its view -/
theorem View.compile_reverse : ∀ (v : View A V), v.compile.reverse = v.opsPost.map VFun.bindAttrs
  | .leaf _ => rfl
  | .alias _ => rfl
  | .lit _ => rfl
  | .node f ats args | .snode f ats args => by
      simp only [View.compile, View.opsPost, List.reverse_cons, Args.compileRev_reverse args, List.map_append,
        List.map_cons, List.map_nil, VFun.bindAttrs]
theorem Args.compileRev_reverse : ∀ (a : Args A V), (Args.compileRev a).reverse = a.opsPost.map VFun.bindAttrs
  | .nil => rfl
  | .cons v r => by
      simp only [Args.compileRev, View.dispatch_compile, List.reverse_append, Args.opsPost, List.map_append,
        View.compile_reverse v, Args.compileRev_reverse r]
end

end NmVerif.Functional
