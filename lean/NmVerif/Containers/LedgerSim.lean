import NmVerif.Containers.Core
/-
  NmVerif.Containers.LedgerSim — generic lemmas about the allocation ledger along histories (property C19):

  * `AllOk` is decidable when the per-operation condition is (so that the domains of the theorems can be
    evaluated on concrete histories by `decide`).
  * `LedFix` / `run_ledfix`: a simulation whose implementation-side operations all leave the ledger as it is
    (on the states related to the reference and the operations allowed by `ok`) never touches the ledger.
  * `Bal` / `run_bal`: conservation of blocks — every operation changes `allocs − |freed| − |lost|` by exactly the
    change of the number of blocks owned by its target object, hence after every history the balance of the ledger
    is the number of blocks owned by live objects.
  Core Lean only.
-/
namespace NmVerif.Containers

instance decAllOk (J : Impl τ α) (ok : Option τ → Op α → Prop) [∀ st op, Decidable (ok st op)] :
    (v : World τ) → (h : List (Op α)) → Decidable (AllOk J ok v h)
  | _, [] => isTrue trivial
  | v, op :: h =>
    match (inferInstance : Decidable (ok (v.objs op.target) op)), decAllOk J ok (step J v op) h with
    | isTrue h1, isTrue h2 => isTrue ⟨h1, h2⟩
    | isFalse h1, _ => isFalse (fun hh => h1 hh.1)
    | _, isFalse h2 => isFalse (fun hh => h2 hh.2)

/-- per-operation obligations: on states related to the reference (`R`) and operations allowed by `ok`, the
    implementation-side operation hands the ledger back as it received it -/
structure LedFix (I : Impl σ α) (J : Impl τ α) (R : σ → τ → Prop) (ok : Option τ → Op α → Prop) : Prop where
  mkDefault : ∀ s L, ok none (.ctor s) → (I.mkDefault L).2 = L
  mkSized : ∀ s n L, ok none (.ctorN s n) → (I.mkSized n L).2 = L
  mkVariadic : ∀ s vs L, ok none (.ctorV s vs) → (I.mkVariadic vs L).2 = L
  mkCopy : ∀ d s x y L, ok none (.copy d s) → R x y → (I.mkCopy x L).2 = L
  assign : ∀ d s x y x' y' L, ok (some y) (.assign d s) → R x y → R x' y' → (I.assign x x' L).2 = L
  assignSelf : ∀ d x y L, ok (some y) (.assign d d) → R x y → (I.assignSelf x L).2 = L
  push : ∀ s a x y L, ok (some y) (.push s a) → R x y → (I.push x a L).2 = L
  pushAt : ∀ s i x y L, ok (some y) (.pushAt s i) → R x y → i < J.size y → (I.pushAt x i L).2 = L
  resize : ∀ s n x y L, ok (some y) (.resize s n) → R x y → (I.resize x n L).2 = L
  write : ∀ s i a x y L, ok (some y) (.write s i a) → R x y → i < J.size y → (I.write x i a L).2 = L
  read : ∀ s i x y L, ok (some y) (.read s i) → R x y → i < J.size y → (I.read x i L).2 = L
  destroy : ∀ s x y L, ok (some y) (.destroy s) → R x y → I.destroy x L = L

theorem step_ledfix {I : Impl σ α} {J : Impl τ α} {R : σ → τ → Prop} {ok : Option τ → Op α → Prop}
    (S : Sim I J R ok) (F : LedFix I J R ok) {w : World σ} {v : World τ} (h : WRel R w v) (op : Op α)
    (hok : ok (v.objs op.target) op) : (step I w op).led = w.led := by
  cases op with
  | ctor s =>
    have hs := h s
    simp only [step, Op.target] at hok ⊢
    cases hw : w.objs s <;> cases hv : v.objs s <;> simp only [hw, hv, ORel] at hs hok ⊢
    · exact F.mkDefault s _ hok
  | ctorN s n =>
    have hs := h s
    simp only [step, Op.target] at hok ⊢
    cases hw : w.objs s <;> cases hv : v.objs s <;> simp only [hw, hv, ORel] at hs hok ⊢
    · exact F.mkSized s n _ hok
  | ctorV s vs =>
    have hs := h s
    simp only [step, Op.target] at hok ⊢
    cases hw : w.objs s <;> cases hv : v.objs s <;> simp only [hw, hv, ORel] at hs hok ⊢
    · exact F.mkVariadic s vs _ hok
  | copy d s =>
    have hd := h d
    have hs := h s
    simp only [step, Op.target] at hok ⊢
    cases hwd : w.objs d <;> cases hvd : v.objs d <;> simp only [hwd, hvd, ORel] at hd hok ⊢
    · cases hws : w.objs s <;> cases hvs : v.objs s <;> simp only [hws, hvs, ORel] at hs ⊢
      · exact F.mkCopy d s _ _ _ hok hs
  | assign d s =>
    have hd := h d
    have hs := h s
    simp only [step, Op.target] at hok ⊢
    cases hwd : w.objs d <;> cases hvd : v.objs d <;> simp only [hwd, hvd, ORel] at hd hok ⊢
    · cases hws : w.objs s <;> cases hvs : v.objs s <;> simp only [hws, hvs, ORel] at hs ⊢
      · by_cases hds : d = s
        · subst hds
          simp only [if_true, World.put]
          exact F.assignSelf d _ _ _ hok hd
        · simp only [hds, if_false, World.put]
          exact F.assign d s _ _ _ _ _ hok hd hs
  | push s a =>
    have hs := h s
    simp only [step, Op.target] at hok ⊢
    cases hw : w.objs s <;> cases hv : v.objs s <;> simp only [hw, hv, ORel] at hs hok ⊢
    · exact F.push s a _ _ _ hok hs
  | pushAt s i =>
    have hs := h s
    simp only [step, Op.target] at hok ⊢
    cases hw : w.objs s <;> cases hv : v.objs s <;> simp only [hw, hv, ORel] at hs hok ⊢
    · rename_i x y
      rw [S.size_eq _ _ hs]
      by_cases hi : i < J.size y
      · simp only [hi, if_true, World.put]
        exact F.pushAt s i _ _ _ hok hs hi
      · simp only [hi, if_false]
  | resize s n =>
    have hs := h s
    simp only [step, Op.target] at hok ⊢
    cases hw : w.objs s <;> cases hv : v.objs s <;> simp only [hw, hv, ORel] at hs hok ⊢
    · exact F.resize s n _ _ _ hok hs
  | write s i a =>
    have hs := h s
    simp only [step, Op.target] at hok ⊢
    cases hw : w.objs s <;> cases hv : v.objs s <;> simp only [hw, hv, ORel] at hs hok ⊢
    · rename_i x y
      rw [S.size_eq _ _ hs]
      by_cases hi : i < J.size y
      · simp only [hi, if_true, World.put]
        exact F.write s i a _ _ _ hok hs hi
      · simp only [hi, if_false]
  | read s i =>
    have hs := h s
    simp only [step, Op.target] at hok ⊢
    cases hw : w.objs s <;> cases hv : v.objs s <;> simp only [hw, hv, ORel] at hs hok ⊢
    · rename_i x y
      rw [S.size_eq _ _ hs]
      by_cases hi : i < J.size y
      · simp only [hi, if_true]
        exact F.read s i _ _ _ hok hs hi
      · simp only [hi, if_false]
  | destroy s =>
    have hs := h s
    simp only [step, Op.target] at hok ⊢
    cases hw : w.objs s <;> cases hv : v.objs s <;> simp only [hw, hv, ORel] at hs hok ⊢
    · exact F.destroy s _ _ _ hok hs

/-- a history all of whose operations are allowed never touches the ledger (and stays related to the reference) -/
theorem run_ledfix {I : Impl σ α} {J : Impl τ α} {R : σ → τ → Prop} {ok : Option τ → Op α → Prop}
    (S : Sim I J R ok) (F : LedFix I J R ok) (h : List (Op α)) {w : World σ} {v : World τ} (hr : WRel R w v)
    (hok : AllOk J ok v h) : (run I w h).led = w.led ∧ WRel R (run I w h) (run J v h) := by
  induction h generalizing w v with
  | nil => exact ⟨rfl, hr⟩
  | cons op h ih =>
    simp only [run]
    have := ih (step_sim S hr op hok.1) hok.2
    exact ⟨by rw [this.1]; exact step_ledfix S F hr op hok.1, this.2⟩

/-! ### conservation of blocks -/

/-- blocks handed out and neither freed nor dropped -/
def Ledger.bal (L : Ledger) : Int := (L.allocs : Int) - L.freed.length - L.lost.length

theorem Ledger.bal_flag (L : Ledger) (e : Event) : (L.flag e).bal = L.bal := rfl
theorem Ledger.bal_flagIf (L : Ledger) (b : Bool) (e : Event) : (L.flagIf b e).bal = L.bal := by
  cases b <;> rfl
theorem Ledger.bal_alloc (L : Ledger) : L.alloc.2.bal = L.bal + 1 := by
  simp only [Ledger.bal, Ledger.alloc]; omega
theorem Ledger.bal_free (L : Ledger) (b : Nat) : (L.free b).bal = L.bal - 1 := by
  simp only [Ledger.bal, Ledger.free, List.length_cons]; omega
theorem Ledger.bal_lose (L : Ledger) (b : Nat) : (L.lose b).bal = L.bal - 1 := by
  simp only [Ledger.bal, Ledger.lose, List.length_cons]; omega

/-- per-operation obligations: the object invariant `P` is kept and the balance of the ledger changes by exactly
    the change of the number of blocks the object owns (`own`) -/
structure Bal (I : Impl σ α) (P : σ → Prop) (own : σ → Nat) : Prop where
  mkDefault : ∀ L, P (I.mkDefault L).1 ∧ (I.mkDefault L).2.bal = L.bal + own (I.mkDefault L).1
  mkSized : ∀ n L, P (I.mkSized n L).1 ∧ (I.mkSized n L).2.bal = L.bal + own (I.mkSized n L).1
  mkVariadic : ∀ vs L, P (I.mkVariadic vs L).1 ∧ (I.mkVariadic vs L).2.bal = L.bal + own (I.mkVariadic vs L).1
  mkCopy : ∀ x L, P x → P (I.mkCopy x L).1 ∧ (I.mkCopy x L).2.bal = L.bal + own (I.mkCopy x L).1
  assign : ∀ x y L, P x → P y → P (I.assign x y L).1 ∧ (I.assign x y L).2.bal = L.bal + own (I.assign x y L).1 - own x
  assignSelf : ∀ x L, P x → P (I.assignSelf x L).1 ∧ (I.assignSelf x L).2.bal = L.bal + own (I.assignSelf x L).1 - own x
  push : ∀ a x L, P x → P (I.push x a L).1 ∧ (I.push x a L).2.bal = L.bal + own (I.push x a L).1 - own x
  pushAt : ∀ i x L, P x → i < I.size x → P (I.pushAt x i L).1 ∧ (I.pushAt x i L).2.bal = L.bal + own (I.pushAt x i L).1 - own x
  resize : ∀ n x L, P x → P (I.resize x n L).1 ∧ (I.resize x n L).2.bal = L.bal + own (I.resize x n L).1 - own x
  write : ∀ i a x L, P x → i < I.size x → P (I.write x i a L).1 ∧ (I.write x i a L).2.bal = L.bal + own (I.write x i a L).1 - own x
  read : ∀ i x L, P x → i < I.size x → (I.read x i L).2.bal = L.bal
  destroy : ∀ x L, P x → (I.destroy x L).bal = L.bal - own x

def ownO (own : σ → Nat) : Option σ → Nat
  | some x => own x
  | none => 0

/-- number of blocks owned by the objects in slots `0 … N-1` -/
def ownSum (own : σ → Nat) (w : World σ) (N : Nat) : Nat := ((List.range N).map (fun k => ownO own (w.objs k))).sum

theorem sum_range_congr (f g : Nat → Nat) (N : Nat) (h : ∀ k, k < N → g k = f k) :
    ((List.range N).map g).sum = ((List.range N).map f).sum := by
  induction N with
  | zero => rfl
  | succ N ih =>
    simp only [List.range_succ, List.map_append, List.sum_append, List.map_cons, List.map_nil, List.sum_cons, List.sum_nil]
    rw [ih (fun k hk => h k (by omega)), h N (by omega)]

theorem sum_range_update (f g : Nat → Nat) (t N : Nat) (ht : t < N) (h : ∀ k, k ≠ t → g k = f k) :
    ((List.range N).map g).sum + f t = ((List.range N).map f).sum + g t := by
  induction N with
  | zero => omega
  | succ N ih =>
    simp only [List.range_succ, List.map_append, List.sum_append, List.map_cons, List.map_nil, List.sum_cons, List.sum_nil]
    by_cases htN : t = N
    · subst htN
      rw [sum_range_congr f g t (fun k hk => h k (by omega))]
      omega
    · have := ih (by omega)
      rw [h N (fun e => htN e.symm)]
      omega

/-- the invariant and the balance equation of a world -/
def WBal (P : σ → Prop) (own : σ → Nat) (N : Nat) (d : Int) (w : World σ) : Prop :=
  (∀ k x, w.objs k = some x → P x) ∧ w.led.bal = d + ownSum own w N

theorem wbal_put {P : σ → Prop} {own : σ → Nat} {N : Nat} {d : Int} {w : World σ} (h : WBal P own N d w)
    (k : Nat) (hk : k < N) (x : Option σ) (L : Ledger) (hx : ∀ y, x = some y → P y)
    (hL : L.bal = w.led.bal + ownO own x - ownO own (w.objs k)) : WBal P own N d (w.put k x L) := by
  refine ⟨?_, ?_⟩
  · intro j y hy
    simp only [World.put] at hy
    by_cases hj : j = k
    · simp [hj] at hy; exact hx y hy
    · simp [hj] at hy; exact h.1 j y hy
  · have hs := sum_range_update (fun j => ownO own (w.objs j)) (fun j => ownO own ((w.put k x L).objs j)) k N hk
      (by intro j hj; simp [World.put, hj])
    have hk' : ownO own ((w.put k x L).objs k) = ownO own x := by simp [World.put]
    simp only [ownSum]
    show L.bal = _
    rw [hL, h.2]
    simp only [ownSum]
    rw [hk'] at hs
    omega

theorem step_bal {I : Impl σ α} {P : σ → Prop} {own : σ → Nat} (B : Bal I P own) {N : Nat} {d : Int} {w : World σ}
    (h : WBal P own N d w) (op : Op α) (hN : op.target < N) : WBal P own N d (step I w op) := by
  cases op with
  | ctor s =>
    simp only [step]
    cases hx : w.objs s with
    | some x => exact h
    | none =>
      have := B.mkDefault w.led
      exact wbal_put h s hN _ _ (by intro y hy; cases hy; exact this.1) (by simp [ownO, hx, this.2])
  | ctorN s n =>
    simp only [step]
    cases hx : w.objs s with
    | some x => exact h
    | none =>
      have := B.mkSized n w.led
      exact wbal_put h s hN _ _ (by intro y hy; cases hy; exact this.1) (by simp [ownO, hx, this.2])
  | ctorV s vs =>
    simp only [step]
    cases hx : w.objs s with
    | some x => exact h
    | none =>
      have := B.mkVariadic vs w.led
      exact wbal_put h s hN _ _ (by intro y hy; cases hy; exact this.1) (by simp [ownO, hx, this.2])
  | copy d' s =>
    simp only [step]
    cases hd : w.objs d' with
    | some x => exact h
    | none =>
      cases hs : w.objs s with
      | none => exact h
      | some y =>
        have := B.mkCopy y w.led (h.1 s y hs)
        exact wbal_put h d' hN _ _ (by intro z hz; cases hz; exact this.1) (by simp [ownO, hd, this.2])
  | assign d' s =>
    simp only [step]
    cases hd : w.objs d' with
    | none => exact h
    | some x =>
      cases hs : w.objs s with
      | none => exact h
      | some y =>
        by_cases hds : d' = s
        · subst hds
          simp only [if_true]
          have := B.assignSelf x w.led (h.1 d' x hd)
          exact wbal_put h d' hN _ _ (by intro z hz; cases hz; exact this.1) (by simp [ownO, hd, this.2])
        · simp only [hds, if_false]
          have := B.assign x y w.led (h.1 d' x hd) (h.1 s y hs)
          exact wbal_put h d' hN _ _ (by intro z hz; cases hz; exact this.1) (by simp [ownO, hd, this.2])
  | push s a =>
    simp only [step]
    cases hx : w.objs s with
    | none => exact h
    | some x =>
      have := B.push a x w.led (h.1 s x hx)
      exact wbal_put h s hN _ _ (by intro z hz; cases hz; exact this.1) (by simp [ownO, hx, this.2])
  | pushAt s i =>
    simp only [step]
    cases hx : w.objs s with
    | none => exact h
    | some x =>
      by_cases hi : i < I.size x
      · simp only [hi, if_true]
        have := B.pushAt i x w.led (h.1 s x hx) hi
        exact wbal_put h s hN _ _ (by intro z hz; cases hz; exact this.1) (by simp [ownO, hx, this.2])
      · simp only [hi, if_false]; exact h
  | resize s n =>
    simp only [step]
    cases hx : w.objs s with
    | none => exact h
    | some x =>
      have := B.resize n x w.led (h.1 s x hx)
      exact wbal_put h s hN _ _ (by intro z hz; cases hz; exact this.1) (by simp [ownO, hx, this.2])
  | write s i a =>
    simp only [step]
    cases hx : w.objs s with
    | none => exact h
    | some x =>
      by_cases hi : i < I.size x
      · simp only [hi, if_true]
        have := B.write i a x w.led (h.1 s x hx) hi
        exact wbal_put h s hN _ _ (by intro z hz; cases hz; exact this.1) (by simp [ownO, hx, this.2])
      · simp only [hi, if_false]; exact h
  | read s i =>
    simp only [step]
    cases hx : w.objs s with
    | none => exact h
    | some x =>
      by_cases hi : i < I.size x
      · simp only [hi, if_true]
        exact ⟨h.1, by show (I.read x i w.led).2.bal = _; rw [B.read i x w.led (h.1 s x hx) hi]; exact h.2⟩
      · simp only [hi, if_false]; exact h
  | destroy s =>
    simp only [step]
    cases hx : w.objs s with
    | none => exact h
    | some x =>
      have := B.destroy x w.led (h.1 s x hx)
      exact wbal_put h s hN _ _ (by intro z hz; cases hz) (by simp [ownO, hx, this])

/-- conservation over every history whose operations address slots below `N` -/
theorem run_bal {I : Impl σ α} {P : σ → Prop} {own : σ → Nat} (B : Bal I P own) {N : Nat} {d : Int} (h : List (Op α))
    {w : World σ} (hw : WBal P own N d w) (hN : ∀ op ∈ h, op.target < N) : WBal P own N d (run I w h) := by
  induction h generalizing w with
  | nil => exact hw
  | cons op h ih =>
    simp only [run]
    exact ih (step_bal B hw op (hN op List.mem_cons_self)) (fun o ho => hN o (List.mem_cons_of_mem _ ho))

theorem sum_range_zero (N : Nat) : ((List.range N).map (fun _ => 0)).sum = 0 := by
  induction N with
  | zero => rfl
  | succ N ih => simp [List.range_succ, ih]

theorem ownSum_dead (own : σ → Nat) (w : World σ) (N : Nat) (h : ∀ k, w.objs k = none) : ownSum own w N = 0 := by
  have := sum_range_congr (fun _ => 0) (fun k => ownO own (w.objs k)) N (by intro k _; rw [h k]; rfl)
  simp only [ownSum]
  rw [this]
  exact sum_range_zero N

theorem ownSum_empty (own : σ → Nat) (N : Nat) : ownSum own (World.empty : World σ) N = 0 :=
  ownSum_dead own _ N (fun _ => rfl)

end NmVerif.Containers
