import NmVerif.Basic
import NmVerif.NDA
import NmVerif.Arr
import NmVerif.Eval.Eval
/-
  Evaluation into a container whose element type differs from the view's.

  `evaluator_t<view,none>::operator()(output&)` (eval.hpp:141-170) copies with a plain assignment
  `apply_at(output, i) = apply_at(view, i)`; when the output's element type `β` is not the view's element type `α`
  that assignment is the implicit C++ conversion `α → β` (here: `cast`).  Which `β` the library picks for a result it
  allocates itself is decided by the result-type resolver: both resolvers (`eval_result_t<>` used by `array::fn`, and the
  older `eval_t` used by bare `eval(view)`: resolve_unary_array_type / resolve_binary_array_type, eval.hpp:395-672) build
  the result type with `element_t = get_element_type_t<view>` in every branch, i.e. `β = α`, `cast = id`.
-/
namespace NmVerif.Eval
open NmVerif

variable {α β : Type}

/-- one iteration of the copy loop with the converting assignment -/
def copyStepCast (cast : α → β) (v : Arr α) (s : Shape) (o : NDA β) (i : Nat) : NDA β :=
  o.set (ndindex s i) (cast (v.get (ndindex s i)))

/-- `evaluator_t::operator()(output&)` into an output of element type `β` -/
def evalIntoCast (cast : α → β) (out : NDA β) (v : Arr α) : NDA β :=
  if out.shape = v.shape then (List.range (prod v.shape)).foldl (copyStepCast cast v v.shape) out else out

/-- `evaluator_t::operator()()` when the resolved result type has element type `β` -/
def evalFreshCast [Inhabited β] (cast : α → β) (colMajor : Bool) (v : Arr α) : NDA β :=
  evalIntoCast cast { shape := v.shape, colMajor := colMajor, data := List.replicate (prod v.shape) default } v

end NmVerif.Eval
