// C13 harness (CUDA / HIP host side): the REAL context_t::create_array of include/nmtools/array/eval/{cuda,hip}/context.hpp
// — the upload of a host operand as the (pointer, shape, dim) triple the kernels rebuild it from — run on the host over a
// stand-in for the runtime API (c13_cuda_shim.hpp / c13_hip_shim.hpp: device memory is host memory).  Compiled by
// clang++ in CUDA / HIP host-only mode (the launch syntax <<<...>>> of the contexts needs it); in that mode nmtools uses
// its own containers (nmtools_list = utl::vector), so do the arrays here.
//   c13_upload layout=row|col shape=<s>     host array with element k at row-major position k
//     -> ok shape=<shape of the device_array> data=<its elements, row-major index order> buffer=<the uploaded buffer>
#if defined(C13_BACKEND_CUDA)
#include "c13_cuda_shim.hpp"
#include "nmtools/array/ndarray.hpp"
#include "nmtools/array/index/ndindex.hpp"
#include "nmtools/array/eval/cuda/context.hpp"
namespace backend = nmtools::array::cuda;
#elif defined(C13_BACKEND_HIP)
#include "hip/hip_runtime.h"
#include "nmtools/array/ndarray.hpp"
#include "nmtools/array/index/ndindex.hpp"
#include "nmtools/array/eval/hip/context.hpp"
namespace backend = nmtools::array::hip;
#else
#error "C13_BACKEND_CUDA or C13_BACKEND_HIP"
#endif
#include "proto.hpp"
namespace nm = nmtools; namespace na = nmtools::array; namespace ix = nmtools::index;
using namespace proto;

template <typename array_t> static std::string upload(const uvec& shape) {
    nmtools_list<size_t> s; s.resize(shape.size()); size_t n = 1;
    for (size_t i = 0; i < shape.size(); i++) { s[i] = shape[i]; n *= shape[i]; }
    array_t a; a.resize(s);
    auto nd = ix::ndindex(s);
    for (size_t k = 0; k < n; k++) nm::apply_at(a, nd[k]) = (int)k;
    auto ctx = backend::default_context();
    auto d = ctx->create_array(a);
    uvec dshape; auto ds = nm::shape(*d); for (size_t i = 0; i < (size_t)nm::len(ds); i++) dshape.push_back((size_t)nm::at(ds, i));
    std::vector<long long> data, buffer;
    if (dshape == shape) for (size_t k = 0; k < n; k++) data.push_back((long long)nm::apply_at(*d, nd[k]));
    for (size_t k = 0; k < n; k++) buffer.push_back((long long)d->data_[k]);
    return "ok shape=" + fmt(dshape) + " data=" + fmt(data) + " buffer=" + fmt(buffer);
}

std::string handle(const std::string& op, const Args& a) {
    if (op != "c13_upload") return "unknown-op";
    auto shape = nats(a, "shape");
    if (shape.size() > 8) throw bad_args("shape");
    auto layout = get(a, "layout");
    if (layout == "row") return upload<na::ndarray_t<nmtools_list<int>, nmtools_list<size_t>>>(shape);
    if (layout == "col") return upload<na::column_major_ndarray_t<nmtools_list<int>, nmtools_list<size_t>>>(shape);
    throw bad_args("layout");
}
