/-
  Helper lemmas for property C09: the refusal classes of the ONE reference function per operation
  (NmVerif.Containers.KindRefs).  The kind matrix compares every kind-specific C++ branch with the
  reference answer `nothing` on sampled members of these classes; here the reference is shown to
  refuse EVERY member, and broadcasting is shown not to depend on the operand order.
-/
import NmVerif.Basic
import NmVerif.Containers.KindRefs
namespace NmVerif.KindRefs
open NmVerif

theorem bdim_comm (a b : Nat) : bdim a b = bdim b a := by
  unfold bdim
  by_cases h1 : a = b
  · subst h1; rfl
  · have h2 : ¬ b = a := fun h => h1 h.symm
    simp only [h1, h2, if_false]
    by_cases ha : a = 1 <;> by_cases hb : b = 1 <;> simp [ha, hb] <;> omega

theorem bshapeRev_comm : ∀ (a b : List Nat), bshapeRev a b = bshapeRev b a
  | [], [] => rfl
  | [], _ :: _ => by simp [bshapeRev]
  | _ :: _, [] => by simp [bshapeRev]
  | x :: xs, y :: ys => by
      simp only [bshapeRev]
      rw [bdim_comm x y, bshapeRev_comm xs ys]

theorem broadcastShape_comm' (a b : List Nat) : broadcastShape a b = broadcastShape b a := by
  unfold broadcastShape
  rw [bshapeRev_comm]

/-- all-positive target: the filter for negatives is empty and the non-negative part is everything -/
theorem filter_neg_of_pos (d : List Int) (h : ∀ x ∈ d, 0 < x) : d.filter (· < 0) = [] := by
  apply List.filter_eq_nil_iff.mpr
  intro x hx
  have := h x hx
  simp; omega

theorem filter_nonneg_of_pos (d : List Int) (h : ∀ x ∈ d, 0 < x) : d.filter (· ≥ 0) = d := by
  apply List.filter_eq_self.mpr
  intro x hx
  have := h x hx
  simp; omega

theorem prod_eq_zero_of_mem {l : List Nat} (h : 0 ∈ l) : prod l = 0 := by
  induction l with
  | nil => cases h
  | cons a t ih =>
    simp only [prod]
    rcases List.mem_cons.mp h with h | h
    · subst h; simp
    · rw [ih h]; simp

theorem bshapeRev_none_of_mismatch : ∀ (ra rb : List Nat) (k x y : Nat),
    ra[k]? = some x → rb[k]? = some y → bdim x y = none → bshapeRev ra rb = none
  | [], _, k, x, y, h, _, _ => by simp at h
  | _ :: _, [], k, x, y, _, h, _ => by simp at h
  | p :: ps, q :: qs, 0, x, y, h1, h2, h3 => by
      simp at h1 h2; subst h1; subst h2
      simp [bshapeRev, h3]
  | p :: ps, q :: qs, k + 1, x, y, h1, h2, h3 => by
      simp at h1 h2
      simp only [bshapeRev, bshapeRev_none_of_mismatch ps qs k x y h1 h2 h3]
      cases bdim p q <;> rfl

theorem bdim_none {x y : Nat} (hxy : x ≠ y) (hx : x ≠ 1) (hy : y ≠ 1) : bdim x y = none := by
  simp [bdim, hxy, hx, hy]


theorem sum_map_const (l : List Nat) (c : Nat) : (l.map (fun _ => c)).sum = l.length * c := by
  induction l with
  | nil => simp
  | cons a t ih => simp [ih, Nat.add_mul, Nat.add_comm]

theorem allIdx_length (s : List Nat) : (allIdx s).length = prod s := by
  induction s with
  | nil => rfl
  | cons a t ih =>
    simp only [allIdx, List.length_flatMap, List.length_map, ih, prod]
    rw [sum_map_const]; simp

/-- an array value is well formed when it has as many elements as its shape demands -/
def WF (a : ArrV) : Prop := a.2.length = prod a.1

theorem tabulate_wf (r : List Nat) (f : List Nat → Nat) : WF (tabulate r f) := by
  simp [WF, tabulate, allIdx_length]

end NmVerif.KindRefs
