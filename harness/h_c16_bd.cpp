// C16 / C11: dot, matmul (v1 and v2), inner, tensordot (integer axes), kron on operands whose RANK is only bounded at compile
// time (ndarray_t<vector<int>, static_vector<size_t, CAP>>): the result-shape containers of the helper index functions
// (dot_lhs_reshape, kron_*, tensordot_*, matmul shapes) are sized from the operands' rank BOUNDS.
//   request: linalg_bd fn=<dot|matmul|matmulv2|inner|kron|tensordot> a=<shape> b=<shape> lcap=<1..3> rcap=<1..3> [n=<int axes>]
//   (evaluated through the eager functions array::fn, i.e. with the default result resolver)
//   answer : ok shape=<..> data=<..> bd=<meta::bounded_dim_v of the evaluated result type, - if none> | nothing     (operand data as `data=lin` of the other C16 units: a[k] = k+1, b[k] = 2k+3)
#include "nmtools/array/array/dot.hpp"
#include "nmtools/array/array/matmul.hpp"
#include "nmtools/array/array/inner.hpp"
#include "nmtools/array/array/kron.hpp"
#include "nmtools/array/array/tensordot.hpp"
#include "nmtools/array/ndarray.hpp"
#include "nmtools/array/eval.hpp"
#include "proto.hpp"
#include <vector>
using namespace proto; namespace nm = nmtools; namespace na = nmtools::array; namespace view = nmtools::view;

template <typename R> static std::string show(const R& r) {
    if constexpr (nm::meta::is_maybe_v<R>) { if (!nm::has_value(r)) return "nothing"; return show(*r); }
    else if constexpr (nm::meta::is_num_v<R>) return "ok shape=[] data=" + std::to_string((long long)r) + " bd=-";
    else {
        auto ev = [&]{ if constexpr (nm::meta::is_view_v<R>) return na::eval(r); else return r; }();
        std::string o = "ok shape="; auto shp = nm::shape(ev); auto d = (size_t)nm::len(shp);
        for (size_t i = 0; i < d; i++) { if (i) o += ","; o += std::to_string((long long)nm::at(shp, i)); }
        if (!d) o += "[]";
        o += " data="; auto n = (size_t)nm::size(ev);
        for (size_t i = 0; i < n; i++) { if (i) o += ","; o += std::to_string((long long)ev.data()[i]); }
        using ev_t = nm::meta::remove_cvref_t<decltype(ev)>;
        constexpr auto bd = nm::meta::bounded_dim_v<ev_t>;
        if constexpr (nm::meta::is_fail_v<decltype(bd)>) o += " bd=-"; else o += " bd=" + std::to_string((long long)bd);
        return o;
    }
}
// what the eager functions do with their view: evaluate with the default result resolver (not the older one bare eval() picks)
template <typename V> static auto evalv(const V& v) {
    if constexpr (nm::meta::is_maybe_v<V>) {
        using res_t = decltype(na::eval(*v, nm::None, nm::None, nm::meta::as_value_v<na::eval_result_t<>>));
        using out_t = nmtools_maybe<res_t>;
        if (!nm::has_value(v)) return out_t{nm::meta::Nothing};
        return out_t{na::eval(*v, nm::None, nm::None, nm::meta::as_value_v<na::eval_result_t<>>)};
    } else return na::eval(v, nm::None, nm::None, nm::meta::as_value_v<na::eval_result_t<>>);
}
template <size_t CAP> static auto mk(const uvec& s, int mul) {
    using arr_t = na::ndarray_t<std::vector<int>, nmtools_static_vector<size_t, CAP>>;
    nmtools_static_vector<size_t, CAP> sh; sh.resize(s.size()); for (size_t i = 0; i < s.size(); i++) nm::at(sh, i) = s[i];
    arr_t x; x.resize(sh); for (size_t k = 0; k < (size_t)nm::size(x); k++) x.data()[k] = (int)(mul == 1 ? k + 1 : 2 * k + 3);
    return x;
}
template <size_t LC, size_t RC> static std::string run(const Args& a) {
    auto sa = nats(a, "a"), sb = nats(a, "b");
    if (sa.size() > LC || sb.size() > RC) return "bad-args";
    auto x = mk<LC>(sa, 1); auto y = mk<RC>(sb, 2);
    std::string fn = get(a, "fn");
    if (fn == "dot") return show(na::dot(x, y));
    if (fn == "matmul") return show(na::matmul(x, y));
    if (fn == "matmulv2") return show(evalv(view::matmulv2(x, y)));
    if (fn == "inner") return show(na::inner(x, y));
    if (fn == "kron") return show(na::kron(x, y));
    if (fn == "tensordot") return show(na::tensordot(x, y, (int)integer(a, "n")));
    throw bad_args("fn");
}
std::string handle(const std::string& op, const Args& a) {
    if (op != "linalg_bd") return "unknown-op";
    int lc = (int)integer(a, "lcap"), rc = (int)integer(a, "rcap");
#define CASE(L, R) if (lc == L && rc == R) return run<L, R>(a);
    CASE(1,1) CASE(1,2) CASE(2,1) CASE(2,2) CASE(3,1) CASE(3,2) CASE(1,3) CASE(2,3) CASE(3,3)
    return "bad-args";
}
