import NmVerif.Lemmas.SliceDyn
/-
  NmVerif.Lemmas.SliceLaws — further facts about the slicing SPEC and MODEL used by Props/C05:
    * `pyLen` is the number of elements of Python's `range(start', stop', step')` (the reference length is characterised,
      not only transcribed);
    * every selection produced by the reference walks with a non-zero step through non-negative positions (`WalkOK`);
    * the reference element map is injective on the result shape (no two result elements alias one source element);
    * one-axis algebra: full slice, reversal, slice of a slice.
  Core Lean only.
-/
namespace NmVerif.Slice
open NmVerif

/-! ### `pyLen` = `len(range(st, sp, k))` -/

theorem pyLen_iff_pos (st sp k : Int) (hk : 0 < k) (j : Nat) : (j : Int) < pyLen st sp k ↔ st + j * k < sp := by
  have hjk : 0 ≤ (j : Int) * k := Int.mul_nonneg (Int.natCast_nonneg j) (Int.le_of_lt hk)
  unfold pyLen
  rw [if_neg (by omega)]
  split
  · rw [Int.lt_add_one_iff, Int.le_ediv_iff_mul_le hk]; omega
  · constructor <;> intro h <;> omega

theorem pyLen_iff_neg (st sp k : Int) (hk : k < 0) (j : Nat) : (j : Int) < pyLen st sp k ↔ sp < st + j * k := by
  have hjk : 0 ≤ (j : Int) * (-k) := Int.mul_nonneg (Int.natCast_nonneg j) (by omega)
  have e : (j : Int) * (-k) = -((j : Int) * k) := by rw [Int.mul_neg]
  unfold pyLen
  rw [if_pos hk]
  split
  · rw [Int.lt_add_one_iff, Int.le_ediv_iff_mul_le (by omega : 0 < -k)]; omega
  · constructor <;> intro h <;> omega

/-! ### a range never selects more elements than the axis has -/

theorem pyLen_le_extent (n : Nat) (a b c : Option Int) (hk : stepVal c ≠ 0) :
    (pyLen (pyStart n a c) (pyStop n b c) (stepVal c)).toNat ≤ n := by
  generalize hL : (pyLen (pyStart n a c) (pyStop n b c) (stepVal c)).toNat = L
  by_cases h0 : L = 0
  · omega
  · obtain ⟨hpos, hmul⟩ := mul_le_of_lt_pyLen (pyStart n a c) (pyStop n b c) (stepVal c) hk (L - 1) (by omega)
    have hak : 0 < absI (stepVal c) := by unfold absI; split_ifs <;> omega
    have hle : ((L - 1 : Nat) : Int) * 1 ≤ ((L - 1 : Nat) : Int) * absI (stepVal c) :=
      Int.mul_le_mul_of_nonneg_left (by omega) (Int.natCast_nonneg _)
    have h1 := pyStart_bounds n a c
    have h2 := pyStop_bounds n b c
    have hr : pyRange (pyStart n a c) (pyStop n b c) (stepVal c) ≤ n := by
      unfold pyRange
      by_cases hneg : stepVal c < 0
      · have := h1.2 hneg; have := h2.2 hneg
        rw [if_pos hneg]; split <;> omega
      · have hp : 0 < stepVal c := by omega
        have := h1.1 hp; have := h2.1 hp
        rw [if_neg hneg]; split <;> omega
    omega

/-! ### well-formed selections -/

/-- a selection walks with a non-zero step and never computes a negative position -/
def WalkOK : AxisSel → Prop
  | .pick _ => True
  | .walk l f k => k ≠ 0 ∧ ∀ j : Nat, j < l → 0 ≤ f + j * k

theorem walkOK_full (n : Nat) : WalkOK (fullSel n) := by
  refine ⟨by decide, ?_⟩
  intro j _
  omega

theorem specEntry_walkOK (n : Nat) (e : Entry) (s : AxisSel) (h : specEntry n e = some s) : WalkOK s := by
  have key : ∀ a b c, ∀ s, (pyAxis n a b c).map (fun (x : Nat × Int × Int) => AxisSel.walk x.1 x.2.1 x.2.2) = some s → WalkOK s := by
    intro a b c s hs
    have hk : stepVal c ≠ 0 := by
      intro h0
      rcases c with _ | c
      · simp [stepVal] at h0
      · simp only [stepVal] at h0; subst h0; simp [pyAxis, pyIndices] at hs
    rw [pyAxis_eq n a b c hk] at hs
    simp only [Option.map_some, Option.some.injEq] at hs
    subst hs
    exact ⟨hk, fun j hj => (pyAxis_inBounds n a b c hk j hj).1⟩
  cases e with
  | int k =>
    simp only [specEntry] at h
    split at h
    · cases h; trivial
    · cases h
  | ellipsis => simp [specEntry] at h
  | range a b c => exact key a b c s h
  | range2 a b => exact key a b none s h

theorem specGo_walkOK (nEll : Nat) : ∀ (es : List Entry) (sh : List Nat) (sels : List AxisSel),
    specGo nEll sh es = some sels → ∀ s ∈ sels, WalkOK s := by
  intro es
  induction es with
  | nil =>
    intro sh sels h s hs
    simp only [specGo, Option.some.injEq] at h
    subst h
    obtain ⟨n, _, rfl⟩ := List.mem_map.1 hs
    exact walkOK_full n
  | cons e es ih =>
    intro sh sels h s hs
    cases e with
    | ellipsis =>
      simp only [specGo] at h
      split at h
      · cases hr : specGo nEll (sh.drop nEll) es with
        | none => simp [hr] at h
        | some r =>
          simp only [hr, Option.map_some, Option.some.injEq] at h
          subst h
          rcases List.mem_append.1 hs with h1 | h1
          · obtain ⟨n, _, rfl⟩ := List.mem_map.1 h1
            exact walkOK_full n
          · exact ih _ _ hr s h1
      · cases h
    | int k =>
      cases sh with
      | nil => simp [specGo] at h
      | cons n t =>
        simp only [specGo] at h
        cases he : specEntry n (.int k) with
        | none => simp [he] at h
        | some s0 =>
          cases hr : specGo nEll t es with
          | none => simp [he, hr] at h
          | some r =>
            simp only [he, hr, Option.map_some, Option.some.injEq] at h
            subst h
            rcases List.mem_cons.1 hs with h1 | h1
            · subst h1; exact specEntry_walkOK n _ _ he
            · exact ih _ _ hr s h1
    | range a b c =>
      cases sh with
      | nil => simp [specGo] at h
      | cons n t =>
        simp only [specGo] at h
        cases he : specEntry n (.range a b c) with
        | none => simp [he] at h
        | some s0 =>
          cases hr : specGo nEll t es with
          | none => simp [he, hr] at h
          | some r =>
            simp only [he, hr, Option.map_some, Option.some.injEq] at h
            subst h
            rcases List.mem_cons.1 hs with h1 | h1
            · subst h1; exact specEntry_walkOK n _ _ he
            · exact ih _ _ hr s h1
    | range2 a b =>
      cases sh with
      | nil => simp [specGo] at h
      | cons n t =>
        simp only [specGo] at h
        cases he : specEntry n (.range2 a b) with
        | none => simp [he] at h
        | some s0 =>
          cases hr : specGo nEll t es with
          | none => simp [he, hr] at h
          | some r =>
            simp only [he, hr, Option.map_some, Option.some.injEq] at h
            subst h
            rcases List.mem_cons.1 hs with h1 | h1
            · subst h1; exact specEntry_walkOK n _ _ he
            · exact ih _ _ hr s h1

theorem specSlice_walkOK (shape : List Nat) (es : List Entry) (sels : List AxisSel)
    (h : specSlice shape es = some sels) : ∀ s ∈ sels, WalkOK s := by
  unfold specSlice at h
  simp only at h
  split at h
  · cases h
  · exact specGo_walkOK _ es shape sels h

/-! ### the reference element map is injective -/

theorem walk_injective (f k : Int) (hk : k ≠ 0) (j1 j2 : Nat) (h : f + j1 * k = f + j2 * k) : j1 = j2 := by
  have h1 : ((j1 : Int) - j2) * k = 0 := by rw [Int.sub_mul]; omega
  rcases Int.mul_eq_zero.1 h1 with h2 | h2
  · omega
  · exact absurd h2 hk

theorem specIdx_injective : ∀ (sels : List AxisSel), (∀ s ∈ sels, WalkOK s) → ∀ (d1 d2 i : List Nat),
    InShape d1 (specShape sels) → InShape d2 (specShape sels) →
    specIdx sels d1 = some i → specIdx sels d2 = some i → d1 = d2 := by
  intro sels
  induction sels with
  | nil =>
    intro _ d1 d2 i h1 h2 _ _
    cases d1 <;> cases d2 <;> simp_all [specShape, InShape]
  | cons s t ih =>
    intro hok d1 d2 i h1 h2 e1 e2
    have hokt : ∀ s ∈ t, WalkOK s := fun s hs => hok s (List.mem_cons_of_mem _ hs)
    cases s with
    | pick p =>
      simp only [specShape] at h1 h2
      simp only [specIdx] at e1 e2
      cases r1 : specIdx t d1 with
      | none => simp [r1] at e1
      | some i1 =>
        cases r2 : specIdx t d2 with
        | none => simp [r2] at e2
        | some i2 =>
          simp only [r1, r2, Option.map_some, Option.some.injEq] at e1 e2
          have : i1 = i2 := by
            have := e1.trans e2.symm
            exact (List.cons.inj this).2
          subst this
          exact ih hokt d1 d2 i1 h1 h2 r1 r2
    | walk l f k =>
      have hw : WalkOK (.walk l f k) := hok _ (List.mem_cons_self ..)
      obtain ⟨hk, hnn⟩ := hw
      simp only [specShape] at h1 h2
      cases d1 with
      | nil => simp [InShape] at h1
      | cons j1 d1 =>
        cases d2 with
        | nil => simp [InShape] at h2
        | cons j2 d2 =>
          simp only [InShape] at h1 h2
          simp only [specIdx] at e1 e2
          cases r1 : specIdx t d1 with
          | none => simp [r1] at e1
          | some i1 =>
            cases r2 : specIdx t d2 with
            | none => simp [r2] at e2
            | some i2 =>
              simp only [r1, r2, Option.map_some, Option.some.injEq] at e1 e2
              have e := e1.trans e2.symm
              obtain ⟨eh, et⟩ := List.cons.inj e
              subst et
              have n1 := hnn j1 h1.1
              have n2 := hnn j2 h2.1
              have : f + (j1 : Int) * k = f + (j2 : Int) * k := by
                have := congrArg Int.ofNat eh
                simp only [Int.ofNat_eq_natCast, Int.toNat_of_nonneg n1, Int.toNat_of_nonneg n2] at this
                exact this
              have hj := walk_injective f k hk j1 j2 this
              subst hj
              rw [ih hokt d1 d2 i1 h1.2 h2.2 r1 r2]

end NmVerif.Slice
