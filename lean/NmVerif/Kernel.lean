import NmVerif.Basic
import NmVerif.NDA
import NmVerif.Arr
/-
  L5 `Kernel` — the per-thread body of the CUDA / HIP / SYCL / OpenCL kernels (C13).

  Mirrors include/nmtools/array/eval/kernel_helper.hpp:
    create_vector<DIM>(ptr, dim)            utl::static_vector<T, NMTOOLS_KERNEL_MAX_DIM_ = 8>, resize(dim), copy dim entries
    create_array(ptr, shape)                view::reshape(view::ref(ptr, product(shape)), shape)
    create_array(ptr, shape_ptr, dim)       create_array(ptr, create_vector(shape_ptr, dim))
    create_mutable_array(ptr, shape_ptr, dim) = device_array(ptr, create_vector(shape_ptr, dim), dim)   (row-major offset)
    compute_offset(thread_id, block_id, block_size) = block_id.x * block_size.x + thread_id.x
    assign_result(output, result, tid, bid, bsz):
        size = nmtools::size(output); idx = compute_offset(..);
        if (idx < size) mutable_flatten(output)(idx) = flatten(result)(idx)
  and the kernel entries (eval/cuda/context.hpp:10-31, hip, sycl:498-517): every thread rebuilds `output` and `result`
  and executes assign_result once.  A launch is modelled as a *schedule*: the list of (thread_id.x, block_id.x) pairs in
  the order in which the threads happen to run (any order, any duplication, any over-provisioning).

  Core Lean only: linked into the `driver` executable.
-/
namespace NmVerif.Kernel
open NmVerif

/-- `NMTOOLS_KERNEL_MAX_DIM_` (capacity of the static_vector that receives a shape inside a kernel) -/
def maxDim : Nat := 8

/-- `create_vector<0>(ptr, dim)`.  `ptr` = the memory readable behind the pointer.
    `none` = UB: `static_vector::resize(dim)` is ignored when `dim > 8` and the copy loop then writes past `size()`,
    or the loop reads past the memory behind `ptr`. -/
def createVector (ptr : List Nat) (dim : Nat) : Option (List Nat) :=
  if dim ≤ maxDim ∧ dim ≤ ptr.length then some (ptr.take dim) else none

/-- element function of `reshape(ref(ptr, numel), shape)`: `reshape_t::indices` =
    `compute_indices(compute_offset(d, strides dst), src_shape)` with `src_shape = [numel]`, then `ref_t<T*>::operator()`
    reads `ptr[i0]`.  `none` = the read leaves the buffer. -/
def refReshapeGet {α : Type} (data : List α) (shape : Shape) (d : Idx) : Option α :=
  let numel := prod shape
  match computeIndices (computeOffset d (strides shape)) [numel] (strides [numel]) with
  | [k] => data[k]?
  | _ => none

/-- what a kernel sees of an operand rebuilt from a raw triple -/
structure DevView (α : Type) where
  shape : Shape
  get? : Idx → Option α

/-- `create_array(data_ptr, shape_ptr, dim)` (OpenCL kernels; `create_array(device_array)` of SYCL) -/
def createArray {α : Type} (data : List α) (shapePtr : List Nat) (dim : Nat) : Option (DevView α) :=
  (createVector shapePtr dim).map fun shape => ⟨shape, refReshapeGet data shape⟩

/-- `create_mutable_array(data_ptr, shape_ptr, dim)` = `device_array`: always `row_major_offset_t`
    whatever the layout of the host array the buffer was copied from. -/
def createMutableArray {α : Type} (data : List α) (shapePtr : List Nat) (dim : Nat) : Option (NDA α) :=
  (createVector shapePtr dim).map fun shape => { shape := shape, colMajor := false, data := data }

/-- the operand a CUDA/HIP/SYCL kernel receives for a host array: `context_t::create_array` copies
    `nmtools::data(array)` verbatim and wraps it in a (row-major) `device_array` of the same shape. -/
def deviceOperand {α : Type} (a : NDA α) : Option (NDA α) :=
  createMutableArray a.data a.shape a.shape.length

/-- `compute_offset(thread_id, block_id, block_size)`; a schedule entry is `(thread_id.x, block_id.x)` -/
def threadOffset (bsz : Nat) (t : Nat × Nat) : Nat := t.2 * bsz + t.1

/-- one thread of `assign_result`.  `result` is the denotation of `fn::apply(function, operands)`.
    `flatten(result)(idx)` reads `result` at `compute_indices(idx, shape result)`;
    `mutable_flatten(output)(idx)` writes `output` at `compute_indices(idx, shape output)` through the row-major offset.
    `none` = the write would leave the output buffer. -/
def assignResult {α : Type} (result : Arr α) (bsz : Nat) (out : NDA α) (t : Nat × Nat) : Option (NDA α) :=
  let size := prod out.shape
  let idx := threadOffset bsz t
  if idx < size then
    let src := ndindex result.shape idx
    let dst := ndindex out.shape idx
    if out.offset dst < out.data.length then some (out.set dst (result.get src)) else none
  else some out

/-- a whole launch: the threads of the schedule one after the other -/
def runSchedule {α : Type} (result : Arr α) (bsz : Nat) (out : NDA α) (sched : List (Nat × Nat)) : Option (NDA α) :=
  sched.foldlM (assignResult result bsz) out

/-! ### flat level: what the fold does to the output buffer -/

/-- one thread on flat buffers: `out[idx] := res[idx]` under the guard; `none` = `res` too short (read out of bounds) -/
def kstep {α : Type} (res : List α) (bsz : Nat) (out : List α) (t : Nat × Nat) : Option (List α) :=
  let idx := threadOffset bsz t
  if idx < out.length then (res[idx]?).map (fun v => out.set idx v) else some out

def kfold {α : Type} (res : List α) (bsz : Nat) (out : List α) (sched : List (Nat × Nat)) : Option (List α) :=
  sched.foldlM (kstep res bsz) out

/-- thread `t` of the schedule addresses cell `i` -/
def Hits (bsz : Nat) (sched : List (Nat × Nat)) (i : Nat) : Prop := ∃ t ∈ sched, threadOffset bsz t = i

/-- every cell of an output of `n` elements is addressed by some thread (thread count ≥ output size, 1-d launch) -/
def Covers (bsz : Nat) (sched : List (Nat × Nat)) (n : Nat) : Prop := ∀ i, i < n → Hits bsz sched i

/-! ### schedules of a 1-d launch (used by the driver and by the non-vacuity examples) -/

/-- all threads of a launch with `grid` blocks of `bsz` threads, ascending global id -/
def launchAsc (bsz grid : Nat) : List (Nat × Nat) :=
  (List.range grid).flatMap fun b => (List.range bsz).map fun t => (t, b)

end NmVerif.Kernel
