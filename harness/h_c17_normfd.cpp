// C17 harness: batch_norm on inputs whose RANK is a compile-time constant (shape container std::array<size_t,R>):
// view::batch_norm chooses the number of parameter axes from dim(input) in an `if constexpr` branch of its own when the
// rank is known at compile time; h_c17_norm.cpp (std::vector shapes) only reaches the run-time branch.
//   batch_norm xs x ms m vs v ws w bs b kind=fixed_dim        (rank of x: 2..5)
#include "nmtools/array/array/batch_norm.hpp"
#include "c17_util.hpp"

using namespace c17;

template <typename T, size_t R> using farr_t = na::ndarray_t<std::vector<T>, std::array<size_t, R>>;

template <typename T, size_t R> farr_t<T, R> mkfd(const Args& a, const std::string& key) {
    auto shape = proto::nats(a, key + "s");
    auto vals  = parse_reals(proto::get(a, key));
    size_t n = 1; for (auto e : shape) n *= e;
    if (shape.size() != R || vals.size() != n) throw proto::bad_args("shape / data length of " + key);
    std::array<size_t, R> s{}; for (size_t i = 0; i < R; i++) s[i] = shape[i];
    farr_t<T, R> x; x.resize(s);
    for (size_t i = 0; i < n; i++) x.data()[i] = (T)vals[i];
    return x;
}

template <size_t R> static std::string batch_norm_fd(const Args& a) {
    auto x = mkfd<float, R>(a, "x");
    auto m = mkfd<float, 1>(a, "m"); auto v = mkfd<float, 1>(a, "v"); auto w = mkfd<float, 1>(a, "w"); auto b = mkfd<float, 1>(a, "b");
    static_assert(meta::is_constant_index_v<decltype(nm::dim<true>(x))>, "the rank of the input is meant to be a compile-time constant here");
    return fmt_result(na::batch_norm(x, m, v, w, b));
}

std::string handle(const std::string& op, const Args& a) {
    if (op == "batch_norm") {
        switch (proto::nats(a, "xs").size()) {
            case 2: return batch_norm_fd<2>(a);
            case 3: return batch_norm_fd<3>(a);
            case 4: return batch_norm_fd<4>(a);
            case 5: return batch_norm_fd<5>(a);
            default: return "bad-args";
        }
    }
    return "unknown-op";
}
