// C17 harness helpers: arrays from request arguments, canonical printing of evaluated results.
//   <key>s=<shape>  <key>=<row-major data, ints or decimal floats>
#pragma once
#include "nmtools/array/ndarray.hpp"
#include "nmtools/utility/has_value.hpp"
#include "nmtools/utility/unwrap.hpp"
#include "nmtools/meta.hpp"
#include "proto.hpp"
#include <cmath>
#include <cstdio>
#include <array>

namespace c17 {
namespace nm = nmtools; namespace na = nmtools::array; namespace meta = nmtools::meta;
using proto::Args;

template <typename T> using arr_t = na::ndarray_t<std::vector<T>, std::vector<size_t>>;

inline std::vector<double> parse_reals(const std::string& s) {
    std::vector<double> r; if (s=="[]" || s.empty()) return r;
    for (auto& t : proto::split(s, ',')) r.push_back(std::stod(t));
    return r;
}

// array `key` of element type T: shape from `<key>s`, data from `<key>`
template <typename T> arr_t<T> mk(const Args& a, const std::string& key) {
    auto shape = proto::nats(a, key + "s");
    auto vals  = parse_reals(proto::get(a, key));
    size_t n = 1; for (auto e : shape) n *= e;
    if (vals.size() != n) throw proto::bad_args("data length of " + key);
    arr_t<T> x; x.resize(shape);
    for (size_t i = 0; i < n; i++) x.data()[i] = (T)vals[i];
    return x;
}

inline std::string fmt_real(double v) {
    if (std::isnan(v)) return "nan";
    if (std::isinf(v)) return v > 0 ? "inf" : "-inf";
    if (v == std::floor(v) && std::fabs(v) < 1e15) { char b[40]; snprintf(b, sizeof b, "%lld", (long long)v); return b; }
    char b[40]; snprintf(b, sizeof b, "%.9g", v); return b;
}

// `ok shape=.. data=..` of an evaluated result (ndarray with data()), `nothing` for an empty maybe, scalars as shape=[]
template <typename R> std::string fmt_result(const R& r) {
    if constexpr (meta::is_maybe_v<R>) {
        if (!nm::has_value(r)) return "nothing";
        return fmt_result(*r);
    } else if constexpr (meta::is_num_v<R>) {
        return "ok shape=[] data=" + fmt_real((double)r);
    } else {
        auto s = nm::shape(r);
        std::string out = "ok shape=";
        size_t d = nm::len(s); size_t n = 1;
        if (d == 0) out += "[]";
        for (size_t i = 0; i < d; i++) { if (i) out += ","; out += std::to_string((unsigned long long)nm::at(s, i)); n *= (size_t)nm::at(s, i); }
        out += " data=";
        if (n == 0) out += "[]";
        if (n > 4000000) return "ok shape-too-large";
        for (size_t i = 0; i < n; i++) { if (i) out += ","; out += fmt_real((double)r.data()[i]); }
        return out;
    }
}

// call f(None) or f(int) or f(std::array<int,2>) according to the argument text
template <typename F> std::string opt_int(const Args& a, const char* key, F f) {
    if (proto::is_none(a, key)) return f(nm::None);
    return f((int)proto::integer(a, key));
}
} // namespace c17
