import NmVerif.Arr
import NmVerif.Index.NormalizeAxis
/-
  NmVerif.Index.Transpose — MODEL of
    include/nmtools/array/index/transpose.hpp   index::shape_transpose
    include/nmtools/array/index/scatter.hpp     index::scatter        (ret[idx[i]] = vec[i] on a zero-initialised ret)
    include/nmtools/array/index/reverse.hpp     index::reverse
    include/nmtools/array/view/transpose.hpp    view::transpose_t::indices, view::transpose
    include/nmtools/array/view/swapaxes.hpp     index::swapaxes_to_transpose, view::swapaxes
    include/nmtools/array/index/moveaxis.hpp    index::moveaxis_to_transpose (+ index::argsort)
    include/nmtools/array/view/moveaxis.hpp     view::moveaxis

  Stable names:
    scatter vec idx                : List Nat
    shapeTranspose shape axes      : Option Shape        axes : Option (List Int), `none` = default (reverse)
    transposeView  src axes        : Option IxView
    swapaxesToTranspose dim a1 a2  : Option (List Nat)
    swapaxesView   src a1 a2       : Option IxView
    argsort l                      : List Nat            (insertion sort of positions, as the C++)
    moveaxisToTranspose dim s d    : Option (List Nat)
    moveaxisView   src s d         : Option IxView

  `none` = the C++ returns Nothing, or (documented per function) the C++ has undefined behaviour because an
  unvalidated axis leaves its container (transpose axes are never validated, see DESIGN §7 F3; that domain is C15's).
  Duplicate transpose axes are accepted by the C++ and mirrored here.

  Core Lean only.
-/
namespace NmVerif

/-- `index::scatter(vec, idx)`: `ret = zeros(len vec); for i: ret[idx[i]] = vec[i]`. -/
def scatter (vec : List Nat) (idx : List Nat) : List Nat :=
  (vec.zip idx).foldl (fun ret p => ret.set p.2 p.1) (List.replicate vec.length 0)

/-- `index::shape_transpose(shape, axes)`: `None` ⇒ reversed shape, else `res[i] = at(shape, at(axes, i))`
    (negative entries are taken from the end by `at`).  `none` here = an entry of `axes` leaves `shape`
    or `len axes ≠ len shape` (C++: out-of-range read, UB — not a Nothing). -/
def shapeTranspose (shape : Shape) (axes : Option (List Int)) : Option Shape :=
  match axes with
  | none => some shape.reverse
  | some ax =>
    if ax.length = shape.length then
      ax.mapM (fun a => (atPos shape.length a).bind (fun k => shape[k]?))
    else none

/-- `view::transpose(array, axes)`: shape from `shape_transpose`, index map `reverse(d)` / `scatter(d, axes)`. -/
def transposeView (src : Shape) (axes : Option (List Int)) : Option IxView :=
  match axes with
  | none => some ⟨src, src.reverse, fun d => some d.reverse⟩
  | some ax =>
    match shapeTranspose src (some ax), ax.mapM (atPos src.length) with
    | some dst, some nax => some ⟨src, dst, fun d => some (scatter d nax)⟩
    | _, _ => none

/-- `index::swapaxes_to_transpose(dim, axis1, axis2)`: identity order with the two (normalised) positions exchanged.
    `none` = `unwrap` of an empty `normalize_axis` result (UB in the C++). -/
def swapaxesToTranspose (dim : Nat) (a1 a2 : Int) : Option (List Nat) :=
  match normalizeAxis dim a1, normalizeAxis dim a2 with
  | some m1, some m2 =>
    let r := List.range dim
    -- tmp = r[m1]; r[m1] = r[m2]; r[m2] = tmp
    some ((r.set m1 m2).set m2 m1)
  | _, _ => none

/-- `view::swapaxes` = `view::transpose(array, swapaxes_to_transpose(dim, a1, a2))` -/
def swapaxesView (src : Shape) (a1 a2 : Int) : Option IxView :=
  (swapaxesToTranspose src.length a1 a2).bind (fun o => transposeView src (some (o.map Int.ofNat)))

/-- inner `while` of `index::argsort`: bubble position `j` down while the key before it is larger -/
def argsortInsert (key : Nat → Nat) : List Nat → Nat → List Nat
  | [], x => [x]
  | y :: ys, x => if key y > key x then y :: argsortInsert key ys x else x :: y :: ys

/-- `index::argsort(array)`: insertion sort of the positions `0..n-1` by `array[·]` (stable). -/
def argsort (l : List Nat) : List Nat :=
  -- `sorted` is kept reversed (largest key first) so that the inner loop walks from the back as the C++ does
  let key := fun i => l.getD i 0
  ((List.range l.length).foldl (fun acc i => argsortInsert key acc i) []).reverse

/-- the `insert(pos, val, array)` lambda of `moveaxis_to_transpose`: shift `[pos, len-1)` right by one
    (the last entry falls off), then `array[pos] = val`.  Fixed length.  (`pos ≥ len` would be an out-of-range
    write in the C++; it cannot happen after `normalize_axis`.) -/
def insertShift (pos val : Nat) (arr : List Nat) : List Nat :=
  (arr.take pos ++ val :: arr.drop pos).take arr.length

/-- `index::moveaxis_to_transpose(shape, source, destination)` with index-array arguments (an integer argument is
    wrapped into a one-element array by `as_array`).  Nothing if an axis is out of range or the lengths differ.
    No duplicate check (as the C++). -/
def moveaxisToTranspose (dim : Nat) (source destination : List Int) : Option (List Nat) :=
  match normalizeAxes dim source, normalizeAxes dim destination with
  | some src, some dst =>
    if src.length ≠ dst.length then none else
    let rest := (List.range dim).filter (fun i => !src.contains i)
    let order0 := rest ++ List.replicate (dim - rest.length) 0
    let arg := argsort dst
    some (arg.foldl (fun order i => insertShift (dst.getD i 0) (src.getD i 0) order) order0)
  | _, _ => none

/-- `view::moveaxis` = `view::transpose(array, moveaxis_to_transpose(shape, source, destination))` -/
def moveaxisView (src : Shape) (source destination : List Int) : Option IxView :=
  (moveaxisToTranspose src.length source destination).bind (fun o => transposeView src (some (o.map Int.ofNat)))

end NmVerif
