import NmVerif.Simd.Loop
import NmVerif.Simd.LoopLemmas
/-
  C12 — SIMD evaluation equals scalar evaluation for every size, shape and layout.
  Only property statements (+ non-vacuity examples, counterexamples of known findings) live here.

  Assumption made explicit (never an axiom): the intrinsic wrappers are lane-wise,
  `LaneWise1 lanes packF f` / `LaneWise2 lanes packF f` — "`op.eval` on a register of `lanes`
  elements is the scalar functor applied to each lane".  It is validated on this CPU by the
  bit-identical differential run of ./check C12.
-/
namespace NmVerif.Props.C12
open NmVerif NmVerif.Simd

variable {α β : Type}

/-- `_mm256_sqrt_ps` & co.: a unary packed op is the scalar functor on each lane -/
def LaneWise1 (lanes : Nat) (packF : List α → List β) (f : α → β) : Prop :=
  ∀ xs, xs.length = lanes → packF xs = xs.map f

/-- `_mm256_add_ps` & co.: a binary packed op is the scalar functor on each pair of lanes -/
def LaneWise2 (lanes : Nat) (packF : List α → List α → List β) (f : α → α → β) : Prop :=
  ∀ xs ys, xs.length = lanes → ys.length = lanes → packF xs ys = List.zipWith f xs ys

/-! ## packed loop + scalar tail: index structure (all `n`, all `lanes > 0`) -/

/-- the packed loop visits exactly the chunk starts `0, N, …, (n/N − 1)·N` -/
theorem packedStarts_closed (lanes n : Nat) (hl : 0 < lanes) :
    packedStarts lanes n = (List.range (n / lanes)).map (· * lanes) := packedStarts_eq lanes n hl

/-- every packed access `[i, i+lanes)` lies inside `[0, n)` -/
theorem packed_access_in_bounds (lanes n : Nat) (hl : 0 < lanes) (i : Nat) (hi : i ∈ packedStarts lanes n) :
    i + lanes ≤ n := by
  rw [packedStarts_eq lanes n hl] at hi
  simp only [List.mem_map, List.mem_range] at hi
  obtain ⟨k, hk, rfl⟩ := hi
  have h1 : (k + 1) * lanes ≤ n / lanes * lanes := Nat.mul_le_mul_right lanes hk
  have h2 := Nat.div_mul_le_self n lanes
  rw [Nat.succ_mul] at h1
  omega

/-- packed chunks followed by the leftover loop enumerate `0 … n-1` in order:
    every output cell is written exactly once, none outside the buffer -/
theorem packed_tail_partition (lanes n : Nat) (hl : 0 < lanes) :
    (packedStarts lanes n).flatMap (fun i => List.range' i lanes) ++ tailIdx lanes n = List.range n := by
  rw [packedStarts_eq lanes n hl, tailIdx]
  have hM := Nat.div_mul_le_self n lanes
  have hn : n = n / lanes * lanes + (n - n / lanes * lanes) := by omega
  conv => rhs; rw [hn, List.range_eq_range', ← List.range'_append (step := 1)]
  congr 1
  · rw [← List.range_eq_range', range_mul_flatMap, List.flatMap_map]
    apply flatMap_congr'
    intro k _
    rw [List.range_eq_range', List.map_add_range']
    simp
  · simp

/-! ## eval_unary -/

/-- **SIMD unary = scalar evaluator**, every shape / element count, every `lanes > 0`,
    row-major operand (the layout the packed loop assumes), no access outside a buffer
    (the result is `some _`). -/
theorem simdUnary_eq_scalar (lanes : Nat) (hl : 0 < lanes) (packF : List α → List β) (f : α → β)
    (hpf : LaneWise1 lanes packF f)
    (a : NDA α) (hw : a.WF) (hr : a.colMajor = false) (hs : Pos a.shape)
    (out : List β) (ho : out.length = prod a.shape) :
    simdUnary lanes packF f a out = scalarUnary f a := by
  have hlog := logical_rowMajor a hw hr hs
  have hw' : a.data.length = prod a.shape := hw
  unfold scalarUnary
  rw [hlog]
  unfold simdUnary
  have hn : (a.data.map f).length = prod a.shape := by rw [List.length_map]; exact hw
  have := packed_then_tail (a.data.map f) out lanes (prod a.shape) hl
    (fun o i => do let r ← loadu a.data i lanes; storeu o i (packF r))
    (fun o i => do
      let v ← a.get? (ndindex a.shape i)
      writeAt o (computeOffset (ndindex a.shape i) (strides a.shape)) (f v))
    hn ho
    (by
      intro k o hk
      rw [loadu_eq (by rw [hw]; exact hk)]
      simp only [Option.bind_eq_bind, Option.bind_some]
      rw [hpf _ (by rw [List.length_take, List.length_drop]; omega)]
      simp [List.map_take, List.map_drop])
    (by
      intro i o v hv
      have hi : i < prod a.shape := by
        have := (List.getElem?_eq_some_iff.1 hv).1
        rw [List.length_map] at this; omega
      rw [get?_ndindex_rowMajor a hr hs i hi]
      rw [List.getElem?_map] at hv
      have hoff : computeOffset (ndindex a.shape i) (strides a.shape) = i := offset_indices hs hi
      rw [hoff]
      cases hd : a.data[i]? with
      | none => rw [hd] at hv; simp at hv
      | some x => rw [hd] at hv; simp at hv; simp [hv])
  simpa using this

/-- … and that common value is `f` mapped over the operand, in order -/
theorem simdUnary_eq_map (lanes : Nat) (hl : 0 < lanes) (packF : List α → List β) (f : α → β)
    (hpf : LaneWise1 lanes packF f)
    (a : NDA α) (hw : a.WF) (hr : a.colMajor = false) (hs : Pos a.shape)
    (out : List β) (ho : out.length = prod a.shape) :
    simdUnary lanes packF f a out = some (a.data.map f) := by
  rw [simdUnary_eq_scalar lanes hl packF f hpf a hw hr hs out ho, scalarUnary, logical_rowMajor a hw hr hs]
  rfl

/-- F11 (known finding `layout.column-major`): the packed loop reads `data()` linearly whatever the
    operand layout; on a column-major (2,2) operand with 2 lanes the SIMD result is not the scalar one. -/
theorem simdUnary_colMajor_counterexample :
    simdUnary 2 (fun xs => xs.map (· + 100)) (· + 100) ⟨[2,2], true, [0,1,2,3]⟩ [0,0,0,0]
      ≠ scalarUnary (· + 100) (⟨[2,2], true, [0,1,2,3]⟩ : NDA Nat) := by decide

/-! non-vacuity -/
example : LaneWise1 4 (fun xs : List Nat => xs.map (· + 1)) (· + 1) := fun _ _ => rfl
example : (⟨[2,5], false, List.range 10⟩ : NDA Nat).WF ∧ Pos [2,5] := ⟨by simp [NDA.WF, prod], by decide⟩
example : simdUnary 4 (fun xs => xs.map (· + 1)) (· + 1) ⟨[2,5], false, List.range 10⟩ (List.replicate 10 0)
    = some ((List.range 10).map (· + 1)) := by decide
example : packedStarts 4 10 = [0,4] ∧ tailIdx 4 10 = [8,9] := by decide

end NmVerif.Props.C12
