import NmVerif.Proto
import NmVerif.Arr
import NmVerif.Index.Transpose
import NmVerif.Index.Reshape
import NmVerif.Index.Flip
import NmVerif.Index.Tile
import NmVerif.Index.Pad
import NmVerif.Index.Take
import NmVerif.Index.Repeat
import NmVerif.Index.Broadcast
/-
  C02 driver: chains of indexing views as `IxView.comp` of the per-kind models (the objects the theorems
  `Props.C02.chain_inBounds` / `chain_read_in_buffer` speak about).

    chain shape=<dims> ops=<stage>/<stage>/…      (store=, mode= are the harness' business and ignored here)
      stage = transpose:<axes> | reshape:<to> | tile:<reps> | flip:<axes> | bcast:<shape> | pad:<widths>
            | take:<indices>:<axis> | repeat:<r>:<axis>
    answer  `ok shape=<dims> data=<flat source id per element, -1 = fill>` | `nothing` | `unmodelled` (other stage kinds)
-/
namespace NmVerif.Driver.C02
open NmVerif NmVerif.Proto NmVerif.Index

def nats? (l : List Int) : Option (List Nat) := l.mapM (fun x => if x < 0 then none else some x.toNat)

/-- outer `none`: not a modelled stage / malformed; inner `none`: the view is Nothing -/
def stageView (s : Shape) (stage : String) : Option (Option IxView) :=
  match stage.splitOn ":" with
  | ["transpose", ax] => do let ax ← parseInts ax; pure (transposeView s (some ax))
  | ["reshape", t] => do let t ← parseInts t; pure (reshapeView s t)
  | ["tile", r] => do let r ← parseInts r; let r ← nats? r; pure (tileView s r)
  | ["flip", ax] => do let ax ← parseInts ax; pure (flipView s (some ax))
  | ["bcast", d] => do let d ← parseInts d; let d ← nats? d; pure (broadcastToView s d)
  | ["pad", w] => do let w ← parseInts w; let w ← nats? w; pure (padView s w)
  | ["take", ind, ax] => do let ind ← parseInts ind; let ax ← ax.toInt?; pure (takeView s ind (some ax))
  | ["repeat", r, ax] => do let r ← r.toNat?; let ax ← ax.toInt?; pure (repeatView s r (some ax))
  | _ => none

/-- stages applied left to right; the accumulated view reads from the leaf array -/
def chainView (s : Shape) : List String → Option (Option IxView)
  | [] => none
  | st :: rest => do
    let first ← stageView s st
    rest.foldlM (fun (acc : Option IxView) st =>
      match acc with
      | none => some none
      | some inner => do
        let outer ← stageView inner.dst st
        pure (outer.map (fun o => o.comp inner))) first

def handle : Handler := fun op a =>
  match op with
  | "chain" => orBad do
      let s ← a.nats "shape"; let ops ← a.get? "ops"
      match chainView s (ops.splitOn "/") with
      | none => pure "unmodelled"
      | some none => pure "nothing"
      | some (some v) => pure s!"ok shape={fmtNats v.dst} data={fmtInts v.provenance}"
  | _ => none

end NmVerif.Driver.C02
