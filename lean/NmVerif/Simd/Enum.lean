import NmVerif.Basic
/-
  NmVerif.Simd.Enum — MODEL of the pure SIMD index enumerators
    include/nmtools/array/eval/simd/index/common.hpp   enum SIMD (tags)
    include/nmtools/array/eval/simd/index/ufunc.hpp    binary_2d_simd_shape / binary_2d_simd,
                                                       reduction_nd_reshape / reduction_2d_shape / reduction_2d,
                                                       outer_simd_shape / outer_simd
    include/nmtools/array/eval/simd/index/matmul.hpp   matmul_simd_inner_size / matmul_simd_inner
  one Lean function per C++ function, same case analysis, `Nat` for `size_t` (the subtractions that the
  C++ performs in unsigned arithmetic are only *used* on the branch where they do not wrap; `Nat`
  truncation is harmless there and flagged where it matters).  Core Lean only.
-/
namespace NmVerif.Simd
open NmVerif

/-- `enum SIMD : int` of index/common.hpp; `PAD_k = k` (1 ≤ k) -/
abbrev Tag := Int
def Tag.NOP : Int := -999
def Tag.ACCUMULATE_PACKED : Int := -4
def Tag.BROADCAST : Int := -3
def Tag.SCALAR : Int := -2
def Tag.ACCUMULATE : Int := -1
def Tag.PACKED : Int := 0
/-- `static_cast<SIMD>(k)` -/
def Tag.PAD (k : Nat) : Int := (k : Int)

/-- `nmtools_tuple<SIMD,index_t>` -/
structure TIdx where
  tag : Int
  off : Nat
deriving Repr, DecidableEq

/-! ### binary, two 2-d operands with broadcasting -/

/-- `binary_2d_simd_shape(N, out_shape, lhs_shape, rhs_shape)`; `oc` = `out_cols`, `lr`/`rr` = rows of lhs/rhs -/
def binary2dShape (N oc lr rr : Nat) : Nat × Nat :=
  (if rr = 1 then lr else rr, oc / N + oc % N)

/-- one operand of `binary_2d_simd`: (`is_scalar_*`, `is_broadcast_*`, else packed).
    A one-column operand is indexed by the row, or by 0 when it has a single row (the `(1,1)` operand). -/
def binary2dOperand (N sr sc oc : Nat) (isScalarRes : Bool) (rows cols : Nat) : TIdx :=
  let isScalar := isScalarRes && decide (sc ≥ cols / N)
  if isScalar then
    let nPacked := cols / N
    ⟨Tag.SCALAR, if cols = 1 then (if rows > 1 then sr else 0)
                 else nPacked * N + (sc - nPacked) + sr * oc * (if rows > 1 then 1 else 0)⟩
  else if cols = 1 then ⟨Tag.BROADCAST, if rows > 1 then sr else 0⟩
  else ⟨Tag.PACKED, sc * N + sr * oc * (if rows > 1 then 1 else 0)⟩

/-- `binary_2d_simd(N, {simd_row, simd_col}, …)` → (out, lhs, rhs) -/
def binary2d (N sr sc oc lr lc rr rc : Nat) : TIdx × TIdx × TIdx :=
  let nPacked := oc / N
  let isScalarRes := decide (sc ≥ nPacked)
  let scalarResIdx := nPacked * N + (sc - nPacked) + sr * oc
  let packedResIdx := sc * N + sr * oc
  let rhs := binary2dOperand N sr sc oc isScalarRes rr rc
  let lhs := binary2dOperand N sr sc oc isScalarRes lr lc
  (if isScalarRes then ⟨Tag.SCALAR, scalarResIdx⟩ else ⟨Tag.PACKED, packedResIdx⟩, lhs, rhs)

/-- `binary_2d_simd_enumerator_t::operator[](i)` -/
def binary2dAt (N oc lr lc rr rc i : Nat) : TIdx × TIdx × TIdx :=
  let simdCols := (binary2dShape N oc lr rr).2
  binary2d N (i / simdCols) (i % simdCols) oc lr lc rr rc

def binary2dSize (N oc lr rr : Nat) : Nat := (binary2dShape N oc lr rr).1 * (binary2dShape N oc lr rr).2

/-! ### reductions -/

inductive RKind | horizontal | vertical
deriving Repr, DecidableEq

/-- `reduction_nd_reshape(kind, N, shape, _, axis)`: the n-d shape seen as 2-d.
    `axis` is only read for VERTICAL (`for (i=0; i<=(int)axis; i++)`), as a natural number. -/
def reductionNdReshape (kind : RKind) (shape : List Nat) (axis : Nat) : Nat × Nat :=
  let dim := shape.length
  let r : Nat × Nat :=
    match kind with
    | .horizontal => (prod (shape.take (dim - 1)), shape.getD (dim - 1) 0)
    | .vertical => (prod (shape.take (axis + 1)), prod (shape.drop (axis + 1)))
  if dim = 1 then (1, shape.getD 0 0) else r

/-- `reduction_2d_shape(kind, N, inp_shape(2-d), _)` -/
def reduction2dShape (kind : RKind) (N : Nat) (inp : Nat × Nat) : Nat × Nat :=
  match kind with
  | .horizontal => (inp.1, inp.2 / N + (if inp.2 % N ≠ 0 then 1 else 0))
  | .vertical => (inp.1, inp.2 / N + inp.2 % N)

/-- `reduction_2d(kind, N, {i,j}, _, out_shape(2-d), inp_shape(2-d))` → (out, inp).
    `none`: the C++ divides by zero (`inp_rows / out_rows == 0`). -/
def reduction2d (kind : RKind) (N i j : Nat) (out inp : Nat × Nat) : Option (TIdx × TIdx) :=
  let nOps := inp.2
  let nSimd := nOps / N
  match kind with
  | .horizontal =>
    let nRest := nOps - nSimd * N
    let outTag := if j + 1 = nSimd + (if nRest ≠ 0 then 1 else 0) then Tag.ACCUMULATE else Tag.NOP
    let inpTag := if j * N + N > nOps then Tag.PAD (N - nRest) else Tag.PACKED
    some (⟨outTag, i⟩, ⟨inpTag, i * nOps + j * N⟩)
  | .vertical =>
    if inp.1 / out.1 = 0 then none else
    let inpOffset := i * inp.2
    let outOffset := (i / (inp.1 / out.1)) * out.2     -- len(out_shape) > 1 always (2-d reshaped)
    let rel := nSimd * N + (j - nSimd)
    let outIdx := if j * N > nOps then outOffset + rel else outOffset + j * N
    let inpIdx := if j * N > nOps then inpOffset + rel else inpOffset + j * N
    let packed := decide (j * N + N ≤ nOps)
    some (⟨if packed then Tag.ACCUMULATE_PACKED else Tag.ACCUMULATE, outIdx⟩,
          ⟨if packed then Tag.PACKED else Tag.SCALAR, inpIdx⟩)

/-- `reduction_2d_enumerator(kind, N, out_shape, inp_shape, axis)`: both shapes reshaped, then `operator[](i)` -/
def reductionAt (kind : RKind) (N : Nat) (outShape inpShape : List Nat) (axis i : Nat) : Option (TIdx × TIdx) :=
  let inp := reductionNdReshape kind inpShape axis
  let out := reductionNdReshape kind outShape axis
  let ss := reduction2dShape kind N inp
  reduction2d kind N (i / ss.2) (i % ss.2) out inp

def reductionSize (kind : RKind) (N : Nat) (inpShape : List Nat) (axis : Nat) : Nat :=
  let ss := reduction2dShape kind N (reductionNdReshape kind inpShape axis)
  ss.1 * ss.2

/-! ### outer -/

/-- `outer_simd_shape(N, out_shape, lhs_shape, rhs_shape)`: `lhs ++ rhs` with the last extent replaced -/
def outerSimdShape (N : Nat) (out lhs rhs : List Nat) : List Nat :=
  let nOps := out.getLastD 0
  let s := lhs ++ rhs
  s.take (s.length - 1) ++ [nOps / N + (if nOps % N ≠ 0 then 1 else 0)]

/-- `Σ_{i<cnt} strides[i] * indices[i+start]` (the two local lambdas of `outer_simd`: `compute_outer_simd_offset`
    and `compute_offset(indices, strides, start_dim, N)`), written with `computeOffset` on the index window -/
def partialOffset (indices strides : List Nat) (start cnt : Nat) : Nat :=
  computeOffset ((indices.drop start).take cnt) strides

/-- `outer_simd(N, simd_index, _, out_strides, out_shape, lhs_shape, rhs_shape, lhs_strides, rhs_strides)` -/
def outerSimd (N : Nat) (idx out lhs rhs : List Nat) : TIdx × TIdx × TIdx :=
  let nOps := out.getLastD 0
  let nPacked := nOps / N
  let sj := idx.getLastD 0
  let outTag := if sj * N + N > nOps then Tag.PAD (N - (nOps - nPacked * N)) else Tag.PACKED
  let outerOffset := partialOffset idx (strides out) 0 (idx.length - 1)
  let outOffset := outerOffset + sj * N
  let lhsDim := lhs.length
  let rhsDim := rhs.length
  let lhsOffset :=
    if lhsDim = 1 then idx.getD 0 0
    else if lhsDim = 2 then idx.getD 0 0 * out.getD 1 0 + idx.getD 1 0
    else partialOffset idx (strides lhs) 0 lhsDim
  let rhsOffset :=
    if rhsDim = 1 then sj * N
    else if rhsDim = 2 then idx.getD (idx.length - 2) 0 * nOps + sj * N
    else partialOffset idx (strides rhs) lhsDim (rhsDim - 1) + sj * N
  (⟨outTag, outOffset⟩, ⟨Tag.BROADCAST, lhsOffset⟩, ⟨outTag, rhsOffset⟩)

/-- `outer_simd_enumerator_t::operator[](i)` -/
def outerAt (N : Nat) (out lhs rhs : List Nat) (i : Nat) : TIdx × TIdx × TIdx :=
  let ss := outerSimdShape N out lhs rhs
  outerSimd N (computeIndices i ss (strides ss)) out lhs rhs

def outerSize (N : Nat) (out lhs rhs : List Nat) : Nat := prod (outerSimdShape N out lhs rhs)

/-! ### matmul: lhs (M,K) row-major, rhs (K,Nn) column-major, out (M,Nn) row-major -/

/-- `matmul_simd_inner_size` -/
def matmulInnerSize (N K : Nat) : Nat := K / N + (if K % N ≠ 0 then 1 else 0)

/-- `matmul_simd_inner(N, out_offset, inner_step, out_shape, lhs_shape, _)`; `oc` = out cols, `K` = lhs cols -/
def matmulInner (N outOffset step oc K : Nat) : TIdx × TIdx × TIdx :=
  let nSimd := K / N
  let nRest := K - nSimd * N
  let outRow := outOffset / oc
  let outCol := outOffset % oc
  let resL := outRow * K + step * N
  let resR := outCol * K + step * N
  let tag := if step * N + N ≤ K then Tag.PACKED else Tag.PAD (N - nRest)
  (⟨Tag.SCALAR, outOffset⟩, ⟨tag, resL⟩, ⟨tag, resR⟩)

end NmVerif.Simd
