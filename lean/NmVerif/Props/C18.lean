import NmVerif.Utility.IsEqual
import NmVerif.Lemmas.Addressing
/-
  C18 — isequal / isclose are exact comparison oracles (shape-aware, symmetric, total).
-/
namespace NmVerif.Props.C18
open NmVerif NmVerif.IsEqual

theorem range_map_getElem? (d : List Int) : (List.range d.length).map (fun i => d[i]?) = d.map some := by
  apply List.ext_getElem?
  intro i
  by_cases h : i < d.length
  · simp [h]
  · simp [h]

/-- reading a well-formed ndarray operand through its own ndindex never leaves the buffer and yields the
    buffer in order (C01 round trip) -/
theorem flatRead_eq (s : Shape) (d : List Int) (hl : d.length = prod s) (hs : Pos s) :
    flatRead s d = d.map some := by
  unfold flatRead ndGet
  rw [← range_map_getElem? d, hl]
  apply List.map_congr_left
  intro i hi
  simp only [List.mem_range] at hi
  simp only [ndindex]
  rw [offset_indices hs hi]

theorem all_isSome_map_some (d : List Int) : (d.map some).all Option.isSome = true := by
  induction d with
  | nil => rfl
  | cons x xs ih => simp [ih]

theorem map_some_beq (a b : List Int) : ((a.map some) == (b.map some)) = decide (a = b) := by
  induction a generalizing b with
  | nil => cases b <;> simp
  | cons x xs ih =>
    cases b with
    | nil => simp
    | cons y ys =>
      have := ih ys
      simp only [List.map_cons, List.cons_beq_cons, this]
      by_cases hxy : x = y <;> simp [hxy]

/-- isequal on arrays = same dimension ∧ same shape ∧ all elements equal; total (never out of bounds) -/
theorem isequalNd_eq_spec (s1 : Shape) (d1 : List Int) (s2 : Shape) (d2 : List Int)
    (h1 : d1.length = prod s1) (p1 : Pos s1) (h2 : d2.length = prod s2) (p2 : Pos s2) :
    isequalNd s1 d1 s2 d2 = .val (specNd s1 d1 s2 d2) := by
  unfold isequalNd specNd
  by_cases hs : s1 = s2
  · subst hs
    simp only [ne_eq, not_true_eq_false, if_false]
    rw [flatRead_eq s1 d1 h1 p1, flatRead_eq s1 d2 h2 p1]
    simp [all_isSome_map_some, map_some_beq]
  · by_cases hl : s1.length = s2.length
    · simp [hs, hl]
    · simp [hs, hl]

/-- operands of different shape compare false whatever the buffers hold — no element is read -/
theorem isequalNd_diff_shape (s1 : Shape) (d1 : List Int) (s2 : Shape) (d2 : List Int) (h : s1 ≠ s2) :
    isequalNd s1 d1 s2 d2 = .val false := by
  unfold isequalNd
  by_cases hl : s1.length = s2.length <;> simp [h, hl]

theorem isequalIdx_eq_spec (a b : List Int) : isequalIdx a b = .val (specIdx a b) := by
  unfold isequalIdx specIdx
  by_cases hl : a.length = b.length
  · simp only [hl, ne_eq, not_true_eq_false, if_false]
    have ha : (List.range b.length).map (fun i => a[i]?) = a.map some := by rw [← hl]; exact range_map_getElem? a
    rw [ha, range_map_getElem? b]
    simp [all_isSome_map_some, map_some_beq]
  · have : a ≠ b := fun h => hl (by rw [h])
    simp [hl, this]

/-- index arrays of different length compare false without reading either -/
theorem isequalIdx_diff_length (a b : List Int) (h : a.length ≠ b.length) : isequalIdx a b = .val false := by
  unfold isequalIdx; simp [h]

theorem specNd_symm (s1 d1 s2 d2) : specNd s1 d1 s2 d2 = specNd s2 d2 s1 d1 := by
  unfold specNd
  by_cases h1 : s1 = s2 <;> by_cases h2 : d1 = d2 <;> simp [h1, h2, eq_comm]

theorem isequalNd_symm (s1 : Shape) (d1 : List Int) (s2 : Shape) (d2 : List Int)
    (h1 : d1.length = prod s1) (p1 : Pos s1) (h2 : d2.length = prod s2) (p2 : Pos s2) :
    isequalNd s1 d1 s2 d2 = isequalNd s2 d2 s1 d1 := by
  rw [isequalNd_eq_spec s1 d1 s2 d2 h1 p1 h2 p2, isequalNd_eq_spec s2 d2 s1 d1 h2 p2 h1 p1, specNd_symm]

theorem isequalIdx_symm (a b : List Int) : isequalIdx a b = isequalIdx b a := by
  rw [isequalIdx_eq_spec, isequalIdx_eq_spec]; unfold specIdx
  by_cases h : a = b <;> simp [h, eq_comm]

theorem isequalNd_refl (s : Shape) (d : List Int) (h : d.length = prod s) (p : Pos s) :
    isequalNd s d s d = .val true := by
  rw [isequalNd_eq_spec s d s d h p h p]; simp [specNd]

/-- optionals: two empties equal, empty vs non-empty different, non-empty compare their values -/
theorem maybe_cases (a b : Val) :
    isequal .nothing .nothing = .val true ∧ isequal .nothing (.just a) = .val false ∧
    isequal (.just a) .nothing = .val false ∧ isequal (.just a) (.just b) = isequal a b := by
  simp [isequal]

/-- either: alternative-by-alternative -/
theorem either_cases (a b : Val) :
    isequal (.left a) (.left b) = isequal a b ∧ isequal (.right a) (.right b) = isequal a b ∧
    isequal (.left a) (.right b) = .val false ∧ isequal (.right a) (.left b) = .val false := by
  simp [isequal]

/-- tuples: component-wise conjunction -/
theorem tuple_cases (a b as bs : Val) :
    isequal (.pair a as) (.pair b bs) = (isequal a b).and (isequal as bs) ∧ isequal .unit .unit = .val true := by
  simp [isequal]

/-- reflexive on well-formed values -/
theorem isequal_refl (a : Val) (h : WF a) : isequal a a = .val true := by
  induction a with
  | num n => simp [isequal]
  | idx l => simp only [isequal]; rw [isequalIdx_eq_spec]; simp [specIdx]
  | nd s d => simp only [isequal]; exact isequalNd_refl s d h.1 h.2
  | nothing => simp [isequal]
  | lit => exact absurd h (by simp [WF])
  | just v ih => simp only [isequal]; exact ih h
  | left v ih => simp only [isequal]; exact ih h
  | right v ih => simp only [isequal]; exact ih h
  | unit => simp [isequal]
  | pair a b iha ihb => simp only [isequal]; rw [iha h.1, ihb h.2]; rfl

theorem and_ne_oob {x y : Res} (hx : x ≠ .oob) (hy : y ≠ .oob) : x.and y ≠ .oob := by
  cases x <;> cases y <;> simp_all [Res.and]

theorem nd_ne_oob (s1 d1 s2 d2) (h1 : d1.length = prod s1 ∧ Pos s1) (h2 : d2.length = prod s2 ∧ Pos s2) :
    isequalNd s1 d1 s2 d2 ≠ .oob := by
  rw [isequalNd_eq_spec s1 d1 s2 d2 h1.1 h1.2 h2.1 h2.2]; simp

/-- TOTAL: for every pairing the API accepts and every well-formed operands (any shapes, equal or not),
    isequal answers without reading outside either operand -/
theorem isequal_never_oob (a b : Val) (ha : WF a) (hb : WF b) : isequal a b ≠ .oob := by
  fun_induction isequal a b <;> simp_all [WF, isequalIdx_eq_spec, nd_ne_oob, and_ne_oob]

theorem sameConcept0_comm (a b : Val) : sameConcept0 a b = sameConcept0 b a := by cases a <;> cases b <;> rfl
theorem sameConcept_comm (a b : Val) : sameConcept a b = sameConcept b a := by unfold sameConcept; exact sameConcept0_comm _ _

/-- SYMMETRIC on every accepted pairing (optionals, eithers, tuples, arrays, index arrays, numbers) -/
theorem isequal_symm (a b : Val) (ha : WF a) (hb : WF b) : isequal a b = isequal b a := by
  fun_induction isequal a b <;> (try cases ‹Val›) <;> simp_all [isequal, WF, isequalIdx_symm, sameConcept_comm]
  · exact BEq.comm
  · exact isequalNd_symm _ _ _ _ ha.1 ha.2 hb.1 hb.2

/-- isclose on arrays: shapes match ∧ every element difference below eps; total -/
theorem iscloseNd_eq_spec (eps : Int) (s1 : Shape) (d1 : List Int) (s2 : Shape) (d2 : List Int)
    (h1 : d1.length = prod s1) (p1 : Pos s1) (h2 : d2.length = prod s2) (p2 : Pos s2) :
    iscloseNd eps s1 d1 s2 d2 = .val (specCloseNd eps s1 d1 s2 d2) := by
  unfold iscloseNd specCloseNd
  by_cases hs : s1 = s2
  · subst hs
    simp only [ne_eq, not_true_eq_false, if_false]
    rw [flatRead_eq s1 d1 h1 p1, flatRead_eq s1 d2 h2 p1]
    simp only [all_isSome_map_some, Bool.and_self, if_true, decide_true, Bool.true_and]
    congr 1
    rw [List.zipWith_map_left, List.zipWith_map_right]
    rfl
  · simp [hs]

theorem iscloseNd_diff_shape (eps : Int) (s1 : Shape) (d1 : List Int) (s2 : Shape) (d2 : List Int) (h : s1 ≠ s2) :
    iscloseNd eps s1 d1 s2 d2 = .val false := by
  unfold iscloseNd; simp [h]

/-! ### the bare `meta::Nothing` literal (public dispatcher, utility/isequal.hpp:492-497; seeded change C18-4) -/

/-- the literal against an optional: equal exactly to the EMPTY optional, in BOTH operand orders; literal vs literal is
    not part of the API (the fail type is returned) -/
theorem isequal_lit_cases (a : Val) :
    isequal .lit .nothing = .val true ∧ isequal .nothing .lit = .val true ∧
    isequal .lit (.just a) = .val false ∧ isequal (.just a) .lit = .val false ∧ isequal .lit .lit = .notAccepted := by
  simp [isequal]

/-- symmetric with the literal on either side, whatever the other operand is -/
theorem isequal_lit_symm (a : Val) : isequal .lit a = isequal a .lit := by
  cases a <;> simp [isequal]

/-- SYMMETRIC on every pairing of value operands and the literal -/
theorem isequal_symm_ext (a b : Val) (ha : WF a ∨ a = .lit) (hb : WF b ∨ b = .lit) : isequal a b = isequal b a := by
  rcases ha with ha | rfl
  · rcases hb with hb | rfl
    · exact isequal_symm a b ha hb
    · exact (isequal_lit_symm a).symm
  · exact isequal_lit_symm b

example : isequal .lit (.just (.nd [2] [1,2])) = .val false ∧ isequal .lit .nothing = isequal .nothing .lit := by
  simp [isequal]
example : WF (.just (.left (.num 3))) ∨ (.just (.left (.num 3)) : Val) = .lit := Or.inl (by simp [WF])

/-- the concept of an either alternative is taken through optionals: either<maybe<num>,·> holding 3 equals the number 3 -/
example : isequal (.left (.just (.num 3))) (.num 3) = .val true ∧ isequal (.num 3) (.left (.just (.num 3))) = .val true := by
  simp [isequal, sameConcept, sameConcept0, unwrapJ]

/-! ### isclose over the operand grammar -/

theorem isclose_maybe_cases (eps : Int) (a b : Val) :
    isclose eps .nothing .nothing = .val true ∧ isclose eps .nothing (.just a) = .val false ∧
    isclose eps (.just a) .nothing = .val false ∧ isclose eps (.just a) (.just b) = isclose eps a b := by
  simp [isclose]

theorem isclose_either_cases (eps : Int) (a b : Val) :
    isclose eps (.left a) (.left b) = isclose eps a b ∧ isclose eps (.right a) (.right b) = isclose eps a b ∧
    isclose eps (.left a) (.right b) = .val false ∧ isclose eps (.right a) (.left b) = .val false := by
  simp [isclose]

theorem isclose_tuple_cases (eps : Int) (a b as bs : Val) :
    isclose eps (.pair a as) (.pair b bs) = (isclose eps a b).and (isclose eps as bs) ∧ isclose eps .unit .unit = .val true := by
  simp [isclose]

theorem zipWith_close_symm (eps : Int) (d1 d2 : List Int) :
    List.zipWith (fun x y => decide ((x - y).natAbs < eps)) d1 d2 = List.zipWith (fun x y => decide ((x - y).natAbs < eps)) d2 d1 := by
  induction d1 generalizing d2 with
  | nil => cases d2 <;> rfl
  | cons x xs ih =>
    cases d2 with
    | nil => rfl
    | cons y ys =>
      simp only [List.zipWith_cons_cons, ih ys]
      have : (x - y).natAbs = (y - x).natAbs := by omega
      rw [this]

theorem specCloseNd_symm (eps : Int) (s1 d1 s2 d2) : specCloseNd eps s1 d1 s2 d2 = specCloseNd eps s2 d2 s1 d1 := by
  unfold specCloseNd
  rw [zipWith_close_symm eps d1 d2]
  by_cases h : s1 = s2 <;> simp [h, eq_comm]

theorem iscloseNd_symm (eps : Int) (s1 : Shape) (d1 : List Int) (s2 : Shape) (d2 : List Int)
    (h1 : d1.length = prod s1) (p1 : Pos s1) (h2 : d2.length = prod s2) (p2 : Pos s2) :
    iscloseNd eps s1 d1 s2 d2 = iscloseNd eps s2 d2 s1 d1 := by
  rw [iscloseNd_eq_spec eps s1 d1 s2 d2 h1 p1 h2 p2, iscloseNd_eq_spec eps s2 d2 s1 d1 h2 p2 h1 p1, specCloseNd_symm]

/-- isclose is SYMMETRIC on every accepted pairing -/
theorem isclose_symm (eps : Int) (a b : Val) (ha : WF a) (hb : WF b) : isclose eps a b = isclose eps b a := by
  fun_induction isclose eps a b <;> (try cases ‹Val›) <;> simp_all [isclose, WF, sameConcept_comm]
  · congr 2; omega
  · exact iscloseNd_symm _ _ _ _ _ ha.1 ha.2 hb.1 hb.2

theorem zipWith_close_refl (eps : Int) (h : 0 < eps) (d : List Int) :
    (List.zipWith (fun x y => decide ((x - y).natAbs < eps)) d d).all id = true := by
  induction d with
  | nil => rfl
  | cons x xs ih =>
    simp only [List.zipWith_cons_cons, List.all_cons, ih, Bool.and_true, id]
    have : (x - x).natAbs = 0 := by omega
    simp [this, h]

theorem and_accepted {x y : Res} (h : x.and y ≠ .notAccepted) : x ≠ .notAccepted ∧ y ≠ .notAccepted := by
  cases x <;> cases y <;> simp_all [Res.and]

/-- isclose is REFLEXIVE for every positive tolerance, on every operand the function accepts (index arrays are compared
    as 1-d ndarrays by isclose: they are `.nd` operands here) -/
theorem isclose_refl (eps : Int) (h : 0 < eps) (a : Val) (ha : WF a) (hacc : isclose eps a a ≠ .notAccepted) :
    isclose eps a a = .val true := by
  induction a with
  | num n => simp [isclose, h]
  | idx l => exact absurd hacc (by simp [isclose])
  | nd s d =>
    simp only [isclose]; rw [iscloseNd_eq_spec eps s d s d ha.1 ha.2 ha.1 ha.2]
    simp only [specCloseNd, decide_true, Bool.true_and, zipWith_close_refl eps h d]
  | nothing => simp [isclose]
  | lit => exact absurd ha (by simp [WF])
  | just v ih => simp only [isclose] at hacc ⊢; exact ih ha hacc
  | left v ih => simp only [isclose] at hacc ⊢; exact ih ha hacc
  | right v ih => simp only [isclose] at hacc ⊢; exact ih ha hacc
  | unit => simp [isclose]
  | pair a b iha ihb =>
    simp only [isclose] at hacc ⊢
    have := and_accepted hacc
    rw [iha ha.1 this.1, ihb ha.2 this.2]; rfl

example : WF (.pair (.num 3) (.pair (.just (.nd [2] [3,4])) .unit)) ∧
    isclose 8 (.pair (.num 3) (.pair (.just (.nd [2] [3,4])) .unit)) (.pair (.num 3) (.pair (.just (.nd [2] [3,4])) .unit)) ≠ .notAccepted := by
  refine ⟨⟨trivial, ⟨by decide, by decide⟩, trivial⟩, ?_⟩
  simp only [isclose]
  rw [iscloseNd_eq_spec _ _ _ _ _ (by decide) (by decide) (by decide) (by decide)]
  simp [Res.and]

theorem closeNd_ne_oob (eps : Int) (s1 d1 s2 d2) (h1 : d1.length = prod s1 ∧ Pos s1) (h2 : d2.length = prod s2 ∧ Pos s2) :
    iscloseNd eps s1 d1 s2 d2 ≠ .oob := by
  rw [iscloseNd_eq_spec eps s1 d1 s2 d2 h1.1 h1.2 h2.1 h2.2]; simp

/-- TOTAL: isclose never reads outside an operand, for every pairing and every shapes -/
theorem isclose_never_oob (eps : Int) (a b : Val) (ha : WF a) (hb : WF b) : isclose eps a b ≠ .oob := by
  fun_induction isclose eps a b <;> simp_all [WF, closeNd_ne_oob, and_ne_oob]

/-- isclose IS the reference on every pairing of well-formed operands: alternative-by-alternative matching, shapes equal,
    every element difference below the caller's eps (full statement; before the fix commit it failed on the
    either-vs-plain class, where the tolerance was dropped) -/
theorem isclose_eq_ref (eps : Int) (a b : Val) (ha : WF a) (hb : WF b) :
    isclose eps a b = iscloseRef eps a b := by
  fun_induction isclose eps a b <;> simp_all [iscloseRef, WF]
  · exact iscloseNd_eq_spec _ _ _ _ _ ha.1 ha.2 hb.1 hb.2

/-- called WITHOUT a tolerance (default eps) likewise -/
theorem isclose_default_eq_ref (a b : Val) (ha : WF a) (hb : WF b) :
    isclose defaultEps a b = iscloseRef defaultEps a b := isclose_eq_ref defaultEps a b ha hb

/-- REGRESSION instance of the repaired finding isclose.either-plain-eps: |3 - 5| < 8, and isclose(either{3}, 5, 8) is now
    true in both operand orders, as the reference says (it was false: the tolerance was dropped) -/
theorem isclose_either_plain_regression :
    isclose 8 (.left (.num 3)) (.num 5) = .val true ∧ isclose 8 (.num 5) (.left (.num 3)) = .val true ∧
    iscloseRef 8 (.left (.num 3)) (.num 5) = .val true ∧
    isclose 8 (.just (.right (.nd [2] [3,4]))) (.nd [2] [5,5]) = iscloseRef 8 (.just (.right (.nd [2] [3,4]))) (.nd [2] [5,5]) := by
  refine ⟨by simp [isclose, sameConcept, sameConcept0, unwrapJ], by simp [isclose, sameConcept, sameConcept0, unwrapJ],
    by simp [iscloseRef, sameConcept, sameConcept0, unwrapJ], ?_⟩
  exact isclose_eq_ref 8 _ _ ⟨by decide, by decide⟩ ⟨by decide, by decide⟩

example : WF (.just (.right (.nd [2] [3,4]))) ∧ WF (.nd [2] [5,5]) := by
  refine ⟨⟨by decide, by decide⟩, ⟨by decide, by decide⟩⟩
example : iscloseRef 8 (.just (.right (.nd [2] [3,4]))) (.nd [2] [5,5]) = .val true := by
  simp [iscloseRef, specCloseNd, sameConcept, sameConcept0, unwrapJ]

/-! non-vacuity and the behaviours the property singles out -/
example : WF (.nd [2,3] [0,1,2,3,4,5]) ∧ WF (.nd [3,2] [0,1,2,3,4,5]) := by
  refine ⟨⟨by decide, by decide⟩, ⟨by decide, by decide⟩⟩
example : isequal (.nd [2,3] [0,1,2,3,4,5]) (.nd [3,2] [0,1,2,3,4,5]) = .val false := by
  simp [isequal, isequalNd]
example : isequal (.nd [2,3] [0,1,2,3,4,5]) (.nd [2,3] [0,1,2,3,4,5]) = .val true := by
  rw [isequal, isequalNd_eq_spec _ _ _ _ (by decide) (by decide) (by decide) (by decide)]; decide
example : isequal (.idx [2,3]) (.idx [2,3,4]) = .val false ∧ isequal (.idx [2,3]) (.idx [2]) = .val false := by
  simp [isequal, isequalIdx]
example : isequal (.just (.nd [2] [1,2])) (.nd [2] [1,2]) = .val true := by
  simp only [isequal]
  rw [isequalNd_eq_spec _ _ _ _ (by decide) (by decide) (by decide) (by decide)]; decide
example : isequal (.pair (.num 1) (.pair (.idx [1,2]) .unit)) (.pair (.num 1) (.pair (.idx [1,3]) .unit)) = .val false := by
  simp [isequal, isequalIdx_eq_spec, specIdx, Res.and]

end NmVerif.Props.C18
