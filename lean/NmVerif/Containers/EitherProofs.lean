import NmVerif.Containers.Either
/-
  Proofs about the `utl::either` / `utl::maybe` mirror: the active alternative and its value always equal the
  reference (`Sum`) — for every history, trivial or non-trivial left type — and the lifetime ledger facts.
-/
namespace NmVerif.Containers
variable {α β : Type}

/-- refinement relation: the client-visible alternative equals the reference value -/
def ERel (x : Eith α β) (y : Sum α β) : Prop := x.get = some y

def EWRel (w : EWorld α β) (v : Nat → Option (Sum α β)) : Prop := ∀ k, ORel ERel (w.objs k) (v k)

theorem ewrel_put {w : EWorld α β} {v : Nat → Option (Sum α β)} (h : EWRel w v) (k : Nat) {x : Eith α β} {y : Sum α β}
    (hxy : ERel x y) (L : Ledger) :
    EWRel (w.put k (some x) L) (fun j => if j = k then some y else v j) := by
  intro j
  simp only [EWorld.put]
  by_cases hj : j = k
  · simp [hj, ORel, hxy]
  · simp [hj]; exact h j

theorem erel_L {x : Eith α β} {y : Sum α β} (h : ERel x y) (ht : x.tagL = true) : ∃ a, x.left.val = some a ∧ y = .inl a := by
  simp only [ERel, Eith.get, ht, if_true] at h
  cases hv : x.left.val with
  | none => simp [hv] at h
  | some a => simp [hv] at h; exact ⟨a, rfl, h.symm⟩

theorem erel_R {x : Eith α β} {y : Sum α β} (h : ERel x y) (ht : x.tagL = false) : ∃ b, x.right = some b ∧ y = .inr b := by
  simp only [ERel, Eith.get, ht] at h
  cases hv : x.right with
  | none => simp [hv] at h
  | some b => simp [hv] at h; exact ⟨b, rfl, h.symm⟩

/-- for `maybe` the right alternative is `nothing_t`, a one-point type -/
def ECfg.UnitRight (cfg : ECfg α β) : Prop := cfg.isMaybe = true → ∀ b : β, b = cfg.zeroR

theorem mkCopy_rel (cfg : ECfg α β) (hu : cfg.UnitRight) (o : Eith α β) (y : Sum α β) (L : Ledger) (h : ERel o y) :
    ERel (Eith.mkCopy cfg o L).1 y := by
  cases ht : o.tagL with
  | true =>
    obtain ⟨a, ha, hy⟩ := erel_L h ht
    subst hy
    unfold Eith.mkCopy
    split
    · simp [ERel, Eith.get, ht, ha]
    · split <;> simp [ERel, Eith.get, ht, ha, Eith.ctorLeft, Eith.assignLeft, Eith.raw]
  | false =>
    obtain ⟨b, hb, hy⟩ := erel_R h ht
    subst hy
    unfold Eith.mkCopy
    split
    · simp [ERel, Eith.get, ht, hb]
    · split
      · rename_i hm
        simp [ERel, Eith.get, ht, Eith.raw]
        exact (hu hm b).symm
      · simp [ERel, Eith.get, ht, hb, Eith.raw]

theorem assign_rel (cfg : ECfg α β) (x o : Eith α β) (y : Sum α β) (L : Ledger) (h : ERel o y) :
    ERel (Eith.assign cfg x o L).1 y := by
  cases ht : o.tagL with
  | true =>
    obtain ⟨a, ha, hy⟩ := erel_L h ht
    subst hy
    cases hx : x.tagL <;>
      simp [Eith.assign, Eith.assignValueL, ERel, Eith.get, ht, hx, ha, Eith.assignLeft, Eith.ctorLeft]
  | false =>
    obtain ⟨b, hb, hy⟩ := erel_R h ht
    subst hy
    cases hx : x.tagL <;>
      simp [Eith.assign, Eith.assignValueR, Eith.destroyActive, ERel, Eith.get, ht, hx, hb]

theorem setL_rel (cfg : ECfg α β) (x : Eith α β) (a : α) (L : Ledger) : ERel (Eith.setL cfg x a L).1 (.inl a) := by
  cases hx : x.tagL <;> simp [Eith.setL, Eith.assignValueL, ERel, Eith.get, hx, Eith.assignLeft, Eith.ctorLeft]

theorem setR_rel (cfg : ECfg α β) (x : Eith α β) (b : β) (L : Ledger) : ERel (Eith.setR cfg x b L).1 (.inr b) := by
  cases hx : x.tagL <;> simp [Eith.setR, Eith.assignValueR, Eith.destroyActive, ERel, Eith.get, hx]

theorem estep_rel (cfg : ECfg α β) (hu : cfg.UnitRight) {w : EWorld α β} {v : Nat → Option (Sum α β)} (h : EWRel w v)
    (op : EOp α β) : EWRel (estep cfg w op) (sstep cfg.isMaybe cfg.zeroL cfg.zeroR v op) := by
  cases op with
  | mk s =>
    have hs := h s
    simp only [estep, sstep]
    cases hw : w.objs s <;> cases hv : v s <;> simp only [hw, hv, ORel] at hs ⊢
    · apply ewrel_put h
      unfold Eith.mkDflt
      split
      · rename_i hm; simp [ERel, Eith.get, Eith.raw, hm]
      · rename_i hm; simp [ERel, Eith.get, Eith.raw, Eith.ctorLeft, hm]
    · exact h
  | mkL s a =>
    have hs := h s
    simp only [estep, sstep]
    cases hw : w.objs s <;> cases hv : v s <;> simp only [hw, hv, ORel] at hs ⊢
    · apply ewrel_put h; simp [ERel, Eith.get, Eith.mkL, Eith.ctorLeft]
    · exact h
  | mkR s b =>
    have hs := h s
    simp only [estep, sstep]
    cases hw : w.objs s <;> cases hv : v s <;> simp only [hw, hv, ORel] at hs ⊢
    · apply ewrel_put h; simp [ERel, Eith.get, Eith.mkR, Eith.raw]
    · exact h
  | copy d s =>
    have hd := h d
    have hs := h s
    simp only [estep, sstep]
    cases hwd : w.objs d <;> cases hvd : v d <;> simp only [hwd, hvd, ORel] at hd ⊢
    · cases hws : w.objs s <;> cases hvs : v s <;> simp only [hws, hvs, ORel] at hs ⊢
      · exact h
      · exact ewrel_put h d (mkCopy_rel cfg hu _ _ _ hs) _
    · exact h
  | assign d s =>
    have hd := h d
    have hs := h s
    simp only [estep, sstep]
    cases hwd : w.objs d <;> cases hvd : v d <;> simp only [hwd, hvd, ORel] at hd ⊢
    · exact h
    · cases hws : w.objs s <;> cases hvs : v s <;> simp only [hws, hvs, ORel] at hs ⊢
      · exact h
      · by_cases hds : d = s
        · subst hds
          simp only [if_true]
          rw [hwd] at hws; cases hws
          intro j
          by_cases hj : j = d
          · subst hj; simp [hwd, ORel]; exact hs
          · simp [hj]; exact h j
        · simp only [hds, if_false]
          exact ewrel_put h d (assign_rel cfg _ _ _ _ hs) _
  | setL s a =>
    have hs := h s
    simp only [estep, sstep]
    cases hw : w.objs s <;> cases hv : v s <;> simp only [hw, hv, ORel] at hs ⊢
    · exact h
    · exact ewrel_put h s (setL_rel cfg _ a _) _
  | setR s b =>
    have hs := h s
    simp only [estep, sstep]
    cases hw : w.objs s <;> cases hv : v s <;> simp only [hw, hv, ORel] at hs ⊢
    · exact h
    · exact ewrel_put h s (setR_rel cfg _ b _) _
  | writeL s a =>
    have hs := h s
    simp only [estep, sstep]
    cases hw : w.objs s <;> cases hv : v s <;> simp only [hw, hv, ORel] at hs ⊢
    · exact h
    · rename_i x y
      cases ht : x.tagL with
      | true =>
        obtain ⟨a', _, hy⟩ := erel_L hs ht
        subst hy
        simp only [if_true]
        apply ewrel_put h; simp [ERel, Eith.get, Eith.assignLeft, ht]
      | false =>
        obtain ⟨b, _, hy⟩ := erel_R hs ht
        subst hy
        simp only [Bool.false_eq_true, if_false]
        exact h
  | read s => exact h
  | destroy s =>
    have hs := h s
    simp only [estep, sstep]
    cases hw : w.objs s <;> cases hv : v s <;> simp only [hw, hv, ORel] at hs ⊢
    · exact h
    · intro j
      simp only [EWorld.put]
      by_cases hj : j = s
      · simp [hj, ORel]
      · simp [hj]; exact h j

theorem erun_rel (cfg : ECfg α β) (hu : cfg.UnitRight) (h : List (EOp α β)) {w : EWorld α β} {v : Nat → Option (Sum α β)}
    (hr : EWRel w v) : EWRel (erun cfg w h) (srun cfg.isMaybe cfg.zeroL cfg.zeroR v h) := by
  induction h generalizing w v with
  | nil => exact hr
  | cons op h ih => exact ih (estep_rel cfg hu hr op)

/-! lifetime ledger -/

/-- for a trivial left type nothing is ever recorded -/
theorem estep_trivial_led (cfg : ECfg α β) (hnt : cfg.nt = false) (w : EWorld α β) (op : EOp α β) :
    (estep cfg w op).led = w.led := by
  cases op <;> simp only [estep] <;> (repeat' split) <;>
    simp [EWorld.put, Eith.mkDflt, Eith.mkL, Eith.mkR, Eith.mkCopy, Eith.assign, Eith.setL, Eith.setR, Eith.ctorLeft,
      Eith.assignLeft, Eith.assignValueL, Eith.assignValueR, Eith.destroyActive, Eith.destroy, hnt] <;> (repeat' split) <;> simp_all

theorem erun_trivial_led (cfg : ECfg α β) (hnt : cfg.nt = false) (w : EWorld α β) (h : List (EOp α β)) :
    (erun cfg w h).led = w.led := by
  induction h generalizing w with
  | nil => rfl
  | cons op h ih => simp only [erun]; rw [ih, estep_trivial_led cfg hnt]

/-- histories that never put a left value into any object -/
def neverLeft (cfg : ECfg α β) : EOp α β → Prop
  | .mkL _ _ | .setL _ _ | .writeL _ _ => False
  | .mk _ => cfg.isMaybe = true
  | _ => True

def EInvR (w : EWorld α β) : Prop := (∀ k x, w.objs k = some x → x.tagL = false) ∧ w.led.ctors = 0 ∧ w.led.events = []

theorem einvr_put {w : EWorld α β} (h : EInvR w) (k : Nat) (x : Eith α β) (L : Ledger) (hx : x.tagL = false)
    (hL : L.ctors = 0 ∧ L.events = []) : EInvR (w.put k (some x) L) := by
  refine ⟨?_, hL⟩
  intro j y hy
  simp only [EWorld.put] at hy
  by_cases hj : j = k
  · simp [hj] at hy; subst hy; exact hx
  · simp [hj] at hy; exact h.1 j y hy

theorem estep_neverLeft (cfg : ECfg α β) {w : EWorld α β} (h : EInvR w) (op : EOp α β) (hok : neverLeft cfg op) :
    EInvR (estep cfg w op) := by
  cases op with
  | mk s =>
    simp only [neverLeft] at hok
    simp only [estep]
    cases hw : w.objs s with
    | some x => exact h
    | none => exact einvr_put h s _ _ (by simp [Eith.mkDflt, hok, Eith.raw]) (by simpa [Eith.mkDflt, hok] using h.2)
  | mkL s a => simp [neverLeft] at hok
  | mkR s b =>
    simp only [estep]
    cases hw : w.objs s with
    | some x => exact h
    | none => exact einvr_put h s _ _ (by simp [Eith.mkR, Eith.raw]) (by simpa [Eith.mkR] using h.2)
  | copy d s =>
    simp only [estep]
    cases hd : w.objs d with
    | some x => exact h
    | none =>
      cases hs : w.objs s with
      | none => exact h
      | some o =>
        have ho := h.1 s o hs
        refine einvr_put h d _ _ ?_ ?_
        · unfold Eith.mkCopy; (repeat' split) <;> simp_all [Eith.raw]
        · unfold Eith.mkCopy; (repeat' split) <;> simp_all [Eith.raw] <;> exact h.2
  | assign d s =>
    simp only [estep]
    cases hd : w.objs d with
    | none => exact h
    | some x =>
      cases hs : w.objs s with
      | none => exact h
      | some o =>
        have ho := h.1 s o hs
        have hx := h.1 d x hd
        by_cases hds : d = s
        · simp only [hds, if_true]; exact h
        · simp only [hds, if_false]
          refine einvr_put h d _ _ ?_ ?_
          · simp [Eith.assign, Eith.assignValueR, ho, hx]
          · simp only [Eith.assign, Eith.assignValueR, ho, hx, Bool.false_eq_true, if_false]; exact h.2
  | setL s a => simp [neverLeft] at hok
  | setR s b =>
    simp only [estep]
    cases hw : w.objs s with
    | none => exact h
    | some x =>
      have hx := h.1 s x hw
      exact einvr_put h s _ _ (by simp [Eith.setR, Eith.assignValueR, hx]) (by simpa [Eith.setR, Eith.assignValueR, hx] using h.2)
  | writeL s a => simp [neverLeft] at hok
  | read s => exact h
  | destroy s =>
    simp only [estep]
    cases hw : w.objs s with
    | none => exact h
    | some x =>
      have hx := h.1 s x hw
      refine ⟨?_, by simpa [EWorld.put, Eith.destroy, Eith.destroyActive, hx] using h.2⟩
      intro j y hy
      simp only [EWorld.put] at hy
      by_cases hj : j = s
      · simp [hj] at hy
      · simp [hj] at hy; exact h.1 j y hy

theorem erun_neverLeft (cfg : ECfg α β) (h : List (EOp α β)) {w : EWorld α β} (hw : EInvR w)
    (hok : ∀ op ∈ h, neverLeft cfg op) : EInvR (erun cfg w h) := by
  induction h generalizing w with
  | nil => exact hw
  | cons op h ih =>
    exact ih (estep_neverLeft cfg hw op (hok op List.mem_cons_self)) (fun o ho => hok o (List.mem_cons_of_mem _ ho))

end NmVerif.Containers
