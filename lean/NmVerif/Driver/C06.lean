import NmVerif.Proto
import NmVerif.Index.Broadcast
namespace NmVerif.Driver.C06
open NmVerif NmVerif.Proto

def fmtBools (l : List Bool) : String := fmtNats (l.map (fun b => if b then 1 else 0))

/-- provenance of a view over an operand filled with `base + flat id` -/
def provData (v : IxView) (base : Int) : Option (List Int) :=
  (allIdx v.dst).mapM (fun d => (v.map d).map (fun i => base + (computeOffset i (strides v.src) : Int)))

def handle : Handler := fun op a =>
  match op with
  | "bshape" => orBad do
      let ss ← a.natLists "shapes"
      if ss.length < 2 then none
      match broadcastShape ss with
      | some r => pure s!"ok {fmtNats r}"
      | none => pure "nothing"
  | "sbt" => orBad do
      let src ← a.nats "src"
      let dst ← a.nats "dst"
      match shapeBroadcastTo src dst with
      | some (sh, free) => pure s!"ok shape={fmtNats sh} free={fmtBools free} origin={fmtNats (originAxes free)}"
      | none => pure "nothing"
  | "free_axes" => orBad do
      let x ← a.nats "a"
      let y ← a.nats "b"
      pure s!"ok {fmtBools (freeAxes x y)}"
  | "bto_ix" => orBad do
      let src ← a.nats "src"
      let dst ← a.nats "dst"
      match broadcastToView src dst with
      | none => pure "nothing"
      | some v =>
        match (allIdx v.dst).mapM v.map with
        | some l => pure s!"ok src={fmtNatLists l}"
        | none => pure "ub"
  | "bto_view" => orBad do
      let src ← a.nats "src"
      let dst ← a.nats "dst"
      match broadcastToView src dst with
      | none => pure "nothing"
      | some v =>
        match provData v 0 with
        | some l => pure s!"ok shape={fmtNats v.dst} data={fmtInts l}"
        | none => pure "ub"
  | "barrays" => orBad do
      let ss ← a.natLists "shapes"
      if ss.length < 2 then none
      match broadcastArraysViews ss with
      | none => pure "nothing"
      | some vs =>
        let parts := (List.range vs.length).zip vs |>.mapM (fun (k, v) =>
          (provData v (1000 * (k : Int))).map (fun l => s!"{fmtNats v.dst}:{fmtInts l}"))
        match parts, vs.head? with
        | some ps, some v0 => pure s!"ok shape={fmtNats v0.dst} data={"|".intercalate ps}"
        | _, _ => pure "ub"
  | _ => none

end NmVerif.Driver.C06
