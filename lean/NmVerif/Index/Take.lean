import NmVerif.Index.SelCommon
/-
  NmVerif.Index.Take — MODEL of include/nmtools/array/index/take.hpp (+ view/take.hpp).

  Stable names:
    `Index.shapeTake shape nIdx axis : Shape`          index::shape_take, integer axis
    `Index.shapeTakeNone nIdx : Shape`                 index::shape_take, axis None
    `Index.indexTake d indices axis : Idx`             index::take, integer axis
    `Index.indexTakeNone d shape indices : Idx`        index::take, axis None
    `Index.takeView src indices axis : Option IxView`  view::take(a, indices, axis)  (`axis : Option Int`; never Nothing)

  Facts mirrored (take.hpp:17-100; view/take.hpp passes `axis` through):
    * `res[i] = (i == axis) ? … : …` with the comparison in an unsigned common type: a negative axis matches no `i`
      (shape and elements of the source come back unchanged);
    * `indices[d[axis]]` is stored verbatim into the unsigned source index: negative entries are NOT normalised
      (`-1` becomes 2^64-1), entries ≥ extent are not checked;
    * axis None: `compute_indices(indices[d[0]], shape)`.
  A destination entry that addresses no element of `indices` (UB; impossible inside the view's shape) is answered 2^64-1.
  Core Lean only.
-/
namespace NmVerif.Index

def shapeTake (shape : Shape) (nIdx : Nat) (axis : Int) : Shape := mapAt (fun _ => nIdx) axis 0 shape

def shapeTakeNone (nIdx : Nat) : Shape := [nIdx]

/-- `indices[k]` (an `int`) converted to `size_t`: non-negative values unchanged, negative ones wrap -/
def takeEntry (indices : List Int) (k : Nat) : Nat :=
  match indices[k]? with
  | some v => i2u v
  | none => u64 (-1)

def indexTake (d : Idx) (indices : List Int) (axis : Int) : Idx := mapAt (takeEntry indices) axis 0 d

def indexTakeNone (d : Idx) (shape : Shape) (indices : List Int) : Idx :=
  match d with
  | i :: _ => computeIndices (takeEntry indices i) shape (strides shape)
  | [] => []

/-- `view::take(a, indices, axis)`.  NOTE `take_t::index` loops `for i < dim(src)` over `d` (same rank). -/
def takeView (src : Shape) (indices : List Int) (axis : Option Int) : Option IxView :=
  match axis with
  | none => some ⟨src, shapeTakeNone indices.length, fun d => some (indexTakeNone d src indices)⟩
  | some ax => some ⟨src, shapeTake src indices.length ax, fun d => some (indexTake d indices ax)⟩

end NmVerif.Index
