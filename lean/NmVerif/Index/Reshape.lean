import NmVerif.Arr
import NmVerif.Index.NormalizeAxis
/-
  NmVerif.Index.Reshape — MODEL of
    include/nmtools/array/index/reshape.hpp      index::count_negative_reshape, index::shape_reshape
    include/nmtools/array/view/reshape.hpp       view::reshape_t::indices, view::reshape
    include/nmtools/array/view/flatten.hpp       view::flatten
    include/nmtools/array/index/expand_dims.hpp  index::shape_expand_dims
    include/nmtools/array/view/expand_dims.hpp   view::expand_dims
    include/nmtools/array/index/squeeze.hpp      index::shape_squeeze
    include/nmtools/array/view/squeeze.hpp       view::squeeze
    include/nmtools/array/index/atleast_nd.hpp   index::shape_atleast_nd
    include/nmtools/array/view/atleast_nd.hpp    view::atleast_nd / atleast_1d / atleast_2d

  Stable names:
    countNegativeReshape dst         : Nat × Nat          (number of -1 entries, dst_numel)
    shapeReshape   src dst           : Option Shape       dst : List Int
    reshapeView    src dst           : Option IxView
    flattenView    src               : Option IxView
    shapeExpandDims shape axes       : Option Shape       axes : List Int (an integer axis = one-element list)
    expandDimsView src axes          : Option IxView
    shapeSqueeze   shape             : Shape
    squeezeView    src               : Option IxView
    shapeAtleastNd shape nd          : Shape
    atleastNdView  src nd            : Option IxView

  `none` = the C++ returns Nothing.  `shapeReshape` mirrors the code for every `Int` target entry that fits the
  machine types (a `0` or a negative entry other than `-1` gives Nothing, index/reshape.hpp:126-132).
  `shapeExpandDims`: `none` also stands for the UB of unwrapping an empty `normalize_axis` result / reading past
  `shape` when axes repeat (C15's domain).

  Core Lean only.
-/
namespace NmVerif

/-- `index::count_negative_reshape`: number of `-1` entries and the product of the others (`dst_numel` starts at 1,
    so an empty target — a rank-0 result — has `dst_numel = 1`). -/
def countNegativeReshape (dst : List Int) : Nat × Nat :=
  dst.foldl (fun (acc : Nat × Nat) d => if d = -1 then (acc.1 + 1, acc.2) else (acc.1, acc.2 * d.toNat)) (0, 1)

/-- `index::shape_reshape(src_shape, dst_shape)` (run-time branch, reshape.hpp:96-145). -/
def shapeReshape (src : Shape) (dst : List Int) : Option Shape :=
  let c := (countNegativeReshape dst).1
  let dstNumel := (countNegativeReshape dst).2
  if c > 1 then none else
  -- zero or negative (other than -1) extent is invalid
  if dst.any (fun d => d != -1 && d ≤ 0) then none else
  let srcNumel := prod src
  if c = 0 ∧ srcNumel ≠ dstNumel then none
  else if srcNumel % dstNumel ≠ 0 then none
  else some (dst.map (fun d => if d = -1 then srcNumel / dstNumel else d.toNat))

/-- `view::reshape`: `indices(d) = compute_indices(compute_offset(d, strides(dst_shape)), src_shape)` -/
def reshapeView (src : Shape) (dst : List Int) : Option IxView :=
  (shapeReshape src dst).map (fun s =>
    ⟨src, s, fun d => some (computeIndices (computeOffset d (strides s)) src (strides src))⟩)

/-- `view::flatten(a) = view::reshape(a, {size(a)})` -/
def flattenView (src : Shape) : Option IxView := reshapeView src [(prod src : Int)]

/-- loop of `index::shape_expand_dims`: for `i = pos, pos+1, …` (`k` positions left):
    `new_shape[i] = in_axis(i) ? 1 : shape[idx++]`; `rest` = the part of `shape` from `idx` on. -/
def expandGo (nax : List Nat) : Nat → Nat → List Nat → Option (List Nat)
  | 0, _, _ => some []
  | k+1, i, rest =>
    if nax.contains i then (expandGo nax k (i+1) rest).map (1 :: ·)
    else match rest with
      | [] => none
      | s :: rest' => (expandGo nax k (i+1) rest').map (s :: ·)

/-- `index::shape_expand_dims(shape, axes)`: `n = dim + len(axes)`, axes normalised against `n`. -/
def shapeExpandDims (shape : Shape) (axes : List Int) : Option Shape :=
  let n := shape.length + axes.length
  (normalizeAxes n axes).bind (fun nax => expandGo nax n 0 shape)

/-- `view::expand_dims(a, axes) = view::reshape(a, shape_expand_dims(shape(a), axes))` -/
def expandDimsView (src : Shape) (axes : List Int) : Option IxView :=
  (shapeExpandDims src axes).bind (fun s => reshapeView src (s.map Int.ofNat))

/-- `index::shape_squeeze(shape)`: keeps the extents `≠ 1` (for positive extents; with a 0 extent the C++ sizes the
    result by `> 1` and writes by `!= 1`, i.e. past its end — outside the modelled domain). -/
def shapeSqueeze (shape : Shape) : Shape := shape.filter (fun e => e != 1)

/-- `view::squeeze(a) = view::reshape(a, shape_squeeze(shape(a)))` — no axis argument exists. -/
def squeezeView (src : Shape) : Option IxView := reshapeView src ((shapeSqueeze src).map Int.ofNat)

/-- `index::shape_atleast_nd(shape, nd)`: `max(dim, nd) - dim` ones in front of the shape. -/
def shapeAtleastNd (shape : Shape) (nd : Nat) : Shape :=
  List.replicate (max shape.length nd - shape.length) 1 ++ shape

/-- `view::atleast_nd(a, nd) = view::reshape(a, shape_atleast_nd(shape(a), nd))`; `atleast_1d/2d` are `nd = 1, 2`. -/
def atleastNdView (src : Shape) (nd : Nat) : Option IxView := reshapeView src ((shapeAtleastNd src nd).map Int.ofNat)

end NmVerif
