import NmVerif.Basic
/-
  Generic list / InShape lemmas used by the C04 proofs (selecting / replicating / joining views).
-/
namespace NmVerif

theorem inShape_iff_forall (i : Idx) (s : Shape) :
    InShape i s ↔ i.length = s.length ∧ ∀ k (h1 : k < i.length) (h2 : k < s.length), i[k] < s[k] := by
  induction s generalizing i with
  | nil => cases i <;> simp [InShape]
  | cons a t ih =>
    cases i with
    | nil => simp [InShape]
    | cons x xs =>
      simp only [InShape, ih, List.length_cons]
      constructor
      · rintro ⟨h0, hl, h⟩
        refine ⟨by omega, ?_⟩
        intro k h1 h2
        cases k with
        | zero => simpa using h0
        | succ k => simpa using h k (by omega) (by omega)
      · rintro ⟨hl, h⟩
        refine ⟨by simpa using h 0 (by omega) (by omega), by omega, ?_⟩
        intro k h1 h2
        have := h (k+1) (by omega) (by omega)
        simpa [List.getElem_cons_succ] using this

theorem inShape_zipWith_mod (d s : List Nat) (hl : d.length = s.length) (hs : Pos s) :
    InShape (List.zipWith (fun i a => i % a) d s) s := by
  induction s generalizing d with
  | nil => cases d <;> simp_all [InShape]
  | cons a t ih =>
    cases d with
    | nil => simp at hl
    | cons x xs =>
      simp only [List.zipWith_cons_cons, InShape]
      exact ⟨Nat.mod_lt _ hs.head, ih xs (by simpa using hl) hs.tail⟩

theorem InShape.append {i j : Idx} {s t : Shape} (h1 : InShape i s) (h2 : InShape j t) : InShape (i ++ j) (s ++ t) := by
  induction s generalizing i with
  | nil => cases i <;> simp_all [InShape]
  | cons a s ih =>
    cases i with
    | nil => simp [InShape] at h1
    | cons x xs => simp only [InShape, List.cons_append] at *; exact ⟨h1.1, ih h1.2⟩

theorem inShape_append_iff (i : Idx) (s t : Shape) :
    InShape i (s ++ t) ↔ InShape (i.take s.length) s ∧ InShape (i.drop s.length) t := by
  induction s generalizing i with
  | nil => simp [InShape]
  | cons a s ih =>
    cases i with
    | nil => simp [InShape]
    | cons x xs => simp [InShape, ih, and_assoc]

end NmVerif
