import NmVerif.Index.Reduce
import NmVerif.Linalg
/-
  NmVerif.Index.ReduceTrace — MODEL of `view::trace` as the C++ composes it (property C08):

    include/nmtools/array/view/trace.hpp     trace(a, offset, axis1, axis2, dtype)
                                               = view::sum(view::diagonal(a, offset, axis1, axis2), ct<-1>, dtype, None, False)
    include/nmtools/array/view/diagonal.hpp  index::shape_diagonal / index::diagonal → `Linalg.shapeDiagonal`, `Linalg.diagonalIdx`
                                             (the mirrors written for C16; the same functions, not copies)
    the reduction                            → `Reduce.reduce` (this property's mirror of reduce_t)

  The diagonal is an array of possibly-undefined elements (`none` = the index map leaves the source shape), the sum
  runs over it with `optOp`, exactly as `Reduce.var` treats its intermediate array.
  SPEC: `Linalg.specTrace` (NumPy's definition on indices) folded with `foldFirst`.
  Core Lean only.
-/
namespace NmVerif.Reduce
open NmVerif

/-- element of an array at a signed multi-index; `none` = some coordinate is negative or outside the shape -/
def readAt {α : Type} (a : Arr α) (i : List Int) : Option α :=
  if (∀ x ∈ i, 0 ≤ x) ∧ InShape (i.map Int.toNat) a.shape then some (a.get (i.map Int.toNat)) else none

/-- `view::diagonal(a, offset, axis1, axis2)`: `none` = an axis is refused by `normalize_axis` and the empty optional is
    unwrapped, or both axes are the same one (`shape_diagonal` then writes one entry past its result) -/
def diagonal {α : Type} (a : Arr α) (offset axis1 axis2 : Int) : Option (Arr (Option α)) :=
  match normalizeAxis a.shape.length axis1, normalizeAxis a.shape.length axis2 with
  | some ax1, some ax2 =>
    if ax1 = ax2 then none
    else (Linalg.shapeDiagonal a.shape offset ax1 ax2).map (fun dsh =>
      ⟨dsh, fun d => readAt a (Linalg.diagonalIdx a.shape.length d offset ax1 ax2)⟩)
  | _, _ => none

/-- `view::trace(a, offset, axis1, axis2)` = `view::sum(view::diagonal(…), -1, None, None, False)`;
    `zero` = `add_t::identity()` (the value of the sum over an empty diagonal) -/
def trace {α : Type} (add : α → α → α) (zero : Option α) (a : Arr α) (offset axis1 axis2 : Int) : Option (Arr (Option α)) :=
  (diagonal a offset axis1 axis2).bind (fun dg =>
    (reduceId (zero.map some) (optOp add) none dg (some [-1]) false).map (fun r => ⟨r.shape, fun j => (r.get j).join⟩))

/-- NumPy `np.trace(a, offset, axis1, axis2)[j]`: the diagonal elements `a[…, i + max(-offset,0), …, i + max(offset,0), …]`,
    `i = 0 … len-1`, summed in that order; `zero` for an empty diagonal -/
def specTraceElem {α : Type} (add : α → α → α) (zero : Option α) (a : Arr α) (sp : Arr (List Idx)) (j : Idx) : Option α :=
  foldNumpy zero add none ((sp.get j).map a.get)

end NmVerif.Reduce
