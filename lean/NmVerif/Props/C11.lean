import NmVerif.Static
import NmVerif.Lemmas.Static
/-
  C11 — statically inferred shape, size and bounds agree with every run-time instance.

  `SInfo` (NmVerif.Static) is the compile-time knowledge the library attaches to an array / view TYPE; `i.γ s` says that
  the run-time shape `s` is an instance of it.  For every modelled view function the library's metafunctions compute
  the knowledge of the result type from the knowledge of the operand types (`transferX`).  The theorems below say:

    * `traits_sound`        whatever the five traits report about a type is true of every instance:
                            fixed shape / dim / size are exact, bounded dim / size are upper bounds;
    * `X_static_sound`      each transfer function is sound: if the operand shapes are instances of the operand
                            knowledge and the operation (NumPy reference shape function) yields `t`, then `t` is an
                            instance of the inferred knowledge — for ALL shapes, ranks and arguments;
    * `result_buffer_fits`  consequently a buffer of `bounded_size` (or `fixed_size`) elements holds the whole result;
    * `…_counterexample`    the two places where the real metafunctions are NOT sound (known findings): the theorem
                            domain excludes exactly those kind combinations.
-/
namespace NmVerif.Props.C11
open NmVerif NmVerif.Static

/-! ## the five traits -/

/-- What `meta::fixed_shape_v / fixed_dim_v / fixed_size_v / bounded_dim_v / bounded_size_v` report is true of every
    run-time instance of the type. -/
theorem traits_sound {i : SInfo} {s : Shape} (h : i.γ s) :
    (∀ l, i.fixedShape = some l → s = l) ∧
    (∀ k, i.fixedDim = some k → s.length = k) ∧
    (∀ k, i.boundedDim = some k → s.length ≤ k) ∧
    (∀ n, i.fixedSize = some n → prod s = n) ∧
    (∀ n, i.boundedSize = some n → prod s ≤ n) := by
  obtain ⟨hs, hz⟩ := h
  have hlen : ∀ k, i.shape.len? = some k → s.length = k := by
    intro k hk
    cases hsh : i.shape with
    | const l => simp [hsh, ShapeK.len?] at hk; simp only [hsh, ShapeK.γ] at hs; subst hs; exact hk
    | clipped b => simp [hsh, ShapeK.len?] at hk; simp only [hsh, ShapeK.γ] at hs; rw [hs.length_eq]; exact hk
    | fixedDim n => simp [hsh, ShapeK.len?] at hk; simp only [hsh, ShapeK.γ] at hs; omega
    | boundedDim n => simp [hsh, ShapeK.len?] at hk
    | dyn => simp [hsh, ShapeK.len?] at hk
  refine ⟨?_, hlen, ?_, ?_, ?_⟩
  · intro l hl
    cases hsh : i.shape <;> simp [SInfo.fixedShape, hsh] at hl
    simp only [hsh, ShapeK.γ] at hs; subst hl; exact hs
  · intro k hk
    cases hsh : i.shape with
    | boundedDim n => simp [SInfo.boundedDim, hsh] at hk; simp only [hsh, ShapeK.γ] at hs; omega
    | const l => have := hlen k (by simpa [SInfo.boundedDim, hsh] using hk); omega
    | clipped b => have := hlen k (by simpa [SInfo.boundedDim, hsh] using hk); omega
    | fixedDim n => have := hlen k (by simpa [SInfo.boundedDim, hsh] using hk); omega
    | dyn => simp [SInfo.boundedDim, hsh, ShapeK.len?] at hk
  · intro n hn
    cases hsz : i.size <;> simp [SInfo.fixedSize, hsz] at hn
    simp only [hsz, SizeK.γ] at hz; omega
  · intro n hn
    cases hsz : i.size <;> simp [SInfo.boundedSize, hsz] at hn
    · simp only [hsz, SizeK.γ] at hz; omega
    · simp only [hsz, SizeK.γ] at hz; omega

example : (⟨.clipped [2, 3], .atMost 6⟩ : SInfo).γ [1, 3] := by decide
example : (⟨.clipped [2, 3], .atMost 6⟩ : SInfo).boundedSize = some 6 := rfl

/-- a result buffer sized from the static knowledge (bounded_size, which is fixed_size when that exists) has room for
    every run-time instance: nothing is clipped. -/
theorem result_buffer_fits {i : SInfo} {s : Shape} {cap : Nat} (h : i.γ s) (hc : i.boundedSize = some cap) :
    prod s ≤ cap := (traits_sound h).2.2.2.2 cap hc

/-- the operand knowledge a view reads through `shape<true>` / `size<true>` is sound -/
theorem seen_static_sound {i : SInfo} {s : Shape} (h : i.γ s) : i.seen.γ s := seen_sound h

/-! ## per-operation soundness -/

/-- admitted run-time values of a reshape target (may contain one `-1` when its values are run-time) -/
def targetOk : ArrK → List Int → Prop
  | .ct c, v => v = c.map Int.ofNat
  | .cl m, v => (∀ x ∈ v, 0 ≤ x) ∧ LeAll (v.map Int.toNat) m
  | .rt n, v => v.length = n
  | .rtv, _ => True

theorem reshape_static_sound {i o : SInfo} {s t : Shape} {k : ArrK} {targ : List Int}
    (h : i.γ s) (hk : targetOk k targ) (hr : refReshape targ s = some t) (ho : transferReshape k i = some o) : o.γ t := by
  obtain ⟨hlen, hprod, hnn⟩ := refReshape_spec hr
  simp only [transferReshape, Option.some.injEq] at ho
  subst ho
  have hz : i.seen.size.γ (prod t) := by rw [hprod]; exact (seen_sound h).2
  refine indexingInfo_sound ?_ hz
  cases k with
  | ct c =>
    simp only [targetOk] at hk
    have : ∀ x ∈ targ, 0 ≤ x := by subst hk; intro x hx; simp at hx; obtain ⟨a, _, rfl⟩ := hx; omega
    rw [hnn this, hk]
    simp [ArrK.toShapeK, ShapeK.γ, Function.comp_def]
  | cl m =>
    obtain ⟨h1, h2⟩ := hk
    rw [hnn h1]; exact h2
  | rt n => simp only [targetOk] at hk; simpa [ArrK.toShapeK, ShapeK.γ, hlen] using hk
  | rtv => trivial

example : refReshape [-1, 2] [2, 3] = some [3, 2] := by decide
example : transferReshape (.rt 2) ⟨.clipped [2, 3], .any⟩ = some ⟨.fixedDim 2, .atMost 6⟩ := by decide

theorem flatten_static_sound {i o : SInfo} {s : Shape} (h : i.γ s) (ho : transferFlatten i = some o) : o.γ (refFlatten s) := by
  have hs := seen_sound h
  have hz := hs.2
  have hp : prod (refFlatten s) = prod s := by simp [refFlatten, prod]
  unfold transferFlatten at ho
  cases hsz : i.seen.size with
  | known n =>
    simp only [hsz, transferReshape, Option.some.injEq] at ho; subst ho
    simp only [hsz, SizeK.γ] at hz
    exact indexingInfo_sound (by simp [ArrK.toShapeK, ShapeK.γ, refFlatten, hz]) (by rw [hp]; exact hz)
  | atMost n =>
    simp only [hsz, transferReshape, Option.some.injEq] at ho; subst ho
    simp only [hsz, SizeK.γ] at hz
    exact indexingInfo_sound (by simp [ArrK.toShapeK, ShapeK.γ, refFlatten, LeAll, hz]) (by rw [hp]; exact hz)
  | any =>
    simp only [hsz, transferReshape, Option.some.injEq] at ho; subst ho
    exact indexingInfo_sound (by simp [ArrK.toShapeK, ShapeK.γ, refFlatten]) trivial

example : transferFlatten ⟨.fixedDim 2, .atMost 6⟩ = some ⟨.clipped [6], .atMost 6⟩ := by decide

theorem broadcast_to_static_sound {i o : SInfo} {s t : Shape} {k : ArrK} {targ : List Nat}
    (hk : k.γ targ) (hr : refBroadcastTo targ s = some t) (ho : transferBroadcastTo k i = some o) : o.γ t := by
  have ht : t = targ := by
    unfold refBroadcastTo at hr
    split at hr <;> simp at hr
    exact hr.symm
  subst ht
  simp only [transferBroadcastTo, Option.some.injEq] at ho; subst ho
  exact indexingInfo_sound (arrK_toShapeK_sound hk) (productK_sound (arrK_toShapeK_sound hk))

example : refBroadcastTo [2, 2, 3] [1, 3] = some [2, 2, 3] := by decide

/-- squeeze, for operands whose shape knowledge is not of clipped kind (for clipped operands the real metafunction
    squeezes the maxima: `squeeze_clipped_counterexample`) -/
theorem squeeze_static_sound {i o : SInfo} {s : Shape} (h : i.γ s) (hnc : ∀ b, i.shape ≠ .clipped b)
    (ho : transferSqueeze i = some o) : o.γ (refSqueeze s) := by
  have hs := seen_sound h
  have hp : prod (refSqueeze s) = prod s := prod_filter_ne_one s
  have hl : (refSqueeze s).length ≤ s.length := List.length_filter_le _ _
  simp only [transferSqueeze, reshapeByKind, Option.some.injEq] at ho; subst ho
  refine indexingInfo_sound ?_ (by rw [hp]; exact hs.2)
  have hsh := hs.1
  rw [seen_shape] at hsh ⊢
  cases hk : i.shape with
  | const l => simp only [hk, ShapeK.γ] at hsh; subst hsh; simp [ShapeK.γ]
  | clipped b => exact absurd hk (hnc b)
  | fixedDim k =>
    simp only [hk, ShapeK.γ] at hsh
    by_cases hk0 : k > 0 <;> simp [hk0, ShapeK.γ]; omega
  | boundedDim k =>
    simp only [hk, ShapeK.γ] at hsh
    by_cases hk0 : k > 0 <;> simp [hk0, ShapeK.γ]; omega
  | dyn => simp [ShapeK.γ]

/-- known finding C11.squeeze-clipped: the clipped type admits `[1,1,2]`, the squeezed instance `[2]` is not an instance
    of the inferred knowledge (rank 2, bounds [2,3]) -/
theorem squeeze_clipped_counterexample :
    (⟨.clipped [2, 1, 3], .atMost 6⟩ : SInfo).γ [1, 1, 2] ∧
    ∃ o, transferSqueeze ⟨.clipped [2, 1, 3], .atMost 6⟩ = some o ∧ ¬ o.γ (refSqueeze [1, 1, 2]) := by
  refine ⟨by decide, ⟨.clipped [2, 3], .atMost 6⟩, by decide, by decide⟩

theorem ufunc1_static_sound {i o : SInfo} {s : Shape} (h : i.γ s) (ho : transferUfunc1 i = some o) : o.γ s := by
  have hs := seen_sound h
  simp only [transferUfunc1, Option.some.injEq] at ho; subst ho
  exact ufuncInfo_sound hs.1 hs.2

end NmVerif.Props.C11
