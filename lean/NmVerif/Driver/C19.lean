import NmVerif.Proto
import NmVerif.Containers.Core
import NmVerif.Containers.Spec
import NmVerif.Containers.Vector
import NmVerif.Containers.StaticVector
import NmVerif.Containers.Either
import NmVerif.Containers.SmallVector
/-
  Driver for C19: `hist kind=<vec|…> elem=<int|double> ops=<op>;<op>;…` runs the history on the MODEL and prints,
  after every operation, the client-visible state of slots 0 and 1 (spec part), the internal state
  (capacity, cells beyond size, ledger counters) and, at the end — after destroying what is still alive —
  the ledger balance.   `ok S1|S2|… # I1|I2|… # leak=n`
-/
namespace NmVerif.Driver.C19
open NmVerif NmVerif.Proto NmVerif.Containers

def parseOp (s : String) : Option (Op Int) :=
  match s.splitOn ":" with
  | ["ctor", a] => do pure (.ctor (← a.toNat?))
  | ["ctorN", a, n] => do pure (.ctorN (← a.toNat?) (← n.toNat?))
  | "ctorV" :: a :: vs => do pure (.ctorV (← a.toNat?) (← vs.mapM (·.toInt?)))
  | ["copy", d, a] => do pure (.copy (← d.toNat?) (← a.toNat?))
  | ["assign", d, a] => do pure (.assign (← d.toNat?) (← a.toNat?))
  | ["push", a, v] => do pure (.push (← a.toNat?) (← v.toInt?))
  | ["pushAt", a, i] => do pure (.pushAt (← a.toNat?) (← i.toNat?))
  | ["resize", a, n] => do pure (.resize (← a.toNat?) (← n.toNat?))
  | ["write", a, i, v] => do pure (.write (← a.toNat?) (← i.toNat?) (← v.toInt?))
  | ["read", a, i] => do pure (.read (← a.toNat?) (← i.toNat?))
  | ["destroy", a] => do pure (.destroy (← a.toNat?))
  | _ => none

def parseOps (s : String) : Option (List (Op Int)) :=
  if s == "[]" || s == "" then some [] else (s.splitOn ";").mapM parseOp

def fmtCell : Cell Int → String
  | some v => toString v
  | none => "u"

def fmtCells (l : List (Cell Int)) : String := ",".intercalate (l.map fmtCell)

def nSlots : Nat := 2

/-- spec part of one step -/
def fmtObjs (I : Impl σ Int) (w : World σ) : String :=
  "/".intercalate ((List.range nSlots).map fun k =>
    match w.objs k with
    | none => "-"
    | some x => s!"{I.size x}:{fmtCells (I.view x)}")

def fmtInternals (intern : σ → String) (w : World σ) : String :=
  "/".intercalate ((List.range nSlots).map fun k =>
    match w.objs k with
    | none => "-"
    | some x => intern x) ++ s!";a={w.led.allocs},f={w.led.freed.length}"

/-- value a `read` returns -/
def readNote (I : Impl σ Int) (w : World σ) : Op Int → String
  | .read s i =>
    match w.objs s with
    | some x => " r=" ++ fmtCell (I.read x i w.led).1
    | none => ""
  | _ => ""

def trace (I : Impl σ Int) (intern : σ → String) (ops : List (Op Int)) : String :=
  let rec go (w : World σ) (ops : List (Op Int)) (accS accI : List String) : World σ × List String × List String :=
    match ops with
    | [] => (w, accS.reverse, accI.reverse)
    | op :: rest =>
      let valid := Op.valid I w op
      let w' := step I w op
      let s := fmtObjs I w' ++ (if valid then readNote I w op else "!")
      go w' rest (s :: accS) (fmtInternals intern w' :: accI)
  let (w, ss, is) := go World.empty ops [] []
  -- end of history: destroy what is still alive
  let wEnd := run I w ((List.range nSlots).map Op.destroy)
  let L := wEnd.led
  let badFree := L.freed.length - L.freed.eraseDups.length + (L.freed.filter (fun b => decide (L.allocs ≤ b))).length
  let fin := s!"leak={(L.allocs : Int) - L.freed.length} live={(L.ctors : Int) - L.dtors} bad={badFree}"
  -- an access outside a buffer is undefined behaviour: whatever the real run shows, the model predicts nothing
  if L.events.contains .oob then "ub:oob" else
  -- … nor about a read through a dangling reference (small_vector: `x.push_back(x[i])` at size() == DIM)
  if L.events.contains .uaf then "ub:uaf" else
  s!"ok {"|".intercalate ss} # {"|".intercalate is} # {fin}"

def vecIntern (v : Vec Int) : String := s!"{v.cap}:{fmtCells (v.cells.drop v.size)}"

def svecIntern (c : Nat) (v : SVec Int) : String := s!"{c}:{fmtCells (v.cells.drop v.size)}"
def arrIntern (c : Nat) (_ : SVec Int) : String := s!"{c}:"

def smallIntern (c : Nat) (x : Small Int) : String :=
  if x.tagS then s!"S{c}:{fmtCells (x.st.cells.drop x.st.size)}" else s!"D{x.dy.cap}:{fmtCells (x.dy.cells.drop x.dy.size)}"

/-! either / maybe -/

def parseEOp (s : String) : Option (EOp Int Int) :=
  match s.splitOn ":" with
  | ["mk", a] => do pure (.mk (← a.toNat?))
  | ["mkL", a, v] => do pure (.mkL (← a.toNat?) (← v.toInt?))
  | ["mkR", a, v] => do pure (.mkR (← a.toNat?) (← v.toInt?))
  | ["copy", d, a] => do pure (.copy (← d.toNat?) (← a.toNat?))
  | ["assign", d, a] => do pure (.assign (← d.toNat?) (← a.toNat?))
  | ["setL", a, v] => do pure (.setL (← a.toNat?) (← v.toInt?))
  | ["setR", a, v] => do pure (.setR (← a.toNat?) (← v.toInt?))
  | ["writeL", a, v] => do pure (.writeL (← a.toNat?) (← v.toInt?))
  | ["read", a] => do pure (.read (← a.toNat?))
  | ["destroy", a] => do pure (.destroy (← a.toNat?))
  | _ => none

def parseEOps (s : String) : Option (List (EOp Int Int)) :=
  if s == "[]" || s == "" then some [] else (s.splitOn ";").mapM parseEOp

def fmtEith (isMaybe : Bool) (x : Eith Int Int) : String :=
  if x.tagL then (if isMaybe then "J" else "L") ++ fmtCell x.left.val
  else if isMaybe then "N" else "R" ++ fmtCell x.right

def fmtEObjs (isMaybe : Bool) (w : EWorld Int Int) : String :=
  "/".intercalate ((List.range nSlots).map fun k =>
    match w.objs k with
    | none => "-"
    | some x => fmtEith isMaybe x)

def ledBad (L : Ledger) : Nat :=
  (L.events.filter (fun e => e == .uninitAssign || e == .overLive || e == .destroyDead)).length

def EOp.valid (w : EWorld Int Int) : EOp Int Int → Bool
  | .mk s | .mkL s _ | .mkR s _ => (w.objs s).isNone
  | .copy d s => (w.objs d).isNone && (w.objs s).isSome
  | .assign d s => (w.objs d).isSome && (w.objs s).isSome
  | .setL s _ | .setR s _ | .read s | .destroy s => (w.objs s).isSome
  | .writeL s _ => match w.objs s with | some x => x.tagL | none => false

def etrace (cfg : ECfg Int Int) (ops : List (EOp Int Int)) : String :=
  let rec go (w : EWorld Int Int) (ops : List (EOp Int Int)) (accS accI : List String) : EWorld Int Int × List String × List String :=
    match ops with
    | [] => (w, accS.reverse, accI.reverse)
    | op :: rest =>
      let valid := EOp.valid w op
      let w' := estep cfg w op
      let note := match op with
        | .read s => (match w.objs s with | some x => " r=" ++ fmtEith cfg.isMaybe x | none => "")
        | _ => ""
      let s := fmtEObjs cfg.isMaybe w' ++ (if valid then note else "!")
      go w' rest (s :: accS) (s!"live={(w'.led.ctors : Int) - w'.led.dtors},b={ledBad w'.led}" :: accI)
  let (w, ss, is) := go EWorld.empty ops [] []
  let wEnd := erun cfg w ((List.range nSlots).map EOp.destroy)
  let L := wEnd.led
  s!"ok {"|".intercalate ss} # {"|".intercalate is} # leak=0 live={(L.ctors : Int) - L.dtors} bad={ledBad L}"

def handle : Handler := fun op a =>
  match op with
  | "hist" => orBad do
      let kind ← a.get? "kind"
      let ops ← (a.get? "ops").bind parseOps
      match kind with
      | "vec" => pure (trace (vecImpl (0 : Int)) vecIntern ops)
      | "svec" => pure (trace (svecImpl 4 (0 : Int)) (svecIntern 4) ops)
      | "arr" => pure (trace (arrImpl 3 (0 : Int)) (arrIntern 3) ops)
      | "tuple" | "tuplev2" =>
        -- heterogeneous tuples carry their arity (`arity=1…12`); the homogeneous `tuple<E,E,E>` requests have none
        let n := ((a.get? "arity").bind String.toNat?).getD 3
        pure (trace (arrImpl n (0 : Int)) (arrIntern n) ops)
      | "small" => pure (trace (smallImpl 4 (0 : Int)) (smallIntern 4) ops)
      | _ => none
  | "ehist" => orBad do
      let kind ← a.get? "kind"
      let elem := (a.get? "elem").getD "int"
      let ops ← (a.get? "ops").bind parseEOps
      let nt := elem == "tracked"
      match kind with
      | "maybe" => pure (etrace { isMaybe := true, nt := nt, zeroL := 0, zeroR := 0 } ops)
      | "either" => pure (etrace { isMaybe := false, nt := nt, zeroL := 0, zeroR := 0 } ops)
      | _ => none
  | _ => none

end NmVerif.Driver.C19
