// C16 harness (3/3): view::tensordot (integer and explicit axes), view::kron, view::trace (through view::diagonal)
#include "nmtools/array/view/tensordot.hpp"
#include "nmtools/array/view/kron.hpp"
#include "nmtools/array/view/trace.hpp"
#include "c16_common.hpp"
using namespace c16;
namespace view = nmtools::view; namespace ix = nmtools::index;

std::string handle(const std::string& op, const Args& a) {
    std::string mode = has(a, "data") ? get(a, "data") : "mix";
    if (op == "tensordot") {
        auto A = make(nats(a, "a"), mode, 0); auto B = make(nats(a, "b"), mode, 1);
        try {
            if (has(a, "axes")) { int n = (int)integer(a, "axes"); return show(view::tensordot(A, B, n)); }
            auto la = intsi(a, "la"); auto ra = intsi(a, "ra");
            return show(view::tensordot(A, B, nmtools_tuple{la, ra}));
        } catch (const std::out_of_range&) { return "crash:out_of_range"; }
    }
    if (op == "kron") {
        auto A = make(nats(a, "a"), mode, 0); auto B = make(nats(a, "b"), mode, 1);
        try { return show(view::kron(A, B)); } catch (const std::out_of_range&) { return "crash:out_of_range"; }
    }
    if (op == "trace") {
        auto A = make(nats(a, "a"), mode, 0);
        int offset = (int)integer(a, "offset"), axis1 = (int)integer(a, "axis1"), axis2 = (int)integer(a, "axis2");
        std::string form = has(a, "form") ? get(a, "form") : "full";     // d0: trace(a), d1: trace(a, offset): default axes
        try {
            if (form == "d0") return show(view::trace(A));
            if (form == "d1") return show(view::trace(A, offset));
            return show(view::trace(A, offset, axis1, axis2));
        } catch (const std::out_of_range&) { return "crash:out_of_range"; }
    }
    if (op == "kron_helpers") {
        auto ls = nats(a, "a"), rs = nats(a, "b");
        return "ok axes=" + fmt(to_uvec(ix::kron_dst_transpose(ls.size(), rs.size()))) + " lhs_reshape=" + fmt(to_uvec(ix::kron_lhs_reshape(ls, rs.size())))
             + " dst=" + fmt(to_uvec(ix::kron_dst_reshape(ls, rs)));
    }
    if (op == "tensordot_helpers") {
        auto ls = nats(a, "a"), rs = nats(a, "b");
        if (has(a, "axes")) {
            int n = (int)integer(a, "axes");
            return "ok lt=" + fmt(to_uvec(ix::tensordot_lhs_transpose(ls.size(), n))) + " rt=" + fmt(to_uvec(ix::tensordot_rhs_transpose(rs.size(), n)));
        }
        auto la = intsi(a, "la"); auto ra = intsi(a, "ra");
        return "ok lt=" + fmt(to_uvec(ix::tensordot_lhs_transpose(ls.size(), la))) + " rt=" + fmt(to_uvec(ix::tensordot_rhs_transpose(rs.size(), ra)));
    }
    return "unknown-op";
}
