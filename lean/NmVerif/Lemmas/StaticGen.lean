import NmVerif.StaticGen
import NmVerif.Lemmas.Static
import NmVerif.Lemmas.StaticMore
/-
  Helper lemmas for the third group of C11 transfer functions (NmVerif.StaticGen): facts about the reference shape
  functions and soundness of the shape-kind part of each transfer function.
-/
namespace NmVerif.Static
open NmVerif

theorem lenK_plus_sound {a b : LenK} {n m : Nat} (ha : a.γ n) (hb : b.γ m) : (a.plus b).γ (n + m) := by
  cases a <;> cases b <;> simp only [LenK.plus, LenK.γ] at * <;> omega

/-! ### tril -/

theorem length_refTril (s : Shape) : (refTril s).length = trilLen s.length := by
  match s with
  | [] => simp [refTril, trilLen]
  | [n] => simp [refTril, trilLen]
  | a :: b :: r => simp only [refTril, trilLen, List.length_cons]; split <;> omega

theorem trilLen_le {n b : Nat} (h : n ≤ b) : trilLen n ≤ trilLen b := by
  unfold trilLen; split <;> split <;> omega

theorem trilShapeK_sound {sh : ShapeK} {s : Shape} (h : sh.γ s) : (trilShapeK sh).γ (refTril s) := by
  have hl := lenK_sound h
  cases sh with
  | const l => simp only [ShapeK.γ] at h; subst h; simp [trilShapeK, ShapeK.γ]
  | clipped b =>
    simp only [ShapeK.lenK, LenK.γ] at hl
    simp only [trilShapeK, ShapeK.lenK, ShapeK.γ, length_refTril, hl]
  | fixedDim k =>
    simp only [ShapeK.lenK, LenK.γ] at hl
    simp only [trilShapeK, ShapeK.lenK, ShapeK.γ, length_refTril, hl]
  | boundedDim k =>
    simp only [ShapeK.lenK, LenK.γ] at hl
    simp only [trilShapeK, ShapeK.lenK, ShapeK.γ, length_refTril]
    exact trilLen_le hl
  | dyn => simp [trilShapeK, ShapeK.lenK, ShapeK.γ]

/-! ### pool2d -/

/-- the number of windows grows with the extent -/
theorem poolDim_mono {ceil : Bool} {h h' k s p p' : Nat} (hle : h ≤ h')
    (hp : poolDim ceil h k s = some p) (hp' : poolDim ceil h' k s = some p') : p ≤ p' := by
  unfold poolDim at hp hp'
  split at hp
  · simp at hp
  · rename_i hg
    split at hp'
    · simp at hp'
    · rename_i hg'
      have hs : 0 < s := by omega
      cases ceil with
      | false =>
        simp only [Bool.false_eq_true, if_false, Option.some.injEq] at hp hp'
        have := Nat.div_le_div_right (c := s) (show h - k ≤ h' - k by omega)
        omega
      | true =>
        simp only [if_true, Option.some.injEq] at hp hp'
        have hc := Nat.div_le_div_right (c := s) (show h - k + s - 1 ≤ h' - k + s - 1 by omega)
        generalize (h - k + s - 1) / s = c at hp hc
        generalize (h' - k + s - 1) / s = c' at hp' hc
        by_cases hcc : c = c'
        · subst hcc
          split at hp <;> split at hp' <;> omega
        · split at hp <;> split at hp' <;> omega

theorem poolDim_pos {ceil : Bool} {h k s p : Nat} (hp : poolDim ceil h k s = some p) : 0 < p := by
  unfold poolDim at hp
  split at hp
  · simp at hp
  · cases ceil with
    | false => simp only [Bool.false_eq_true, if_false, Option.some.injEq] at hp; subst hp; exact Nat.succ_pos _
    | true =>
      simp only [if_true, Option.some.injEq] at hp
      generalize (h - k + s - 1) / s = c at hp
      split at hp <;> omega

theorem refPool_length {ceil : Bool} {kv sv : List Nat} {s t : Shape} (h : refPool ceil kv sv s = some t) :
    t.length = s.length := by
  unfold refPool at h
  split at h
  · rename_i w hh rest kh kw sh sw hrev
    split at h
    · simp only [Option.some.injEq] at h; subst h
      have : s.length = (w :: hh :: rest).length := by rw [← hrev]; simp
      simp [this]
    · simp at h
  · simp at h

theorem refPool_leAll {ceil : Bool} {kv sv : List Nat} {s v t t' : Shape} (hl : LeAll s v)
    (h : refPool ceil kv sv s = some t) (h' : refPool ceil kv sv v = some t') : LeAll t t' := by
  have hr := hl.reverse
  unfold refPool at h h'
  split at h
  · rename_i w hh rest kh kw sh sw hrev
    split at h'
    · rename_i w' hh' rest' kh' kw' sh' sw' hrev' hk hs
      simp only [List.cons.injEq, and_true] at hk hs
      obtain ⟨rfl, rfl⟩ := hk
      obtain ⟨rfl, rfl⟩ := hs
      rw [hrev, hrev'] at hr
      obtain ⟨hw, hh2, hrest⟩ := hr
      split at h
      · rename_i ph pw hph hpw
        split at h'
        · rename_i ph' pw' hph' hpw'
          simp only [Option.some.injEq] at h h'; subst h h'
          have : LeAll (pw :: ph :: rest) (pw' :: ph' :: rest') :=
            ⟨poolDim_mono hw hpw hpw', poolDim_mono hh2 hph hph', hrest⟩
          exact this.reverse
        · simp at h'
      · simp at h
    · simp at h'
  · simp at h

theorem poolShapeK_sound {sh d : ShapeK} {s t : Shape} {kk sk : ArrK} {kv sv : List Nat} {ceil : Bool}
    (hsh : sh.γ s) (hk : kk.γ kv) (hs : sk.γ sv) (href : refPool ceil kv sv s = some t)
    (hd : poolShapeK sh kk sk ceil = some d) : d.γ t := by
  have hgen : sh.lenK.toShapeK.γ t := lenK_toShapeK_sound hsh (refPool_length href)
  unfold poolShapeK at hd
  split at hd
  · rename_i v kv' sv' hc
    simp only [ArrK.γ] at hk hs; subst hk hs
    simp only [Option.map_eq_some_iff] at hd
    obtain ⟨t', ht', rfl⟩ := hd
    refine like_sound hsh hc ?_ ?_
    · intro he; subst he; rw [href] at ht'; exact Option.some.inj ht'
    · intro hle; exact refPool_leAll hle href ht'
  · simp only [Option.some.injEq] at hd; subst hd; exact hgen

/-! ### resize -/

theorem refResize_spec {t s r : Shape} (h : refResize t s = some r) : r = t ∧ t.length = s.length := by
  unfold refResize at h
  split at h
  · rename_i hc; simp only [Option.some.injEq] at h; exact ⟨h.symm, hc.1⟩
  · simp at h

theorem resizeRt_sound {src dst : LenK} {d : ShapeK} {t : Shape} (hL : dst.γ t.length) (hd : resizeRt src dst = some d) : d.γ t := by
  cases dst with
  | fixed n =>
    simp only [LenK.γ] at hL
    have : (ShapeK.fixedDim n).γ t := by simpa [ShapeK.γ] using hL
    cases src with
    | fixed m => simp only [resizeRt] at hd; split at hd <;> simp at hd; subst hd; exact this
    | bounded b => simp only [resizeRt] at hd; split at hd <;> simp at hd; subst hd; exact this
    | dyn => simp only [resizeRt, Option.some.injEq] at hd; subst hd; exact this
  | bounded b =>
    simp only [LenK.γ] at hL
    simp only [resizeRt, Option.some.injEq] at hd; subst hd; simpa [ShapeK.γ] using hL
  | dyn => simp only [resizeRt, Option.some.injEq] at hd; subst hd; trivial

theorem resizeShapeK_sound {sh d : ShapeK} {s t : Shape} {k : ArrK} {targ : List Nat}
    (hsh : sh.γ s) (hk : k.γ targ) (href : refResize targ s = some t) (hd : resizeShapeK sh k = some d) : d.γ t := by
  obtain ⟨rfl, hlen⟩ := refResize_spec href
  have hL := arrK_lenK_sound hk
  unfold resizeShapeK at hd
  split at hd
  · rename_i l tt
    simp only [ArrK.γ] at hk; subst hk
    simp only [ShapeK.γ] at hsh; subst hsh
    simp only [href, Option.map_some, Option.some.injEq] at hd; subst hd; rfl
  · exact resizeRt_sound hL hd

/-! ### sliding_window -/

theorem length_swSub : ∀ (s ws : List Nat), fitsAll s ws = true → (swSub s ws).length = s.length ∧ ws.length = s.length
  | [], [], _ => by simp [swSub]
  | x :: xs, w :: ws, h => by
      simp only [fitsAll, Bool.and_eq_true] at h
      have := length_swSub xs ws h.2
      simp [swSub, this.1, this.2]
  | [], _ :: _, h => by simp [fitsAll] at h
  | _ :: _, [], h => by simp [fitsAll] at h

/-- window kind admits the value: the rank the window adds -/
def WinV.len : WinV → Nat
  | .num _ => 1
  | .arr ws => ws.length

theorem winK_lenK_sound {w : WinK} {wv : WinV} (h : w.γ wv) : w.lenK.γ wv.len := by
  cases w <;> cases wv <;> simp only [WinK.γ] at h
  · simp [WinK.lenK, WinV.len, LenK.γ]
  · exact arrK_lenK_sound h

theorem refSlidingWindow_length {wv : WinV} {axis : Option Nat} {s t : Shape}
    (h : refSlidingWindow wv axis s = some t) : t.length = s.length + wv.len := by
  unfold refSlidingWindow at h
  split at h
  · split at h
    · split at h
      · simp only [Option.some.injEq] at h; subst h; simp [WinV.len]
      · simp at h
    · simp at h
  · split at h
    · rename_i hf
      simp only [Option.some.injEq] at h; subst h
      have := length_swSub _ _ hf
      simp [WinV.len, this.1]
    · simp at h
  · simp at h

theorem winK_static_eq {w : WinK} {wv wv' : WinV} (h : w.γ wv) (hs : w.static? = some wv') : wv' = wv := by
  cases w with
  | num k =>
    cases k with
    | ct c =>
      simp only [WinK.static?, Option.some.injEq] at hs; subst hs
      cases wv <;> simp only [WinK.γ, NumK.γ] at h
      subst h; rfl
    | rt => simp [WinK.static?] at hs
  | arr k =>
    cases k with
    | ct c =>
      simp only [WinK.static?, Option.some.injEq] at hs; subst hs
      cases wv <;> simp only [WinK.γ, ArrK.γ] at h
      subst h; rfl
    | cl m => simp [WinK.static?] at hs
    | rt n => simp [WinK.static?] at hs
    | rtv => simp [WinK.static?] at hs
    | bnd cap => simp [WinK.static?] at hs

theorem swShapeK_sound {sh d : ShapeK} {s t : Shape} {w : WinK} {wv : WinV} {ax : AxisK} {axis : Option Nat}
    (hsh : sh.γ s) (hw : w.γ wv) (hax : ax.γ1 axis) (href : refSlidingWindow wv axis s = some t)
    (hd : swShapeK sh w ax = some d) : d.γ t := by
  have hgen : (sh.lenK.plus w.lenK).toShapeK.γ t := by
    apply toShapeK_of_lenK
    rw [refSlidingWindow_length href]
    exact lenK_plus_sound (lenK_sound hsh) (winK_lenK_sound hw)
  unfold swShapeK at hd
  split at hd
  · unfold swInner at hd
    split at hd
    · rename_i l wv' axis' hws has
      have h1 := winK_static_eq hw hws
      have h2 := staticAxis?_γ1 hax has
      subst h1 h2
      simp only [ShapeK.γ] at hsh; subst hsh
      simp only [href, Option.map_some, Option.some.injEq] at hd; subst hd; rfl
    · simp only [Option.some.injEq] at hd; subst hd; exact hgen
  · simp at hd

/-! ### compress -/

theorem countNZ_le (c : List Nat) : countNZ c ≤ c.length := List.countP_le_length

theorem countNZ_le_of_fits {c : List Nat} {n : Nat} (h : condFits c n = true) : countNZ c ≤ n := by
  unfold condFits at h
  have h0 : countNZ (c.drop n) = 0 := by
    unfold countNZ
    rw [List.countP_eq_zero]
    intro x hx
    have := List.all_eq_true.mp h x hx
    simpa using this
  have hsplit : countNZ c = countNZ (c.take n) + countNZ (c.drop n) := by
    unfold countNZ
    rw [← List.countP_append, List.take_append_drop]
  have h1 : countNZ (c.take n) ≤ n := Nat.le_trans (countNZ_le _) (by simp [List.length_take]; omega)
  omega

theorem prod_set_le : ∀ (s : Shape) (a n c : Nat), s[a]? = some n → c ≤ n → prod (s.set a c) ≤ prod s
  | [], _, _, _, h, _ => by simp at h
  | x :: xs, 0, n, c, h, hc => by
      simp only [List.getElem?_cons_zero, Option.some.injEq] at h; subst h
      simp only [List.set_cons_zero, prod]
      exact Nat.mul_le_mul_right _ hc
  | x :: xs, a + 1, n, c, h, hc => by
      simp only [List.getElem?_cons_succ] at h
      simp only [List.set_cons_succ, prod]
      exact Nat.mul_le_mul_left _ (prod_set_le xs a n c h hc)

theorem leAll_set_le : ∀ {s b : List Nat} (a n c : Nat), LeAll s b → s[a]? = some n → c ≤ n → LeAll (s.set a c) b
  | [], [], _, _, _, _, h, _ => by simp at h
  | x :: xs, y :: ys, 0, n, c, hl, h, hc => by
      simp only [List.getElem?_cons_zero, Option.some.injEq] at h; subst h
      simp only [List.set_cons_zero, LeAll]
      exact ⟨Nat.le_trans hc hl.1, hl.2⟩
  | x :: xs, y :: ys, a + 1, n, c, hl, h, hc => by
      simp only [List.getElem?_cons_succ] at h
      simp only [List.set_cons_succ, LeAll]
      exact ⟨hl.1, leAll_set_le a n c hl.2 h hc⟩
  | [], _ :: _, _, _, _, hl, _, _ => by simp [LeAll] at hl
  | _ :: _, [], _, _, _, hl, _, _ => by simp [LeAll] at hl

theorem refCompress_spec {c : List Nat} {axis : Option Nat} {s t : Shape} (h : refCompress c axis s = some t) :
    prod t ≤ prod s ∧ (axis = none → t.length = 1) ∧ (axis ≠ none → t.length = s.length) ∧
    (∀ b, axis ≠ none → LeAll s b → LeAll t b) := by
  cases axis with
  | none =>
    simp only [refCompress] at h
    split at h
    · rename_i hc
      simp only [Option.some.injEq] at h; subst h
      refine ⟨?_, by simp, by simp, by simp⟩
      have := countNZ_le_of_fits hc
      simp only [prod]; omega
    · simp at h
  | some a =>
    simp only [refCompress] at h
    split at h
    · rename_i n hn
      split at h
      · rename_i hc
        simp only [Option.some.injEq] at h; subst h
        have hcn : countNZ c ≤ n := countNZ_le_of_fits hc
        exact ⟨prod_set_le s a n _ hn hcn, by simp, by simp, fun b _ hl => leAll_set_le a n _ hl hn hcn⟩
      · simp at h
    · simp at h

theorem leAll_bump' {t r : List Nat} (h : LeAll t r) : LeAll t (bump r) := leAll_bump h

theorem refCompress_leAll {c : List Nat} {axis : Option Nat} {s v t t' : Shape} (hl : LeAll s v)
    (h : refCompress c axis s = some t) (h' : refCompress c axis v = some t') : LeAll t t' := by
  cases axis with
  | none =>
    simp only [refCompress] at h h'
    split at h <;> split at h' <;> simp at h h'
    subst h h'; exact LeAll.refl _
  | some a =>
    simp only [refCompress] at h h'
    split at h
    · split at h'
      · split at h <;> split at h' <;> simp at h h'
        subst h h'; exact LeAll.set a _ hl
      · simp at h'
    · simp at h

theorem compressRt_sound {sh d : ShapeK} {s t : Shape} {c : List Nat} {ax : AxisK} {axis : Option Nat}
    (hsh : sh.γ s) (hax : ax.γ1 axis) (href : refCompress c axis s = some t) (hd : compressRt sh ax = some d) : d.γ t := by
  obtain ⟨_, hnone, hsome, hle⟩ := refCompress_spec href
  have hkeep : axis ≠ none → sh.keepClipped.γ t := by
    intro hne
    cases sh with
    | clipped b => exact hle b hne hsh
    | const l => exact lenK_toShapeK_sound hsh (hsome hne)
    | fixedDim k => exact lenK_toShapeK_sound hsh (hsome hne)
    | boundedDim k => exact lenK_toShapeK_sound hsh (hsome hne)
    | dyn => exact lenK_toShapeK_sound hsh (hsome hne)
  cases ax with
  | none =>
    simp only [AxisK.γ1] at hax; subst hax
    simp only [compressRt, Option.some.injEq] at hd; subst hd
    simpa [ShapeK.γ] using hnone rfl
  | cts x =>
    simp only [AxisK.γ1] at hax; subst hax
    simp only [compressRt, Option.some.injEq] at hd; subst hd
    exact hkeep (by simp)
  | rts =>
    simp only [AxisK.γ1] at hax
    simp only [compressRt, Option.some.injEq] at hd; subst hd
    exact hkeep hax
  | ctt l => simp [compressRt] at hd
  | rt n => simp [compressRt] at hd

theorem compressShapeK_sound {sh d : ShapeK} {s t : Shape} {c : ArrK} {cv : List Nat} {ax : AxisK} {axis : Option Nat}
    (hsh : sh.γ s) (hc : c.γ cv) (hax : ax.γ1 axis) (href : refCompress cv axis s = some t)
    (hd : compressShapeK sh c ax = some d) : d.γ t := by
  unfold compressShapeK at hd
  split at hd
  · rename_i cv' v axis' hcv has
    simp only [ArrK.γ] at hc; subst hc
    have := staticAxis?_γ1 hax has; subst this
    simp only [Option.map_eq_some_iff] at hd
    obtain ⟨r, hr, rfl⟩ := hd
    split
    · rename_i hconst
      have := isConst_eq hsh hcv hconst; subst this
      rw [href] at hr; simp only [Option.some.injEq] at hr; subst hr; rfl
    · exact leAll_bump (refCompress_leAll (cvalue_le hsh hcv) href hr)
  · exact compressRt_sound hsh hax href hd

theorem bound?_sound {z : SizeK} {m n : Nat} (h : z.γ m) (hb : z.bound? = some n) : m ≤ n := by
  cases z <;> simp only [SizeK.bound?, Option.some.injEq] at hb <;> simp only [SizeK.γ] at h <;> try omega
  simp at hb

theorem compressInfo_sound {own : SizeK} {d : ShapeK} {s t : Shape} (hd : d.γ t) (hown : own.γ (prod s))
    (hp : prod t ≤ prod s) : (compressInfo own d).γ t := by
  refine ⟨hd, ?_⟩
  have gen : (match own.bound? with | some n => SizeK.atMost n | none => .any).γ (prod t) := by
    cases hb : own.bound? with
    | none => trivial
    | some n => exact Nat.le_trans hp (bound?_sound hown hb)
  cases d with
  | const l => simp only [ShapeK.γ] at hd; subst hd; simp [compressInfo, SizeK.γ]
  | clipped b => exact gen
  | fixedDim k => exact gen
  | boundedDim k => exact gen
  | dyn => exact gen

/-! ### outer -/

theorem outerShapeK_sound {A B : ShapeK} {a b : Shape} (hA : A.γ a) (hB : B.γ b) : (outerShapeK A B).γ (refOuter a b) := by
  unfold outerShapeK refOuter
  split
  · rename_i va vb hca hcb
    split
    · rename_i hcc
      simp only [Bool.and_eq_true] at hcc
      have h1 := isConst_eq hA hca hcc.1
      have h2 := isConst_eq hB hcb hcc.2
      subst h1 h2; rfl
    · exact (cvalue_le hA hca).append (cvalue_le hB hcb)
  · apply toShapeK_of_lenK
    rw [List.length_append]
    exact lenK_plus_sound (lenK_sound hA) (lenK_sound hB)

theorem static?_sound {z : SizeK} {m n : Nat} {c : Bool} (h : z.γ m) (hs : z.static? = some (n, c)) :
    m ≤ n ∧ (c = true → m = n) := by
  cases z <;> simp only [SizeK.static?, Option.some.injEq, Prod.mk.injEq] at hs <;> simp only [SizeK.γ] at h
  · obtain ⟨rfl, rfl⟩ := hs; omega
  · obtain ⟨rfl, rfl⟩ := hs; simp; omega
  · simp at hs
  · obtain ⟨rfl, rfl⟩ := hs; omega

theorem outerSizeK_sound {d : ShapeK} {za zb : SizeK} {a b : Shape} (hd : d.γ (refOuter a b))
    (ha : za.γ (prod a)) (hb : zb.γ (prod b)) : (outerSizeK d za zb).γ (prod (refOuter a b)) := by
  have hp : prod (refOuter a b) = prod a * prod b := prod_append a b
  have gen : (match za.static?, zb.static? with
      | some (x, ca), some (y, cb) => if ca && cb then SizeK.known (x * y) else .atMost (x * y)
      | _, _ => .any).γ (prod (refOuter a b)) := by
    split
    · rename_i x ca y cb h1 h2
      obtain ⟨l1, e1⟩ := static?_sound ha h1
      obtain ⟨l2, e2⟩ := static?_sound hb h2
      rw [hp]
      split
      · rename_i hcc
        simp only [Bool.and_eq_true] at hcc
        simp only [SizeK.γ]; rw [e1 hcc.1, e2 hcc.2]
      · exact Nat.mul_le_mul l1 l2
    · trivial
  cases d with
  | const l => simp only [ShapeK.γ] at hd; rw [hd]; simp [outerSizeK, SizeK.γ]
  | clipped m => exact gen
  | fixedDim k => exact gen
  | boundedDim k => exact gen
  | dyn => exact gen

end NmVerif.Static
