// C12 harness, integer element types, vector extension 128 bit; flags as h_c12_v128.cpp
#include "nmtools/array/eval/simd/vector_128.hpp"
#define C12_CTX  nmtools::array::simd::vector_128
#define C12_BITS 128
#include "h_c12_int_common.hpp"
