import NmVerif.Containers.Core
import NmVerif.Containers.Vector
import NmVerif.Containers.StaticVector
/-
  NmVerif.Containers.SmallVector — mirror of `nmtools::small_vector<T,DIM>` (utility/small_vector.hpp:17-217)
  instantiated with the STL-free parts: `utl::either<utl::static_vector<T,DIM>, utl::vector<T>>`.

  The union holds either the static vector (`tagS`, LEFT) or the heap vector (RIGHT).  `utl::either` for this pair
  is the specialisation with `~either() {}` (either.hpp:254): the heap vector is never destroyed.

  Mirrored, line by line:
    small_vector()        `buffer_ = {}`: left{} — static, size 0
    small_vector(N)       N < DIM: `buffer_ = static_vector{}` (member assignment), `resize(N)`;
                          else `buffer_ = vector{}`: *assignment* of a temporary vector into the union storage that
                          holds the static vector — no vector was constructed there (the bytes read as a null buffer:
                          the static vector was just value-initialised) —, then `resize(N)`           (l.39-55)
    resize(n)             static and n ≤ DIM: static resize; static and n > DIM: `new_buffer = small_vector(n)`,
                          element copy, `buffer_ = new_buffer.buffer_` (either::operator=: placement-new of a vector
                          over the static one, then vector assignment); `new_buffer` goes out of scope without its
                          vector being destroyed; dynamic: vector resize                                (l.69-88)
    push_back(t)          size == DIM: `resize(size+1); at(size) = t`; else push_back of the active part (l.100-112)
    push_back(x[i])       as above with `t` a reference into the active part: at size == DIM it dangles after the
                          resize (see `pushAt`)
    copy ctor (implicit)  either(const either&): `tag = other.tag`, then member *assignment* into the new, never
                          constructed union (static: resize+element copy; dynamic: vector::operator= on raw storage)
    operator= (implicit)  either::operator=: tags differ → placement-new of the other alternative over the current one
                          (a heap vector is dropped without destruction), then member assignment
    destructor            `~either() {}`: a heap vector is never destroyed
  The vector / static_vector parts are the repaired ones (value-initialising resize, unconditional free): heap
  cells created by `small_vector(N)` / `resize` are zero.
  Raw storage is modelled as the harness provides it (zero-filled object storage): a raw vector is
  `{buffer_ = null, size_ = 0, buffer_size_ = 0}`, raw static cells are zero.  Each use of raw storage as a vector is
  logged as `uninitAssign`.  Core Lean only.
-/
namespace NmVerif.Containers

structure Small (α : Type) where
  tagS : Bool
  st : SVec α
  dy : Vec α
  /-- a `vector` constructor ran on the union storage (placement-new) -/
  dyLive : Bool
  deriving Repr

namespace Small
variable {α : Type}

def rawVec : Vec α := { blk := none, cells := [], size := 0, cap := 0 }
def freshSt (c : Nat) (zero : α) : SVec α := { cells := List.replicate c (some zero), size := 0 }

def loseBlk (L : Ledger) : Option Nat → Ledger
  | some p => L.lose p
  | none => L

def mkDefault (c : Nat) (zero : α) (L : Ledger) : Small α × Ledger :=
  ({ tagS := true, st := freshSt c zero, dy := rawVec, dyLive := false }, L)

/-- `small_vector(N)` -/
def mkSized (c : Nat) (zero : α) (n : Nat) (L : Ledger) : Small α × Ledger :=
  if n < c then
    let r := SVec.assign c zero (freshSt c zero) (freshSt c zero) L
    let r := SVec.resize c zero r.1 n r.2
    ({ tagS := true, st := r.1, dy := rawVec, dyLive := false }, r.2)
  else
    let tmp := Vec.mkDefault (α := α) L
    let r := Vec.assign zero rawVec tmp.1 (tmp.2.flag .uninitAssign)
    let L3 := Vec.destroy tmp.1 r.2
    let r := r.1.resize zero n L3
    ({ tagS := false, st := freshSt c zero, dy := r.1, dyLive := false }, r.2)

def size (x : Small α) : Nat := if x.tagS then x.st.size else x.dy.size
def view (x : Small α) : List (Cell α) := if x.tagS then x.st.view else x.dy.view

def write (x : Small α) (i : Nat) (a : α) (L : Ledger) : Small α × Ledger :=
  if x.tagS then let r := x.st.write i a L; ({ x with st := r.1 }, r.2)
  else let r := x.dy.write i a L; ({ x with dy := r.1 }, r.2)

def read (x : Small α) (i : Nat) (L : Ledger) : Cell α × Ledger :=
  if x.tagS then x.st.read i L else x.dy.read i L

def resize (c : Nat) (zero : α) (x : Small α) (n : Nat) (L : Ledger) : Small α × Ledger :=
  if x.tagS then
    if n ≤ c then let r := SVec.resize c zero x.st n L; ({ x with st := r.1 }, r.2)
    else
      let prev := x.st.size
      let nb := mkSized c zero n L
      -- for i < prev_size: new_buffer.at(i) = static_ptr->at(i)
      let nbdy : Vec α := { nb.1.dy with cells := x.st.cells.take prev ++ nb.1.dy.cells.drop prev }
      let L2 := nb.2.flagIf (decide (x.st.cells.length < prev ∨ nb.1.dy.cells.length < prev)) .oob
      -- buffer_ = new_buffer.buffer_ : placement-new vector over the static one, then vector assignment
      let v0 := Vec.mkDefault (α := α) L2
      let r := Vec.assign zero v0.1 nbdy v0.2
      -- new_buffer leaves scope: ~either() {} — its block is dropped
      ({ tagS := false, st := x.st, dy := r.1, dyLive := true }, loseBlk r.2 nbdy.blk)
  else let r := x.dy.resize zero n L; ({ x with dy := r.1 }, r.2)

def push (c : Nat) (zero : α) (x : Small α) (a : α) (L : Ledger) : Small α × Ledger :=
  let old := x.size
  if old = c then
    let r := resize c zero x (old + 1) L
    r.1.write old a r.2
  else if x.tagS then let r := SVec.push c zero x.st a L; ({ x with st := r.1 }, r.2)
  else let r := x.dy.push zero a L; ({ x with dy := r.1 }, r.2)

/-- `at(i) = c` for an already fetched cell -/
def storeCell (x : Small α) (i : Nat) (v : Cell α) (L : Ledger) : Small α × Ledger :=
  if x.tagS then let r := x.st.store i v L; ({ x with st := r.1 }, r.2)
  else let r := x.dy.store i v L; ({ x with dy := r.1 }, r.2)

/-- `x.push_back(x[i])`: the argument is a reference into the active part (l.100-112).
    size ≠ DIM: push_back of the active part (static: no reallocation; heap: `utl::vector::push_back` copies its
    argument first).  size == DIM: `resize(DIM+1)` runs BEFORE the reference is read — in static mode a vector is
    placement-new'ed over the union bytes that hold the static buffer, in heap mode the block is reallocated and
    freed when its capacity is exhausted — so `at(DIM) = t` reads through a dangling reference (`uaf`; the value
    stored is indeterminate).  A heap vector with spare capacity is not reallocated: the reference stays valid. -/
def pushAt (c : Nat) (zero : α) (x : Small α) (i : Nat) (L : Ledger) : Small α × Ledger :=
  let old := x.size
  if old = c then
    let dangling := x.tagS || decide (x.dy.cap < old + 1)
    let src : Cell α := match (if x.tagS then x.st.cells else x.dy.cells)[i]? with
      | some v => v
      | none => none
    let r := resize c zero x (old + 1) L
    if dangling then storeCell r.1 old none (r.2.flag .uaf) else storeCell r.1 old src r.2
  else if x.tagS then let r := SVec.pushAt c zero x.st i L; ({ x with st := r.1 }, r.2)
  else let r := x.dy.pushAt zero i L; ({ x with dy := r.1 }, r.2)

def storeAll (x : Small α) : Nat → List α → Ledger → Small α × Ledger
  | _, [], L => (x, L)
  | i, a :: as, L => let r := x.write i a L; storeAll r.1 (i + 1) as r.2

def mkVariadic (c : Nat) (zero : α) (vs : List α) (L : Ledger) : Small α × Ledger :=
  let r := mkDefault c zero L
  let r := resize c zero r.1 vs.length r.2
  storeAll r.1 0 vs r.2

/-- implicit copy constructor -/
def mkCopy (c : Nat) (zero : α) (o : Small α) (L : Ledger) : Small α × Ledger :=
  if o.tagS then
    let r := SVec.assign c zero (freshSt c zero) o.st L
    ({ tagS := true, st := r.1, dy := rawVec, dyLive := false }, r.2)
  else
    let r := Vec.assign zero rawVec o.dy (L.flag .uninitAssign)
    ({ tagS := false, st := freshSt c zero, dy := r.1, dyLive := false }, r.2)

/-- implicit copy assignment, `o` a different object -/
def assign (c : Nat) (zero : α) (x o : Small α) (L : Ledger) : Small α × Ledger :=
  if x.tagS != o.tagS then
    if o.tagS then
      -- new(&left) static_vector{} over the heap vector: its block is dropped
      let r := SVec.assign c zero (freshSt c zero) o.st (loseBlk L x.dy.blk)
      ({ tagS := true, st := r.1, dy := rawVec, dyLive := false }, r.2)
    else
      let v0 := Vec.mkDefault (α := α) L
      let r := Vec.assign zero v0.1 o.dy v0.2
      ({ tagS := false, st := x.st, dy := r.1, dyLive := true }, r.2)
  else if x.tagS then let r := SVec.assign c zero x.st o.st L; ({ x with st := r.1 }, r.2)
  else let r := Vec.assign zero x.dy o.dy L; ({ x with dy := r.1 }, r.2)

def assignSelf (c : Nat) (zero : α) (x : Small α) (L : Ledger) : Small α × Ledger :=
  if x.tagS then let r := SVec.assignSelf c zero x.st L; ({ x with st := r.1 }, r.2)
  else let r := Vec.assignSelf zero x.dy L; ({ x with dy := r.1 }, r.2)

/-- `~either() {}` -/
def destroy (x : Small α) (L : Ledger) : Ledger := if x.tagS then L else loseBlk L x.dy.blk

end Small

def smallImpl (c : Nat) (zero : α) : Impl (Small α) α where
  mkDefault := Small.mkDefault c zero
  mkSized := Small.mkSized c zero
  mkVariadic := Small.mkVariadic c zero
  mkCopy := Small.mkCopy c zero
  assign := Small.assign c zero
  assignSelf := Small.assignSelf c zero
  push := Small.push c zero
  pushAt := Small.pushAt c zero
  resize := Small.resize c zero
  write := Small.write
  read := Small.read
  destroy := Small.destroy
  size := Small.size
  view := Small.view

end NmVerif.Containers
