import NmVerif.NN.Pool
import NmVerif.Index.Reduce
/-
  NN/PoolReduce — the *result* of max_pool2d / avg_pool2d: mirror of `view::pool2d_t::operator()` together with the
  two reducers of view/pooling.hpp, composed from the C08 model of `reduce` / `mean` (Index/Reduce.lean):

    pool2d_t::operator()(idx)   slices = index::slice_pool2d(idx, src_shape, kernel, stride, ceil)
                                sliced = view::apply_slice(array, slices);  return op(sliced)
    max_reducer_t               reduce_maximum(sliced, /*axis*/None, /*dtype*/None, /*initial*/None, /*keepdims*/False)
                                (fixes/C17-max-pool-initial: no initial value, the fold starts from the first element)
    avg_reducer_t               mean(sliced, None, None, False) = divide(reduce_add(sliced, None, float32, None, False),
                                index::product(shape(sliced)))  — the divisor is the element count of the *clipped* slice

  Element type and element operations are parameters (`maximum` needs `<`, `mean` an abstract `add` and `divn`).
  Core Lean only (linked into the driver).
-/
namespace NmVerif.NN
open NmVerif.Reduce

variable {α : Type}

/-- `view::apply_slice(array, slices)` for the `(start, stop, 1)` triples of `slice_pool2d`: per axis the extent is the
    length of `sliceRange` (`|min(stop, n) − start|`), element `d ↦ array[start + d]` -/
def slicedArr (x : Arr α) (sls : List (Nat × Nat × Nat)) : Arr α :=
  ⟨(List.zipWith sliceRange x.shape sls).map List.length,
   fun d => x.get (List.zipWith (fun (sl : Nat × Nat × Nat) k => sl.1 + k) sls d)⟩

/-- `pool2d_t::operator()(idx)` with `max_reducer_t`: `none` = undefined behaviour (rank < 2, or `at(array, 0)` of an
    empty slice) -/
def maxPoolElem [LT α] [DecidableRel (α := α) (· < ·)] (x : Arr α) (kernel stride : List Nat) (idx : Idx) : Option α :=
  (slicePool2d idx x.shape kernel stride).bind fun sls =>
    reduceElem maximum none (slicedArr x sls) none false []

/-- `pool2d_t::operator()(idx)` with `avg_reducer_t`; `add`, `divn` act on the promoted (float) element type -/
def avgPoolElem (add : α → α → α) (divn : α → Nat → α) (x : Arr α) (kernel stride : List Nat) (idx : Idx) : Option α :=
  (slicePool2d idx x.shape kernel stride).bind fun sls =>
    (mean add divn (slicedArr x sls) none false).bind fun v => v.get []

/-- `view::max_pool2d(array, kernel, stride, ceil_mode)`: shape by `index::shape_pool2d` -/
def maxPool2d [LT α] [DecidableRel (α := α) (· < ·)] (x : Arr α) (kernel stride : List Nat) (ceil : Bool) :
    Option (Arr (Option α)) :=
  (shapePool2d x.shape kernel stride ceil).map fun s => ⟨s, maxPoolElem x kernel stride⟩

/-- `view::avg_pool2d(array, kernel, stride, ceil_mode)` -/
def avgPool2d (add : α → α → α) (divn : α → Nat → α) (x : Arr α) (kernel stride : List Nat) (ceil : Bool) :
    Option (Arr (Option α)) :=
  (shapePool2d x.shape kernel stride ceil).map fun s => ⟨s, avgPoolElem add divn x kernel stride⟩

/-! ### reference side -/

/-- number of input rows (columns) PyTorch's `avg_pool2d` kernel counts for output position `i` with padding `p`
    when `count_include_pad = true`: `pool_size` factor `min(i·s − p + k, n + p) − (i·s − p)` (ATen AvgPoolKernel) -/
def torchCountIncl (n k s p i : Nat) : Int :=
  min ((s * i : Nat) - (p : Int) + k) ((n : Int) + p) - ((s * i : Nat) - (p : Int))

/-- … and when `count_include_pad = false`: the part of the window inside the input,
    `min(i·s − p + k, n + p, n) − max(i·s − p, 0)` -/
def torchCountExcl (n k s p i : Nat) : Int :=
  min (min ((s * i : Nat) - (p : Int) + k) ((n : Int) + p)) n - max ((s * i : Nat) - (p : Int)) 0

end NmVerif.NN
