import NmVerif.Index.SelCommon
/-
  NmVerif.Index.Roll — MODEL of include/nmtools/array/index/roll.hpp (+ view/roll.hpp).

  Stable names:
    (`Index.normalizeAxis1` lives in Index/SelCommon.lean)
    `Index.shapeRoll shape axes : Option Shape`     index::shape_roll   (Nothing iff some axis is outside [-dim, dim))
    `Index.normalizeRollIndex i n : Int`            the lambda `normalize_roll_index` (roll.hpp:118-131): C++ `%` then `+ n` if negative
    `Index.indexRollU shape d shifts axes : Option Idx` index::roll with an axis list (a single axis is the one-element list)
    `Index.rollView src shift axis : Option IxView`        view::roll(a, shift, axis)    single int axis
    `Index.rollAxesView src shifts axes : Option IxView`   view::roll(a, shifts, axes)   axis list; `shifts` already
                                                            broadcast to `len axes` (normalize_roll_length)
    `Index.rollNoneView src shift : Option IxView`         view::roll(a, shift) = reshape(roll(flatten a, shift, 0), shape)

  Facts mirrored:
    * `index = int(d[axis]) - shift`; `index %= n` (truncating), `index < 0 ⇒ index + n` — a true modulo for `n > 0`
      (the single-wrap defect DESIGN F5 was repaired in /repo by "fix: roll wraps shifts larger than the extent");
      the value is then stored into a `size_t` index.
    * `shape[axis]`, `result[axis]` are addressed through `nmtools::at` (Python-style wrap), so negative axes work;
      every axis of the list reads the PARTIAL RESULT (repaired: "roll.repeated-axis"), so the shifts of an axis that
      is listed more than once add up, as in NumPy.
    * axis None: flatten (= reshape to `[size]`), roll along axis 0, reshape back.
  Core Lean only.
-/
namespace NmVerif.Index

/-- `index::shape_roll`: the source shape, or Nothing when an axis is out of range -/
def shapeRoll (shape : Shape) (axes : List Int) : Option Shape :=
  if axes.all (fun a => (normalizeAxis1 a shape.length).isSome) then some shape else none

/-- the lambda `normalize_roll_index(index, n)`: `index = index % n` (C++ `%` truncates towards zero: `Int.tmod`),
    then `+ n` when the remainder is negative -/
def normalizeRollIndex (index : Int) (n : Nat) : Int :=
  let r := Int.tmod index (n : Int)
  if r < 0 then r + (n : Int) else r

/-- the loop over `(axis_i, shift_i)`; `res` starts as a copy of `d`; every step stores the (signed) wrapped index
    into the unsigned result; `none` = an `at` outside its container (UB) -/
def indexRollLoop (shape : Shape) (d : Idx) : List Int → List Int → Idx → Option Idx
  | [], _, res => some res
  | ax :: axes, sh :: shifts, res =>
      match atPy shape ax, atPy res ax with
      | some n, some i => indexRollLoop shape d axes shifts (setPy res ax (i2u (normalizeRollIndex ((i : Int) - sh) n)))
      | _, _ => none
  | _ :: _, [], _ => none

/-- `index::roll(shape, d, shifts, axes)` -/
def indexRollU (shape : Shape) (d : Idx) (shifts axes : List Int) : Option Idx :=
  indexRollLoop shape d axes shifts d

/-- `view::roll(a, shifts, axes)` with an axis list (`shifts.length = axes.length` after `normalize_roll_length`).
    An `at` outside its container cannot happen once `shape_roll` accepted the axes and `len d = dim`;
    for the record such a point is answered with the (out-of-shape) index `[2^64-1]`. -/
def rollAxesView (src : Shape) (shifts axes : List Int) : Option IxView :=
  (shapeRoll src axes).map (fun dst =>
    ⟨src, dst, fun d => some ((indexRollU src d shifts axes).getD [u64 (-1)])⟩)

/-- `view::roll(a, shift, axis)` single axis -/
def rollView (src : Shape) (shift axis : Int) : Option IxView := rollAxesView src [shift] [axis]

/-- `view::roll(a, shift)` (axis None): flatten → roll axis 0 → reshape -/
def rollNoneView (src : Shape) (shift : Int) : Option IxView :=
  let n := prod src
  (rollView [n] shift 0).map (fun r =>
    (reshapeViewRaw [n] src).comp (r.comp (reshapeViewRaw src [n])))

end NmVerif.Index
