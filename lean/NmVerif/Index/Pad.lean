import NmVerif.Index.SelCommon
/-
  NmVerif.Index.Pad — MODEL of include/nmtools/array/index/pad.hpp (+ view/pad.hpp).

  Stable names:
    `Index.shapePad shape widths : Option Shape`   index::shape_pad   (Nothing unless `2·dim = len widths`)
    `Index.indexPad d shape widths : Option Idx`   index::pad         (`none` = outside the source box ⇒ fill value)
    `Index.padView src widths : Option IxView`     view::pad(a, widths, value)

  `widths` is FLAT: `[before₀, …, before_{dim-1}, after₀, …, after_{dim-1}]` (pad.hpp:47 `shape[i] + w[i] + w[dim+i]`).
  `index::pad` loops `for i < len(d)` with early exit on the first axis that lies in the padding; only the
  `before` half of `widths` is read.  Widths are taken non-negative (the property's scope: 0..2 per side).
  Core Lean only.
-/
namespace NmVerif.Index

/-- `res[i] = shape[i] + w[i] + w[dim+i]` -/
def shapePad (shape : Shape) (widths : List Nat) : Option Shape :=
  if 2 * shape.length = widths.length then
    some (List.zipWith (· + ·) (List.zipWith (· + ·) shape (widths.take shape.length)) (widths.drop shape.length))
  else none

/-- loop with early exit: `l_bound = d[i] - p[i] < 0`, `r_bound = d[i] ≥ s[i] + p[i]` -/
def indexPadLoop : Idx → Shape → List Nat → Option Idx
  | [], _, _ => some []
  | i :: d, s :: shape, p :: ws =>
      if i < p ∨ s + p ≤ i then none
      else (indexPadLoop d shape ws).map (fun r => (i - p) :: r)
  | _ :: _, _, _ => none   -- `at` outside shape / widths: UB in the C++, never reached (len d = dim ≤ len widths)

def indexPad (d : Idx) (shape : Shape) (widths : List Nat) : Option Idx := indexPadLoop d shape widths

/-- `view::pad(a, widths, value)`; `map d = none` ⇒ the view answers `value` -/
def padView (src : Shape) (widths : List Nat) : Option IxView :=
  (shapePad src widths).map (fun dst => ⟨src, dst, fun d => indexPad d src widths⟩)

end NmVerif.Index
