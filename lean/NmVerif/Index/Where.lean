import NmVerif.Index.Broadcast
/-
  NmVerif.Index.Where — MODEL of include/nmtools/array/view/where.hpp:
    `view::where(condition, x, y)`: `broadcast_arrays(condition, x, y)` (Nothing when the three shapes do not
    broadcast; C06's model `broadcastArraysViews`: `broadcast_shape` fold, then `broadcast_to` per operand), then
    `where_t` over the three broadcast views: `shape()` = shape of the broadcast condition,
    `operator()(d)`: `c = cond'(d); c ? x'(d) : y'(d)` (only the selected operand is read).

  Stable names:
    `Index.WhereView` (`c`, `x`, `y` : the broadcast operand views), `WhereView.dst`
    `Index.whereView c x y : Option WhereView`
    `WhereView.select w cond d : Option (Bool × Idx)`   which operand (`false` = x, `true` = y) and the source index
                                                        that is read for destination index `d`; `cond` = content of
                                                        the condition array by source index
  Core Lean only.
-/
namespace NmVerif.Index

structure WhereView where
  c : IxView
  x : IxView
  y : IxView

/-- `where_t::shape()`: the shape of the (broadcast) condition operand -/
def WhereView.dst (w : WhereView) : Shape := w.c.dst

def whereView (c x y : Shape) : Option WhereView :=
  match broadcastArraysViews [c, x, y] with
  | some [vc, vx, vy] => some ⟨vc, vx, vy⟩
  | _ => none

def WhereView.select (w : WhereView) (cond : Idx → Int) (d : Idx) : Option (Bool × Idx) :=
  (w.c.map d).bind (fun ic =>
    if cond ic ≠ 0 then (w.x.map d).map (fun i => (false, i)) else (w.y.map d).map (fun i => (true, i)))

end NmVerif.Index
