// C02 harness, second source: mutable views (every element WRITTEN through the view), two-operand trees of views,
// kernel-style assignment.  Built with sanitizers + hooks like h_c02.cpp.
//
//   mut kind=reshape store=<S> shape=<dims> to=<ints>        view::mutable_reshape(a, to)
//   mut kind=flatten store=<S> shape=<dims>                  view::mutable_flatten(a)
//   mut kind=slice   store=<S> shape=<dims> slices=<s0,e0,t0,s1,e1,t1,...>   view::apply_mutable_slice(a, {{s,e,t},...})
//   mut kind=ref     store=<S> shape=<dims>                  view::mutable_ref(a)
//        S = dyn | sv | hyb (rank 2) | fix (shape 2,3).  The array is filled with data[k]=k, then element number j (C order
//        of the VIEW's shape) is assigned 1000+j through the view.
//        answer `ok shape=<view shape> data=<the array's elements afterwards, C order>`
//   tree f=add|concat shape=<dims> shape2=<dims> opa=<stage> opb=<stage> [axis=<int>] [mode=view|out]
//        f(stage_a(A), stage_b(B)) over dynamic arrays, A data[k]=k, B data[k]=1000+k; stage syntax as in h_c02.cpp
//        (transpose / reshape / bcast / slice), `id` = the array itself
//   assign shape=<dims> threads=<n> bsz=<b>
//        na::assign_result(out, flip(a), tid, bid, bsz) for n threads (n may exceed the element count): the output is a
//        raw buffer of exactly size(a) ints seen through view::mutable_ref(ptr, n) reshaped by create-free mutable_reshape.
//        answer `ok data=<output buffer>`
#include "nmtools/array/ndarray.hpp"
#include "nmtools/array/ndarray/hybrid.hpp"
#include "nmtools/array/ndarray/fixed.hpp"
#include "nmtools/array/index/ndindex.hpp"
#include "nmtools/utility/at.hpp"
#include "nmtools/array/eval.hpp"
#include "nmtools/array/eval/kernel_helper.hpp"
#include "nmtools/array/view/transpose.hpp"
#include "nmtools/array/view/reshape.hpp"
#include "nmtools/array/view/flip.hpp"
#include "nmtools/array/view/broadcast_to.hpp"
#include "nmtools/array/view/slice.hpp"
#include "nmtools/array/view/concatenate.hpp"
#include "nmtools/array/view/ufuncs/add.hpp"
#include "nmtools/array/view/mutable_reshape.hpp"
#include "nmtools/array/view/mutable_flatten.hpp"
#include "nmtools/array/view/mutable_slice.hpp"
#include "nmtools/array/view/mutable_ref.hpp"
#include "proto.hpp"
#include <array>
#include <memory>

namespace nm = nmtools; namespace ix = nmtools::index; namespace na = nmtools::array; namespace view = nmtools::view;
using namespace proto;

namespace c02 {
using dyn_t = na::ndarray_t<std::vector<int>, std::vector<size_t>>;
using sv_t  = na::ndarray_t<nmtools_static_vector<int, 64>, nmtools_static_vector<size_t, 4>>;
using hyb_t = na::hybrid_ndarray<int, 64, 2>;
using fix_t = na::fixed_ndarray<int, 2, 3>;

template <typename S> inline uvec to_uvec(const S& shp) {
    uvec s; for (size_t i = 0; i < (size_t)nm::len(shp); i++) s.push_back((size_t)nm::at(shp, i)); return s;
}
template <typename A> inline void fill_iota(A& a, int base = 0) {
    auto shp = nm::shape(a);            // ndindex keeps a reference to the shape: it must outlive `nd`
    auto nd = ix::ndindex(shp); size_t n = nd.size();
    for (size_t k = 0; k < n; k++) nm::apply_at(a, nd[k]) = (int)k + base;
}
template <typename A> inline ivec read_flat(const A& a) {
    ivec d; auto shp = nm::shape(a); auto nd = ix::ndindex(shp); size_t n = nd.size();
    for (size_t k = 0; k < n; k++) d.push_back((long long)nm::apply_at(a, nd[k]));
    return d;
}
inline bool make(dyn_t& a, const uvec& s) { return a.resize(s); }
inline bool make(sv_t& a, const uvec& s) {
    size_t n = 1; for (auto e : s) n *= e;
    if (s.size() > 4 || n > 64) return false;
    nmtools_static_vector<size_t, 4> sh; sh.resize(s.size());
    for (size_t i = 0; i < s.size(); i++) nm::at(sh, i) = s[i];
    return a.resize(sh);
}
inline bool make(hyb_t& a, const uvec& s) {
    size_t n = 1; for (auto e : s) n *= e;
    if (s.size() != 2 || n > 64) return false;
    std::array<size_t, 2> sh{s[0], s[1]};
    return a.resize(sh);
}
inline bool make(fix_t& a, const uvec& s) { return to_uvec(nm::shape(a)) == s; }

template <typename V, typename K> inline std::string cont(V&& v, K&& k) {
    if constexpr (nm::meta::is_maybe_v<nm::meta::remove_cvref_t<V>>) { if (!nm::has_value(v)) return "nothing"; return k(*v); }
    else return k(v);
}

// write 1000+j into element j of the mutable view, then report the underlying array
template <typename A, typename MV> inline std::string write_all(A& arr, MV& mv) {
    auto shp = nm::shape(mv);
    uvec s = to_uvec(shp);
    auto nd = ix::ndindex(shp); size_t n = nd.size();
    for (size_t j = 0; j < n; j++) nm::apply_at(mv, nd[j]) = 1000 + (int)j;
    return "ok shape=" + fmt(s) + " data=" + fmt(read_flat(arr));
}

template <typename A> inline std::string run_mut(const Args& a) {
    A arr{};
    if (!make(arr, nats(a, "shape"))) return "bad-args";
    fill_iota(arr);
    std::string kind = get(a, "kind");
    if (kind == "reshape") { auto to = intsi(a, "to"); auto mv = view::mutable_reshape(arr, to); return cont(mv, [&](auto& m) { return write_all(arr, m); }); }
    if (kind == "flatten") { auto mv = view::mutable_flatten(arr); return cont(mv, [&](auto& m) { return write_all(arr, m); }); }
    if (kind == "slice") {
        auto f = ints(a, "slices"); if (f.size() % 3) throw bad_args("slices");
        std::vector<std::array<int, 3>> sl;
        for (size_t i = 0; i < f.size(); i += 3) sl.push_back({(int)f[i], (int)f[i + 1], (int)f[i + 2]});
        auto mv = view::apply_mutable_slice(arr, sl);
        return cont(mv, [&](auto& m) { return write_all(arr, m); });
    }
    if (kind == "ref") { auto mv = view::mutable_ref(arr); return write_all(arr, mv); }
    return "bad-args";
}

// ---- trees ----------------------------------------------------------------------------------------
struct Stage { std::string kind; std::vector<ivec> args; };
inline Stage parse_stage(const std::string& st) {
    auto parts = split(st, ':'); Stage g; g.kind = parts[0];
    for (size_t i = 1; i < parts.size(); i++) g.args.push_back(parse_ints(parts[i]));
    return g;
}
template <typename T> inline std::vector<T> lst(const ivec& v) { std::vector<T> r; for (auto x : v) r.push_back((T)x); return r; }
inline const ivec& arg(const Stage& st, size_t i) { if (i >= st.args.size()) throw bad_args("stage"); return st.args[i]; }

template <typename A, typename K> inline std::string leaf(const A& a, const Stage& st, K&& k) {
    const std::string& kd = st.kind;
    if (kd == "id") return k(a);
    if (kd == "transpose") return cont(view::transpose(a, lst<int>(arg(st, 0))), k);
    if (kd == "reshape") return cont(view::reshape(a, lst<int>(arg(st, 0))), k);
    if (kd == "bcast") return cont(view::broadcast_to(a, lst<size_t>(arg(st, 0))), k);
    if (kd == "slice") {
        const auto& f = arg(st, 0); if (f.size() % 3) throw bad_args("slice");
        std::vector<std::array<int, 3>> sl;
        for (size_t i = 0; i < f.size(); i += 3) sl.push_back({(int)f[i], (int)f[i + 1], (int)f[i + 2]});
        return cont(view::apply_slice(a, sl), k);
    }
    return "unsupported";
}

template <typename V> inline std::string dump(const V& v, const std::string& mode) {
    uvec s = to_uvec(nm::shape(v));
    if ((size_t)nm::dim(v) != s.size()) return "dim-mismatch";
    size_t n = 1; for (auto e : s) n *= e;
    if ((size_t)nm::size(v) != n) return "size-mismatch";
    ivec data = read_flat(v);
    if (mode == "out") {
        dyn_t out; out.resize(s);
        for (size_t i = 0; i < n; i++) out.data()[i] = -777;
        na::eval(v, nm::None, out);
        ivec d2; for (size_t i = 0; i < n; i++) d2.push_back(out.data()[i]);
        if (d2 != data) return "out-differs data=" + fmt(d2);
    }
    return "ok shape=" + fmt(s) + " data=" + fmt(data);
}

inline std::string run_tree(const Args& a) {
    dyn_t A, B;
    if (!A.resize(nats(a, "shape")) || !B.resize(nats(a, "shape2"))) return "bad-args";
    fill_iota(A); fill_iota(B, 1000);
    std::string f = get(a, "f"); std::string mode = has(a, "mode") ? get(a, "mode") : "view";
    auto sa = parse_stage(get(a, "opa")); auto sb = parse_stage(get(a, "opb"));
    return leaf(A, sa, [&](const auto& va) -> std::string {
        return leaf(B, sb, [&](const auto& vb) -> std::string {
            if (f == "add") return cont(view::add(va, vb), [&](const auto& r) { return dump(r, mode); });
            if (f == "concat") return cont(view::concatenate(va, vb, (int)integer(a, "axis")), [&](const auto& r) { return dump(r, mode); });
            return "bad-args";
        });
    });
}

inline std::string run_assign(const Args& a) {
    dyn_t A; if (!A.resize(nats(a, "shape"))) return "bad-args";
    fill_iota(A);
    size_t n = nm::size(A);
    size_t threads = (size_t)integer(a, "threads"), bsz = (size_t)integer(a, "bsz");
    if (bsz == 0) return "bad-args";
    std::unique_ptr<int[]> buf(new int[n]);         // exactly n ints: ASan red zones on both sides
    for (size_t i = 0; i < n; i++) buf[i] = -777;
    auto out = view::mutable_ref(buf.get(), n);
    auto src = view::flip(A, nm::None);
    for (size_t t = 0; t < threads; t++) {
        auto tid = na::kernel_size<size_t>{t % bsz, 0, 0};
        auto bid = na::kernel_size<size_t>{t / bsz, 0, 0};
        auto bs  = na::kernel_size<size_t>{bsz, 1, 1};
        na::assign_result(out, src, tid, bid, bs);
    }
    ivec d; for (size_t i = 0; i < n; i++) d.push_back(buf[i]);
    return "ok data=" + fmt(d);
}
} // namespace c02

std::string handle(const std::string& op, const Args& a) {
    using namespace c02;
    if (op == "mut") {
        std::string st = get(a, "store");
        if (st == "dyn") return run_mut<dyn_t>(a);
        if (st == "sv") return run_mut<sv_t>(a);
        if (st == "hyb") return run_mut<hyb_t>(a);
        if (st == "fix") return run_mut<fix_t>(a);
        return "bad-args";
    }
    if (op == "tree") return run_tree(a);
    if (op == "assign") return run_assign(a);
    return "unknown-op";
}
