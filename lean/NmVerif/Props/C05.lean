import NmVerif.Lemmas.SliceDyn
/-
  C05 — Slicing follows Python/NumPy basic-indexing semantics.

  MODEL  NmVerif.Slice (Index/Slice.lean): compute_range / compute_step / compute_index, the binary32 length, the packed
         (shape_slice / slice) and dynamic (shape_dynamic_slice / dynamic_slice) loops, view::slice.
  SPEC   Python `slice.indices` (pyIndices/pyLen, transcribed from PySlice_AdjustIndices) per axis; NumPy basic indexing
         (specSlice: integers drop their axis, one ellipsis = the missing full slices, element j ↦ start' + j*step).
  Dom    `domRange` per range entry (Lemmas/Slice.lean), `domEntries` for a whole index (Lemmas/SliceND.lean):
         the region where the unchanged implementation agrees with Python; outside it see the `_counterexample`s.
-/
namespace NmVerif.Props.C05
open NmVerif NmVerif.Slice

/-! ## the length computation `ceil(float(range)/step)` -/

/-- below 2^24 the binary32 computation of the length is the exact ceiling division (F12 is confined to larger ranges) -/
theorem length_exact_below_2p24 (s k : Int) (hs : 0 ≤ s) (hs2 : s < 16777216) (hk : 0 < k) (hk2 : k < 16777216) :
    lengthOf s k = some (if s = 0 then 0 else (s - 1) / k + 1) :=
  lengthOf_exact s k hs hs2 hk hk2

example : lengthOf 7 3 = some 3 := by decide

/-! ## SPEC sanity (all inputs): Python's own rule never leaves the axis -/

/-- for every extent, every start/stop/step (step ≠ 0): the `j`-th selected element `start' + j*step`, `j < len`, lies in `[0, n)` -/
theorem python_range_inBounds (n : Nat) (a b c : Option Int) (l : Nat) (f k : Int)
    (h : pyAxis n a b c = some (l, f, k)) (j : Nat) (hj : j < l) : 0 ≤ f + j * k ∧ f + j * k < n := by
  have hk : stepVal c ≠ 0 := by
    intro h0
    rcases c with _ | c
    · simp [stepVal] at h0
    · simp only [stepVal] at h0; subst h0; simp [pyAxis, pyIndices] at h
  rw [pyAxis_eq n a b c hk] at h
  simp only [Option.some.injEq, Prod.mk.injEq] at h
  obtain ⟨rfl, rfl, rfl⟩ := h
  exact pyAxis_inBounds n a b c hk j hj

example : pyAxis 5 (some (-2)) none (some (-2)) = some (2, 3, -2) := by decide

/-! ## one range entry -/

/-- on `domRange` the implementation's extent and every element equal Python's `slice.indices` rule, for every extent
    `n < 2^24`; elements stay inside the axis -/
theorem range_eq_python_on_Dom (n : Nat) (a b c : Option Int) (h : domRange n a b c = true) :
    ∃ l f k, pyAxis n a b c = some (l, f, k) ∧ sliceLen n a b c = some (l : Int) ∧
      ∀ j : Nat, j < l → computeIndex n a b c j = f + j * k ∧ 0 ≤ f + j * k ∧ f + j * k < n :=
  range_entry_dom n a b c h

-- non-vacuity: a[-3:-1:2] on n=5, a[::-2] on n=5, a[3:0:-1] on n=4, a[2:] with 2-part tuple, a[7:7]
example : domRange 5 (some (-3)) (some (-1)) (some 2) = true := by decide
example : domRange 5 none none (some (-2)) = true := by decide
example : domRange 4 (some 3) (some 0) (some (-1)) = true := by decide
example : domRange 6 (some 2) none none = true := by decide
example : domRange 9 (some 7) (some 7) (some 3) = true := by decide

/-! ## a whole index: any rank, integers and one ellipsis in any position -/

/-- packed encoding (`shape_slice` / `slice`): on Dom the shape is the reference shape (integers drop their axis, the
    ellipsis expands to the missing full slices) and every destination index maps to the reference source index, which
    lies inside the source shape -/
theorem slice_eq_python_on_Dom (shape : List Nat) (es : List Entry) (h : domEntries shape es = true) :
    ∃ sels, specSlice shape es = some sels ∧ shapeSlice shape es = some (specShape sels) ∧
      ∀ d, InShape d (specShape sels) →
        ∃ i, specIdx sels d = some i ∧ sliceIdx shape es d = some i ∧ InShape i shape :=
  slice_dom shape es h

-- non-vacuity: a[1, ..., ::-1] on (2,3,4);  a[-1, 0:2] on (3,4);  a[..., 1:3, -2] on (2,5,4,3)
example : domEntries [2, 3, 4] [.int 1, .ellipsis, .range none none (some (-1))] = true := by decide
example : domEntries [3, 4] [.int (-1), .range2 (some 0) (some 2)] = true := by decide
example : domEntries [2, 5, 4, 3] [.ellipsis, .range (some 1) (some 3) none, .int (-2)] = true := by decide
example : shapeSlice [2, 3, 4] [.int 1, .ellipsis, .range none none (some (-1))] = some [3, 4] := by decide
example : sliceIdx [2, 3, 4] [.int 1, .ellipsis, .range none none (some (-1))] [2, 0] = some [1, 2, 3] := by decide

/-- the two encodings agree: wherever the compile-time (packed) shape function has a value, the run-time (list of
    either) one returns the same -/
theorem packed_eq_dynamic_shape (shape : List Nat) (es : List Entry) (r : List Nat)
    (h : shapeSlice shape es = some r) : shapeDynamicSlice shape es = some r :=
  shape_packed_eq_dynamic shape es r h

/-- … and so does the index function, for every destination index -/
theorem packed_eq_dynamic_index (shape : List Nat) (es : List Entry) (d r : List Nat)
    (h : sliceIdx shape es d = some r) : dynamicSlice shape es d = some r :=
  idx_packed_eq_dynamic shape es d r h

example : shapeDynamicSlice [2, 3, 4] [.int 1, .ellipsis, .range none none (some (-1))] = some [3, 4] := by decide

/-- dynamic encoding on Dom: same statement as `slice_eq_python_on_Dom` -/
theorem dynamic_slice_eq_python_on_Dom (shape : List Nat) (es : List Entry) (h : domEntries shape es = true) :
    ∃ sels, specSlice shape es = some sels ∧ shapeDynamicSlice shape es = some (specShape sels) ∧
      ∀ d, InShape d (specShape sels) →
        ∃ i, specIdx sels d = some i ∧ dynamicSlice shape es d = some i ∧ InShape i shape := by
  obtain ⟨sels, h1, h2, h3⟩ := slice_dom shape es h
  refine ⟨sels, h1, shape_packed_eq_dynamic _ _ _ h2, ?_⟩
  intro d hd
  obtain ⟨i, a1, a2, a3⟩ := h3 d hd
  exact ⟨i, a1, idx_packed_eq_dynamic _ _ _ _ a2, a3⟩

/-! ## the slice view (for C02 / C10) -/

/-- `xView_shape` + `xView_elem`: on Dom the slice view exists, has the reference shape and the reference element map -/
theorem sliceView_eq_spec_on_Dom (src : Shape) (es : List Entry) (h : domEntries src es = true) :
    ∃ v s, sliceView src es = some v ∧ specView src es = some s ∧ v.src = src ∧ v.dst = s.dst ∧
      ∀ d, InShape d v.dst → v.map d = s.map d := by
  obtain ⟨sels, h1, h2, h3⟩ := slice_dom src es h
  refine ⟨⟨src, specShape sels, fun d => sliceIdx src es d⟩, ⟨src, specShape sels, specIdx sels⟩, ?_, ?_, rfl, rfl, ?_⟩
  · simp [sliceView, h2]
  · simp [specView, h1]
  · intro d hd
    obtain ⟨i, a1, a2, _⟩ := h3 d hd
    simp [a1, a2]

/-- `xView_inBounds` (feeds C02): on Dom every access of the slice view stays inside the source shape -/
theorem slice_indices_inShape (src : Shape) (es : List Entry) (h : domEntries src es = true) (v : IxView)
    (hv : sliceView src es = some v) : v.InBounds := by
  obtain ⟨sels, _, h2, h3⟩ := slice_dom src es h
  simp only [sliceView, h2, Option.map_some, Option.some.injEq] at hv
  subst hv
  intro d hd i hi
  obtain ⟨i', _, a2, a3⟩ := h3 d hd
  simp only at hi
  rw [a2] at hi
  cases hi
  exact a3

/-- the same for the run-time encoding (`view::apply_slice` with a list of either) -/
theorem dynamic_slice_indices_inShape (src : Shape) (es : List Entry) (h : domEntries src es = true) (v : IxView)
    (hv : dynamicSliceView src es = some v) : v.InBounds := by
  obtain ⟨sels, _, h2, h3⟩ := dynamic_slice_eq_python_on_Dom src es h
  simp only [dynamicSliceView, h2, Option.map_some, Option.some.injEq] at hv
  subst hv
  intro d hd i hi
  obtain ⟨i', _, a2, a3⟩ := h3 d hd
  simp only at hi
  rw [a2] at hi
  cases hi
  exact a3

example : (sliceView [3, 4] [.int (-1), .range2 (some 0) (some 2)]).map (·.provenance) = some [8, 9] := by decide

/-! ## off-domain classes of the unchanged implementation (known findings): MODEL ≠ SPEC on a witness -/

/-- empty Python result, `a[2:1]` on n=4: the implementation uses `|stop - start|` -/
theorem empty_range_counterexample :
    shapeSlice [4] [.range (some 2) (some 1) (some 1)] = some [1] ∧
    (specSlice [4] [.range (some 2) (some 1) (some 1)]).map specShape = some [0] := by decide

/-- out-of-range bounds are not clamped, `a[-6:2]` on n=4 -/
theorem no_clamping_counterexample :
    shapeSlice [4] [.range (some (-6)) (some 2) (some 1)] = some [4] ∧
    (specSlice [4] [.range (some (-6)) (some 2) (some 1)]).map specShape = some [2] := by decide

/-- in-range negative start with omitted stop, `a[-1:]` on n=5: extent `n + 1`, first index `n + 1` -/
theorem neg_start_none_stop_counterexample :
    shapeSlice [5] [.range (some (-1)) none none] = some [6] ∧ sliceIdx [5] [.range (some (-1)) none none] [0] = some [6] ∧
    (specSlice [5] [.range (some (-1)) none none]).map specShape = some [1] ∧
    (specSlice [5] [.range (some (-1)) none none]).bind (specIdx · [0]) = some [4] := by decide

/-- in-range negative start with in-range positive stop, `a[-2:1]` on n=2: first index `stop + start` wraps -/
theorem neg_start_pos_stop_counterexample :
    sliceIdx [2] [.range (some (-2)) (some 1) (some 1)] [0] = some [18446744073709551615] ∧
    (specSlice [2] [.range (some (-2)) (some 1) (some 1)]).bind (specIdx · [0]) = some [0] := by decide

/-- negative step with an integer stop, `a[3:1:-1]` on n=4: walk starts at `stop - 1` -/
theorem neg_step_int_stop_counterexample :
    sliceIdx [4] [.range (some 3) (some 1) (some (-1))] [0] = some [0] ∧
    (specSlice [4] [.range (some 3) (some 1) (some (-1))]).bind (specIdx · [0]) = some [3] := by decide

/-- fewer entries than axes and no ellipsis, `a[1:4:2]` on (5,2): the trailing extent stays 0 -/
theorem missing_trailing_axes_counterexample :
    shapeSlice [5, 2] [.range (some 1) (some 4) (some 2)] = some [2, 0] ∧
    (specSlice [5, 2] [.range (some 1) (some 4) (some 2)]).map specShape = some [2, 2] := by decide

/-- packed encoding, ellipsis in last position taking no axis, `a[0, ...]` on n=2: `shape[dim]` is read -/
theorem trailing_empty_ellipsis_counterexample :
    shapeSlice [2] [.int 0, .ellipsis] = none ∧ (specSlice [2] [.int 0, .ellipsis]).map specShape = some [] := by decide

/-- `view::slice(a, tuple{0,2})` on (4,5): the single range is read as the two integers `a[0,2]` -/
theorem single_range_ctad_counterexample :
    shapeSlice [4, 5] (ctadCollapse [.range2 (some 0) (some 2)]) = some [] ∧
    (specSlice [4, 5] [.range2 (some 0) (some 2)]).map specShape = some [2, 5] := by decide

/-- binary32 length, `a[:]` on n = 2^24+1 (F12) -/
theorem float_length_counterexample :
    shapeSlice [16777217] [.range none none none] = some [16777216] ∧
    (specSlice [16777217] [.range none none none]).map specShape = some [16777217] := by decide

end NmVerif.Props.C05
