"""
C06 mixed-kind harness generator.

Compile-time shape kinds (constant tuples, clipped integers, fixed-size arrays) cannot take their values at run
time, so the mixed-kind part of the C06 correspondence run is GENERATED: one C++ `case` function per
(operation, shape table entry, assignment of a container kind to every operand).  A case evaluates a list of
CLAUSES (`name=value`): the broadcast of the operands in every order and grouping, with itself and with the
result — the symmetric / associative / idempotent / absorbing clauses of the property — through the real
nmtools entry points, intermediate results keeping the type the library gave them (maybe<clipped tuple>, ...).
The answer line is compared with the Lean model (driver ops `kexpr`, `ksbt`, `kbto`, `kbarr`, `kadd`) and NumPy
(lib/props/c06.py), which are kind-blind: the property says the kind must not matter.

kinds of a SHAPE operand (index level: index::broadcast_shape, index::shape_broadcast_to)
    ct   nmtools_tuple{3_ct,1_ct}                 compile-time constant
    cl   nmtools_tuple{clipped_size_t<B>{v}...}   clipped, bound B = v + slack(salt)
    a    nmtools_array<size_t,N>                  fixed rank, run-time extents
    v    nmtools_list<size_t>                     dynamic
    sv   nmtools_static_vector<size_t,8>          bounded rank
    f    1-d array::fixed_ndarray of ints         fixed rank (cast(raw, kind::fixed))
    h    1-d array::hybrid_ndarray of ints        bounded rank (cast(raw, kind::hybrid))
    none nmtools::None                            the shape of a number (rank 0 only)
kinds of an ARRAY operand (view::broadcast_to / broadcast_arrays / add); its shape has the kind in brackets
    cs   ndarray_t<vector, tuple<ct...>>      [ct]     ls  ndarray_t<vector, tuple<clipped...>> [cl]
    fs   ndarray_t<vector, std::array>        [a]      ds  ndarray_t<vector, vector>            [v]
    hs   ndarray_t<vector, static_vector>     [sv]     hy  array::hybrid_ndarray                [a, bounded size]
    fx   fixed-size ndarray: raw int[..][..] / nested std::array / array::fixed_ndarray (by salt)  [ct]
    num  int                                  [none]   (rank 0 only)

Two operands whose shapes are BOTH compile-time constants and incompatible do not compile (the library refuses
at compile time); such a clause is printed as the literal `nothing` (`static_refused`).
"""
import os, hashlib, itertools

HERE = os.path.dirname(os.path.abspath(__file__))
ROOT = os.path.dirname(HERE)
GEN_DIR = os.path.join(ROOT, '.build', 'gen_c06')

INDEX_KINDS = ['ct', 'cl', 'a', 'v', 'sv', 'f', 'h']
INDEX_KINDS0 = ['none', 'v', 'sv', 'a']            # rank 0 (an empty constant tuple is not accepted by the library)
ARRAY_KINDS = ['cs', 'ls', 'fs', 'ds', 'hs', 'fx', 'hy']
ARRAY_KINDS0 = ['num']
DST_KINDS = ['ct', 'cl', 'a', 'v', 'sv']      # kinds of the target shape of broadcast_to
CONST_INDEX = {'ct'}
CONST_ARRAY = {'cs', 'fx'}
SHAPE_KIND_OF_ARRAY = {'cs': 'ct', 'ls': 'cl', 'fs': 'a', 'ds': 'v', 'hs': 'sv', 'fx': 'ct', 'hy': 'a', 'num': 'none'}

KIND_DOC = {
    'ct': 'constant tuple', 'cl': 'clipped tuple', 'a': 'std::array', 'v': 'std::vector', 'sv': 'static_vector',
    'f': '1-d fixed_ndarray', 'h': '1-d hybrid_ndarray', 'none': 'None',
    'cs': 'ndarray constant shape', 'ls': 'ndarray clipped shape', 'fs': 'ndarray std::array shape', 'ds': 'dynamic ndarray',
    'hs': 'ndarray static_vector shape', 'fx': 'fixed-size ndarray (raw / nested std::array / fixed_ndarray)', 'hy': 'hybrid_ndarray',
    'num': 'int scalar'}


def fmt(l):
    l = list(l)
    return '[]' if not l else ','.join(str(int(x)) for x in l)


def fmt_lists(ll):
    return ';'.join(fmt(l) for l in ll)


# ------------------------------------------------------------------------------------------------
# reference broadcast on python lists (only used to know, at generation time, which clauses the
# library refuses at COMPILE time; the expected answers come from NumPy / Lean in lib/props/c06.py)
# ------------------------------------------------------------------------------------------------
def bshape(a, b):
    if a is None or b is None:
        return None
    r = []
    for k in range(1, max(len(a), len(b)) + 1):
        x = a[-k] if k <= len(a) else 1
        y = b[-k] if k <= len(b) else 1
        if not (x == y or x == 1 or y == 1):
            return None
        r.append(max(x, y))
    return r[::-1]


# ------------------------------------------------------------------------------------------------
# clause expressions:  int = operand, ('*', x, y) = broadcast_shape(x, y), ('+', x, y, z) = broadcast_shape(x, y, z)
# ------------------------------------------------------------------------------------------------
def prefix(e):
    """the text the Lean driver parses"""
    if isinstance(e, int):
        return str(e)
    return e[0] + ''.join(prefix(x) for x in e[1:])


def cxx(e, names):
    if isinstance(e, int):
        return names[e]
    return 'k6::bc(' + ','.join(cxx(x, names) for x in e[1:]) + ')'


def static_eval(e, vals, kinds):
    """(value or None, klass, refused): klass in 'const' / 'none' / 'rt' — what the TYPE of the subterm knows"""
    if isinstance(e, int):
        k = kinds[e]
        return list(vals[e]), ('const' if k in CONST_INDEX else 'none' if k == 'none' else 'rt'), False
    cur = static_eval(e[1], vals, kinds)
    for x in e[2:]:
        nxt = static_eval(x, vals, kinds)
        if cur[2] or nxt[2]:
            return None, 'rt', True
        v = bshape(cur[0], nxt[0])
        ka, kb = cur[1], nxt[1]
        if ka == 'const' and kb == 'const':
            if v is None:
                return None, 'rt', True          # BROADCAST_SHAPE_ERROR: does not compile
            kl = 'const'
        elif ka == 'none' and kb == 'none':
            kl = 'none'
        elif (ka == 'none' and kb == 'const') or (ka == 'const' and kb == 'none'):
            kl = 'const'
        else:
            kl = 'rt'
        cur = (v, kl, False)
    return cur


PERMS3 = list(itertools.permutations(range(3)))


def clauses_bs2():
    ab = ('*', 0, 1); ba = ('*', 1, 0)
    return [('ab', ab), ('ba', ba), ('aa', ('*', 0, 0)), ('bb', ('*', 1, 1)),
            ('a_ab', ('*', 0, ab)), ('ab_b', ('*', ab, 1)), ('ba_a', ('*', ba, 0)), ('ab_ba', ('*', ab, ba))]


def clauses_bs3(full=True):
    out = []
    for p in PERMS3:
        n = ''.join('abc'[i] for i in p)
        out.append(('v' + n, ('+', p[0], p[1], p[2])))
    for p in (PERMS3 if full else PERMS3[:1] + PERMS3[3:4]):
        n = ''.join('abc'[i] for i in p)
        out.append(('l' + n, ('*', ('*', p[0], p[1]), p[2])))
        out.append(('r' + n, ('*', p[0], ('*', p[1], p[2]))))
    return out


# ------------------------------------------------------------------------------------------------
# declarations
# ------------------------------------------------------------------------------------------------
def cl_bound(v, salt, j):
    return max(int(v) + ((salt + j) % 3), 1)


def decl_shape(name, vals, kind, salt=0):
    n = len(vals)
    lst = ','.join(str(int(v)) for v in vals)
    if kind == 'none':
        assert n == 0
        return ['auto %s = nm::None;' % name]
    if kind == 'ct':
        return ['auto %s = nmtools_tuple{%s};' % (name, ','.join('%d_ct' % v for v in vals))] if n else ['auto %s = nmtools_tuple<>{};' % name]
    if kind == 'cl':
        assert n
        return ['auto %s = nmtools_tuple{%s};' % (name, ','.join('nm::clipped_size_t<%d>{%d}' % (cl_bound(v, salt, j), v) for j, v in enumerate(vals)))]
    if kind == 'a':
        return ['auto %s = nmtools_array<size_t,%d>{%s};' % (name, n, lst)]
    if kind in ('v', 'sv'):
        t = 'nmtools_list<size_t>' if kind == 'v' else 'nmtools_static_vector<size_t,8>'
        return [' '.join(['%s %s; %s.resize(%d);' % (t, name, name, n)] + ['%s[%d] = %d;' % (name, j, v) for j, v in enumerate(vals)])]
    if kind in ('f', 'h'):
        assert n
        return ['int %s_raw[%d] = {%s}; auto %s = nm::cast(%s_raw, na::kind::%s);' % (name, n, lst, name, name, 'fixed' if kind == 'f' else 'hybrid')]
    raise ValueError(kind)


def nested_init(shape, start):
    n = 1
    for e in shape:
        n *= e
    flat = list(range(start, start + n))

    def rec(sh, vals):
        if len(sh) == 1:
            return '{' + ','.join(str(v) for v in vals) + '}'
        step = len(vals) // sh[0]
        return '{' + ','.join(rec(sh[1:], vals[k * step:(k + 1) * step]) for k in range(sh[0])) + '}'
    return rec(list(shape), flat)


ARRAY_CAST = {'cs': 'ndarray_cs_db', 'ls': 'ndarray_ls_db', 'fs': 'ndarray_fs_db', 'ds': 'ndarray_ds_db', 'hs': 'ndarray_hs_db', 'hy': 'hybrid'}


def decl_array(name, shape, kind, pos, salt=0):
    """operand `pos` holds 1000*pos + row-major flat id"""
    if kind == 'num':
        assert len(shape) == 0
        return ['int %s = %d;' % (name, 1000 * pos)]
    assert len(shape) >= 1
    dims = ''.join('[%d]' % e for e in shape)
    init = nested_init(shape, 1000 * pos)
    if kind == 'fx':
        sub = ('raw', 'nested_arr', 'fixed')[salt % 3]
        if sub == 'raw':
            return ['int %s%s = %s;' % (name, dims, init)]
        return ['int %s_raw%s = %s; auto %s = nm::cast(%s_raw, na::kind::%s);' % (name, dims, init, name, name, sub)]
    return ['int %s_raw%s = %s; auto %s = nm::cast(%s_raw, na::kind::%s);' % (name, dims, init, name, name, ARRAY_CAST[kind])]


# ------------------------------------------------------------------------------------------------
# cases
# ------------------------------------------------------------------------------------------------
class KCase:
    """op in bs2 / bs3 / sbt / bto / barr / barr3 / add;  shapes = operand shapes (sbt, bto: [src, dst]);  kinds = one per operand"""
    __slots__ = ('op', 'shapes', 'kinds', 'salt', 'key', 'seeded')

    def __init__(self, op, shapes, kinds, salt=0, seeded=False):
        self.op = op; self.shapes = [list(s) for s in shapes]; self.kinds = tuple(kinds); self.salt = salt; self.seeded = seeded
        self.key = hashlib.sha256(self.text().encode()).hexdigest()[:12]

    def text(self):
        return 'op=%s shapes=%s kinds=%s salt=%d' % (self.op, fmt_lists(self.shapes), '/'.join(self.kinds), self.salt)

    def weight(self):
        return {'bs2': 0.13, 'bs3': 0.27, 'sbt': 0.12, 'bto': 0.2, 'barr': 0.85, 'barr3': 1.5, 'add': 1.2}[self.op]   # measured seconds of g++ per case

    # ---- clauses: [(name, kind of value, payload)] ----
    def clauses(self):
        if self.op == 'bs2':
            return [(n, 'shape', e) for n, e in clauses_bs2()]
        if self.op == 'bs3':
            return [(n, 'shape', e) for n, e in clauses_bs3()]
        if self.op == 'sbt':
            return [('s', 'sbt', None)]
        if self.op == 'bto':
            return [('v', 'bto', None)]
        if self.op == 'barr':
            return [('xy', 'barr', (0, 1)), ('yx', 'barr', (1, 0))]
        if self.op == 'barr3':
            return [('xyz', 'barr', (0, 1, 2)), ('zxy', 'barr', (2, 0, 1))]
        if self.op == 'add':
            return [('xy', 'add', (0, 1)), ('yx', 'add', (1, 0))] + ([('xx', 'add', (0, 0))] if self.kinds[0] == self.kinds[1] else [])
        raise ValueError(self.op)

    def static_refused(self, clause):
        """the library refuses this clause at compile time (both operands constant and incompatible)"""
        n, what, payload = clause
        if what == 'shape':
            return static_eval(payload, self.shapes, self.kinds)[2]
        if what in ('bto', 'sbt'):
            return False
        # broadcast_arrays / add: left fold over the operand shapes in the given order
        ks = [SHAPE_KIND_OF_ARRAY[self.kinds[j]] for j in payload]
        e = payload[0] if len(payload) == 1 else ('+',) + tuple(range(len(payload))) if len(payload) == 3 else ('*', 0, 1)
        return static_eval(e, [self.shapes[j] for j in payload], ks)[2]


def emit_case(c, fname):
    ls = ['static std::string %s(bool tags) {   // %s' % (fname, c.text())]
    names = 'abc' if c.op in ('bs2', 'bs3', 'sbt') else 'xyz'
    if c.op in ('bs2', 'bs3', 'sbt'):
        for j, (s, k) in enumerate(zip(c.shapes, c.kinds)):
            ls += ['    ' + l for l in decl_shape(names[j], s, k, c.salt + 2 * j)]
    elif c.op == 'bto':
        ls += ['    ' + l for l in decl_array('x', c.shapes[0], c.kinds[0], 0, c.salt)]
        ls += ['    ' + l for l in decl_shape('d', c.shapes[1], c.kinds[1], c.salt + 1)]
    else:
        for j, (s, k) in enumerate(zip(c.shapes, c.kinds)):
            ls += ['    ' + l for l in decl_array(names[j], s, k, j, c.salt + j)]
    ls.append('    k6::out_t o;')
    for cl in c.clauses():
        n, what, payload = cl
        if c.static_refused(cl):
            ls.append('    o.lit("%s", "nothing");   // refused at compile time' % n)
        elif what == 'shape':
            ls.append('    K6_SHP(o, "%s", %s);' % (n, cxx(payload, names)))
        elif what == 'sbt':
            ls.append('    K6_SBT(o, "%s", ix::shape_broadcast_to(a, b));' % n)
        elif what == 'bto':
            ls.append('    K6_ARR(o, "%s", view::broadcast_to(x, d));' % n)
        elif what == 'barr':
            ls.append('    K6_ARRS(o, "%s", view::broadcast_arrays(%s));' % (n, ','.join(names[j] for j in payload)))
        elif what == 'add':
            ls.append('    K6_ARR(o, "%s", view::add(%s));' % (n, ','.join(names[j] for j in payload)))
    ls.append('    return o.done(tags);')
    ls.append('}')
    return '\n'.join(ls)


def emit_tu(cases):
    ops = {c.op for c in cases}
    out = ['// generated by harness/gen_kinds_c06.py -- do not edit',
           '#include "nmtools/array/index/broadcast_shape.hpp"']
    if 'sbt' in ops:
        out.append('#include "nmtools/array/index/broadcast_to.hpp"')
    if ops & {'bto', 'barr', 'barr3', 'add'}:
        out.append('#include "nmtools/array/view/broadcast_to.hpp"')
        out.append('#include "nmtools/array/view/broadcast_arrays.hpp"')
    if 'add' in ops:
        out.append('#include "nmtools/array/view/ufuncs/add.hpp"')
    out += ['#include "c06_kinds.hpp"',
            'namespace nm = nmtools; namespace ix = nmtools::index; namespace na = nmtools::array; namespace view = nmtools::view;',
            'using namespace nmtools::literals;']
    names = []
    for j, c in enumerate(cases):
        fn = 'c%d_%s' % (j, c.key)
        names.append(fn)
        out.append(emit_case(c, fn))
    out += ['using fn_t = std::string(*)(bool);',
            'static const std::map<std::string, fn_t>& table() {',
            '    static const std::map<std::string, fn_t> t = {']
    out += ['        {"%s", %s},' % (c.key, fn) for c, fn in zip(cases, names)]
    out += ['    };', '    return t;', '}',
            'std::string handle(const std::string& op, const proto::Args& a) {',
            '    if (op != "k6" && op != "k6t") return "unknown-op";   // k6t: shape clauses as value@container',
            '    auto it = table().find(proto::get(a, "id"));',
            '    if (it == table().end()) return "unknown-case";',
            '    return it->second(op == "k6t");',
            '}']
    return '\n'.join(out) + '\n'


def write_tu(name, cases):
    os.makedirs(GEN_DIR, exist_ok=True)
    p = os.path.join(GEN_DIR, name + '.cpp')
    src = emit_tu(cases)
    if not (os.path.exists(p) and open(p).read() == src):
        with open(p, 'w') as f:
            f.write(src)
    return p
