import NmVerif.Proto
import NmVerif.Static
import NmVerif.StaticMore
import NmVerif.StaticEval
import NmVerif.StaticGen
/-
  Driver for C11: `c11 rpn=<tok>;<tok>;… shapes=<leaf shape>;… rargs=<run-time argument>;…`
  interprets the program (reverse Polish, tokens written by harness/gen_c11.py) twice at once:
  abstractly with the transfer functions of `NmVerif.Static` (→ predicted static knowledge of the view TYPE) and
  concretely with the reference shape functions (→ run-time shape of the instance).
  Answer: `M sk=… fs=… fd=… fz=… bd=… bz=… shape=…`  |  `M unsupported:<why>`
-/
namespace NmVerif.Driver.C11
open NmVerif NmVerif.Proto NmVerif.Static

def fmtOptNats : Option (List Nat) → String
  | some l => fmtNats l
  | none => "-"
def fmtOptNat : Option Nat → String
  | some n => toString n
  | none => "-"

def fmtShapeK : ShapeK → String
  | .const l => "c:" ++ fmtNats l
  | .clipped b => "l:" ++ fmtNats b
  | .fixedDim k => s!"f:{k}"
  | .boundedDim k => s!"b:{k}"
  | .dyn => "d"

def fmtInfo (i : SInfo) : String :=
  s!"sk={fmtShapeK i.shape} fs={fmtOptNats i.fixedShape} fd={fmtOptNat i.fixedDim} fz={fmtOptNat i.fixedSize} bd={fmtOptNat i.boundedDim} bz={fmtOptNat i.boundedSize}"

structure St where
  stack : List (SInfo × Shape)
  shapes : List (List Nat)
  rargs : List (List Int)
  /-- type of the PLAIN `nmtools::shape(a)` of the operand on top of the stack when it differs from its knowledge
      (a `na::fixed_ndarray` leaf: run-time array of the constant extents); reset by every operation -/
  plain : Option ShapeK := none

abbrev M := Except String

def popArg (st : St) : M (List Int × St) :=
  match st.rargs with
  | [] => .error "missing-rarg"
  | r :: rs => .ok (r, { st with rargs := rs })

def toNats (l : List Int) : M (List Nat) :=
  if l.all (· ≥ 0) then .ok (l.map Int.toNat) else .error "negative-arg"

def nats? (s : String) : M (List Nat) :=
  match parseNats s with
  | some l => .ok l
  | none => .error s!"bad-list:{s}"

def nat? (s : String) : M Nat :=
  match s.toNat? with
  | some n => .ok n
  | none => .error s!"bad-nat:{s}"

def need {α} (o : Option α) (why : String) : M α :=
  match o with
  | some x => .ok x
  | none => .error why

def pop1 (st : St) : M ((SInfo × Shape) × St) :=
  match st.stack with
  | x :: rest => .ok (x, { st with stack := rest })
  | [] => .error "stack-underflow"

/-- index-array argument token fields → (kind, run-time value) -/
def arrArg (fields : List String) (st : St) : M (ArrK × List Int × St) :=
  match fields with
  | "ct" :: v :: _ => do let l ← nats? v; pure (.ct l, l.map Int.ofNat, st)
  | "cl" :: m :: v :: _ => do let mx ← nats? m; let l ← nats? v; pure (.cl mx, l.map Int.ofNat, st)
  | "rt" :: n :: _ => do let k ← nat? n; let (r, st') ← popArg st; pure (.rt k, r, st')
  | "rtv" :: _ => do let (r, st') ← popArg st; pure (.rtv, r, st')
  | "sv" :: n :: _ => do let k ← nat? n; let (r, st') ← popArg st; pure (.bnd k, r, st')
  | _ => .error "bad-array-arg"

def axisArg (fields : List String) (st : St) : M (AxisK × Option (List Nat) × St) :=
  match fields with
  | "none" :: _ => pure (.none, none, st)
  | "cts" :: a :: _ => do let x ← nat? a; pure (.cts x, some [x], st)
  | "ctt" :: a :: _ => do let l ← nats? a; pure (.ctt l, some l, st)
  | "rts" :: _ => do let (r, st') ← popArg st; let l ← toNats r; pure (.rts, some l, st')
  | "rt" :: n :: _ => do let k ← nat? n; let (r, st') ← popArg st; let l ← toNats r; pure (.rt k, some l, st')
  | _ => .error "bad-axis-arg"


/-- integer argument token fields → (kind, run-time value, remaining fields) -/
def numArg (fields : List String) (st : St) : M (NumK × Nat × List String × St) :=
  match fields with
  | "ct" :: v :: rest => do let x ← nat? v; pure (.ct x, x, rest, st)
  | "rts" :: rest => do
      let (r, st') ← popArg st
      let l ← toNats r
      match l with
      | [x] => pure (.rt, x, rest, st')
      | _ => .error "bad-num-rarg"
  | _ => .error "bad-num-arg"

/-- optional axis written as `axn` (None) | `axc<k>` (k_ct) | `axr<k>` (run-time int k) -/
def axExt (f : String) : M (AxisK × Option Nat) :=
  if f == "axn" then pure (.none, none)
  else if f.startsWith "axc" then do let k ← nat? (f.drop 3).toString; pure (.cts k, some k)
  else if f.startsWith "axr" then do let k ← nat? (f.drop 3).toString; pure (.rts, some k)
  else .error s!"bad-axis-ext:{f}"

/-- slice entry: `e` | `r<a>_<b>` | `i<k>` -/
def slEntry (f : String) : M SlE :=
  if f == "e" then pure .ell
  else if f.startsWith "r" then
    match ((f.drop 1).toString.splitOn "_").map String.toNat? with
    | [some a, some b] => pure (.rng a b)
    | _ => .error s!"bad-slice-entry:{f}"
  else if f.startsWith "i" then do let k ← nat? (f.drop 1).toString; pure (.idx k)
  else .error s!"bad-slice-entry:{f}"

def lastField (fields : List String) : String := fields.getLast?.getD ""

/-- unary operation: pops the operand, pushes (transfer, reference shape) -/
def unary (st : St) (tr : SInfo → Option SInfo) (rf : Shape → Option Shape) : M St := do
  let ((i, s), st) ← pop1 st
  let o ← need (tr i) "transfer"
  let t ← need (rf s) "ref-shape"
  pure { st with stack := (o, t) :: st.stack }

/-- the operations of NmVerif.StaticMore; `none` = not one of them -/
def stepMore (st : St) (fields : List String) : Option (M St) :=
  match fields with
  | "repeat" :: args => some do
      let (k, r, rest, st) ← numArg args st
      let (ax, axis) ← axExt (lastField rest)
      unary st (transferRepeat k ax) (refRepeat r axis)
  | "pad" :: args => some do
      let (k, v, st) ← arrArg args st
      let w ← toNats v
      unary st (transferPad k) (refPad w)
  | "cumsum" :: args => some do
      let (_, v, st) ← axisArg args st
      match v with
      | some [a] => unary st transferAccumulate (refAccumulate a)
      | _ => .error "axis"
  | "roll" :: args => some do
      let (k, _, rest, st) ← numArg args st
      let (ax, axis) ← axExt (lastField rest)
      unary st (transferRoll k ax) (refRoll axis)
  | "flip" :: args => some do
      let (_, v, st) ← axisArg args st
      let axis : Option Nat := match v with | some (a :: _) => some a | _ => none
      unary st transferFlip (refFlip axis)
  | "moveaxis" :: "ct" :: v :: _ => some do
      match ← nats? v with
      | [src, dst] => unary st (transferMoveaxis (some (src, dst))) (refMoveaxis src dst)
      | _ => .error "bad-moveaxis"
  | "moveaxis" :: "rts" :: _ => some do
      let (r, st) ← popArg st
      match ← toNats r with
      | [dst] => unary st (transferMoveaxis none) (refMoveaxis 0 dst)
      | _ => .error "bad-moveaxis"
  | "take" :: args => some do
      let (k, v, st) ← arrArg args st
      let (ax, axis) ← axExt (lastField args)
      match axis with
      | some a => unary st (transferTake k ax) (refTake v.length a)
      | none => .error "take-axis-none"
  | "slice" :: "sl" :: es => some do
      let ents ← es.mapM slEntry
      unary st (transferSlice ents) (refSlice ents)
  | "slice" :: "slr" :: _ => some do
      let (r, st) ← popArg st
      match ← toNats r with
      | [x] => let ents := [SlE.rng 0 x, SlE.ell]; unary st (transferSlice ents) (refSlice ents)
      | _ => .error "bad-slice"
  | "atleast_3d" :: _ => some (unary st (transferAtleastNd 3) (fun s => some (refAtleastNd 3 s)))
  | "mulscalar" :: _ => some (unary st transferMulScalar some)
  | "matmul" :: _ => some do
      let ((j, sb), st) ← pop1 st
      let ((i, sa), st) ← pop1 st
      let o ← need (transferMatmul i j) "transfer"
      let t ← need (refMatmul sa sb) "ref-shape"
      pure { st with stack := (o, t) :: st.stack }
  | name :: pat :: _ =>
    if name == "where" || name == "bcast3" then some do
      -- operand pattern: a = first array, b = second array, s = number literal
      let chars := pat.toList
      let (b?, st) ← (if chars.contains 'b' then do let (x, st') ← pop1 st; pure (some x, st') else pure (none, st) : M (Option (SInfo × Shape) × St))
      let (a, st) ← pop1 st
      let ops ← chars.mapM (fun ch => match ch with
        | 'a' => pure a
        | 'b' => need b? "pattern"
        | 's' => pure (scalarInfo, ([] : Shape))
        | _ => .error "bad-pattern")
      match ops with
      | [c, x, y] =>
        let (o, t) ← (if name == "where" then do
            let o ← need (transferWhere c.1 x.1 y.1) "transfer"; let t ← need (refBroadcast3 c.2 x.2 y.2) "ref-shape"; pure (o, t)
          else do
            let o ← need (transferBroadcast3 c.1 x.1 y.1) "transfer"; let t ← need (refBroadcast3 c.2 x.2 y.2) "ref-shape"; pure (o, t) : M (SInfo × Shape))
        pure { st with stack := (o, t) :: st.stack }
      | _ => .error "bad-pattern"
    else none
  | _ => none

/-- optional axis of the third group: `axn` | `axc<k>` | `axr<k>` | `axr` (run-time -1 = the last axis of the instance) -/
def axExtLast (f : String) (rank : Nat) : M (AxisK × Option Nat) :=
  if f == "axr" then (if rank = 0 then .error "rank-0" else pure (.rts, some (rank - 1))) else axExt f

def pair? (l : List Nat) : M (List Nat) :=
  match l with
  | [_, _] => pure l
  | [n] => pure [n, n]
  | _ => .error "bad-pair"

/-- the view kinds of NmVerif.StaticGen; `none` = not one of them.  eye / tri have no array operand: the generator hangs
    them under a leaf that only supplies run-time numbers, which is popped and dropped -/
def stepGen (st : St) (fields : List String) : Option (M St) :=
  match fields with
  | name :: args =>
    if name == "eye" || name == "tri" then some do
      let (_, st) ← pop1 st
      let (k, v, st) ← (match args with
        | "ct" :: v :: _ => do let l ← nats? v; let l ← pair? l; pure (ArrK.ct l, l, st)
        | "cts" :: v :: _ => do let n ← nat? v; pure (ArrK.ct [n, n], [n, n], st)
        | "rt" :: _ => do let (r, st') ← popArg st; let l ← toNats r; let l ← pair? l; pure (ArrK.rt 2, l, st')
        | "rts" :: _ => do let (r, st') ← popArg st; let l ← toNats r; let l ← pair? l; pure (ArrK.rt 2, l, st')
        | _ => .error "bad-eye-arg" : M (ArrK × List Nat × St))
      let o ← need (if name == "eye" then transferEye k else transferTri k) "transfer"
      pure { st with stack := (o, v) :: st.stack }
    else if name == "tril" || name == "triu" then some do
      let st ← (match args with
        | "rts" :: _ => do let (_, st') ← popArg st; pure st'
        | _ => pure st : M St)
      unary st transferTril (fun s => some (refTril s))
    else if name == "max_pool2d" || name == "avg_pool2d" then some do
      -- kernel: ct.<v> | rt.<n>; stride `s<k>` = (k, k) of the SAME kind as the kernel; `c<0|1>` = ceil_mode (a constant)
      let (kk, kv, st) ← arrArg args st
      let kvn ← toNats kv
      let sf ← need (args.find? (fun f => f.startsWith "s")) "stride"
      let sn ← nat? (sf.drop 1).toString
      let ceil := args.contains "c1"
      let sk : ArrK := match kk with | .ct _ => .ct [sn, sn] | _ => .rt 2
      let plain := st.plain
      unary st (fun i => transferPool2dOn (plain.getD i.shape) kk sk ceil) (refPool ceil kvn [sn, sn])
    else if name == "resize" then some do
      let (k, v, st) ← arrArg args st
      let t ← toNats v
      unary st (transferResize k) (refResize t)
    else if name == "sliding_window" then some do
      let ((i, s), st) ← pop1 st
      let (ax, axis) ← axExtLast (lastField args) s.length
      let (w, wv, st) ← (match args with
        | "cts" :: v :: _ => do let n ← nat? v; pure (WinK.num (.ct n), WinV.num n, st)
        | "rts" :: _ => do
            let (r, st') ← popArg st
            match ← toNats r with
            | [n] => pure (WinK.num .rt, WinV.num n, st')
            | _ => .error "bad-window"
        | _ => do let (k, v, st') ← arrArg args st; let l ← toNats v; pure (WinK.arr k, WinV.arr l, st') : M (WinK × WinV × St))
      let o ← need (transferSlidingWindow w ax i) "transfer"
      let t ← need (refSlidingWindow wv axis s) "ref-shape"
      pure { st with stack := (o, t) :: st.stack }
    else if name == "compress" then some do
      let ((i, s), st) ← pop1 st
      let (c, v, st) ← arrArg args st
      let cv ← toNats v
      let (ax, axis) ← axExtLast (lastField args) s.length
      let o ← need (transferCompress c ax i) "transfer"
      let t ← need (refCompress cv axis s) "ref-shape"
      pure { st with stack := (o, t) :: st.stack }
    else if name == "outer_add" then some do
      let ((j, sb), st) ← pop1 st
      let ((i, sa), st) ← pop1 st
      let o ← need (transferOuter i j) "transfer"
      pure { st with stack := (o, refOuter sa sb) :: st.stack }
    else none
  | _ => none

def step (st : St) (tok : String) : M St := do
  let fields := tok.splitOn "."
  match fields with
  | "L" :: kind :: p :: _ =>
    let P ← nats? p
    match st.shapes with
    | [] => .error "missing-shape"
    | s :: ss =>
      let i ← need (leafInfo kind P) "unknown-leaf-kind"
      pure { st with stack := (i, s) :: st.stack, shapes := ss, plain := if kind == "fx" then some (.fixedDim P.length) else none }
  | "transpose" :: args =>
    let ((i, s), st) ← pop1 st
    match args with
    | "none" :: _ =>
      let o ← need (transferTranspose none i) "transfer"
      let t ← need (refTranspose none s) "ref-shape"
      pure { st with stack := (o, t) :: st.stack }
    | _ =>
      let (k, v, st) ← arrArg args st
      let ax ← toNats v
      let o ← need (transferTranspose (some k) i) "transfer"
      let t ← need (refTranspose (some ax) s) "ref-shape"
      pure { st with stack := (o, t) :: st.stack }
  | "reshape" :: args =>
    let ((i, s), st) ← pop1 st
    let (k, v, st) ← arrArg args st
    let o ← need (transferReshape k i) "transfer"
    let t ← need (refReshape v s) "ref-shape"
    pure { st with stack := (o, t) :: st.stack }
  | "flatten" :: _ =>
    let ((i, s), st) ← pop1 st
    let o ← need (transferFlatten i) "transfer"
    pure { st with stack := (o, refFlatten s) :: st.stack }
  | "broadcast_to" :: args =>
    let ((i, s), st) ← pop1 st
    let (k, v, st) ← arrArg args st
    let tv ← toNats v
    let o ← need (transferBroadcastTo k i) "transfer"
    let t ← need (refBroadcastTo tv s) "ref-shape"
    pure { st with stack := (o, t) :: st.stack }
  | "tile" :: args =>
    let ((i, s), st) ← pop1 st
    let (k, v, st) ← arrArg args st
    let r ← toNats v
    let o ← need (transferTile k i) "transfer"
    pure { st with stack := (o, refTile r s) :: st.stack }
  | "expand_dims" :: args =>
    let ((i, s), st) ← pop1 st
    let (k, v, st) ← axisArg args st
    let axes ← need v "axis"
    let o ← need (transferExpandDims k i) "transfer"
    let t ← need (refExpandDims axes s) "ref-shape"
    pure { st with stack := (o, t) :: st.stack }
  | "squeeze" :: _ =>
    let ((i, s), st) ← pop1 st
    let o ← need (transferSqueeze i) "transfer"
    pure { st with stack := (o, refSqueeze s) :: st.stack }
  | "sum" :: args =>
    let ((i, s), st) ← pop1 st
    let (k, v, st) ← axisArg args st
    let axes ← need v "axis"
    let kd := args.contains "kd1"
    let o ← need (transferReduce k kd i) "transfer"
    let t ← need (refReduce axes kd s) "ref-shape"
    pure { st with stack := (o, t) :: st.stack }
  | "negative" :: _ =>
    let ((i, s), st) ← pop1 st
    let o ← need (transferUfunc1 i) "transfer"
    pure { st with stack := (o, s) :: st.stack }
  | "add" :: _ =>
    let ((j, sb), st) ← pop1 st
    let ((i, sa), st) ← pop1 st
    let o ← need (transferUfunc2 i j) "transfer"
    let t ← need (refBroadcast sa sb) "ref-shape"
    pure { st with stack := (o, t) :: st.stack }
  | "concatenate" :: args =>
    let ((j, sb), st) ← pop1 st
    let ((i, sa), st) ← pop1 st
    let (k, v, st) ← axisArg args st
    let axis : Option Nat := match v with | some (x :: _) => some x | _ => none
    let o ← need (transferConcat k i j) "transfer"
    let t ← need (refConcat axis sa sb) "ref-shape"
    pure { st with stack := (o, t) :: st.stack }
  | _ =>
    match stepMore st fields with
    | some r => r
    | none =>
      match stepGen st fields with
      | some r => r
      | none => .error s!"unknown-token:{tok}"

def run (rpn : String) (shapes : List (List Nat)) (rargs : List (List Int)) : String :=
  let toks := (rpn.splitOn ";").filter (· ≠ "")
  let step' (st : St) (tok : String) : M St := do
    let st' ← step st tok
    pure (if tok.startsWith "L." then st' else { st' with plain := none })
  match toks.foldlM step' { stack := [], shapes := shapes, rargs := rargs } with
  | .error e => s!"M unsupported:{e}"
  | .ok st =>
    match st.stack with
    | [(i, s)] =>
      -- the container the eval resolver chooses for this view type, described by the knowledge of the RESULT type
      let res := match resolveEval i with
        | some r => s!" rk={fmtShapeK r.info.shape} rfz={fmtOptNat r.info.fixedSize} rbz={fmtOptNat r.info.boundedSize}"
        | none => " rk=? rfz=? rbz=?"
      s!"M {fmtInfo i} shape={fmtNats s}{res}"
    | _ => "M unsupported:stack"

/-! ### `c11old op=… kind=… shape=… [kind2=… shape2=…]`: the older resolver of a bare `array::eval(view)` (harness/h_c11_old.cpp) -/

/-- leaf kinds of h_c11_old.cpp: (knowledge of the array type, what the older resolver sees of it, static rank) -/
def oldLeaf (kind : String) : Option (SInfo × OperK × Nat) :=
  match kind with
  | "fd2" => some (⟨.fixedDim 2, .any⟩, ⟨.fixedDim 2, .dyn⟩, 2)
  | "fd3" => some (⟨.fixedDim 3, .any⟩, ⟨.fixedDim 3, .dyn⟩, 3)
  | "bd3" => some (⟨.boundedDim 3, .any⟩, ⟨.boundedDim 3, .dyn⟩, 0)
  | "dy" => some (⟨.dyn, .any⟩, ⟨.dyn, .dyn⟩, 0)
  | "cs23" => some (⟨.const [2, 3], .known 6⟩, ⟨.const [2, 3], .fixed 6⟩, 2)
  | "fdf23" => some (⟨.fixedDim 2, .known 6⟩, ⟨.fixedDim 2, .fixed 6⟩, 2)
  | "cld23" => some (⟨.clipped [2, 3], .any⟩, ⟨.clipped [2, 3], .dyn⟩, 2)
  | _ => none

def fmtOld (v : SInfo) (t : Shape) (r : Option ResK) : String :=
  match r with
  | none => "M unsupported:does-not-compile"
  | some r =>
    let b (x : Bool) : String := if x then "1" else "0"
    s!"M shape={fmtNats t} ork={fmtShapeK r.info.shape} orfz={fmtOptNat r.info.fixedSize} orbz={fmtOptNat r.info.boundedSize} covers={b (r.covers v)} fits={b (decide (r.admits t))}"

def runOld (op kind : String) (s : Shape) (second : Option (String × Shape)) : M String := do
  let (i, a, rank) ← need (oldLeaf kind) "unknown-leaf-kind"
  if op == "add" then
    let (k2, s2) ← need second "second-operand"
    let (j, b, _) ← need (oldLeaf k2) "unknown-leaf-kind"
    let v ← need (transferUfunc2 i j) "transfer"
    let t ← need (refBroadcast s s2) "ref-shape"
    pure (fmtOld v t (resolveEvalOld2 a b v))
  else
    let (v, t) ← (match op with
      | "neg" => do let v ← need (transferUfunc1 i) "transfer"; pure (v, s)
      | "tr" => do let v ← need (transferTranspose none i) "transfer"; pure (v, s.reverse)
      | "tile2" => do let v ← need (transferTile .rtv i) "transfer"; pure (v, refTile (List.replicate (s.length + 1) 2) s)
      | "tileN" =>
        if rank = 0 then .error "unknown-op"
        else do let v ← need (transferTile (.rt rank) i) "transfer"; pure (v, refTile (List.replicate (rank - 1) 1 ++ [2]) s)
      | "exp0" => do
          let v ← need (transferExpandDims .rts i) "transfer"
          let t ← need (refExpandDims [0] s) "ref-shape"
          pure (v, t)
      | _ => .error "unknown-op" : M (SInfo × Shape))
    pure (fmtOld v t (resolveEvalOld1 a v))

def handle : Handler := fun op a =>
  match op with
  | "c11old" => orBad do
      let o ← a.get? "op"
      let kind ← a.get? "kind"
      let shapes ← a.natLists "shape"
      let s := shapes.headD []
      let second : Option (String × Shape) := do
        let k2 ← a.get? "kind2"
        let s2 ← a.natLists "shape2"
        pure (k2, s2.headD [])
      pure (match runOld o kind s second with | .ok r => r | .error e => s!"M unsupported:{e}")
  | "c11" => orBad do
      let rpn ← a.get? "rpn"
      let shapes ← a.natLists "shapes"
      let rargs := (a.intLists "rargs").getD []
      pure (run rpn shapes rargs)
  | _ => none

end NmVerif.Driver.C11
