// C12 harness, compiler vector extension context (512 bit)
#include "nmtools/array/eval/simd/vector_512.hpp"
#define C12_CTX  nmtools::array::simd::vector_512
#define C12_BITS 512
#include "h_c12_common.hpp"
