import NmVerif.Basic
import NmVerif.NDA
/-
  State-machine model of the array classes (include/nmtools/array/ndarray/ndarray.hpp `ndarray_t`,
  hybrid.hpp, dynamic.hpp): construction, resize, element write, fill.

  `Cfg` abstracts the 15 shape×buffer kinds to what matters at run time:
    shape  : dyn (std::vector) | fixedDim n (std::array<size_t,n>) | bounded cap (static_vector<size_t,cap>) | clipped maxs
    buffer : dyn (std::vector) | fixed n (std::array<T,n>)        | bounded cap (static_vector<T,cap>)
    layout : row / column major (offset functor)
  `resize` mirrors ndarray_t::resize: validate the request (dimension, element count, capacity, clipped bounds),
  only then resize shape/buffer, assign the shape, recompute strides.
-/
namespace NmVerif.NDObj
open NmVerif

inductive ShapeKind where
  | dyn | fixedDim (n : Nat) | bounded (cap : Nat) | clipped (maxs : List Nat)
deriving Repr, DecidableEq

inductive BufKind where
  | dyn | fixed (n : Nat) | bounded (cap : Nat)
deriving Repr, DecidableEq

structure Cfg where
  sk : ShapeKind
  bk : BufKind
  colMajor : Bool
deriving Repr

structure St where
  shape : List Nat
  strides : List Nat
  data : List Int
deriving Repr, DecidableEq

def stridesOf (cm : Bool) (s : Shape) : List Nat := if cm then colStrides s else strides s

/-- std::vector::resize / static_vector::resize on the buffer: keep the prefix, new cells value-initialised -/
def resizeBuf (d : List Int) (n : Nat) : List Int := (d ++ List.replicate n 0).take n

/-- default construction: buffer of 1 element (or its fixed size), shape (1,…,1,len buffer) -/
def init (c : Cfg) : St :=
  let n := match c.bk with | .fixed n => n | _ => 1
  let shape := match c.sk with
    | .fixedDim k => List.replicate (k - 1) 1 ++ [n]
    | .clipped ms => List.replicate (ms.length - 1) 1 ++ [n]
    | _ => [n]
  { shape := shape, strides := stridesOf c.colMajor shape, data := List.replicate n 0 }

/-- would `ndarray_t::resize(new)` be accepted in state `st`? (the validation block) -/
def accepts (c : Cfg) (st : St) (new : List Nat) : Bool :=
  (match c.sk with
    | .dyn => true
    | .fixedDim _ => st.shape.length == new.length
    | .bounded cap => new.length ≤ cap
    | .clipped ms => new.length == ms.length && prod new ≤ prod ms && (List.zipWith (fun a b => decide (a ≤ b)) new ms).all id) &&
  (match c.bk with
    | .dyn => true
    | .fixed _ => st.data.length == prod new
    | .bounded cap => prod new ≤ cap)

def resize (c : Cfg) (st : St) (new : List Nat) : St × Bool :=
  if accepts c st new then
    ({ shape := new, strides := stridesOf c.colMajor new, data := resizeBuf st.data (prod new) }, true)
  else (st, false)

/-- element write through operator()(indices…) -/
def write (st : St) (i : Idx) (v : Int) : St :=
  { st with data := st.data.set (computeOffset i st.strides) v }

def read? (st : St) (i : Idx) : Option Int := st.data[computeOffset i st.strides]?

/-- overwrite the whole buffer with `base, base+1, …` (harness helper, keeps shape) -/
def fill (st : St) (base : Int) : St :=
  { st with data := (List.range st.data.length).map (fun (k : Nat) => base + (k : Int)) }

inductive Op where
  | resize (s : List Nat) | write (i : Idx) (v : Int) | fill (base : Int)
deriving Repr

def step (c : Cfg) (st : St) : Op → St × Bool
  | .resize s => resize c st s
  | .write i v => (write st i v, true)
  | .fill b => (fill st b, true)

def run (c : Cfg) (st : St) (ops : List Op) : St := ops.foldl (fun s o => (step c s o).1) st

/-- class invariant -/
def ObjInv (c : Cfg) (st : St) : Prop :=
  st.data.length = prod st.shape ∧ st.strides = stridesOf c.colMajor st.shape ∧
  (match c.sk with | .fixedDim k => st.shape.length = k | .bounded cap => st.shape.length ≤ cap | .clipped ms => st.shape.length = ms.length | .dyn => True) ∧
  (match c.bk with | .fixed n => st.data.length = n | .bounded cap => st.data.length ≤ cap | .dyn => True)

/-- configuration sanity (the template parameters make sense) -/
def CfgOk (c : Cfg) : Prop :=
  (match c.sk with | .fixedDim k => 0 < k | .bounded cap => 0 < cap | .clipped ms => 0 < ms.length | .dyn => True) ∧
  (match c.bk with | .bounded cap => 0 < cap | _ => True)

end NmVerif.NDObj

namespace NmVerif.NDObj
/-- what `a.strides()` reports: `strides_`, always computed by `index::compute_strides(shape_)` (row-major),
    whatever the layout functor is (mirrors ndarray_t; for column-major arrays this is NOT the addressing stride) -/
def reportedStrides (st : St) : List Nat := NmVerif.strides st.shape
end NmVerif.NDObj
