"""C14 — functors, currying, composition and extraction are equivalent to direct views.

IMPL   harness/h_c14_probe.cpp   the functor_t / functor_composition_t / combinator machinery observed with pure probe functors
       harness/h_c14_fn.cpp      functors of array/functional: all at once / curried in every split vs the direct view call
       harness/h_c14_ext.cpp     get_function_composition / get_function_operands / apply / get_compute_graph on views of depth 1..4,
                                 operands of every kind the extraction code tells apart: host arrays, aliased arrays, number literals,
                                 array-valued views and NUMBER-valued views (reductions over all axes: 0-d, `is_num_v` AND `is_view_v`)
       harness/h_c14_mb.cpp      compositions f * g with g returning an nmtools_maybe<view> (run-time validated reshape / broadcast_to / expand_dims /
                                 moveaxis, succeeding and failing) and f every attribute-carrying functor (parametrised unary ufuncs, reductions,
                                 indexing, binary functors, norms) vs the direct view call on the unwrapped operand; binary functors called with a
                                 maybe operand all at once
MODEL  lean/NmVerif/Functional.lean (applyFn, applyComp/run, FC.mul, combinators, compile with the operand dispatch `View.dispatch`,
       operandsOf, IView.graph) over symbolic values
ORACLE python: composition as function composition on operand lists following the parenthesisation tree; NumPy for the view
       programs; expected operand list = leaves in reading order; expected graph = one node per leaf occurrence and operation.
"""
import itertools
import re
import numpy as np
from runner import Case
from shapes import prod, fmt, fmt_lists

ID = 'C14'
LEVEL = 'proof'
RULE = ('probe machine: every composition of a menu of 75 (1..5 functors: probes of arity 1..5 in every position, swap/dup/dig/bury left-most, in the middle and right-most, '
        'every parenthesisation of 3- and 4-chains, (f*g)*(h*k), prebuilt composition blocks multiplied with themselves / each other / functors) x every split of the operand list into chunks '
        '(exact, over- and under-supplied), attribute/operand interleavings for arity 1..5; functors: 43 functors of array/functional (indexing, ufunc, reduce, accumulate, outer, matmul, pooling, norms, activations) '
        'x every curry split and attribute-before/after-operand form vs the direct view, random shapes dim 1..4; extraction: 84 view trees of depth 1..4 with the sub-view in every operand position of unary / binary / ternary nodes, '
        'number-valued sub-views (reduce_add / reduce_maximum / sum over all axes) as first and non-first operands of binary ufuncs alone, nested, under and over other nodes, with repeated and aliased leaves, number literal operands in either position, where with a number-valued condition, unary ufuncs whose op carries run-time parameters (8 parametrised activations, two non-default values each, alone / inner / outer node / first / non-first operand / two in one chain; float leaves, binary32 bit patterns compared within tolerance) '
        'maybe-operand compositions: 48 attribute-carrying functors f (10 parametrised unary ufuncs with two non-default parameter sets each incl. attribute prefixes with the rest defaulted, 13 reductions / accumulations with axis / initial / keepdims, 11 indexing and binary functors, 5 norms) composed to the left of a run-time validated g (reshape / broadcast_to / expand_dims / moveaxis, random shapes dim 1..3, about a quarter failing) in the forms (f*g)(a), (f*g)()(a), f(g(a)), f(view_g(a)), view_f(view_g(a), attrs) vs view_f(unwrap(view_g(a)), attrs), bit-exact, and vs NumPy; '
        '(operand identity by address, static arity, apply(composition, operands) vs view, compute graphs incl. aliased leaves). non-trivial = more than one functor or more than one chunk; every functor / extraction case')
EXHAUSTIVE = {'quick': False, 'thorough': False}
ANCHORS = {'NmVerif.Functional.applyFn': 'functional::apply_function_t<functor_t>::operator() (functor.hpp:368-428), functor_t::operator[] / operator()',
           'NmVerif.Functional.applyComp/run': 'functional::apply_function_t<functor_composition_t>::operator() (functor.hpp:450-528)',
           'NmVerif.Functional.FC.mul': 'functor_t::operator* / operator*(functor_composition_t, ...) (functor.hpp:288-300,348-366)',
           'NmVerif.Functional.swapF/dupF/digF/buryF': 'combinator::swap / dup / dig_n / bury_n (combinator.hpp)',
           'NmVerif.Functional.View.compile': 'functional::get_function_composition (function_composition.hpp:14-128)',
           'NmVerif.Functional.View.dispatch': 'the if-constexpr chain over the operand kind in both get_function_composition_t specialisations (function_composition.hpp:55-65, 106-124): alias / view / number-or-array-that-is-not-a-view, in that order',
           'NmVerif.Functional.View.opsPost / VFun.bindAttrs': 'functional::get_function = functor[view.attributes()] (functional/ufunc/ufunc.hpp:100-130, indexing.hpp, …); for ufunc views view::ufunc_t::attributes() = args::ufunc{op} (view/ufunc/ufunc.hpp:207-210) is the only carrier of the run-time parameters of the op',
           'NmVerif.Functional.View.operandsOf': 'functional::get_function_operands (functor.hpp:776-812)',
           'NmVerif.Functional.Comp.arity': 'functor_composition_t::arity (functor.hpp:134-146), demanded equal to the operand count by functional::apply (functor.hpp:833-835)',
           'NmVerif.Functional.IView.graph': 'functional::get_compute_graph (compute_graph.hpp:14-275) over utility::ct_map / ct_digraph',
           'NmVerif.Functional.generateAlias': 'index::generate_alias (index/alias.hpp:60-88)',
           'NmVerif.Functional.Functor.liftMaybe': 'the is_maybe_v<array_t> branch of the view functions (view::unary_ufunc view/ufunc.hpp:121-130, binary_ufunc, reduce, indexing views): has_value ? maybe{view(*array, attributes...)} : Nothing'}
MANIFEST = dict(
    text='Proof: Lean theorems over ARBITRARY functors (any arity, any operand/attribute types): currying in every split equals one call (curry_any_split, curry_chunks), composition = apply the right-most functor and pass the rest on (comp_apply, comp_two), parenthesisation irrelevant (comp_assoc), combinators are the stated permutations, and a compiler-correctness theorem for extraction (compile_correct/compile_frame: extracted composition applied to extracted operands = host evaluation, by induction on the view tree) on the trees where it holds — with a machine-checked counterexample outside — and compile_arity (the static arity of the extracted composition is the number of extracted operands for every well-formed tree, so functional::apply compiles), compile_one_functor_per_op (one functor per operation, none for arrays / aliases / literals), compile_preserves_params (the composition in execution order is the post-order list of the operations of the tree, each functor with the attribute list of its view: run-time parameters of the op of a ufunc are never lost or exchanged), maybe_view_forwards_attrs / maybe_nothing_propagates / maybe_comp_unwrap (a composition applied to nmtools_maybe operands commutes with unwrapping: same attributes, same values, wrapped; Nothing propagates) and operand_dispatch (the type-trait chain applied to every operand never drops the composition of a view, in particular not of a number-valued view, which is a number and a view at once); the view trees of these theorems contain every operand kind the code distinguishes (host array, alias, number literal, array-valued view, number-valued view); tied to the C++ by differential runs of the real functor machinery (probe functors), of the array/functional functors against direct view calls, and of extraction / operand identity / compute graphs on view trees.',
    note='Lean kernel + propext/Classical.choice/Quot.sound. Node-id uniqueness of the compute graph is not a theorem (ids are hashes mod 1033 and graph-size counters): checked per explored program. Known findings: extraction is wrong when a view operand is not the first operand (also for view::softmax of the library itself; repair proposed: fixes/C14-extract.nonfirst-view-operand.diff, follow-up on branch w4/c1314-postfix); compute-graph ids of sibling sub-views over un-aliased leaves collide (no small repair: ids are part of the view type). Repaired: dangling reference in get_function_composition (regression programs kept; ASan build in the thorough tier).',
    technique='Lean 4 proofs over an abstract stack machine (compiler correctness by mutual structural induction) + differential correspondence')
ASSUMPTIONS = ['functors are pure functions of (attributes, operands)',
               'compute-graph node ids pairwise distinct (hypothesis of graph_nodes / graph_edges; explored, not proved)']
PARTIAL = []


def FLT(g):
    return ['-DC13_ELEM_FLOAT'] if g in FLOAT_GROUPS else []


def harness_specs(tier):
    san = []
    if tier == 'thorough':
        # extraction under ASan + UBSan (lifetime errors of get_function_composition / get_function_operands are results)
        san = [dict(name='h_c14_ext%d_san' % g, src='h_c14_ext.cpp', flavour='san', extra=['-DC14_GROUP=%d' % g] + FLT(g)) for g in SAN_GROUPS]
    return san + ([dict(name='h_c14_probe%d' % g, src='h_c14_probe.cpp', flavour='fast', extra=['-DC14_PROBE_GROUP=%d' % g]) for g in PROBE_GROUPS] +
            [dict(name='h_c14_ext%d' % g, src='h_c14_ext.cpp', flavour='fast', extra=['-DC14_GROUP=%d' % g] + FLT(g)) for g in EXT_GROUPS] +
            [dict(name='h_c14_fn%d' % g, src='h_c14_fn.cpp', flavour='fast', extra=['-DC14_FN_GROUP=%d' % g]) for g in FN_GROUPS] +
            [dict(name='h_c14_mb%d' % g, src='h_c14_mb.cpp', flavour='fast', extra=['-DC14_MB_GROUP=%d' % g]) for g in MB_GROUPS])


# ---------------------------------------------------------------------------------------------------------------
# probe machine: reference semantics (independent of the stack machine: follows the parenthesisation tree)
# ---------------------------------------------------------------------------------------------------------------
ARITY = {'p1': 1, 'p2': 2, 'p3': 3, 'p4': 4, 'p5': 5, 'swap': 2, 'dup': 1, 'dig1': 2, 'dig2': 3, 'bury1': 2, 'bury2': 3}


class Partial(Exception):
    pass


def parse_term(s):
    """'M(M(p2,p1),dig2)' -> ('M', [('M', [...]), ('dig2', [])])"""
    pos = 0

    def term():
        nonlocal pos
        m = re.compile(r'[^(),]+').match(s, pos)
        name = m.group(0); pos = m.end(); args = []
        if pos < len(s) and s[pos] == '(':
            pos += 1
            while True:
                args.append(term())
                if s[pos] == ',':
                    pos += 1
                else:
                    assert s[pos] == ')'; pos += 1; break
        return (name, args)
    t = term(); assert pos == len(s), s
    return t


def atom_apply(name, ops, attrs=()):
    k = ARITY[name]
    if len(ops) < k:
        raise Partial()
    x, rest = list(ops[:k]), list(ops[k:])
    if name.startswith('p'):
        r = ['%s(%s)' % (name, ','.join(x + list(attrs)))]
    elif name == 'swap' or name == 'dig1' or name == 'bury1':
        r = [x[1], x[0]]
    elif name == 'dup':
        r = [x[0], x[0]]
    elif name == 'dig2':
        r = [x[2], x[0], x[1]]
    elif name == 'bury2':
        r = [x[1], x[2], x[0]]
    return r + rest


def tree_apply(t, ops):
    """(l * r)(ops) = l(r(ops)) — function composition on operand lists"""
    name, args = t
    if name == 'M':
        return tree_apply(args[0], tree_apply(args[1], ops))
    return atom_apply(name, ops)


def needed(t):
    for n in range(0, 8):
        try:
            tree_apply(t, [str(i) for i in range(n)]); return n
        except Partial:
            pass
    raise AssertionError(t)


def compositions(n):
    """all ways to cut a list of n items into non-empty chunks (sizes)"""
    if n == 0:
        yield []
        return
    for first in range(1, n + 1):
        for rest in compositions(n - first):
            yield [first] + rest


# one harness TU per group (h_c14_probe.cpp, -DC14_PROBE_GROUP=g)
PROBE_MENU = {
    1: ['p1', 'p2', 'p3', 'swap', 'dup', 'dig1', 'dig2', 'bury1', 'bury2',
        'M(p1,p1)', 'M(p1,p2)', 'M(p2,p1)', 'M(p2,p2)', 'M(p1,p3)', 'M(p3,p1)', 'M(p3,p2)', 'M(p2,p3)',
        'M(p2,swap)', 'M(p2,dup)', 'M(p3,dig2)', 'M(p3,bury2)', 'M(dup,p1)', 'M(swap,swap)', 'M(bury2,dig2)', 'M(p2,dig1)', 'M(p2,bury1)',
        'M(M(p2,p1),dig2)', 'M(p2,M(p1,dig2))', 'M(M(p1,p2),p2)', 'M(p1,M(p2,p2))', 'M(M(p2,swap),p2)', 'M(p2,M(swap,p2))',
        'M(M(p2,p2),dup)', 'M(p2,M(p2,dup))', 'M(M(p3,bury2),p1)', 'M(p3,M(bury2,p1))', 'M(M(p2,p3),p2)', 'M(p2,M(p3,p2))'],
    2: ['M(M(p2,p2),M(p1,bury2))', 'M(p2,M(p2,M(p1,bury2)))', 'M(M(M(p2,p2),p1),bury2)', 'M(M(p2,M(p2,p1)),bury2)', 'M(p2,M(M(p2,p1),bury2))',
        'M(M(p1,p2),M(swap,dup))', 'M(p1,M(p2,M(swap,dup)))', 'M(M(p2,p1),M(p2,dig2))', 'M(M(M(p2,p1),p2),dig2)',
        'M(M(p3,p1),M(p2,p2))', 'M(p3,M(p1,M(p2,p2)))'],
    # arity 4 / 5 functors; combinators left-most, in the middle, right-most
    3: ['p4', 'p5', 'M(p4,p2)', 'M(p2,p4)', 'M(p1,p5)', 'M(p5,dup)', 'M(p4,dig2)',
        'M(swap,p2)', 'M(dig2,p1)', 'M(bury2,p2)', 'M(dup,dup)', 'M(p2,M(dup,p1))', 'M(M(p2,dup),p1)',
        'M(p3,M(dig2,p3))', 'M(M(p3,dig2),p3)', 'M(M(swap,p2),swap)', 'M(swap,M(p2,swap))'],
    # prebuilt blocks (a composition object built once) multiplied with themselves, with each other and with functors
    4: ['M(M(p2,p1),M(p2,p1))', 'M(M(p2,swap),M(p2,p1))', 'M(M(p2,p1),M(p2,swap))', 'M(M(dup,p1),M(p2,p1))', 'M(M(p2,p1),M(dup,p1))',
        'M(p1,M(p2,p1))', 'M(M(p2,p1),p3)', 'M(M(M(p2,p1),M(p2,p1)),M(p2,swap))', 'M(M(p2,p1),M(M(p2,p1),M(p2,swap)))'],
}
PROBE_GROUPS = sorted(PROBE_MENU)
MENU = [(c, g) for g in PROBE_GROUPS for c in PROBE_MENU[g]]
ATTR_PROBES = [('p1', 1), ('p2', 1), ('p3', 1), ('p4', 3), ('p5', 3)]


def nfun(t):
    return 1 if t[0] != 'M' else nfun(t[1][0]) + nfun(t[1][1])


def probe_cases(tier, rng):
    for comp, grp in MENU:
        hname = 'h_c14_probe%d' % grp
        t = parse_term(comp)
        n = needed(t)
        nf = nfun(t)
        vals = [str(v) for v in rng.sample(range(1, 90), 6)]
        variants = []      # (chunk sizes, total operands)
        for total in sorted({max(n - 1, 0), n, min(n + 1, 5)}):
            if total == 0:
                continue
            for cs in compositions(total):
                variants.append(cs)
        for cs in variants:
            ops = vals[:sum(cs)]
            chunks = []; i = 0
            for c in cs:
                chunks.append(ops[i:i + c]); i += c
            steps = ';'.join('o:' + ','.join(c) for c in chunks)
            # spec: defined when the call sequence completes exactly with the last chunk
            oracle = None
            try:
                tree_apply(t, ops[:sum(cs[:-1])])
                early = True
            except Partial:
                early = False
            if not early:
                try:
                    oracle = 'ok values ' + ';'.join(tree_apply(t, ops))
                except Partial:
                    oracle = None      # still curried: the model is the judge
            yield Case('c14_probe comp=%s steps=%s' % (comp, steps), hname, oracle=oracle,
                       nontrivial=(nf > 1 or len(cs) > 1),
                       tags=['probe', 'nfun=%d' % nf, 'chunks=%d' % len(cs), 'supply=' + ('exact' if sum(cs) == n else 'over' if sum(cs) > n else 'under'),
                             'spec' if oracle else 'model-only'])
    # attributes and operands in every interleaving (single probe functors)
    for name, grp in ATTR_PROBES:
        k = ARITY[name]
        for na in [1, 2]:
            attrs = [str(v) for v in rng.sample(range(90, 100), na)]
            for cs in compositions(k):
                ops = [str(v) for v in rng.sample(range(1, 90), k)]
                chunks = []; i = 0
                for c in cs:
                    chunks.append(ops[i:i + c]); i += c
                # attribute steps can go before any operand chunk (after the last one the functor has been applied)
                slots = len(chunks)
                for pos in itertools.combinations_with_replacement(range(slots), na):
                    steps = []
                    ai = 0
                    for ci, c in enumerate(chunks):
                        while ai < na and pos[ai] == ci:
                            steps.append('a:' + attrs[ai]); ai += 1
                        steps.append('o:' + ','.join(c))
                    oracle = 'ok values %s(%s)' % (name, ','.join(ops + attrs))
                    yield Case('c14_probe comp=%s steps=%s' % (name, ';'.join(steps)), 'h_c14_probe%d' % grp, oracle=oracle,
                               tags=['probe', 'attrs=%d' % na, 'chunks=%d' % len(cs)])


# ---------------------------------------------------------------------------------------------------------------
# extraction on view trees: programs, NumPy semantics of the tree nodes, symbolic-term evaluation
# ---------------------------------------------------------------------------------------------------------------
def leaf(shape, j, data):
    n = prod(shape)
    k = np.arange(n, dtype=np.int64)
    if data == 'float':          # multiples of 0.5 in [-3, 3], binary32 (mirror of c13::leaf_value)
        return (0.5 * ((k * 7 + 3 * j) % 13) - 3.0).astype(np.float32).reshape(shape)
    if data == 'cond' and j == 0:
        v = (k % 3 != 1).astype(np.int64)
    else:
        v = k + 1000 * j
    return v.reshape(shape)


OPS = {
    'transpose': lambda x, p: np.transpose(x[0], p['axes']),
    'reduce_add': lambda x, p: np.sum(x[0], axis=p['axis']),
    'reduce_max_keep': lambda x, p: np.max(x[0], axis=p['axis'], keepdims=True),
    'accumulate_add': lambda x, p: np.cumsum(x[0], axis=p['axis']),
    'flip': lambda x, p: np.flip(x[0], p['axis']),
    'tile': lambda x, p: np.tile(x[0], p['reps']),
    'add': lambda x, p: x[0] + x[1],
    'multiply': lambda x, p: x[0] * x[1],
    'subtract': lambda x, p: x[0] - x[1],
    'negative': lambda x, p: -x[0],
    'matmul': lambda x, p: np.matmul(x[0], x[1]),
    'concatenate': lambda x, p: np.concatenate([x[0], x[1]], p['axis']),
    'concatenate0': lambda x, p: np.concatenate([x[0], x[1]], 0),
    'where': lambda x, p: np.where(x[0] != 0, x[1], x[2]),
    'bcast': lambda x, p: np.broadcast_to(x[0], p['bshape']),
    'reshape_v': lambda x, p: x[0].reshape(1, -1) if x[0].ndim == 1 else x[0],
    # number-valued views: reduction over ALL axes, keepdims false (a 0-d result that broadcasts like a scalar)
    'reduce_add_all': lambda x, p: np.sum(x[0]),
    'reduce_max_all': lambda x, p: np.max(x[0]),
}
F32 = np.float32


def _celu(x, a):
    with np.errstate(over='ignore'):
        return np.maximum(F32(0), x) + np.minimum(F32(0), a * (np.exp(x / a) - F32(1)))


def _softplus(x, beta, thr):
    with np.errstate(over='ignore'):
        return np.where(x * beta > thr, x, np.log(F32(1) + np.exp(x * beta)) / beta).astype(np.float32)


# unary ufuncs whose op carries RUN-TIME PARAMETERS (view/activations/*.hpp); term syntax `name[p;q](x)`, binary32 arithmetic
POPS = {
    'leaky_relu': lambda x, q: np.where(x >= 0, x, q[0] * x).astype(np.float32),
    'prelu': lambda x, q: np.where(x >= 0, x, q[0] * x).astype(np.float32),
    'elu': lambda x, q: np.where(x > 0, x, q[0] * (np.exp(np.minimum(x, F32(0))) - F32(1))).astype(np.float32),
    'celu': lambda x, q: _celu(x, q[0]).astype(np.float32),
    'hardtanh': lambda x, q: np.where(x < q[0], q[0], np.where(x > q[1], q[1], x)).astype(np.float32),
    'softplus': lambda x, q: _softplus(x, q[0], q[1]),
    'hardshrink': lambda x, q: np.where((x >= -q[0]) & (x <= q[0]), F32(0), x).astype(np.float32),
    'softshrink': lambda x, q: np.where(x > q[0], x - q[0], np.where(x < -q[0], x + q[0], F32(0))).astype(np.float32),
}
PSEUDO = {'bcast', 'reshape_v', 'concatenate0'}      # python-only helper nodes (no functor of their own / a different functor structure)
NUMBER_VALUED = {'reduce_add_all', 'reduce_max_all'}


def tree_ops(t):
    """operations of a term, or None when it contains python-only helper nodes"""
    name, args = t
    if not args:
        return 0
    if name in PSEUDO:
        return None
    sub = [tree_ops(a) for a in args]
    return None if any(x is None for x in sub) else 1 + sum(sub)


def has_number_valued(t):
    return t[0] in NUMBER_VALUED or any(has_number_valued(a) for a in t[1])


def eval_term(t, env, params):
    """t: parsed term over leaves `x<i>` / `<i>` (host array i) / `a<i>` (aliased) / `s<i>` (operand i is a number literal)"""
    name, args = t
    if not args:
        m = re.fullmatch(r'[xas]?(\d+)', name)
        return env[int(m.group(1))]
    if '[' in name:              # parametrised op: `leaky_relu[3]`, `hardtanh[-0.5;0.75]`
        base, ps = name[:-1].split('[', 1)
        return POPS[base](np.asarray(eval_term(args[0], env, params), dtype=np.float32), [F32(float(v)) for v in ps.split(';')])
    return OPS[name]([eval_term(a, env, params) for a in args], params)


def tree_leaves(t):
    name, args = t
    if not args:
        return [int(re.fullmatch(r'[xas]?(\d+)', name).group(1))]
    return [l for a in args for l in tree_leaves(a)]


def tree_literals(t):
    """operand indices that are number literals (`s<i>`)"""
    name, args = t
    if not args:
        return [int(name[1:])] if name.startswith('s') else []
    return [l for a in args for l in tree_literals(a)]


def tree_depth(t):
    return 0 if not t[1] else 1 + max(tree_depth(a) for a in t[1])


def rshape(rng, min_rank=1, max_rank=4, max_extent=4, cap=30):
    while True:
        s = [rng.randint(1, max_extent) for _ in range(rng.randint(min_rank, max_rank))]
        if prod(s) <= cap:
            return s


def bpartner(rng, s):
    k = rng.randint(0, len(s) - 1) if len(s) > 1 else 0
    t = [e if rng.random() < 0.6 else 1 for e in s[k:]]
    return t if t else [1]


def perm(rng, n):
    p = list(range(n)); rng.shuffle(p); return p


def _ext_progs():
    pr = {}

    def add(name, group, tree, gen, graph=False, nonfirst=False, bview=False, sibling=False, data='prov', nfun=None):
        # nonfirst: a view operand that is not the first operand; bview: binary ufunc over a view operand (regression class of the
        # repaired dangling reference in get_function_composition: ordinary in-domain programs);
        # sibling: two sibling sub-views over un-aliased leaves (compute-graph node ids collide)
        # nfun: number of functors the extracted composition must have when that is not the number of operations of `tree`
        pr[name] = dict(group=group, tree=tree, gen=gen, graph=graph, nonfirst=nonfirst, bview=bview, sibling=sibling, data=data, nfun=nfun)

    def g_tr(rng):
        s = rshape(rng); return [s], dict(axes=perm(rng, len(s)))
    def g_axis(rng):
        s = rshape(rng, min_rank=2); return [s], dict(axis=rng.randrange(len(s)))
    def g_bin(rng):
        s = rshape(rng); t = bpartner(rng, s); return ([s, t] if rng.random() < 0.5 else [t, s]), {}
    def g_tri(rng):
        s = rshape(rng); sh = [s, bpartner(rng, s), bpartner(rng, s)]; rng.shuffle(sh); return sh, {}
    def g_quad(rng):
        s = rshape(rng); sh = [s, bpartner(rng, s), bpartner(rng, s), bpartner(rng, s)]; rng.shuffle(sh); return sh, {}
    def g_matmul(rng):
        m, k, n = rng.randint(1, 4), rng.randint(1, 4), rng.randint(1, 4); return [[m, k], [k, n]], {}
    def g_concat(rng):
        s = rshape(rng, cap=18); ax = rng.randrange(len(s)); t = list(s); t[ax] = rng.randint(1, 3); return [s, t], dict(axis=ax)
    def g_where(rng):
        s = rshape(rng, cap=24); sh = [bpartner(rng, s), s, bpartner(rng, s)]; return sh, dict(bshape=s)
    def g_vstack(rng):
        s = rshape(rng, cap=18)
        if len(s) == 1:
            return [s, list(s)], {}
        t = list(s); t[0] = rng.randint(1, 3); return [s, t], {}
    def g_bin_axis(rng):
        s = rshape(rng, min_rank=2); return [s, bpartner(rng, s)], dict(axis=rng.randrange(len(s)))
    def g_bin_axes(rng):
        s = rshape(rng); return [s, bpartner(rng, s)], dict(axes=perm(rng, len(s)))
    def g_tr_axis(rng):
        s = rshape(rng); return [s], dict(axes=perm(rng, len(s)), axis=rng.randrange(len(s)))
    def g_add_tr(rng):
        s = rshape(rng); ax = perm(rng, len(s)); ts = [s[i] for i in ax]; return [s, bpartner(rng, ts)], dict(axes=ax)
    def g_bin_axes_axis(rng):
        s = rshape(rng, min_rank=2); return [s, bpartner(rng, s)], dict(axes=perm(rng, len(s)), axis=rng.randrange(len(s)))
    def g_ftt(rng):
        s = rshape(rng, cap=12); return [s], dict(axes=perm(rng, len(s)), reps=[rng.randint(1, 2) for _ in s], axis=rng.randrange(len(s)))
    def g_same3(rng):
        s = rshape(rng, cap=12); return [s, list(s), list(s)], {}
    def g_same4(rng):
        s = rshape(rng, cap=12); return [s, list(s), list(s), list(s)], {}

    add('transpose', 1, 'transpose(0)', g_tr, graph=True)
    add('reduce_add', 1, 'reduce_add(0)', g_axis, graph=True)
    add('add', 1, 'add(0,1)', g_bin, graph=True)
    add('negative', 1, 'negative(0)', lambda rng: ([rshape(rng)], {}))
    add('matmul', 1, 'matmul(0,1)', g_matmul)
    add('concatenate', 1, 'concatenate(0,1)', g_concat)
    add('raw_matmul', 1, 'matmul(0,1)', lambda rng: ([[2, 3], [3, 2]], {}))      # bounded C arrays as leaves (fixed in the harness)
    add('where', 2, 'where(bcast(0),bcast(1),bcast(2))', g_where, nonfirst=True, data='cond')
    add('vstack', 2, 'concatenate0(reshape_v(0),reshape_v(1))', g_vstack, nonfirst=True)
    add('neg_add', 2, 'negative(add(0,1))', g_bin, graph=True)
    add('sum_mul', 2, 'reduce_add(multiply(0,1))', g_bin_axis)
    add('tr_add', 2, 'transpose(add(0,1))', g_bin_axes, graph=True)
    add('cumsum_tr', 2, 'accumulate_add(transpose(0))', g_tr_axis)
    add('add_tr', 3, 'add(transpose(0),1)', g_add_tr, bview=True)
    add('add_mul2', 3, 'add(0,multiply(1,2))', g_tri, graph=True, nonfirst=True)
    add('neg_add_mul', 3, 'negative(add(multiply(0,1),2))', g_tri, graph=True, bview=True)
    add('tr_neg_add', 3, 'transpose(negative(add(0,1)))', g_bin_axes)
    add('sum_tr_mul', 3, 'reduce_add(transpose(multiply(0,1)))', g_bin_axes_axis)
    add('flip_tile_tr', 4, 'flip(tile(transpose(0)))', g_ftt)
    add('neg_sub_max', 4, 'negative(subtract(0,reduce_max_keep(0)))', g_axis, nonfirst=True)
    add('add_mm', 4, 'add(multiply(0,1),multiply(2,3))', g_quad, graph=True, nonfirst=True, sibling=True)
    add('add_ms', 4, 'add(multiply(0,1),subtract(2,3))', g_quad, graph=True, nonfirst=True, sibling=True)
    add('d4_neg_tr_neg_add', 5, 'negative(transpose(negative(add(0,1))))', g_bin_axes, graph=True)
    add('d4_sum_tr_neg_mul', 5, 'reduce_add(transpose(negative(multiply(0,1))))', g_bin_axes_axis)
    add('d4_flip_tile_tr_neg', 5, 'flip(tile(transpose(negative(0))))', g_ftt)
    add('d4_cumsum_neg_tr_add', 5, 'accumulate_add(negative(transpose(add(0,1))))', g_bin_axes_axis)
    add('rep_neg_add_mul', 6, 'negative(add(multiply(0,1),1))', lambda rng: (lambda s: ([s, bpartner(rng, s)], {}))(rshape(rng)), graph=True, bview=True)
    add('al_add_mm', 7, 'add(multiply(a0,a1),multiply(a1,a2))', g_same3, graph=True, nonfirst=True)
    add('al_neg_add_mul', 7, 'negative(add(multiply(a0,a1),a1))', g_same3, graph=True, bview=True)
    add('al_add_mul2', 6, 'add(a0,multiply(a1,a2))', g_same3, graph=True, nonfirst=True)
    add('al_neg_sq', 6, 'negative(multiply(a0,a0))', lambda rng: ([rshape(rng, cap=12)], {}), graph=True)
    # ---- the sub-view in EVERY operand position (first position: in-domain; any other: the known class) ----
    def g_mm_x_tr(rng):
        m, k, n = rng.randint(1, 4), rng.randint(1, 4), rng.randint(1, 4); return [[m, k], [n, k]], dict(axes=[1, 0])
    def g_mm_tr_x(rng):
        m, k, n = rng.randint(1, 4), rng.randint(1, 4), rng.randint(1, 4); return [[k, m], [k, n]], dict(axes=[1, 0])
    def g_sub_x_neg_tr(rng):
        s = rshape(rng); ax = perm(rng, len(s)); ts = [s[i] for i in ax]; return [bpartner(rng, ts), s], dict(axes=ax)
    def g_sum_add_x_tr(rng):
        s = rshape(rng, min_rank=2); ax = perm(rng, len(s)); ts = [s[i] for i in ax]
        return [bpartner(rng, ts), s], dict(axes=ax, axis=rng.randrange(len(s)))
    add('sub_x_neg', 8, 'subtract(0,negative(1))', g_bin, graph=True, nonfirst=True)
    add('matmul_x_tr', 8, 'matmul(0,transpose(1))', g_mm_x_tr, nonfirst=True)
    add('matmul_tr_x', 8, 'matmul(transpose(0),1)', g_mm_tr_x)
    add('concat_x_flip', 8, 'concatenate(0,flip(1))', g_concat, nonfirst=True)
    add('concat_flip_x', 8, 'concatenate(flip(0),1)', g_concat)
    add('where_v0', 9, 'where(bcast(negative(0)),bcast(1),bcast(2))', g_where, nonfirst=True, data='cond')
    add('where_v1', 9, 'where(bcast(0),bcast(negative(1)),bcast(2))', g_where, nonfirst=True, data='cond')
    add('where_v2', 9, 'where(bcast(0),bcast(1),bcast(negative(2)))', g_where, nonfirst=True, data='cond')
    add('add_x_mul_x_neg', 9, 'add(0,multiply(1,negative(2)))', g_tri, nonfirst=True)
    add('mul_add_x_neg_x', 9, 'multiply(add(0,negative(1)),2)', g_tri, nonfirst=True)
    add('sub_x_neg_tr', 10, 'subtract(0,negative(transpose(1)))', g_sub_x_neg_tr, nonfirst=True)
    add('d4_neg_add_x_mul_neg', 10, 'negative(add(0,multiply(negative(1),2)))', g_tri, nonfirst=True)
    add('d4_add_nmn_sxn', 10, 'add(negative(multiply(negative(0),1)),subtract(2,negative(3)))', g_quad, nonfirst=True)
    add('d4_sum_add_x_tr_neg', 10, 'reduce_add(add(0,transpose(negative(1))))', g_sum_add_x_tr, nonfirst=True)
    add('d4_neg_sub_mul_neg', 10, 'negative(subtract(multiply(negative(0),1),2))', g_tri, bview=True)
    # ---- NUMBER-valued sub-views: reduce_add_all / reduce_max_all = reduction over all axes (axis None, keepdims false), an
    #      `is_num_v` view, as an operand of a broadcasting binary ufunc (which looks through the broadcast_to around it) ----
    def g_free2(rng):
        return [rshape(rng), rshape(rng)], {}
    def g_one(rng):
        return [rshape(rng)], {}
    def g_sum_free(rng):
        s = rshape(rng, min_rank=2); return [s, rshape(rng)], dict(axis=rng.randrange(len(s)))
    def g_pair_free(rng):
        s = rshape(rng); return [s, bpartner(rng, s), rshape(rng)], {}
    def g_free_pair(rng):
        s = rshape(rng); return [rshape(rng), s, bpartner(rng, s)], {}
    def g_free_tr(rng):
        s = rshape(rng); return [rshape(rng), s], dict(axes=perm(rng, len(s)))
    def g_free_axis(rng):
        s = rshape(rng, min_rank=2); return [rshape(rng), s], dict(axis=rng.randrange(len(s)))
    add('mul_sumall_x', 11, 'multiply(reduce_add_all(0),1)', g_free2, graph=True, bview=True)
    add('sub_maxall_x', 11, 'subtract(reduce_max_all(0),1)', g_free2, bview=True)
    add('mul_vsumall_x', 11, 'multiply(reduce_add_all(0),1)', g_free2, bview=True)             # view::sum(a, None)
    add('add_x_maxall', 11, 'add(0,reduce_max_all(1))', g_free2, nonfirst=True)
    add('sub_sumall_x_rep', 11, 'subtract(reduce_add_all(0),0)', g_one, bview=True)           # repeated leaf
    add('sub_x_sumall_rep', 11, 'subtract(0,reduce_add_all(0))', g_one, nonfirst=True)
    add('mul_sumall_neg_x', 11, 'multiply(reduce_add_all(negative(0)),1)', g_free2, bview=True)
    add('mul_sumall_sum_x', 11, 'multiply(reduce_add_all(reduce_add(0)),1)', g_sum_free, bview=True)
    add('neg_mul_sumall_mul_x', 12, 'negative(multiply(reduce_add_all(multiply(0,1)),2))', g_pair_free, bview=True)
    add('add_mul_sumall_x_x', 12, 'add(multiply(reduce_add_all(0),1),2)', g_free_pair, bview=True)
    add('tr_add_maxall_x', 12, 'transpose(add(reduce_max_all(0),1))', g_free_tr, bview=True)
    add('mul_x_sumall_mul', 12, 'multiply(0,reduce_add_all(multiply(1,2)))', g_free_pair, nonfirst=True)
    add('sum_mul_maxall_x', 12, 'reduce_add(multiply(reduce_max_all(0),1))', g_free_axis, bview=True)
    add('al_mul_sumall', 12, 'multiply(reduce_add_all(a0),a1)', g_free2, graph=True, bview=True)
    # ---- number LITERAL operands (`s<i>`: operand i of the program is the literal `lit`, its shapes= entry a dummy) of binary ufuncs in
    #      either position: held by value in the extracted operand tuple, no functor of their own; ternary where with a number-valued
    #      condition (where broadcasts all three operands with broadcast_to VIEWS: non-first view operands, the known class) ----
    def lit(rng):
        return rng.choice([-7, -2, -1, 0, 1, 2, 3, 5, 11])
    def g_x_lit(rng):
        return [rshape(rng), [1]], dict(lit=lit(rng), litidx=1)
    def g_lit_x(rng):
        return [[1], rshape(rng)], dict(lit=lit(rng), litidx=0)
    def g_x_lit_x(rng):
        s = rshape(rng); return [s, [1], bpartner(rng, s)], dict(lit=lit(rng), litidx=1)
    def g_sum_lit(rng):
        s = rshape(rng, min_rank=2); return [s, [1]], dict(axis=rng.randrange(len(s)), lit=lit(rng), litidx=1)
    def g_where_num(rng):
        s = rshape(rng, cap=24); return [rshape(rng), s, bpartner(rng, s)], dict(bshape=s)
    def g_where_lit(rng):
        s = rshape(rng, cap=24); return [[1], s, bpartner(rng, s)], dict(bshape=s, lit=rng.choice([0, 0, 1, -3]), litidx=0)
    add('add_x_lit', 13, 'add(0,s1)', g_x_lit)
    add('mul_lit_x', 13, 'multiply(s0,1)', g_lit_x)
    add('neg_add_mul_x_lit_x', 13, 'negative(add(multiply(0,s1),2))', g_x_lit_x, bview=True)
    add('add_sum_lit', 13, 'add(reduce_add(0),s1)', g_sum_lit, bview=True)
    add('sub_lit_neg_x', 13, 'subtract(s0,negative(1))', g_lit_x, nonfirst=True)
    add('where_maxall', 13, 'where(bcast(reduce_max_all(0)),bcast(1),bcast(2))', g_where_num, nonfirst=True)
    add('where_lit', 13, 'where(bcast(s0),bcast(1),bcast(2))', g_where_lit, nonfirst=True)
    # ---- unary ufuncs whose op carries RUN-TIME PARAMETERS (float leaves): the extracted functor gets the op — and with it the
    #      parameter — through ufunc_t::attributes() only.  Two NON-DEFAULT values per op (quarter units), one far from the default,
    #      taken in turn.  Tree templates: {i} = parameter i ----
    def pgen(values, shapes_of):
        cyc = itertools.cycle(values)
        def g(rng):
            shapes, params = shapes_of(rng)
            params = dict(params); params['pq'] = list(next(cyc)); return shapes, params
        return g
    one = lambda rng: ([rshape(rng)], {})
    ACT = [('leaky', 'leaky_relu[{0}]', [(2,), (12,)]), ('elu', 'elu[{0}]', [(2,), (10,)]), ('celu', 'celu[{0}]', [(2,), (10,)]),
           ('hardtanh', 'hardtanh[{0};{1}]', [(-2, 3), (-10, 8)]), ('softplus', 'softplus[{0};{1}]', [(8, 2), (2, 4)]),
           ('hardshrink', 'hardshrink[{0}]', [(1,), (8,)]), ('softshrink', 'softshrink[{0}]', [(1,), (5,)]), ('prelu', 'prelu[{0}]', [(2,), (16,)])]
    for short, term, vals in ACT:
        add('act_' + short, 14, term + '(0)', pgen(vals, one), data='float', graph=(short == 'leaky'))
    LK = [(2,), (12,)]
    add('neg_leaky', 15, 'negative(leaky_relu[{0}](0))', pgen(LK, one), data='float')
    add('leaky_add', 15, 'leaky_relu[{0}](add(0,1))', pgen(LK, g_bin), data='float')
    add('add_leaky_x', 15, 'add(leaky_relu[{0}](0),1)', pgen(LK, g_bin), data='float', bview=True)
    add('add_x_leaky', 15, 'add(0,leaky_relu[{0}](1))', pgen(LK, g_bin), data='float', nonfirst=True)
    add('mul_x_hardshrink', 15, 'multiply(0,hardshrink[{0}](1))', pgen([(1,), (8,)], g_bin), data='float', nonfirst=True)
    add('hardtanh_mul_elu_x', 15, 'hardtanh[{1};{2}](multiply(elu[{0}](0),1))', pgen([(10, -2, 3), (2, -10, 8)], g_bin), data='float', bview=True)
    add('sum_softshrink', 15, 'reduce_add(softshrink[{0}](0))', pgen([(1,), (5,)], g_axis), data='float')
    add('prelu_tr', 15, 'prelu[{0}](transpose(0))', pgen([(2,), (16,)], g_tr), data='float')
    add('celu_neg_softplus', 15, 'celu[{2}](negative(softplus[{0};{1}](0)))', pgen([(8, 2, 10), (2, 4, 2)], one), data='float')
    return pr


FLOAT_GROUPS = [14, 15]          # TUs with float leaves (-DC13_ELEM_FLOAT): elements printed as binary32 bit patterns
EXT = _ext_progs()
EXT_GROUPS = [1, 2, 3, 4, 5, 6, 7, 8, 9, 10, 11, 12, 13, 14, 15]
SAN_GROUPS = [2, 3, 5, 6, 7, 8, 10, 11, 12, 13, 15]      # the groups with binary ufuncs over view operands / depth 3-4 trees


def parse_kv(ans):
    d = {}
    for kv in ans.split()[1:]:
        if '=' in kv:
            k, v = kv.split('=', 1); d[k] = v
    return d


def fmt_arr(x):
    x = np.asarray(x)
    return fmt(list(x.shape)) + '|' + fmt([int(v) for v in x.reshape(-1)])


def fmt_arr_f(x):
    """binary32 array as shape|bit patterns (int32), the way the float harness TUs print elements"""
    x = np.ascontiguousarray(np.asarray(x, dtype=np.float32))
    return fmt(list(x.shape)) + '|' + fmt([int(v) for v in x.reshape(-1).view(np.int32)])


def decode_f(sd):
    """shape|bit patterns -> (shape string, float array)"""
    sh, data = sd.split('|')
    codes = [] if data in ('[]', '') else [int(v) for v in data.split(',')]
    return sh, np.array(codes, dtype=np.int64).astype(np.int32).view(np.float32).astype(np.float64)


def close_f(a, b):
    try:
        (sa, xa), (sb, xb) = decode_f(a), decode_f(b)
    except Exception:
        return a == b
    return sa == sb and xa.shape == xb.shape and bool(np.allclose(xa, xb, rtol=2e-5, atol=2e-6))


def make_extract_cmp(env, params, flt=False):
    """answers are compared on the keys both sides know: leaves, nfun, result (= what extraction + apply computes),
    host (= host evaluation of the view).  Symbolic terms (Lean model) are evaluated with NumPy here."""
    def canon(ans):
        if not ans.startswith('ok '):
            return {'raw': ans}
        d = parse_kv(ans); c = {'leaves': d.get('leaves')}
        if 'nfun' in d:
            c['nfun'] = d['nfun']
        if 'arity' in d:
            c['arity'] = d['arity']
        if 'term' in d:          # model: symbolic
            for key, src in (('result', 'term'), ('host', 'view')):
                try:
                    c[key] = (fmt_arr_f if flt else fmt_arr)(eval_term(parse_term(d[src]), env, params))
                except Exception as e:
                    c[key] = 'error'
        else:
            if 'adata' in d:
                c['result'] = d['ashape'] + '|' + d['adata']
            if 'data' in d:
                c['host'] = d['shape'] + '|' + d['data']
            if 'result' in d:    # oracle
                c['result'] = d['result']; c['host'] = d['result']
        return c

    def cmp(a, b):
        ca, cb = canon(a), canon(b)
        if 'raw' in ca or 'raw' in cb:
            return a == b
        if flt:      # element values are binary32 bit patterns: compared as numbers, within float tolerance
            return all((close_f(ca[k], cb[k]) if k in ('result', 'host') else ca[k] == cb[k]) for k in ca if k in cb)
        return all(ca[k] == cb[k] for k in ca if k in cb)
    return cmp


def canon_graph(ans):
    """isomorphism-invariant form of a compute graph answer: multiset of node signatures + edge consistency"""
    if not ans.startswith('ok '):
        return ans
    d = parse_kv(ans)
    nodes = {}
    for n in d['nodes'].split(','):
        k, lab = n.split(':', 1)
        if lab.startswith('L'):
            nodes[k] = ('L', lab[1:])
        else:
            m = re.fullmatch(r'F(\d+)\[(.*)\]', lab)
            nodes[k] = ('F', [x for x in m.group(2).split('/') if x != ''])
    elist = [] if d['edges'] == '[]' else [tuple(e.split('>')) for e in d['edges'].split(',')]
    edges = set(elist)
    want = set((o, k) for k, (kind, v) in nodes.items() if kind == 'F' for o in v)
    memo = {}

    def sig(k, depth=0):
        if k not in nodes or depth > 50:
            return '?'
        if k not in memo:
            kind, v = nodes[k]
            memo[k] = 'L' + v if kind == 'L' else 'F(' + ','.join(sig(o, depth + 1) for o in v) + ')'
        return memo[k]
    sigs = sorted(sig(k) for k in nodes)
    return 'graph n=%d edges_ok=%d dup_edges=%d sigs=%s' % (len(nodes), int(edges == want), int(len(elist) != len(edges)), '|'.join(sigs))


def graph_cmp(a, b):
    return canon_graph(a) == canon_graph(b)


def ideal_graph(t):
    """one node per leaf occurrence (per alias id for aliased leaves) and per operation; edges from each operation's inputs"""
    nodes = []; edges = []; ctr = [1000]; alias = {}

    def walk(t):
        name, args = t
        if not args:
            m = re.fullmatch(r'(a?)(\d+)', name)
            if m.group(1):
                k = 'a' + m.group(2)
                if k not in alias:
                    alias[k] = str(int(m.group(2))); nodes.append('%s:L%s' % (alias[k], m.group(2)))
                return alias[k]
            ctr[0] += 1; nid = str(ctr[0]); nodes.append('%s:L%s' % (nid, m.group(2))); return nid
        ins = [walk(a) for a in args]
        ctr[0] += 1; nid = str(ctr[0])
        nodes.append('%s:F%d[%s]' % (nid, len(ins), '/'.join(ins)))
        for i in ins:
            if '%s>%s' % (i, nid) not in edges:
                edges.append('%s>%s' % (i, nid))
        return nid
    walk(t)
    return 'ok nodes=%s edges=%s' % (','.join(nodes), ','.join(edges) if edges else '[]')


def fmt_params(p):
    out = []
    for k in sorted(p):
        if k == 'bshape':
            continue
        v = p[k]
        out.append('%s=%s' % (k, fmt(v) if isinstance(v, (list, tuple)) else str(int(v))))
    return ' '.join(out)


def ext_cases(tier, rng):
    ncase = 4 if tier == 'quick' else 30
    for name, pg in EXT.items():
        h = 'h_c14_ext%d' % pg['group']
        flt = pg['data'] == 'float'
        made = tries = 0
        while made < ncase and tries < 10 * ncase:
            tries += 1
            shapes, params = pg['gen'](rng)
            # run-time parameters of parametrised ops (`pq`, quarter units) are part of the term: leaky_relu[{0}](0) -> leaky_relu[3](0)
            tree = pg['tree'].format(*['%g' % (q / 4.0) for q in params['pq']]) if 'pq' in params else pg['tree']
            t = parse_term(tree)
            env = [leaf(s, j, pg['data']) for j, s in enumerate(shapes)]
            for j in tree_literals(t):
                env[j] = np.int64(params['lit'])
            try:
                res = np.asarray(eval_term(t, env, params))
            except ValueError:
                continue
            if res.size == 0 or res.size > 64 or np.abs(res).max() >= 2 ** 31:
                continue
            made += 1
            req = ' '.join(('c14_extract prog=%s shapes=%s %s data=%s' % (name, fmt_lists(shapes), fmt_params(params), pg['data'])).split())
            off = pg['nonfirst']
            # fn::apply demands (static_assert) that the arity of the extracted function is the number of extracted operands
            # … and one functor per operation of the view tree (Props.C14.compile_one_functor_per_op)
            nf = pg['nfun'] if pg['nfun'] is not None else tree_ops(t)
            oracle = 'ok leaves=%s arity=%d%s result=%s' % (fmt(tree_leaves(t)), len(tree_leaves(t)), '' if nf is None else ' nfun=%d' % nf, (fmt_arr_f if flt else fmt_arr)(res))
            yield Case(req, h, dom=not off, oracle=oracle, mreq='c14_extract tree=%s' % tree, cmp=make_extract_cmp(env, params, flt),
                       tags=['extract', 'prog=' + name, 'depth=%d' % tree_depth(t)] + (['nonfirst'] if pg['nonfirst'] else []) + (['bview'] if pg['bview'] else [])
                            + (['number-valued-view'] if has_number_valued(t) else []) + (['literal-operand'] if tree_literals(t) else []) + (['parametrised-op'] if 'pq' in params else []))
            if pg['graph'] and made <= 2:
                greq = ' '.join(('c14_graph prog=%s shapes=%s %s data=%s' % (name, fmt_lists(shapes), fmt_params(params), pg['data'])).split())
                yield Case(greq, h, dom=not pg['sibling'], oracle=ideal_graph(t), mreq='c14_graph tree=%s' % tree, cmp=graph_cmp,
                           tags=['graph', 'prog=' + name, 'depth=%d' % tree_depth(t)] + (['sibling'] if pg['sibling'] else []))
    # generate_alias: the hash behind the node ids
    for i in range(40 if tier == 'quick' else 400):
        ids = [rng.randrange(1033) for _ in range(rng.randint(1, 6))]
        r = 0
        for x in ids:
            r = (r * 512 + x) % 1033
        yield Case('c14_alias ids=%s' % fmt(ids), 'h_c14_ext1', oracle='ok %d' % r, tags=['alias'])


# ---------------------------------------------------------------------------------------------------------------
# functors of array/functional vs direct view calls
# ---------------------------------------------------------------------------------------------------------------
def fleaf(shape, j, data):
    n = prod(shape); k = np.arange(n)
    if data == 'cond' and j == 0:
        return (k % 3 != 1).astype(np.int64).reshape(shape)
    if data == 'float':
        return (0.25 * ((k * 7 + 3 * j) % 11) - 1.0).reshape(shape)
    if data == 'fpos':
        return (0.25 * ((k * 7 + 3 * j) % 11)).reshape(shape)
    return (k + 1000 * j).astype(np.int64).reshape(shape)


def softmax_np(x, axis):
    e = np.exp(x - np.max(x, axis=axis, keepdims=True)); return e / e.sum(axis=axis, keepdims=True)


def pool_np(x, k, st, f):
    h, w = x.shape[-2:]
    oh, ow = (h - k[0]) // st[0] + 1, (w - k[1]) // st[1] + 1
    out = np.empty(x.shape[:-2] + (oh, ow))
    for i in range(oh):
        for j in range(ow):
            out[..., i, j] = f(x[..., i * st[0]:i * st[0] + k[0], j * st[1]:j * st[1] + k[1]], axis=(-2, -1))
    return out


def _fn_table():
    T = {}

    def add(name, group, n, ref, gen, data='prov'):
        T[name] = dict(group=group, n=n, ref=ref, gen=gen, data=data)
    one = lambda rng: ([rshape(rng)], {})
    def g_tr(rng):
        s = rshape(rng); return [s], dict(axes=perm(rng, len(s)))
    def g_axis(rng):
        s = rshape(rng); return [s], dict(axis=rng.randrange(len(s)))
    def g_axis2(rng):
        s = rshape(rng, min_rank=2); return [s], dict(axis=rng.randrange(len(s)))
    def g_bin(rng):
        s = rshape(rng); t = bpartner(rng, s); return ([s, t] if rng.random() < 0.5 else [t, s]), {}
    add('transpose', 1, 1, lambda x, p: np.transpose(x[0], p['axes']), g_tr)
    add('flip', 1, 1, lambda x, p: np.flip(x[0], p['axis']), g_axis)
    add('tile', 1, 1, lambda x, p: np.tile(x[0], p['reps']), lambda rng: (lambda s: ([s], dict(reps=[rng.randint(1, 2) for _ in range(rng.randint(1, len(s) + 1))])))(rshape(rng, cap=12)))
    add('repeat', 1, 1, lambda x, p: np.repeat(x[0], p['r'], p['axis']), lambda rng: (lambda s: ([s], dict(r=rng.randint(1, 3), axis=rng.randrange(len(s)))))(rshape(rng, cap=16)))
    add('expand_dims', 1, 1, lambda x, p: np.expand_dims(x[0], p['axis']), lambda rng: (lambda s: ([s], dict(axis=rng.randint(0, len(s)))))(rshape(rng, max_rank=3)))
    def g_squeeze(rng):
        s = rshape(rng); s[rng.randrange(len(s))] = 1
        if all(e == 1 for e in s):
            s.append(rng.randint(2, 4))
        return [s], {}
    add('squeeze', 1, 1, lambda x, p: np.squeeze(x[0]), g_squeeze)
    add('flatten', 1, 1, lambda x, p: x[0].reshape(-1), one)
    add('moveaxis', 1, 1, lambda x, p: np.moveaxis(x[0], p['src'], p['dst']), lambda rng: (lambda s: ([s], dict(src=rng.randrange(len(s)), dst=rng.randrange(len(s)))))(rshape(rng, min_rank=2)))
    add('atleast_2d', 1, 1, lambda x, p: np.atleast_2d(x[0]), lambda rng: ([rshape(rng, max_rank=3)], {}))
    def g_reshape(rng):
        s = rshape(rng); n = prod(s); d = rng.choice([x for x in range(1, n + 1) if n % x == 0]); return [s], dict(to=[d, n // d])
    add('reshape', 1, 1, lambda x, p: x[0].reshape(p['to']), g_reshape)
    add('broadcast_to', 1, 1, lambda x, p: np.broadcast_to(x[0], p['to']), lambda rng: (lambda t: ([bpartner(rng, t)], dict(to=t)))(rshape(rng)))
    def g_concat(rng):
        s = rshape(rng, cap=18); ax = rng.randrange(len(s)); t = list(s); t[ax] = rng.randint(1, 3); return [s, t], dict(axis=ax)
    add('concatenate', 1, 2, lambda x, p: np.concatenate([x[0], x[1]], p['axis']), g_concat)
    def g_hstack(rng):
        s = rshape(rng, cap=18); ax = 0 if len(s) == 1 else 1; t = list(s); t[ax] = rng.randint(1, 3); return [s, t], {}
    add('hstack', 1, 2, lambda x, p: np.hstack([x[0], x[1]]), g_hstack)
    def g_vstack(rng):
        s = rshape(rng, cap=18)
        if len(s) == 1:
            return [s, list(s)], {}
        t = list(s); t[0] = rng.randint(1, 3); return [s, t], {}
    add('vstack', 1, 2, lambda x, p: np.vstack([x[0], x[1]]), g_vstack)
    add('where', 1, 3, lambda x, p: np.where(x[0] != 0, x[1], x[2]), lambda rng: (lambda s: ([bpartner(rng, s), s, bpartner(rng, s)], {}))(rshape(rng, cap=24)), data='cond')
    add('add', 2, 2, lambda x, p: x[0] + x[1], g_bin)
    add('multiply', 2, 2, lambda x, p: x[0] * x[1], g_bin)
    add('subtract', 2, 2, lambda x, p: x[0] - x[1], g_bin)
    add('maximum', 2, 2, lambda x, p: np.maximum(x[0], x[1]), g_bin)
    add('negative', 2, 1, lambda x, p: -x[0], one)
    add('reduce_add', 2, 1, lambda x, p: np.sum(x[0], axis=p['axis']), g_axis2)
    add('reduce_add_keep', 2, 1, lambda x, p: np.sum(x[0], axis=p['axis'], keepdims=True), g_axis2)
    add('reduce_maximum', 2, 1, lambda x, p: np.max(x[0], axis=p['axis']), g_axis2)
    add('accumulate_add', 2, 1, lambda x, p: np.cumsum(x[0], axis=p['axis']), g_axis)
    g_outer = lambda rng: ([rshape(rng, max_rank=2, cap=8), rshape(rng, max_rank=2, cap=8)], {})
    add('outer_add', 2, 2, lambda x, p: np.add.outer(x[0], x[1]), g_outer)
    add('outer_multiply', 2, 2, lambda x, p: np.multiply.outer(x[0], x[1]), g_outer)
    add('matmul', 2, 2, lambda x, p: np.matmul(x[0], x[1]), lambda rng: (lambda m, k, n: ([[m, k], [k, n]], {}))(rng.randint(1, 4), rng.randint(1, 4), rng.randint(1, 4)))
    add('sum', 2, 1, lambda x, p: np.sum(x[0], axis=p['axis']), g_axis2)
    g_small = lambda rng: (lambda s: ([s], dict(axis=rng.randrange(len(s)))))(rshape(rng, min_rank=2, max_extent=3, cap=9))
    add('prod', 2, 1, lambda x, p: np.prod(x[0] % 7, axis=p['axis']) if False else np.prod(x[0], axis=p['axis']), g_small)
    add('cumsum', 2, 1, lambda x, p: np.cumsum(x[0], axis=p['axis']), g_axis)
    add('cumprod', 2, 1, lambda x, p: np.cumprod(x[0], axis=p['axis']), g_small)
    add('tanh', 3, 1, lambda x, p: np.tanh(x[0]), one, data='float')
    add('exp', 3, 1, lambda x, p: np.exp(x[0]), one, data='float')
    add('relu', 3, 1, lambda x, p: np.maximum(x[0], 0), one, data='float')
    add('sigmoid', 3, 1, lambda x, p: 1 / (1 + np.exp(-x[0])), one, data='float')
    add('mean', 3, 1, lambda x, p: np.mean(x[0], axis=p['axis']), g_axis2, data='float')
    add('var', 3, 1, lambda x, p: np.var(x[0], axis=p['axis']), g_axis2, data='float')
    add('stddev', 3, 1, lambda x, p: np.std(x[0], axis=p['axis']), g_axis2, data='float')
    add('softmax', 3, 1, lambda x, p: softmax_np(x[0], p['axis']), g_axis2, data='float')
    add('softmin', 3, 1, lambda x, p: softmax_np(-x[0], p['axis']), g_axis2, data='float')
    def g_pool(rng):
        lead = [rng.randint(1, 2) for _ in range(rng.randint(1, 2))]; h, w = rng.randint(2, 5), rng.randint(2, 5)
        return [lead + [h, w]], dict(k=[rng.randint(1, min(2, h)), rng.randint(1, min(2, w))], st=[rng.randint(1, 2), rng.randint(1, 2)])
    add('max_pool2d', 3, 1, lambda x, p: pool_np(x[0], p['k'], p['st'], np.max), g_pool, data='fpos')   # non-negative data: max_pool2d of negative windows gives 0 (C17's business)
    add('avg_pool2d', 3, 1, lambda x, p: pool_np(x[0], p['k'], p['st'], np.mean), g_pool, data='fpos')
    # divide by values away from zero: operand 1 shifted
    return T


FN = _fn_table()
FN_GROUPS = [1, 2, 3]
NFORMS = {1: 1, 2: 3, 3: 6}


def fn_cmp(a, b):
    """shape / splits / agree exact, data within float tolerance"""
    if not (a.startswith('ok ') and b.startswith('ok ')):
        return a == b
    da, db = parse_kv(a), parse_kv(b)
    if any(da.get(k) != db.get(k) for k in ('shape', 'splits', 'agree')):
        return False
    fa = np.array([float(v) for v in da['data'].split(',')]) if da['data'] != '[]' else np.array([])
    fb = np.array([float(v) for v in db['data'].split(',')]) if db['data'] != '[]' else np.array([])
    return fa.shape == fb.shape and bool(np.allclose(fa, fb, rtol=1e-7, atol=1e-9))


def fn_cases(tier, rng):
    ncase = 4 if tier == 'quick' else 30
    for name, e in FN.items():
        made = tries = 0
        while made < ncase and tries < 10 * ncase:
            tries += 1
            shapes, params = e['gen'](rng)
            env = [fleaf(s, j, e['data']) for j, s in enumerate(shapes)]
            try:
                res = np.asarray(e['ref'](env, params))
            except ValueError:
                continue
            if res.size == 0 or res.size > 64 or (res.dtype.kind == 'i' and np.abs(res).max() >= 2 ** 31):
                continue
            made += 1
            req = ' '.join(('c14_fn name=%s shapes=%s %s data=%s' % (name, fmt_lists(shapes), fmt_params(params), e['data'])).split())
            data = ','.join(('%d' % v) if res.dtype.kind == 'i' else ('%.12g' % v) for v in res.reshape(-1))
            k = NFORMS[e['n']]
            yield Case(req, 'h_c14_fn%d' % e['group'], oracle='ok shape=%s data=%s splits=%d agree=%d' % (fmt(list(res.shape)), data, k, k),
                       model=False, cmp=fn_cmp, nontrivial=True, tags=['fn', 'functor=' + name, 'arity=%d' % e['n']])


# ---------------------------------------------------------------------------------------------------------------
# compositions f * g with g returning a maybe<view> (validated at run time) and f carrying attributes (h_c14_mb.cpp)
# ---------------------------------------------------------------------------------------------------------------
def mleaf(shape, j, data):
    n = prod(shape); k = np.arange(n, dtype=np.int64)
    if data == 'float':
        return (0.5 * ((k * 7 + 3 * j) % 13) - 3.0).reshape(shape)
    if data == 'small':
        return (((k * 5 + 2 * j) % 7) + 1).reshape(shape)
    return (k + 1000 * j).reshape(shape)


def _mb_g(rng):
    """a run-time validated g: (name, operand shape, attributes of g, numpy function) — about one in four fails"""
    fail = rng.random() < 0.25
    kind = rng.choice(['reshape', 'reshape', 'broadcast_to', 'broadcast_to', 'expand_dims', 'moveaxis'])
    if kind == 'reshape':
        s = rshape(rng, max_rank=3, cap=24); n = prod(s)
        d = rng.choice([x for x in range(1, n + 1) if n % x == 0]); to = [d, n // d]
        if rng.random() < 0.4:
            e = rng.choice([x for x in range(1, to[1] + 1) if to[1] % x == 0]); to = [to[0], e, to[1] // e]
        if rng.random() < 0.2:
            to = [n]
        if fail:
            to[rng.randrange(len(to))] += rng.choice([1, 2])
        return kind, s, dict(gto=to), lambda x: x.reshape(to)
    if kind == 'broadcast_to':
        t = rshape(rng, max_rank=3, cap=24); s = bpartner(rng, t)
        if fail:
            i = rng.randrange(len(s)); s = list(s); s[i] = t[len(t) - len(s) + i] + 1
        return kind, s, dict(gto=t), lambda x: np.broadcast_to(x, t)
    if kind == 'expand_dims':
        s = rshape(rng, max_rank=3, cap=24); ax = rng.randint(len(s) + 1, len(s) + 2) if fail else rng.randint(0, len(s))
        return kind, s, dict(gaxis=ax), lambda x: np.expand_dims(x, ax)
    s = rshape(rng, min_rank=2, max_rank=3, cap=24); a, b = rng.randrange(len(s)), rng.randrange(len(s))
    if fail:
        if rng.random() < 0.5:
            a = len(s) + rng.randint(0, 1)
        else:
            b = len(s) + rng.randint(0, 1)
    return kind, s, dict(gsrc=a, gdst=b), lambda x: np.moveaxis(x, a, b)


def _mb_table():
    T = {}

    def add(name, group, ref, attrs, data='prov', n=1, second=None):
        # attrs(rng, t) -> attributes of f for an operand of shape t (or None: no instance for that shape)
        T[name] = dict(group=group, ref=ref, attrs=attrs, data=data, n=n, second=second)
    # --- parametrised unary ufuncs: two NON-DEFAULT values each (quarter units), binary32 ---
    def pvals(vals):
        cyc = itertools.cycle(vals)
        return lambda rng, t: dict(pq=list(next(cyc)))
    q = lambda p, i: F32(0.25 * p['pq'][i])
    f32 = lambda x: np.asarray(x, dtype=np.float32)
    add('leaky_relu', 1, lambda x, p: POPS['leaky_relu'](f32(x), [q(p, 0)]), pvals([(2,), (12,)]), 'float')
    add('prelu', 1, lambda x, p: POPS['prelu'](f32(x), [q(p, 0)]), pvals([(2,), (16,)]), 'float')
    add('elu', 1, lambda x, p: POPS['elu'](f32(x), [q(p, 0)]), pvals([(2,), (10,)]), 'float')
    add('celu', 1, lambda x, p: POPS['celu'](f32(x), [q(p, 0)]), pvals([(2,), (10,)]), 'float')
    add('hardtanh', 1, lambda x, p: POPS['hardtanh'](f32(x), [q(p, 0), q(p, 1)]), pvals([(-2, 3), (-10, 8)]), 'float')
    add('hardtanh1', 1, lambda x, p: POPS['hardtanh'](f32(x), [q(p, 0), F32(1)]), pvals([(-2,), (-10,)]), 'float')        # max_val defaulted
    add('softplus', 1, lambda x, p: POPS['softplus'](f32(x), [q(p, 0), q(p, 1)]), pvals([(8, 2), (2, 4)]), 'float')
    add('softplus1', 1, lambda x, p: POPS['softplus'](f32(x), [q(p, 0), F32(20)]), pvals([(8,), (2,)]), 'float')          # threshold defaulted
    add('hardshrink', 1, lambda x, p: POPS['hardshrink'](f32(x), [q(p, 0)]), pvals([(1,), (8,)]), 'float')
    add('softshrink', 1, lambda x, p: POPS['softshrink'](f32(x), [q(p, 0)]), pvals([(1,), (5,)]), 'float')
    none = lambda rng, t: {}
    add('relu', 1, lambda x, p: np.maximum(f32(x), 0), none, 'float')
    add('leaky_relu0', 1, lambda x, p: POPS['leaky_relu'](f32(x), [F32(0.01)]), none, 'float')
    # --- reductions / accumulations ---
    def ax(rng, t):
        return dict(axis=rng.randrange(len(t))) if len(t) >= 1 else None
    def ax2(rng, t):        # reductions to an array: rank >= 2
        return dict(axis=rng.randrange(len(t))) if len(t) >= 2 else None
    def ax2i(rng, t):
        return dict(axis=rng.randrange(len(t)), init=rng.choice([-5, 3, 7, 100])) if len(t) >= 2 else None
    def ax2m(rng, t):
        return dict(axis=rng.randrange(len(t)), init=rng.choice([2, 3])) if len(t) >= 2 and max(t) <= 3 else None
    add('reduce_add', 2, lambda x, p: np.sum(x, axis=p['axis']), ax2)
    add('reduce_add_init', 2, lambda x, p: np.sum(x, axis=p['axis'], initial=p['init']), ax2i)
    add('reduce_add_keep', 2, lambda x, p: np.sum(x, axis=p['axis'], keepdims=True), ax2)
    add('reduce_add_init_keep', 2, lambda x, p: np.sum(x, axis=p['axis'], initial=p['init'], keepdims=True), ax2i)
    add('reduce_maximum', 2, lambda x, p: np.max(x, axis=p['axis']), ax2)
    add('reduce_maximum_init_keep', 2, lambda x, p: np.max(x, axis=p['axis'], initial=p['init'], keepdims=True), ax2i)
    add('reduce_multiply_init', 2, lambda x, p: np.prod(x, axis=p['axis'], initial=p['init']), ax2m, 'small')
    add('accumulate_add', 2, lambda x, p: np.cumsum(x, axis=p['axis']), ax)
    add('sum', 2, lambda x, p: np.sum(x, axis=p['axis']), ax2)
    add('sum_init_keep', 2, lambda x, p: np.sum(x, axis=p['axis'], initial=p['init'], keepdims=True), ax2i)
    add('prod', 2, lambda x, p: np.prod(x, axis=p['axis']), lambda rng, t: ax2(rng, t) if max(t) <= 3 else None, 'small')
    add('cumsum', 2, lambda x, p: np.cumsum(x, axis=p['axis']), ax)
    add('cumprod', 2, lambda x, p: np.cumprod(x, axis=p['axis']), lambda rng, t: ax(rng, t) if max(t) <= 3 else None, 'small')
    # --- indexing functors (f itself may fail at run time: reshape / broadcast_to) ---
    add('transpose', 3, lambda x, p: np.transpose(x, p['axes']), lambda rng, t: dict(axes=perm(rng, len(t))))
    add('tile', 3, lambda x, p: np.tile(x, p['reps']), lambda rng, t: dict(reps=[rng.randint(1, 2) for _ in range(rng.randint(1, len(t) + 1))]))
    add('repeat', 3, lambda x, p: np.repeat(x, p['r'], p['axis']), lambda rng, t: dict(r=rng.randint(1, 3), axis=rng.randrange(len(t))))
    add('moveaxis', 3, lambda x, p: np.moveaxis(x, p['src'], p['dst']), lambda rng, t: dict(src=rng.randrange(len(t)), dst=rng.randrange(len(t))))
    def a_reshape(rng, t):
        n = prod(t); d = rng.choice([x for x in range(1, n + 1) if n % x == 0]); to = [d, n // d]
        if rng.random() < 0.2:
            to[0] += 1
        return dict(to=to)
    add('reshape', 3, lambda x, p: x.reshape(p['to']), a_reshape)
    def a_bcast(rng, t):
        to = [rng.randint(1, 2)] * rng.randint(0, 1) + [e if e > 1 else rng.randint(1, 3) for e in t]
        if rng.random() < 0.2:
            to[-1] += 1
        return dict(to=to)
    add('broadcast_to', 3, lambda x, p: np.broadcast_to(x, p['to']), a_bcast)
    add('flatten', 3, lambda x, p: x.reshape(-1), none)
    add('negative', 3, lambda x, p: -x, none)
    # binary functors: the second operand is passed on behind the (maybe) result of g
    add('add', 3, lambda x, p, y: x + y, none, n=2, second=lambda rng, t: bpartner(rng, t))
    add('subtract', 3, lambda x, p, y: x - y, none, n=2, second=lambda rng, t: bpartner(rng, t))
    def s_concat(rng, t, p):
        u = list(t); u[p['axis']] = rng.randint(1, 3); return u
    add('concatenate', 3, lambda x, p, y: np.concatenate([x, y], p['axis']), ax, n=2, second=s_concat)
    # --- norms (double) ---
    add('mean', 4, lambda x, p: np.mean(x, axis=p['axis']), ax2, 'float')
    add('var', 4, lambda x, p: np.var(x, axis=p['axis']), ax2, 'float')
    add('stddev', 4, lambda x, p: np.std(x, axis=p['axis']), ax2, 'float')
    add('softmax', 4, lambda x, p: softmax_np(x, p['axis']), ax2, 'float')
    add('softmin', 4, lambda x, p: softmax_np(-x, p['axis']), ax2, 'float')
    return T


MB = _mb_table()
MB_GROUPS = [1, 2, 3, 4]


def make_mb_cmp(rtol, atol):
    def cmp(a, b):
        if not (a.startswith('ok ') and b.startswith('ok ')):
            return a == b
        da, db = parse_kv(a), parse_kv(b)
        if any(da.get(k) != db.get(k) for k in ('shape', 'forms', 'agree')):
            return False
        fa = np.array([float(v) for v in da['data'].split(',')]) if da['data'] != '[]' else np.array([])
        fb = np.array([float(v) for v in db['data'].split(',')]) if db['data'] != '[]' else np.array([])
        return fa.shape == fb.shape and bool(np.allclose(fa, fb, rtol=rtol, atol=atol))
    return cmp


MB_CMP = {1: make_mb_cmp(2e-5, 2e-6), 2: make_mb_cmp(0, 0), 3: make_mb_cmp(0, 0), 4: make_mb_cmp(1e-7, 1e-9)}


def mb_cases(tier, rng):
    ncase = 6 if tier == 'quick' else 40
    for name, e in MB.items():
        made = tries = nfail = 0
        while made < ncase and tries < 40 * ncase:
            tries += 1
            gname, s, gattrs, gfun = _mb_g(rng)
            x = mleaf(s, 0, e['data'])
            try:
                gx = gfun(x); t = list(gx.shape)
            except ValueError:          # (numpy.AxisError is a ValueError)
                gx = None; t = None
            if gx is None and nfail >= max(1, ncase // 3):
                continue
            # attributes of f: for the shape g produces (g failing: for the operand's own shape — they are never looked at)
            p = e['attrs'](rng, t if t is not None else s)
            if p is None:
                continue
            shapes = [s]; env = [x]
            if e['n'] == 2:
                tt = t if t is not None else s
                s1 = e['second'](rng, tt, p) if name == 'concatenate' else e['second'](rng, tt)
                shapes.append(s1); env.append(mleaf(s1, 1, e['data']))
            res = None
            if gx is not None:
                try:
                    res = np.asarray(e['ref'](gx, p, *env[1:]))
                except ValueError:
                    res = None
                if res is not None and (res.size == 0 or res.size > 64 or (res.dtype.kind == 'i' and np.abs(res).max() >= 2 ** 31)):
                    continue
            nforms = 2 if gx is None else (5 if e['n'] == 1 else 4)
            if res is None:
                oracle = 'nothing forms=%d agree=%d' % (nforms, nforms)
            else:
                data = ','.join(('%d' % v) if res.dtype.kind == 'i' else ('%.12g' % v) for v in res.reshape(-1))
                oracle = 'ok shape=%s data=%s forms=%d agree=%d' % (fmt(list(res.shape)), data, nforms, nforms)
            made += 1; nfail += gx is None
            req = ' '.join(('c14_mb f=%s g=%s shapes=%s %s %s data=%s' % (name, gname, fmt_lists(shapes), fmt_params(gattrs), fmt_params(p), e['data'])).split())
            yield Case(req, 'h_c14_mb%d' % e['group'], oracle=oracle, model=False, cmp=MB_CMP[e['group']], nontrivial=True,
                       tags=['maybe-comp', 'f=' + name, 'g=' + gname, 'g-fails' if gx is None else ('f-fails' if res is None else 'valid'),
                             'f-attrs=%d' % len(p)])
            if e['n'] == 2 and res is not None and made <= 3:
                # the binary functor called with all operands at once, the maybe<view> (which has a value) in either position
                for pos in (0, 1):
                    try:
                        r2 = np.asarray(e['ref'](gx, p, env[1]) if pos == 0 else e['ref'](env[1], p, gx))
                    except ValueError:
                        continue
                    d2 = ','.join('%d' % v for v in r2.reshape(-1))
                    yield Case(req.replace('c14_mb ', 'c14_mbcall ', 1) + ' pos=%d' % pos, 'h_c14_mb%d' % e['group'], dom=False,
                               oracle='ok shape=%s data=%s' % (fmt(list(r2.shape)), d2), model=False, nontrivial=True,
                               tags=['maybe-call', 'f=' + name, 'g=' + gname, 'pos=%d' % pos])


def gen(tier, rng):
    yield from probe_cases(tier, rng)
    k = 0
    for c in ext_cases(tier, rng):
        yield c
        k += 1
        g = int(c.harness[len('h_c14_ext'):]) if c.harness.startswith('h_c14_ext') else 0
        if tier == 'thorough' and c.dom and c.req.startswith('c14_extract') and g in SAN_GROUPS and k % 3 == 0:
            yield Case(c.req, c.harness + '_san', dom=True, oracle=c.oracle, model=False, cmp=c.cmp, nontrivial=False, tags=list(c.tags) + ['san'])
    yield from fn_cases(tier, rng)
    yield from mb_cases(tier, rng)


def _args(c):
    return dict(kv.split('=', 1) for kv in c.req.split()[1:] if '=' in kv)


def nonfirst_view_operand(c):
    return c.req.startswith('c14_extract ') and EXT.get(_args(c).get('prog'), {}).get('nonfirst', False)


def sibling_subviews_unaliased(c):
    return c.req.startswith('c14_graph ') and EXT.get(_args(c).get('prog'), {}).get('sibling', False)


def mb_g_fails(a):
    """does the run-time validated g of a c14_mb request reject its arguments? (decided from the request alone, NumPy rules)"""
    ints = lambda k: [int(v) for v in a[k].split(',')]
    s = [int(v) for v in a['shapes'].split(';')[0].split(',')]
    x = np.zeros(s)
    try:
        g = a['g']
        if g == 'reshape':
            x.reshape(ints('gto'))
        elif g == 'broadcast_to':
            np.broadcast_to(x, ints('gto'))
        elif g == 'expand_dims':
            np.expand_dims(x, int(a['gaxis']))
        elif g == 'moveaxis':
            np.moveaxis(x, int(a['gsrc']), int(a['gdst']))
        else:
            return False
    except ValueError:
        return True
    return False


def maybe_operand_all_at_once(c):
    """a functor of arity 2 called with both operands at once, one of them a maybe<view> that has a value"""
    return c.req.startswith('c14_mbcall ') and not mb_g_fails(_args(c))


KNOWN_PREDICATES = {'nonfirst_view_operand': nonfirst_view_operand, 'sibling_subviews_unaliased': sibling_subviews_unaliased,
                    'maybe_operand_all_at_once': maybe_operand_all_at_once}
