import NmVerif.Arr
import NmVerif.Lemmas.Addressing
/-
  C02 — Element access through arrays and views never leaves the operands' storage.

  General part (this file, top): in-bounds-ness composes through view chains of any depth and turns into
  "buffer position < buffer length" at the leaf for both layouts.  The per-view-kind obligations
  (`X_inBounds`) are proved next to each kind's model (Props.C03/C04/C05/C06/C08 …) and re-exported below.
-/
namespace NmVerif.Props.C02
open NmVerif

/-- a view of a view: if both stay inside their operand, so does the composition -/
theorem comp_inBounds (outer inner : IxView) (h : outer.src = inner.dst)
    (ho : outer.InBounds) (hi : inner.InBounds) : (outer.comp inner).InBounds := by
  intro d hd i hm
  simp only [IxView.comp] at hm hd
  cases hmo : outer.map d with
  | none => simp [hmo] at hm
  | some k =>
    simp only [hmo, Option.bind_some] at hm
    exact hi k (h ▸ ho d hd k hmo) i hm

/-- a chain of views, innermost last; `ChainOk` = consecutive shapes fit and every stage is in bounds -/
def ChainOk : List IxView → Prop
  | [] => True
  | [v] => v.InBounds
  | v :: w :: rest => v.InBounds ∧ v.src = w.dst ∧ ChainOk (w :: rest)

def compAll : IxView → List IxView → IxView
  | v, [] => v
  | v, w :: rest => compAll (v.comp w) rest

/-- compositions of ANY depth stay in bounds -/
theorem chain_inBounds (v : IxView) (rest : List IxView) (h : ChainOk (v :: rest)) : (compAll v rest).InBounds := by
  induction rest generalizing v with
  | nil => simpa [ChainOk, compAll] using h
  | cons w ws ih =>
    simp only [ChainOk] at h
    obtain ⟨hv, hsrc, hrest⟩ := h
    simp only [compAll]
    apply ih
    have hwb : w.InBounds := by
      cases ws with
      | nil => simpa [ChainOk] using hrest
      | cons x xs => simp only [ChainOk] at hrest; exact hrest.1
    have hc : (v.comp w).InBounds := comp_inBounds v w hsrc hv hwb
    cases ws with
    | nil => simpa [ChainOk] using hc
    | cons x xs =>
      simp only [ChainOk] at hrest ⊢
      exact ⟨hc, by simpa [IxView.comp] using hrest.2.1, hrest.2.2⟩

/-- at the leaf: an in-shape multi-index addresses a position below the buffer length, either layout -/
theorem buffer_access_in_bounds {α : Type} (a : NDA α) (hw : a.WF) (i : Idx) (hi : InShape i a.shape) :
    a.offset i < a.data.length := by
  rw [hw]
  unfold NDA.offset NDA.stridesOf
  split
  · exact colOffset_lt hi
  · exact offset_lt hi

/-- reading element `d` of an in-bounds view over a well-formed array touches a position inside its buffer -/
theorem view_read_in_buffer {α : Type} (v : IxView) (a : NDA α) (hw : a.WF) (hsrc : v.src = a.shape) (hb : v.InBounds)
    (d : Idx) (hd : InShape d v.dst) (i : Idx) (hm : v.map d = some i) : a.offset i < a.data.length :=
  buffer_access_in_bounds a hw i (hsrc ▸ hb d hd i hm)

/-- … and so does every element of a view chain of any depth over that array -/
theorem chain_read_in_buffer {α : Type} (v : IxView) (rest : List IxView) (h : ChainOk (v :: rest)) (a : NDA α) (hw : a.WF)
    (hsrc : (compAll v rest).src = a.shape) (d : Idx) (hd : InShape d (compAll v rest).dst) (i : Idx)
    (hm : (compAll v rest).map d = some i) : a.offset i < a.data.length :=
  view_read_in_buffer _ a hw hsrc (chain_inBounds v rest h) d hd i hm

/-- every multi-index the evaluators enumerate (ndindex of the view's shape, any flat position) is inside that shape -/
theorem eval_indices_inShape (s : Shape) (hs : Pos s) (k : Nat) : InShape (ndindex s k) s := indices_inShape hs k

/-- bounded result containers: the index functions produce exactly `len(shape)` entries, so a result container
    sized by the operand's bound is never asked to hold more -/
theorem strides_len_le_bound (s : Shape) (cap : Nat) (h : s.length ≤ cap) : (strides s).length ≤ cap := by
  rw [strides_length]; exact h

theorem computeIndices_length (off : Nat) (s st : List Nat) (hl : st.length = s.length) :
    (computeIndices off s st).length = s.length := by
  induction s generalizing st with
  | nil => cases st <;> simp [computeIndices]
  | cons a t ih =>
    cases st with
    | nil => simp at hl
    | cons b u => simp [computeIndices, ih u (by simpa using hl)]

theorem indices_len_le_bound (s : Shape) (off cap : Nat) (h : s.length ≤ cap) : (ndindex s off).length ≤ cap := by
  unfold ndindex
  rw [computeIndices_length off s _ (strides_length s)]; exact h

end NmVerif.Props.C02
