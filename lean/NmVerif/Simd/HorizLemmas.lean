import NmVerif.Simd.Eval
import NmVerif.Simd.ReduceLemmas
import NmVerif.Simd.EnumLemmas
/-
  HORIZONTAL reduction (`simdReduceHorizontal`): per output row, the packed chunks (last one identity-padded)
  accumulate lane-wise, and the horizontal fold of the accumulator is the monoid sum of the row.  Helper lemmas.
-/
namespace NmVerif.Simd
open NmVerif IsCommMonoid

variable {α : Type}

theorem foldlM_congr_mem {σ γ : Type} (l : List γ) (f g : σ → γ → Option σ) (s : σ)
    (h : ∀ x ∈ l, ∀ s, f s x = g s x) : l.foldlM f s = l.foldlM g s := by
  induction l generalizing s with
  | nil => rfl
  | cons x xs ih =>
    rw [List.foldlM_cons, List.foldlM_cons, h x (by simp)]
    cases g s x with
    | none => rfl
    | some s' => exact ih s' (fun y hy => h y (by simp [hy]))

/-- a loop over `range (R·Cs)` is the nested loop over rows and columns -/
theorem foldlM_range_mul {σ : Type} (f : σ → Nat → Option σ) (Cs : Nat) :
    ∀ (R : Nat) (s : σ), (List.range (R * Cs)).foldlM f s
      = (List.range R).foldlM (fun s i => (List.range Cs).foldlM (fun s j => f s (i * Cs + j)) s) s := by
  intro R
  induction R with
  | zero => intro s; simp
  | succ R ih =>
    intro s
    rw [Nat.succ_mul, List.range_add, List.foldlM_append, ih, List.range_succ, List.foldlM_append]
    simp only [List.foldlM_cons, List.foldlM_nil, List.foldlM_map]
    simp

/-- row `i` of a row-major `(R, C)` buffer -/
def rowOf (inp : List α) (C i : Nat) : List α := (inp.drop (i * C)).take C

theorem loadu_row (inp : List α) (C i a w : Nat) (h1 : a + w ≤ C) (h2 : i * C + C ≤ inp.length) :
    loadu inp (i * C + a) w = some (((rowOf inp C i).drop a).take w) := by
  rw [loadu_eq (by omega)]
  unfold rowOf
  rw [List.drop_take, List.take_take, List.drop_drop, Nat.min_eq_left (by omega)]

theorem rowOf_length (inp : List α) (C i : Nat) (h2 : i * C + C ≤ inp.length) : (rowOf inp C i).length = C := by
  unfold rowOf; rw [List.length_take, List.length_drop]; omega

theorem hfold_eq_msum {op : α → α → α} {e : α} (h : IsCommMonoid op e) (reg : List α) (hl : 0 < reg.length) :
    hfold op reg = some (msum op e reg) := by
  cases reg with
  | nil => simp at hl
  | cons r0 rs =>
    show some (rs.foldl op r0) = some ((r0 :: rs).foldl op e)
    rw [List.foldl_cons, h.id_left]

/-! ### the 2-d shape of the horizontal enumerator -/

def hCs (N C : Nat) : Nat := C / N + (if C % N ≠ 0 then 1 else 0)

theorem reductionAt_h (N : Nat) (outShape inpShape : List Nat) (axis i j : Nat)
    (hj : j < hCs N (reductionNdReshape .horizontal inpShape axis).2) :
    reductionAt .horizontal N outShape inpShape axis (i * hCs N (reductionNdReshape .horizontal inpShape axis).2 + j)
      = reduction2d .horizontal N i j (reductionNdReshape .horizontal outShape axis)
          (reductionNdReshape .horizontal inpShape axis) := by
  unfold reductionAt reduction2dShape
  simp only
  have := div_mod_of_row i j (hCs N (reductionNdReshape .horizontal inpShape axis).2) hj
  unfold hCs at this hj ⊢
  rw [this.1, this.2]

theorem sub_div_mul_eq_mod (C N : Nat) : C - C / N * N = C % N := by
  have := Nat.div_add_mod C N; rw [Nat.mul_comm] at this; omega

section
variable (N : Nat) (packOp : List α → List α → List α) (op : α → α → α) (e : α)
  (inp : List α) (outShape inpShape : List Nat) (axis R C : Nat)

/-- a step that is not the last of its row: PACKED load, NOP on the output -/
theorem horizStep_mid (hRC : reductionNdReshape .horizontal inpShape axis = (R, C))
    (i j : Nat) (hj : j + 1 < hCs N C) (hin : i * C + C ≤ inp.length) (st : List α × List α) :
    horizStep N packOp op e inp outShape inpShape axis st (i * hCs N C + j)
      = some (st.1, packOp st.2 (((rowOf inp C i).drop (j * N)).take N)) := by
  have hN : 0 < N := by
    rcases Nat.eq_zero_or_pos N with h | h
    · subst h; simp [hCs] at hj; split at hj <;> omega
    · exact h
  have hjn : j * N + N ≤ C := by
    have h1 : j + 1 ≤ C / N := by unfold hCs at hj; split at hj <;> omega
    have h2 : (j + 1) * N ≤ C / N * N := Nat.mul_le_mul_right N h1
    have h3 := Nat.div_mul_le_self C N
    rw [Nat.succ_mul] at h2; omega
  unfold horizStep
  have hat := reductionAt_h N outShape inpShape axis i j (by rw [hRC]; show j < hCs N C; omega)
  rw [hRC] at hat
  simp only at hat
  rw [hat]
  unfold reduction2d
  simp only [sub_div_mul_eq_mod]
  have hne : ¬ (j + 1 = C / N + (if C % N ≠ 0 then 1 else 0)) := by unfold hCs at hj; omega
  have hnp : ¬ (j * N + N > C) := by omega
  simp only [hne, hnp, if_false, Option.bind_eq_bind, Option.bind_some, Tag.PACKED, Tag.NOP, Tag.ACCUMULATE, if_true]
  rw [loadu_row inp C i (j * N) N hjn hin]
  simp

/-- the last step of a row: PACKED or identity-padded load, then ACCUMULATE: the horizontal fold goes to `out[i]` -/
theorem horizStep_last (hm : IsCommMonoid op e)
    (hp : ∀ xs ys, xs.length = N → ys.length = N → packOp xs ys = List.zipWith op xs ys)
    (hRC : reductionNdReshape .horizontal inpShape axis = (R, C)) (hN : 0 < N) (hC : 0 < C)
    (i j : Nat) (hj : j + 1 = hCs N C) (hin : i * C + C ≤ inp.length) (st : List α × List α)
    (hacc : st.2.length = N) (hi : i < st.1.length) :
    horizStep N packOp op e inp outShape inpShape axis st (i * hCs N C + j)
      = some (st.1.set i (op (msum op e st.2) (msum op e ((rowOf inp C i).drop (j * N)))), List.replicate N e) := by
  have hrl := rowOf_length inp C i hin
  have hdm : C = C / N * N + C % N := by
    have := Nat.div_add_mod C N; rw [Nat.mul_comm] at this; omega
  have hmod := Nat.mod_lt C hN
  unfold horizStep
  have hat := reductionAt_h N outShape inpShape axis i j (by rw [hRC]; show j < hCs N C; omega)
  rw [hRC] at hat
  simp only at hat
  rw [hat]
  unfold reduction2d
  simp only [sub_div_mul_eq_mod]
  have heq : j + 1 = C / N + (if C % N ≠ 0 then 1 else 0) := by unfold hCs at hj; exact hj
  simp only [heq, if_true, Option.bind_eq_bind, Option.bind_some]
  by_cases h0 : C % N = 0
  · -- the row is a whole number of registers: last chunk PACKED
    have hjN : j * N + N = C := by
      have : j + 1 = C / N := by rw [heq]; simp [h0]
      have h2 : (j + 1) * N = C / N * N := by rw [this]
      rw [Nat.succ_mul] at h2; omega
    have hnp : ¬ (j * N + N > C) := by omega
    simp only [hnp, if_false, Tag.PACKED, if_true]
    rw [loadu_row inp C i (j * N) N (by omega) hin]
    have hx : (((rowOf inp C i).drop (j * N)).take N) = (rowOf inp C i).drop (j * N) := by
      apply List.take_of_length_le; rw [List.length_drop]; omega
    have hxl : ((rowOf inp C i).drop (j * N)).length = N := by rw [List.length_drop]; omega
    simp only [Option.bind_some, Option.pure_def, hx]
    rw [hp _ _ hacc hxl, hfold_eq_msum hm _ (by rw [List.length_zipWith, hacc, hxl, Nat.min_self]; exact hN)]
    simp only [Option.bind_some, Tag.ACCUMULATE]
    rw [hm.msum_zipWith _ _ (by rw [hacc, hxl])]
    simp [writeAt, hi]
  · -- identity padding
    have hjN : j * N = C / N * N := by
      have : j = C / N := by have := heq; simp [h0] at this; omega
      rw [this]
    have hgt : j * N + N > C := by omega
    have hk1 : (1 : Int) ≤ Tag.PAD (N - C % N) := by simp only [Tag.PAD]; omega
    have hk2 : Tag.PAD (N - C % N) < (N : Int) := by simp only [Tag.PAD]; omega
    have hk0 : ¬ (Tag.PAD (N - C % N) = Tag.PACKED) := by simp only [Tag.PAD, Tag.PACKED]; omega
    have hkn : (Tag.PAD (N - C % N)).toNat = N - C % N := by simp only [Tag.PAD, Int.toNat_natCast]
    simp only [hgt, if_true, hk0, if_false, hk1, hk2, and_self, hkn]
    have hNk : N - (N - C % N) = C % N := by omega
    rw [hNk, loadu_row inp C i (j * N) (C % N) (by omega) hin]
    have hx : (((rowOf inp C i).drop (j * N)).take (C % N)) = (rowOf inp C i).drop (j * N) := by
      apply List.take_of_length_le; rw [List.length_drop]; omega
    have hxl : ((rowOf inp C i).drop (j * N) ++ List.replicate (N - C % N) e).length = N := by
      rw [List.length_append, List.length_drop, List.length_replicate]; omega
    simp only [Option.bind_some, Option.pure_def, hx]
    rw [hp _ _ hacc hxl, hfold_eq_msum hm _ (by rw [List.length_zipWith, hacc, hxl, Nat.min_self]; exact hN)]
    simp only [Option.bind_some, Tag.ACCUMULATE]
    rw [hm.msum_zipWith _ _ (by rw [hacc, hxl]), hm.msum_append, hm.msum_replicate_id, hm.id_right]
    simp [writeAt, hi]

theorem mid_chunk_bound (j : Nat) (hj : j + 1 < hCs N C) : j * N + N ≤ C := by
  have h1 : j + 1 ≤ C / N := by unfold hCs at hj; split at hj <;> omega
  have h2 : (j + 1) * N ≤ C / N * N := Nat.mul_le_mul_right N h1
  have h3 := Nat.div_mul_le_self C N
  rw [Nat.succ_mul] at h2; omega

/-- the steps of a row before its last one: lane-wise accumulation of whole registers -/
theorem horiz_row_prefix (hm : IsCommMonoid op e)
    (hp : ∀ xs ys, xs.length = N → ys.length = N → packOp xs ys = List.zipWith op xs ys)
    (hRC : reductionNdReshape .horizontal inpShape axis = (R, C))
    (i : Nat) (hin : i * C + C ≤ inp.length) (o : List α) :
    ∀ m, m < hCs N C →
      ∃ acc, (List.range m).foldlM (fun s j => horizStep N packOp op e inp outShape inpShape axis s (i * hCs N C + j))
                (o, List.replicate N e) = some (o, acc)
        ∧ acc.length = N ∧ msum op e acc = msum op e ((rowOf inp C i).take (m * N)) := by
  intro m
  induction m with
  | zero =>
    intro _
    refine ⟨List.replicate N e, by simp, by simp, ?_⟩
    rw [hm.msum_replicate_id]; simp [msum]
  | succ m ih =>
    intro hlt
    obtain ⟨acc, hf, hlen, hsum⟩ := ih (by omega)
    have hb := mid_chunk_bound N C m (by omega)
    have hrl := rowOf_length inp C i hin
    have hx : (((rowOf inp C i).drop (m * N)).take N).length = N := by
      rw [List.length_take, List.length_drop]; omega
    refine ⟨packOp acc (((rowOf inp C i).drop (m * N)).take N), ?_, ?_, ?_⟩
    · rw [List.range_succ, List.foldlM_append, hf]
      simp only [Option.bind_eq_bind, Option.bind_some, List.foldlM_cons, List.foldlM_nil]
      rw [horizStep_mid N packOp op e inp outShape inpShape axis R C hRC i m (by omega) hin]
      rfl
    · rw [hp _ _ hlen hx, List.length_zipWith, hlen, hx, Nat.min_self]
    · rw [hp _ _ hlen hx, hm.msum_zipWith _ _ (by rw [hlen, hx]), hsum, Nat.succ_mul, List.take_add, hm.msum_append]

/-- a whole row of the HORIZONTAL enumerator: `out[i] = Σ row i`, accumulator reset -/
theorem horiz_row (hm : IsCommMonoid op e)
    (hp : ∀ xs ys, xs.length = N → ys.length = N → packOp xs ys = List.zipWith op xs ys)
    (hRC : reductionNdReshape .horizontal inpShape axis = (R, C)) (hN : 0 < N) (hC : 0 < C)
    (i : Nat) (hin : i * C + C ≤ inp.length) (o : List α) (hi : i < o.length) :
    (List.range (hCs N C)).foldlM (fun s j => horizStep N packOp op e inp outShape inpShape axis s (i * hCs N C + j))
        (o, List.replicate N e)
      = some (o.set i (msum op e (rowOf inp C i)), List.replicate N e) := by
  have hCs1 : 0 < hCs N C := by
    unfold hCs
    by_cases h : C % N = 0
    · have : 0 < C / N := by
        rcases Nat.eq_zero_or_pos (C / N) with h0 | h0
        · have := Nat.div_add_mod C N; rw [h0, h] at this; omega
        · exact h0
      omega
    · simp [h]
  obtain ⟨k, hk⟩ : ∃ k, hCs N C = k + 1 := ⟨hCs N C - 1, by omega⟩
  obtain ⟨acc, hf, hlen, hsum⟩ := horiz_row_prefix N packOp op e inp outShape inpShape axis R C hm hp hRC i hin o k (by omega)
  rw [hk, List.range_succ, List.foldlM_append, ← hk, hf]
  simp only [Option.bind_eq_bind, Option.bind_some, List.foldlM_cons, List.foldlM_nil]
  rw [horizStep_last N packOp op e inp outShape inpShape axis R C hm hp hRC hN hC i k (by omega) hin (o, acc) hlen hi]
  simp only [Option.bind_some, Option.pure_def]
  rw [hsum, ← hm.msum_append, List.take_append_drop]

end
end NmVerif.Simd
