#!/usr/bin/env python3
"""usage: tools/seeded_matrix.py [seeded ids...] ; for every kept seeded change, apply it to a scratch worktree of /repo,
run the quick check of its property (and any extra checks named in meta.json 'also') against that tree and record whether
the check reported a VIOLATION (and its first replay line) in seeded/RESULTS.json.  The scratch worktree is removed."""
import json, os, subprocess, sys, time, re
HERE = os.path.dirname(os.path.dirname(os.path.abspath(__file__)))
SD = os.path.join(HERE, 'seeded')
WT = os.environ.get('SEEDED_WT', '/var/tmp/nmv-seeded-wt')
def sh(*a, **k): return subprocess.run(a, capture_output=True, text=True, **k)
ids = sys.argv[1:] or sorted(d for d in os.listdir(SD) if os.path.isdir(os.path.join(SD, d)))
res_path = os.environ.get('SEEDED_RESULTS', os.path.join(SD, 'RESULTS.json'))     # shards: one result file each, merged afterwards
res = json.load(open(res_path)) if os.path.exists(res_path) else {}
sh('git', '-C', '/repo', 'worktree', 'remove', '--force', WT)
r = sh('git', '-C', '/repo', 'worktree', 'add', '--detach', WT, 'HEAD')
assert r.returncode == 0, r.stderr
try:
    for i in ids:
        meta = json.load(open(os.path.join(SD, i, 'meta.json')))
        sh('git', '-C', WT, 'checkout', '--', '.')
        r = sh('git', '-C', WT, 'apply', os.path.join(SD, i, 'patch.diff'))
        if r.returncode:
            res[i] = {'error': 'patch does not apply: ' + r.stderr[:200]}; continue
        out = {}
        for c in [meta['property_id']] + list(meta.get('also', [])):
            t = time.time()
            env = dict(os.environ, VERIF_REPO=WT, VERIF_NO_WIDEN='1', VERIF_EVIDENCE_DIR='/var/tmp/nmv-seeded-ev')
            p = sh(os.path.join(HERE, 'check'), c, env=env, cwd=HERE)
            v = [l for l in p.stdout.splitlines() if l.startswith('VIOLATION')]
            detail = ''
            for l in p.stdout.splitlines():
                if l.startswith('  ') and ('impl' in l or 'req' in l): detail = l.strip()[:300]; break
            out[c] = {'exit': p.returncode, 'violations': len(v), 'first': (v[0] if v else ''), 'detail': detail,
                      'no_failing_input': any('no-failing-input-found' in l for l in v), 'wall_s': round(time.time() - t)}
            print(i, c, out[c], flush=True)
        res[i] = {'repo_head': sh('git', '-C', '/repo', 'rev-parse', '--short', 'HEAD').stdout.strip(), 'checks': out}
        json.dump(res, open(res_path, 'w'), indent=1, sort_keys=True)
finally:
    sh('git', '-C', '/repo', 'worktree', 'remove', '--force', WT)
