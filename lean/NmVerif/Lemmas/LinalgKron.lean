import NmVerif.Lemmas.LinalgTensordot
/-
  Lemmas for kron of C16: closed form of `kron_dst_transpose`, the interleaving transpose and the pair-merging reshape.
-/
namespace NmVerif
open Linalg

/-- closed form of `kron_dst_transpose`: position `t` of the transposition axes -/
def kronAxis (l r t : Nat) : Nat :=
  if l ≤ r then
    let e := r - l
    if t < e then l + t else
      let u := t - e
      if u % 2 = 0 then u / 2 else r + u / 2
  else
    let e := l - r
    if t < e then t else
      let u := t - e
      if u % 2 = 0 then e + u / 2 else l + u / 2

/-- a loop `for i < n: acc[g i] = f i` with distinct targets, pointwise -/
theorem foldl_set_getElem?_hit (n : Nat) (g f : Nat → Nat) (init : List Nat)
    (hinj : ∀ i i', i < n → i' < n → g i = g i' → i = i') (i : Nat) (hi : i < n) (hlt : g i < init.length) :
    ((List.range n).foldl (fun acc i => acc.set (g i) (f i)) init)[g i]? = some (f i) := by
  have e : (List.range n).foldl (fun acc i => acc.set (g i) (f i)) init =
      scatterFold init ((List.range n).map (fun i => (f i, g i))) := by
    simp [scatterFold, List.foldl_map]
  rw [e]
  apply scatterFold_getElem?_mem
  · simp only [List.map_map]
    rw [List.nodup_iff_pairwise_ne, List.pairwise_map]
    refine List.Pairwise.imp_of_mem ?_ (List.nodup_range (n := n))
    intro a b ha hb hne hab
    exact hne (hinj a b (List.mem_range.1 ha) (List.mem_range.1 hb) hab)
  · exact List.mem_map.2 ⟨i, List.mem_range.2 hi, rfl⟩
  · exact hlt

theorem foldl_set_getElem?_miss (n : Nat) (g f : Nat → Nat) (init : List Nat) (j : Nat)
    (hmiss : ∀ i, i < n → g i ≠ j) :
    ((List.range n).foldl (fun acc i => acc.set (g i) (f i)) init)[j]? = init[j]? := by
  have e : (List.range n).foldl (fun acc i => acc.set (g i) (f i)) init =
      scatterFold init ((List.range n).map (fun i => (f i, g i))) := by
    simp [scatterFold, List.foldl_map]
  rw [e]
  apply scatterFold_getElem?_of_not_mem
  intro p hp
  obtain ⟨i, hi, rfl⟩ := List.mem_map.1 hp
  exact hmiss i (List.mem_range.1 hi)

theorem foldl_set_length (n : Nat) (g f : Nat → Nat) (init : List Nat) :
    ((List.range n).foldl (fun acc i => acc.set (g i) (f i)) init).length = init.length := by
  have e : (List.range n).foldl (fun acc i => acc.set (g i) (f i)) init =
      scatterFold init ((List.range n).map (fun i => (f i, g i))) := by
    simp [scatterFold, List.foldl_map]
  rw [e, scatterFold_length]

/-- `tmp = at(r, p); at(r, p) = at(r, p-1); at(r, p-1) = tmp` -/
def swapAt (acc : List Nat) (p : Nat) : List Nat := (acc.set p (acc.getD (p - 1) 0)).set (p - 1) (acc.getD p 0)

theorem swapAt_length (acc : List Nat) (p : Nat) : (swapAt acc p).length = acc.length := by simp [swapAt]

theorem swapAt_getElem? (acc : List Nat) (p j : Nat) (h1 : 1 ≤ p) (h2 : p < acc.length) :
    (swapAt acc p)[j]? = if j = p - 1 then acc[p]? else if j = p then acc[p - 1]? else acc[j]? := by
  unfold swapAt
  by_cases hj1 : j = p - 1
  · subst hj1
    simp only [if_true]
    rw [List.getElem?_set_self (by simp; omega)]
    simp [List.getD_eq_getElem?_getD, List.getElem?_eq_getElem h2]
  · simp only [if_neg hj1]
    rw [List.getElem?_set_ne (by omega)]
    by_cases hj2 : j = p
    · subst hj2
      simp only [if_true]
      rw [List.getElem?_set_self h2]
      simp [List.getD_eq_getElem?_getD, List.getElem?_eq_getElem (show j - 1 < acc.length by omega)]
    · simp only [if_neg hj2]
      rw [List.getElem?_set_ne (by omega)]

/-- a loop of swaps `(P i, P i - 1)`, `i < m`, on pairwise disjoint position pairs -/
theorem foldl_swap (P : Nat → Nat) (acc : List Nat) : ∀ (m : Nat),
    (∀ i, i < m → 1 ≤ P i ∧ P i < acc.length) →
    (∀ i i', i < m → i' < m → i ≠ i' → P i + 2 ≤ P i' ∨ P i' + 2 ≤ P i) →
    ((List.range m).foldl (fun a i => swapAt a (P i)) acc).length = acc.length ∧
    (∀ i, i < m → ((List.range m).foldl (fun a i => swapAt a (P i)) acc)[P i]? = acc[P i - 1]?) ∧
    (∀ i, i < m → ((List.range m).foldl (fun a i => swapAt a (P i)) acc)[P i - 1]? = acc[P i]?) ∧
    (∀ j, (∀ i, i < m → j ≠ P i ∧ j ≠ P i - 1) → ((List.range m).foldl (fun a i => swapAt a (P i)) acc)[j]? = acc[j]?) := by
  intro m
  induction m with
  | zero => intro _ _; simp
  | succ m ih =>
    intro hP hdis
    obtain ⟨ihl, iha, ihb, ihc⟩ := ih (fun i hi => hP i (by omega)) (fun i i' hi hi' => hdis i i' (by omega) (by omega))
    rw [List.range_succ, List.foldl_append]
    simp only [List.foldl_cons, List.foldl_nil]
    have hPm := hP m (by omega)
    have hlen : ((List.range m).foldl (fun a i => swapAt a (P i)) acc).length = acc.length := ihl
    refine ⟨by rw [swapAt_length, hlen], ?_, ?_, ?_⟩
    · intro i hi
      rw [swapAt_getElem? _ _ _ hPm.1 (by rw [hlen]; exact hPm.2)]
      by_cases him : i = m
      · subst him
        have : P i ≠ P i - 1 := by omega
        rw [if_neg this, if_pos rfl]
        exact ihc (P i - 1) (fun i' hi' => by have := hdis i i' (by omega) (by omega) (by omega); omega)
      · have := hdis i m (by omega) (by omega) him
        rw [if_neg (by omega), if_neg (by omega)]
        exact iha i (by omega)
    · intro i hi
      rw [swapAt_getElem? _ _ _ hPm.1 (by rw [hlen]; exact hPm.2)]
      by_cases him : i = m
      · subst him
        rw [if_pos rfl]
        exact ihc (P i) (fun i' hi' => by have := hdis i i' (by omega) (by omega) (by omega); omega)
      · have := hdis i m (by omega) (by omega) him
        have h1 := (hP i (by omega)).1
        rw [if_neg (by omega), if_neg (by omega)]
        exact ihb i (by omega)
    · intro j hj
      rw [swapAt_getElem? _ _ _ hPm.1 (by rw [hlen]; exact hPm.2)]
      have := hj m (by omega)
      rw [if_neg this.2, if_neg this.1]
      exact ihc j (fun i hi => hj i (by omega))

theorem kronAxis_A1 (l r i : Nat) (hlr : l < r) (hi : i < l) :
    kronAxis l r (l + r - 2 * (i + 1)) = kronAxis l (r - 1) (l + r - 2 * (i + 1) - 1) := by
  simp only [kronAxis]
  repeat' split
  all_goals omega

theorem kronAxis_A2 (l r i : Nat) (hlr : l < r) (hi : i < l) :
    kronAxis l r (l + r - 2 * (i + 1) - 1) = kronAxis l (r - 1) (l + r - 2 * (i + 1)) := by
  simp only [kronAxis]
  repeat' split
  all_goals omega

theorem kronAxis_A3 (l r j : Nat) (hlr : l < r) (hj : j + 2 * l + 1 < l + r) :
    kronAxis l r j = kronAxis l (r - 1) j := by
  simp only [kronAxis]
  repeat' split
  all_goals omega

theorem kronAxis_A4 (l r : Nat) (hlr : l < r) : kronAxis l r (l + r - 1) = l + r - 1 := by
  simp only [kronAxis]
  repeat' split
  all_goals omega

theorem kronAxis_B1 (l r i : Nat) (hlr : r < l) (hi : i < r) :
    kronAxis l r (l + r - (2 * i + 1)) = kronAxis l (r + 1) (l + r - (2 * i + 1) - 1) := by
  simp only [kronAxis]
  repeat' split
  all_goals omega

theorem kronAxis_B2 (l r i : Nat) (hlr : r < l) (hi : i < r) :
    kronAxis l r (l + r - (2 * i + 1) - 1) = kronAxis l (r + 1) (l + r - (2 * i + 1)) := by
  simp only [kronAxis]
  repeat' split
  all_goals omega

theorem kronAxis_B3 (l r j : Nat) (hlr : r < l) (hj : j + 2 * r < l + r) :
    kronAxis l r j = kronAxis l (r + 1) j := by
  simp only [kronAxis]
  repeat' split
  all_goals omega

theorem kronAxis_E (l j : Nat) (hj : j < 2 * l) :
    kronAxis l l j = if j % 2 = 0 then j / 2 else j / 2 + l := by
  simp only [kronAxis]
  repeat' split
  all_goals omega

theorem kronDstTranspose_succ (fuel l r : Nat) :
    kronDstTranspose (fuel + 1) l r =
      if l = r then
        (List.range ((l + r) / 2)).foldl (fun acc i => acc.set (i * 2 + 1) (i + (l + r) / 2))
          ((List.range ((l + r) / 2)).foldl (fun acc i => acc.set (i * 2) i) (List.range (l + r)))
      else if l < r then
        (List.range l).foldl (fun a i => swapAt a (l + r - 2 * (i + 1)))
          ((List.range (l + r - 1)).foldl (fun acc i => acc.set i ((kronDstTranspose fuel l (r - 1)).getD i 0)) (List.range (l + r)))
      else
        (List.range r).foldl (fun a i => swapAt a (l + r - (2 * i + 1)))
          ((List.range (l + r)).foldl (fun acc i => acc.set i ((kronDstTranspose fuel l (r + 1)).getD i 0)) (List.range (l + r))) := by
  rfl

theorem kronDstTranspose_eq : ∀ (fuel l r : Nat), (if l ≤ r then r - l else l - r) < fuel →
    kronDstTranspose fuel l r = (List.range (l + r)).map (kronAxis l r) := by
  intro fuel
  induction fuel with
  | zero => intro l r h; omega
  | succ fuel ih =>
    intro l r hf
    rw [kronDstTranspose_succ]
    by_cases hlr : l = r
    · subst hlr
      rw [if_pos rfl]
      have hd : (l + l) / 2 = l := by omega
      rw [hd]
      apply List.ext_getElem?
      intro j
      by_cases hj : j < l + l
      · rw [List.getElem?_map, List.getElem?_range hj, Option.map_some, kronAxis_E l j (by omega)]
        by_cases hpar : j % 2 = 0
        · rw [if_pos hpar]
          rw [foldl_set_getElem?_miss l (fun i => i * 2 + 1) (fun i => i + l) _ j (fun i _ => by omega)]
          have hj2 : j = (j / 2) * 2 := by omega
          have := foldl_set_getElem?_hit l (fun i => i * 2) (fun i => i) (List.range (l + l))
            (fun a b _ _ h => by omega) (j / 2) (by omega) (by simp; omega)
          rw [← hj2] at this
          exact this
        · rw [if_neg hpar]
          have hj2 : j = (j / 2) * 2 + 1 := by omega
          have := foldl_set_getElem?_hit l (fun i => i * 2 + 1) (fun i => i + l)
            ((List.range l).foldl (fun acc i => acc.set (i * 2) i) (List.range (l + l)))
            (fun a b _ _ h => by omega) (j / 2) (by omega) (by rw [foldl_set_length]; simp; omega)
          rw [← hj2] at this
          exact this
      · rw [List.getElem?_eq_none (by rw [foldl_set_length, foldl_set_length]; simp; omega),
            List.getElem?_eq_none (by simp; omega)]
    · rw [if_neg hlr]
      by_cases hlt : l < r
      · rw [if_pos hlt]
        have hia := ih l (r - 1) (by split at hf <;> split <;> omega)
        rw [hia]
        have hlen1 : ((List.range (l + r - 1)).foldl (fun acc i => acc.set i
            (((List.range (l + (r - 1))).map (kronAxis l (r - 1))).getD i 0)) (List.range (l + r))).length = l + r := by
          rw [foldl_set_length]; simp
        -- the list after the copy loop, pointwise
        have hr1 : ∀ j, j < l + r → ((List.range (l + r - 1)).foldl (fun acc i => acc.set i
            (((List.range (l + (r - 1))).map (kronAxis l (r - 1))).getD i 0)) (List.range (l + r)))[j]? =
            some (if j < l + r - 1 then kronAxis l (r - 1) j else j) := by
          intro j hj
          by_cases hj1 : j < l + r - 1
          · rw [if_pos hj1]
            have := foldl_set_getElem?_hit (l + r - 1) (fun i => i)
              (fun i => ((List.range (l + (r - 1))).map (kronAxis l (r - 1))).getD i 0) (List.range (l + r))
              (fun a b _ _ h => h) j hj1 (by simp; omega)
            rw [this]
            simp [List.getD_eq_getElem?_getD, List.getElem?_range (show j < l + (r - 1) by omega)]
          · rw [if_neg hj1]
            rw [foldl_set_getElem?_miss (l + r - 1) (fun i => i) _ _ j (fun i hi => by omega)]
            simp [hj]
        obtain ⟨hsl, hsa, hsb, hsc⟩ := foldl_swap (fun i => l + r - 2 * (i + 1))
          ((List.range (l + r - 1)).foldl (fun acc i => acc.set i
            (((List.range (l + (r - 1))).map (kronAxis l (r - 1))).getD i 0)) (List.range (l + r))) l
          (fun i hi => by rw [hlen1]; omega) (fun i i' hi hi' hne => by omega)
        apply List.ext_getElem?
        intro j
        by_cases hj : j < l + r
        · rw [List.getElem?_map, List.getElem?_range hj, Option.map_some]
          by_cases hlast : j = l + r - 1
          · rw [hsc j (fun i hi => by omega), hr1 j hj, if_neg (by omega), hlast, kronAxis_A4 l r hlt]
          · by_cases hlead : j + 2 * l + 1 < l + r
            · rw [hsc j (fun i hi => by omega), hr1 j hj, if_pos (by omega), kronAxis_A3 l r j hlt hlead]
            · -- j is one of the swapped positions
              by_cases hpar : (l + r - 1 - j) % 2 = 1
              · -- j = P i with i = (l + r - 1 - j) / 2
                have hji : j = l + r - 2 * ((l + r - 1 - j) / 2 + 1) := by omega
                have hi : (l + r - 1 - j) / 2 < l := by omega
                have h1 := hsa ((l + r - 1 - j) / 2) hi
                rw [← hji] at h1
                rw [h1, hr1 (j - 1) (by omega), if_pos (by omega)]
                have := kronAxis_A1 l r ((l + r - 1 - j) / 2) hlt hi
                rw [← hji] at this
                rw [this]
              · have hji : j = l + r - 2 * ((l + r - 1 - j) / 2 - 1 + 1) - 1 := by omega
                have hi : (l + r - 1 - j) / 2 - 1 < l := by omega
                have h1 := hsb ((l + r - 1 - j) / 2 - 1) hi
                rw [← hji] at h1
                have hj1 : l + r - 2 * ((l + r - 1 - j) / 2 - 1 + 1) = j + 1 := by omega
                rw [hj1] at h1
                rw [h1, hr1 (j + 1) (by omega), if_pos (by omega)]
                have := kronAxis_A2 l r ((l + r - 1 - j) / 2 - 1) hlt hi
                rw [← hji, hj1] at this
                rw [this]
        · rw [List.getElem?_eq_none (by rw [hsl, hlen1]; omega), List.getElem?_eq_none (by simp; omega)]
      · rw [if_neg hlt]
        have hgt : r < l := by omega
        have hia := ih l (r + 1) (by split at hf <;> split <;> omega)
        rw [hia]
        have hlen1 : ((List.range (l + r)).foldl (fun acc i => acc.set i
            (((List.range (l + (r + 1))).map (kronAxis l (r + 1))).getD i 0)) (List.range (l + r))).length = l + r := by
          rw [foldl_set_length]; simp
        have hr1 : ∀ j, j < l + r → ((List.range (l + r)).foldl (fun acc i => acc.set i
            (((List.range (l + (r + 1))).map (kronAxis l (r + 1))).getD i 0)) (List.range (l + r)))[j]? =
            some (kronAxis l (r + 1) j) := by
          intro j hj
          have := foldl_set_getElem?_hit (l + r) (fun i => i)
            (fun i => ((List.range (l + (r + 1))).map (kronAxis l (r + 1))).getD i 0) (List.range (l + r))
            (fun a b _ _ h => h) j hj (by simp; omega)
          rw [this]
          simp [List.getD_eq_getElem?_getD, List.getElem?_range (show j < l + (r + 1) by omega)]
        obtain ⟨hsl, hsa, hsb, hsc⟩ := foldl_swap (fun i => l + r - (2 * i + 1))
          ((List.range (l + r)).foldl (fun acc i => acc.set i
            (((List.range (l + (r + 1))).map (kronAxis l (r + 1))).getD i 0)) (List.range (l + r))) r
          (fun i hi => by rw [hlen1]; omega) (fun i i' hi hi' hne => by omega)
        apply List.ext_getElem?
        intro j
        by_cases hj : j < l + r
        · rw [List.getElem?_map, List.getElem?_range hj, Option.map_some]
          by_cases hlead : j + 2 * r < l + r
          · rw [hsc j (fun i hi => by omega), hr1 j hj, kronAxis_B3 l r j hgt hlead]
          · by_cases hpar : (l + r - 1 - j) % 2 = 0
            · have hji : j = l + r - (2 * ((l + r - 1 - j) / 2) + 1) := by omega
              have hi : (l + r - 1 - j) / 2 < r := by omega
              have h1 := hsa ((l + r - 1 - j) / 2) hi
              rw [← hji] at h1
              rw [h1, hr1 (j - 1) (by omega)]
              have := kronAxis_B1 l r ((l + r - 1 - j) / 2) hgt hi
              rw [← hji] at this
              rw [this]
            · have hji : j = l + r - (2 * ((l + r - 1 - j) / 2) + 1) - 1 := by omega
              have hi : (l + r - 1 - j) / 2 < r := by omega
              have h1 := hsb ((l + r - 1 - j) / 2) hi
              rw [← hji] at h1
              have hj1 : l + r - (2 * ((l + r - 1 - j) / 2) + 1) = j + 1 := by omega
              rw [hj1] at h1
              rw [h1, hr1 (j + 1) (by omega)]
              have := kronAxis_B2 l r ((l + r - 1 - j) / 2) hgt hi
              rw [← hji, hj1] at this
              rw [this]
        · rw [List.getElem?_eq_none (by rw [hsl, hlen1]; omega), List.getElem?_eq_none (by simp; omega)]

end NmVerif
