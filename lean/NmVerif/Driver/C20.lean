import NmVerif.Proto
import NmVerif.Containers.NDArrayObj
import NmVerif.Index.Reshape
import NmVerif.Index.Slice
import NmVerif.Driver.C05
import NmVerif.Arr
/-
  Driver for C20: answers the requests of harness/h_c20*.cpp with the MODEL (NmVerif.NDObj, the view models of
  Index/Reshape.lean and Index/Slice.lean).
    ndobj    kind=<k> [x=1] ops=<op>;<op>;…   operation sequence on an array object (x=1: extended answer format with
                                               astrides=, and the ops cast:<kind> / dcast:<dtype>)
    castkind src=<fx|cf|cfc> shape=… tag=<kind tag> base=<int>   cast(a, kind) from a compile-time-shaped source
    mview    (one write through ref/flatten/reshape, row-major source)
    mviewall kind=<ref|flatten|reshape|slice> lay=<r|c> shape=… [to=…] [sl=… enc=<packed|dynP|dynA>] v=<int>
             one write per destination index of the view, whole source buffer after each
-/
namespace NmVerif.Driver.C20
open NmVerif NmVerif.Proto NmVerif.NDObj

def cfgOf : String → Option Cfg
  | "dd" => some ⟨.dyn, .dyn, false⟩
  | "ddc" => some ⟨.dyn, .dyn, true⟩
  | "fd6" => some ⟨.dyn, .fixed 6, false⟩
  | "fd6c" => some ⟨.dyn, .fixed 6, true⟩
  | "df2" => some ⟨.fixedDim 2, .dyn, false⟩
  | "df3c" => some ⟨.fixedDim 3, .dyn, true⟩
  | "bb" => some ⟨.bounded 3, .bounded 8, false⟩
  | "db3" => some ⟨.bounded 3, .dyn, false⟩
  | "b8d" => some ⟨.dyn, .bounded 8, false⟩
  | "ff" => some ⟨.fixedDim 2, .fixed 6, false⟩
  | "hyb" => some ⟨.fixedDim 2, .bounded 8, false⟩     -- hybrid_ndarray<int,8,2>
  | "dyn" => some ⟨.dyn, .dyn, false⟩                   -- dynamic_ndarray<int>
  | "lf" => some ⟨.clipped [2, 3], .fixed 6, false⟩     -- ndarray_t<array<int,6>, tuple<clipped_size_t<2>,clipped_size_t<3>>>
  | "lfc" => some ⟨.clipped [2, 3], .fixed 6, true⟩
  | _ => none

def dtypeOf : String → Option DType
  | "i8" => some .i8 | "u8" => some .u8 | "i16" => some .i16 | "i64" => some .i64 | "f64" => some .f64
  | _ => none

def parseOp (s : String) : Option Op :=
  match s.splitOn ":" with
  | ["resize", a] => (parseNats a).map Op.resize
  | ["fill", a] => a.toInt?.map Op.fill
  | ["write", a, b] => do let i ← parseNats a; let v ← b.toInt?; pure (Op.write i v)
  | _ => none

def fmtState (st : St) (r : Bool) (nd : Nat) : String :=
  s!"r={if r then 1 else 0} shape={fmtNats st.shape} strides={fmtNats (reportedStrides st)} n={st.data.length} data={fmtInts (st.data.take nd)}"

/-- extended format: the addressing strides (the offset functor's) after the classic fields -/
def fmtStateX (x : Bool) (st : St) (r : Bool) (nd : Nat) : String :=
  fmtState st r nd ++ (if x then s!" astrides={fmtNats st.strides}" else "")

/-- write 100+k at the k-th multi-index (row-major enumeration) over a buffer of -1 -/
def probe (st : St) : St :=
  let blank : St := { st with data := List.replicate st.data.length (-1) }
  (List.range (prod st.shape)).foldl (fun s k => write s (ndindex st.shape k) (100 + (k : Int))) blank

def tagOf : String → Option KindTag
  | "fixed" => some .fixed | "hybrid" => some .hybrid | "dynamic" => some .dynamic
  | s =>
    match s.toList with
    | [a, '_', b] =>
      (match a with | 'c' => some SKTag.c | 'f' => some SKTag.f | 'h' => some SKTag.h | 'd' => some SKTag.d | 'l' => some SKTag.l | _ => none).bind
        (fun sk => (match b with | 'f' => some BKTag.f | 'h' => some BKTag.h | 'd' => some BKTag.d | _ => none).map (fun bk => KindTag.nd sk bk))
    | _ => none

def handle : Handler := fun op a =>
  match op with
  | "ndobj" => orBad do
      let kind ← a.get? "kind"
      let c ← cfgOf kind
      let x := a.get? "x" == some "1"
      let legacy := kind == "hyb" || kind == "dyn"
      let opss ← a.get? "ops"
      let segs := opss.splitOn ";"
      let rec go (c : Cfg) (st : St) (tracked : Nat) (l : List String) (acc : List String) : Option (List String) :=
        match l with
        | [] => some acc.reverse
        | "copy" :: rest => go c st tracked rest (fmtStateX x st true st.data.length :: acc)
        | "probe" :: rest =>
            let st' := probe st
            go c st' st'.data.length rest (fmtStateX x st' true st'.data.length :: acc)
        | s :: rest =>
          match s.splitOn ":" with
          | ["cast", k] => do
              if !x then none
              let cd ← cfgOf k
              match castInto cd id st with
              | none => some ((acc.reverse) ++ ["ub"])
              | some r => go cd r r.data.length rest (fmtStateX x r true r.data.length :: acc)
          | ["dcast", t] => do
              if !x then none
              let dt ← dtypeOf t
              match castInto c (convTo dt) st with
              | none => some ((acc.reverse) ++ ["ub"])
              | some m =>
                match castInto c id m with
                | none => some ((acc.reverse) ++ ["ub"])
                | some r =>
                  let via := s!" via={fmtNats m.shape}/{fmtNats (reportedStrides m)}/{fmtNats m.strides}/{fmtInts m.data}"
                  go c r r.data.length rest ((fmtStateX x r true r.data.length ++ via) :: acc)
          | _ => do
            let o ← parseOp s
            let (st', r) := step c st o
            let nd := match o with
              | .resize _ => if r then min tracked st'.data.length else st'.data.length
              | _ => st'.data.length
            go c st' st'.data.length rest (fmtStateX x st' r nd :: acc)
      let out ← go c (init c) (if legacy then 0 else (init c).data.length) segs []
      pure ("ok " ++ " | ".intercalate out)
  | "castkind" => orBad do
      let srck ← a.get? "src"
      let s ← a.nats "shape"
      let tag ← (a.get? "tag").bind tagOf
      let base ← a.int "base"
      let cm ← match srck with | "fx" => some false | "cf" => some false | "cfc" => some true | _ => none
      let cs : Cfg := ⟨.const s, .fixed (prod s), cm⟩
      let src := fill (init cs) base
      match castInto (kindCfg tag s) id src with
      | none => pure "ub"
      | some r => pure s!"ok shape={fmtNats r.shape} strides={fmtNats (reportedStrides r)} astrides={fmtNats r.strides} n={r.data.length} data={fmtInts r.data}"
  | "mview" => orBad do
      -- write through a mutable view (source data[k]=k, row-major); report the source buffer afterwards
      let kind ← a.get? "kind"
      let s ← a.nats "shape"
      let i ← a.nats "idx"
      let v ← a.int "v"
      let n := prod s
      let src : St := { shape := s, strides := strides s, data := (List.range n).map (fun (k : Nat) => (k : Int)) }
      -- destination index -> source index: both reshape and flatten keep the flat position (ref: identity)
      let srcIdx ← match kind with
        | "ref" => some i
        | "flatten" => (match i with | [k] => some (ndindex s k) | _ => none)
        | "reshape" => do
            let to ← a.nats "to"
            if prod to ≠ n then none else some (ndindex s (computeOffset i (strides to)))
        | _ => none
      pure s!"ok data={fmtInts (write src srcIdx v).data}"
  | "mviewall" => orBad do
      let kind ← a.get? "kind"
      let lay ← a.get? "lay"
      let cm ← match lay with | "r" => some false | "c" => some true | _ => none
      let s ← a.nats "shape"
      let val ← a.int "v"
      let n := prod s
      let src : St := { shape := s, strides := stridesOf cm s, data := (List.range n).map (fun (k : Nat) => (k : Int)) }
      let view : Option IxView ← match kind with
        | "ref" => some (some ⟨s, s, fun d => some d⟩)
        | "flatten" => some (flattenView s)
        | "reshape" => do
            let to ← a.ints "to"
            some (reshapeView s to)
        | "slice" => do
            let es ← (a.get? "sl").bind NmVerif.Driver.C05.parseEntries
            let enc ← a.get? "enc"
            if enc == "packed" then some (Slice.sliceView s es)
            else if enc == "dynP" || enc == "dynA" then some (Slice.dynamicSliceView s es)
            else none
        | _ => none
      match view with
      | none => pure "nothing"
      | some v =>
        let hd := s!"ok shape={fmtNats v.dst} bufs="
        let ds := if v.dst.any (· == 0) then [] else allIdx v.dst
        let rec goV (ds : List (List Nat)) (k : Nat) (acc : List String) : String :=
          match ds with
          | [] => hd ++ (if acc.isEmpty then "[]" else ";".intercalate acc.reverse)
          | d :: rest =>
            match v.map d with
            | none => hd ++ s!"unmapped@{k}"
            | some i =>
              if decide (InShape i s) then goV rest (k + 1) (fmtInts (write src i val).data :: acc)
              else hd ++ s!"oob@{k}"
        pure (goV ds 0 [])
  | _ => none

end NmVerif.Driver.C20
