// C06 harness: broadcast_shape / shape_broadcast_to / origin_axes / free_axes / index::broadcast_to /
// view::broadcast_to / view::broadcast_arrays from $VERIF_REPO/include
#include "nmtools/array/index/broadcast_shape.hpp"
#include "nmtools/array/index/broadcast_to.hpp"
#include "nmtools/array/index/free_axes.hpp"
#include "nmtools/array/index/ndindex.hpp"
#include "nmtools/array/view/broadcast_to.hpp"
#include "nmtools/array/view/broadcast_arrays.hpp"
#include "nmtools/array/ndarray.hpp"
#include "nmtools/utility/at.hpp"
#include "proto.hpp"
#include <array>

namespace nm = nmtools; namespace ix = nmtools::index; namespace na = nmtools::array; namespace view = nmtools::view;
using namespace proto;

template <typename V> static std::string fmtn(const V& v) {
    return fmt_with(v, [](const auto& x){ return (size_t)nm::len(x); }, [](const auto& x, size_t i){ return nm::at(x,i); });
}

// run f with the shape in the requested container kind
template <typename F> static std::string with_kind(const std::string& kind, const uvec& s, F f) {
    if (kind=="vec") return f(s);
    if (kind=="sv") { nmtools_static_vector<size_t,8> v; v.resize(s.size()); for (size_t i=0;i<s.size();i++) v[i]=s[i]; return f(v); }
    if (kind=="arr") {
        switch (s.size()) {
#define CASE(N) case N: { std::array<size_t,N> v{}; for (size_t i=0;i<N;i++) v[i]=s[i]; return f(v); }
            CASE(1) CASE(2) CASE(3) CASE(4)
#undef CASE
            default: return "unsupported-kind";
        }
    }
    return "unsupported-kind";
}

using arr_t = na::ndarray_t<std::vector<int>, std::vector<size_t>>;

static arr_t iota(const uvec& shape, int base) {
    arr_t a; a.resize(shape);
    size_t n = nm::size(a);
    for (size_t k=0;k<n;k++) a.data()[k] = base + (int)k;
    return a;
}

// all elements of a view in row-major order of its shape, read through apply_at
template <typename view_t> static std::string elements(const view_t& v) {
    auto shp = nm::shape(v);
    uvec s; for (size_t i=0;i<(size_t)nm::len(shp);i++) s.push_back((size_t)nm::at(shp,i));
    size_t n = 1; for (auto e : s) n *= e;
    std::ostringstream o;
    auto nd = ix::ndindex(s);
    for (size_t k=0;k<n;k++) { if (k) o << ','; o << (long long)nm::apply_at(v, nd[k]); }
    if (n==0) return "[]";
    return o.str();
}

template <typename M> static std::string maybe_shape(const M& r) {
    if constexpr (nm::meta::is_maybe_v<M>) {
        if (!nm::has_value(r)) return "nothing";
        return "ok " + fmtn(*r);
    } else {
        return "ok " + fmtn(r);
    }
}

static std::string bshape(const std::vector<ivec>& ss, const std::vector<std::string>& kinds) {
    std::vector<uvec> u; for (auto& s : ss) { uvec t; for (auto v : s) t.push_back((size_t)v); u.push_back(t); }
    auto kind = [&](size_t i){ return i < kinds.size() ? kinds[i] : std::string("vec"); };
    if (u.size()==2) {
        return with_kind(kind(0), u[0], [&](const auto& a){
            return with_kind(kind(1), u[1], [&](const auto& b){ return maybe_shape(ix::broadcast_shape(a,b)); }); });
    }
    if (u.size()==3) {
        // mixed kinds on the first two operands only (instantiation count)
        return with_kind(kind(0), u[0], [&](const auto& a){
            return with_kind(kind(2), u[2], [&](const auto& c){ return maybe_shape(ix::broadcast_shape(a,u[1],c)); }); });
    }
    if (u.size()==4) return maybe_shape(ix::broadcast_shape(u[0],u[1],u[2],u[3]));
    if (u.size()==5) return maybe_shape(ix::broadcast_shape(u[0],u[1],u[2],u[3],u[4]));
    return "bad-args";
}

std::string handle(const std::string& op, const Args& a) {
    if (op=="bshape") {
        std::vector<std::string> kinds; if (has(a,"kinds")) kinds = split(get(a,"kinds"), ',');
        return bshape(int_lists(a,"shapes"), kinds);
    }
    if (op=="sbt") {
        std::string ks = has(a,"ksrc") ? get(a,"ksrc") : "vec", kd = has(a,"kdst") ? get(a,"kdst") : "vec";
        return with_kind(ks, nats(a,"src"), [&](const auto& src){
            return with_kind(kd, nats(a,"dst"), [&](const auto& dst){
                auto r = ix::shape_broadcast_to(src, dst);
                if (!nm::has_value(r)) return std::string("nothing");
                auto shp = nm::get<0>(*r); auto fr = nm::get<1>(*r);
                auto so = ix::origin_axes(r);
                auto origin = nm::get<1>(*so);
                return "ok shape=" + fmtn(shp) + " free=" + fmtn(fr) + " origin=" + fmtn(origin);
            }); });
    }
    if (op=="free_axes") {
        auto r = ix::free_axes(nats(a,"a"), nats(a,"b"));
        return "ok " + fmtn(r);
    }
    if (op=="bto_ix") {   // index::broadcast_to for every destination index
        auto src = nats(a,"src"); auto dst = nats(a,"dst");
        auto r = ix::shape_broadcast_to(src, dst);
        if (!nm::has_value(r)) return std::string("nothing");
        auto so = ix::origin_axes(r);
        auto origin = nm::get<1>(*so);
        size_t n = 1; for (auto e : dst) n *= e;
        auto nd = ix::ndindex(dst);
        std::ostringstream o; o << "ok src=";
        for (size_t k=0;k<n;k++) { if (k) o << ';'; o << fmtn(ix::broadcast_to(nd[k], src, dst, origin)); }
        return o.str();
    }
    if (op=="bto_view") { // view::broadcast_to over provenance data
        auto src = nats(a,"src"); auto dst = nats(a,"dst");
        auto arr = iota(src, 0);
        std::string kd = has(a,"kdst") ? get(a,"kdst") : "vec";
        return with_kind(kd, dst, [&](const auto& d){
            auto v = view::broadcast_to(arr, d);
            if (!nm::has_value(v)) return std::string("nothing");
            return "ok shape=" + fmtn(nm::shape(*v)) + " data=" + elements(*v);
        });
    }
    if (op=="barrays") {  // view::broadcast_arrays, operand k filled with 1000*k + flat id
        auto ss = int_lists(a,"shapes");
        std::vector<arr_t> arrs;
        for (size_t k=0;k<ss.size();k++) { uvec t; for (auto v : ss[k]) t.push_back((size_t)v); arrs.push_back(iota(t, 1000*(int)k)); }
        auto out = [&](const auto& m) {
            if (!nm::has_value(m)) return std::string("nothing");
            const auto& tup = *m;
            std::string s = "ok shape=" + fmtn(nm::shape(nm::get<0>(tup))) + " data=";
            constexpr auto N = nm::meta::len_v<nm::meta::remove_cvref_t<decltype(tup)>>;
            nm::meta::template_for<N>([&](auto i){
                if (i) s += "|";
                s += fmtn(nm::shape(nm::at(tup,i))) + ":" + elements(nm::at(tup,i));
            });
            return s;
        };
        if (arrs.size()==2) return out(view::broadcast_arrays(arrs[0],arrs[1]));
        if (arrs.size()==3) return out(view::broadcast_arrays(arrs[0],arrs[1],arrs[2]));
        return std::string("bad-args");
    }
    return "unknown-op";
}
