import NmVerif.Basic
import NmVerif.Arr
/-
  NmVerif.Index.Broadcast — MODEL of the broadcasting index functions (C06; reused by C07, C02, C10, C15, C16).

  Mirrors (with `List Nat` for every shape / index container kind, `Option` for `nmtools_maybe`):
    include/nmtools/array/index/broadcast_shape.hpp   impl::broadcast_shape (2 operands), variadic left fold
    include/nmtools/array/index/broadcast_to.hpp      impl::shape_broadcast_to (+ free axes), origin_axes, broadcast_to
    include/nmtools/array/index/free_axes.hpp         free_axes
    include/nmtools/array/index/logical_not.hpp       logical_not
    include/nmtools/array/index/nonzero.hpp           nonzero
    include/nmtools/array/index/gather.hpp            gather
    include/nmtools/array/view/broadcast_to.hpp       broadcast_to_t::indices, view::broadcast_to
    include/nmtools/array/view/broadcast_arrays.hpp   view::broadcast_arrays

  The C++ loops run over `i = 0 … rdim-1` and address the operands *from the right*
  (`ai = adim - i - 1`, `bi = bdim - i - 1`, `si = rdim - i - 1`), leaving the loop at the first failure.
  Iteration `i` therefore reads entry `i` of the *reversed* shapes: the model recurses from the head of the
  reversed lists (`bcRev`, `sbtRev`), `none` = the `success` flag went false (remaining iterations skipped).

  Core Lean only (linked into the `driver` executable).
-/
namespace NmVerif

/-! ### broadcast_shape -/

/-- one iteration of the loop of `impl::broadcast_shape` when both operands have the axis:
    `success = (a==b) || (a==1) || (b==1)`, `res[si] = a > b ? a : b`. -/
def bc1 (a b : Nat) : Option Nat :=
  if a = b ∨ a = 1 ∨ b = 1 then some (if a > b then a else b) else none

/-- the loop of `impl::broadcast_shape` on the reversed shapes: both present → `bc1`;
    only one present (`bi<0` / `ai<0`) → copy; failure → leave the loop (`none`). -/
def bcRev : List Nat → List Nat → Option (List Nat)
  | [], bs => some bs
  | a :: as, [] => some (a :: as)
  | a :: as, b :: bs =>
    match bc1 a b with
    | none => none
    | some z => (bcRev as bs).map (z :: ·)

/-- `index::broadcast_shape(ashape, bshape)` -/
def broadcastShape2 (a b : Shape) : Option Shape :=
  (bcRev a.reverse b.reverse).map List.reverse

/-- `index::broadcast_shape(a, b, c, others…)`: `broadcast_shape(broadcast_shape(a,b), c, others…)`, `Nothing` is sticky
    (the `is_maybe` overloads).  One shape alone is returned unchanged (what `aliased_broadcast_arrays` would get for
    one operand if it accepted it; the C++ requires at least two). -/
def broadcastFold (acc : Option Shape) (rest : List Shape) : Option Shape :=
  rest.foldl (fun acc s => acc.bind (fun r => broadcastShape2 r s)) acc

def broadcastShape : List Shape → Option Shape
  | [] => some []
  | a :: rest => broadcastFold (some a) rest

/-! ### shape_broadcast_to, free axes, origin axes -/

/-- the loop of `impl::shape_broadcast_to` on the reversed shapes (`a` source, `b` target); entries `(res[bi], free[bi])`.
    `ai < 0` → `(b, true)`; `a == b` → `(a, false)`; `a == 1` → `(b, true)`; otherwise failure.
    (The source outliving the target cannot happen after the `bdim >= adim` check; it is `none`.) -/
def sbtRev : List Nat → List Nat → Option (List (Nat × Bool))
  | [], bs => some (bs.map (fun b => (b, true)))
  | _ :: _, [] => none
  | a :: as, b :: bs =>
    if a = b then (sbtRev as bs).map ((a, false) :: ·)
    else if a = 1 then (sbtRev as bs).map ((b, true) :: ·)
    else none

/-- `index::shape_broadcast_to(ashape, bshape)` → `(shape, free_axes)`; `success = bdim >= adim` initially. -/
def shapeBroadcastTo (a b : Shape) : Option (Shape × List Bool) :=
  if a.length ≤ b.length then
    (sbtRev a.reverse b.reverse).map (fun l => ((l.map (·.1)).reverse, (l.map (·.2)).reverse))
  else none

/-- `index::logical_not` -/
def logicalNot (l : List Bool) : List Bool := l.map (!·)

/-- `index::nonzero`: positions of the true entries, ascending (`k` = position of the head). -/
def nonzeroFrom (k : Nat) : List Bool → List Nat
  | [] => []
  | b :: bs => if b then k :: nonzeroFrom (k+1) bs else nonzeroFrom (k+1) bs

def nonzero (l : List Bool) : List Nat := nonzeroFrom 0 l

/-- `index::origin_axes`: `nonzero(logical_not(free_axes))` -/
def originAxes (free : List Bool) : List Nat := nonzero (logicalNot free)

/-- `index::free_axes(ashape, bshape)` (`ashape` the broadcast result, `bshape` the operand):
    `free[si] = (bi < 0) || bshape[bi] == 1`, right aligned, `len(ashape)` entries. -/
def freeAxesRev : List Nat → List Nat → List Bool
  | [], _ => []
  | _ :: as, [] => true :: freeAxesRev as []
  | _ :: as, b :: bs => (b == 1) :: freeAxesRev as bs

def freeAxes (a b : Shape) : List Bool := (freeAxesRev a.reverse b.reverse).reverse

/-- `index::gather(vec, idx)`: `ret[i] = vec[idx[i]]`; `none` = an `at` outside `vec` (UB in the C++). -/
def gather (v : List Nat) (idx : List Nat) : Option (List Nat) := idx.mapM (fun k => v[k]?)

/-- `index::broadcast_to(indices, src_shape, dst_shape, origin_axes)`:
    offset of the destination index over the origin (non-free) axes, unravelled in the source shape. -/
def broadcastToIndex (d : Idx) (src dst : Shape) (origin : List Nat) : Option Idx := do
  let originShape ← gather dst origin
  let originIdx ← gather d origin
  pure (computeIndices (computeOffset originIdx (strides originShape)) src (strides src))

/-- `view::broadcast_to(array, dst_shape)`: `Nothing` iff `shape_broadcast_to` fails; shape = the requested
    `dst_shape`; element map `broadcast_to_t::indices`. -/
def broadcastToView (src dst : Shape) : Option IxView :=
  (shapeBroadcastTo src dst).map (fun r =>
    { src := src, dst := dst, map := fun d => broadcastToIndex d src dst (originAxes r.2) })

/-- `view::broadcast_arrays(a₁, …, aₙ)`: common shape by `broadcast_shape`, then `broadcast_to` each operand
    (`unwrap`ped in the C++: the model keeps the `Option` so that "never Nothing here" is a theorem). -/
def broadcastArraysViews (shapes : List Shape) : Option (List IxView) :=
  (broadcastShape shapes).bind (fun r => shapes.mapM (fun s => broadcastToView s r))

/-! ### SPEC — NumPy's rule, stated directly -/

/-- extent of axis `k` counted from the right; an absent (prepended) axis counts as extent 1 -/
def axR (s : Shape) (k : Nat) : Nat :=
  match s.reverse[k]? with
  | some e => e
  | none => 1

/-- NumPy: shapes are broadcast-compatible iff on every axis (aligned at the trailing axis) all extents are equal or 1 -/
def Compatible (ss : List Shape) : Prop :=
  ∀ k, ∀ s ∈ ss, ∀ t ∈ ss, axR s k = axR t k ∨ axR s k = 1 ∨ axR t k = 1

/-- `r` is the per-axis maximum of `ss`: rank = largest rank, extent = largest extent on every axis -/
def IsAxisMax (r : Shape) (ss : List Shape) : Prop :=
  (∃ s ∈ ss, r.length = s.length) ∧ (∀ s ∈ ss, s.length ≤ r.length) ∧
  ∀ k, (∃ s ∈ ss, axR r k = axR s k) ∧ (∀ s ∈ ss, axR s k ≤ axR r k)

/-- executable form of the rule (used as decision procedure in examples and by the driver's `spec` ops) -/
def specBroadcast2 (a b : Shape) : Option Shape :=
  let n := max a.length b.length
  if (List.range n).all (fun k => axR a k == axR b k || axR a k == 1 || axR b k == 1)
  then some ((List.range n).reverse.map (fun k => max (axR a k) (axR b k)))
  else none

/-! #### NumPy's rule with zero extents allowed (for positive extents "the extent that is not 1" is the maximum) -/

/-- NumPy's rule for one axis, zero extents included: compatible iff equal or one of them 1; the result is the
    extent that is not 1 (so 0 with 1 gives 0) -/
def npBc1 (a b : Nat) : Option Nat :=
  if a = b ∨ a = 1 ∨ b = 1 then some (if a = 1 then b else a) else none

/-- NumPy's rule on the reversed (trailing-axis-first) shapes -/
def npRev : List Nat → List Nat → Option (List Nat)
  | [], bs => some bs
  | a :: as, [] => some (a :: as)
  | a :: as, b :: bs =>
    match npBc1 a b with
    | none => none
    | some z => (npRev as bs).map (z :: ·)

/-- NumPy's `broadcast_shapes` of two shapes, zero extents included -/
def npBroadcast2 (a b : Shape) : Option Shape := (npRev a.reverse b.reverse).map List.reverse

/-- some aligned axis pairs an extent 0 with an extent 1 (reversed shapes) -/
def zeroOneRev : List Nat → List Nat → Bool
  | a :: as, b :: bs => (a == 0 && b == 1) || (a == 1 && b == 0) || zeroOneRev as bs
  | _, _ => false

/-- the input class of known finding C06.broadcast-zero-extent-with-one -/
def ZeroWithOne (a b : Shape) : Bool := zeroOneRev a.reverse b.reverse

/-- NumPy `broadcast_to` element rule: drop the prepended axes of the destination index, put 0 on stretched
    (extent-1) source axes -/
def specBroadcastIdx (src : Shape) (d : Idx) : Idx :=
  List.zipWith (fun e x => if e = 1 then 0 else x) src (d.drop (d.length - src.length))

/-- NumPy: `src` can be broadcast to `dst` -/
def BroadcastableTo (src dst : Shape) : Prop :=
  src.length ≤ dst.length ∧ ∀ k, k < src.length → (axR src k = axR dst k ∨ axR src k = 1)

end NmVerif
