// C17 harness: pooling — index::shape_pool2d / slice_pool2d, view::pool2d with an order-revealing reducer,
// array::max_pool2d / avg_pool2d
//   pool_shape shape=.. kernel=kh,kw stride=sh,sw ceil=0|1
//   pool_slice idx=.. shape=.. kernel=.. stride=.. ceil=..
//   pool_fold  xs=.. kernel=.. stride=.. ceil=..            (data[k]=k, reducer 31*a+b mod 2^32 over the flattened window)
//   max_pool2d | avg_pool2d  dt=f|i xs=.. x=.. kernel=.. stride=.. ceil=..
#include "nmtools/array/array/pooling.hpp"
#include "nmtools/array/view/flatten.hpp"
#include "c17_util.hpp"

using namespace c17;
namespace view = nmtools::view; namespace ix = nmtools::index;

struct fold_reducer_t {
    template <typename sliced_t>
    auto operator()(const sliced_t& sliced) const {
        auto mf = view::flatten(sliced);
        const auto& f = nm::unwrap(mf);
        size_t n = nm::size(f);
        unsigned acc = 0;
        for (size_t i = 0; i < n; i++) acc = 31u * acc + (unsigned)f(i) + 1u;   // +1: id 0 is visible too
        return acc;
    }
};

static std::array<int,2> pair(const Args& a, const char* key) {
    auto v = proto::intsi(a, key); if (v.size() != 2) throw proto::bad_args(key);
    return {v[0], v[1]};
}

template <typename T, typename F> static std::string pool(const Args& a, F f) {
    auto x = mk<T>(a, "x");
    auto k = pair(a, "kernel"); auto s = pair(a, "stride"); bool ceil = proto::integer(a, "ceil") != 0;
    return fmt_result(f(x, k, s, ceil));
}

std::string handle(const std::string& op, const Args& a) {
    if (op == "pool_shape") {
        auto shape = proto::nats(a, "shape");
        auto k = pair(a, "kernel"); auto s = pair(a, "stride"); bool ceil = proto::integer(a, "ceil") != 0;
        auto r = ix::shape_pool2d(shape, k, s, ceil);
        return "ok " + proto::fmt_with(r, [](const auto& v){ return (size_t)nm::len(v); }, [](const auto& v, size_t i){ return nm::at(v, i); });
    }
    if (op == "pool_slice") {
        auto shape = proto::nats(a, "shape"); auto idx = proto::nats(a, "idx");
        auto k = pair(a, "kernel"); auto s = pair(a, "stride"); bool ceil = proto::integer(a, "ceil") != 0;
        auto r = ix::slice_pool2d(idx, shape, k, s, ceil);
        std::string out = "ok ";
        for (size_t i = 0; i < (size_t)nm::len(r); i++) {
            const auto& t = nm::at(r, i);
            if (i) out += ";";
            out += std::to_string((long long)nm::at(t,0)) + "," + std::to_string((long long)nm::at(t,1)) + "," + std::to_string((long long)nm::at(t,2));
        }
        return out;
    }
    if (op == "pool_fold") {
        auto shape = proto::nats(a, "xs");
        arr_t<unsigned> x; x.resize(shape);
        size_t n = nm::size(x); for (size_t i = 0; i < n; i++) x.data()[i] = (unsigned)i;
        auto k = pair(a, "kernel"); auto s = pair(a, "stride"); bool ceil = proto::integer(a, "ceil") != 0;
        auto v = view::pool2d(fold_reducer_t{}, x, k, s, ceil);
        return fmt_result(na::eval(v));
    }
    if (op == "max_pool2d" || op == "avg_pool2d") {
        bool mx = op == "max_pool2d";
        auto dt = proto::get(a, "dt");
        auto fmax = [](const auto& x, const auto& k, const auto& s, bool c){ return na::max_pool2d(x, k, s, c); };
        auto favg = [](const auto& x, const auto& k, const auto& s, bool c){ return na::avg_pool2d(x, k, s, c); };
        if (dt == "f") return mx ? pool<float>(a, fmax) : pool<float>(a, favg);
        if (dt == "i") return mx ? pool<int>(a, fmax) : pool<int>(a, favg);
        return "bad-args";
    }
    return "unknown-op";
}
