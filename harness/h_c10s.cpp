// C10 harness, TU "s": a view that evaluates to a NUMBER (reduction over all axes) evaluated into a caller-supplied scalar
// output that holds a sentinel before the call (evaluator_t::operator()(output_t&) for num outputs), through array::fn and
// through eval(view, context, output); the same variable reused for several evaluations.
//   request: intonum fn=<sum|prod|amax|amin|mean> et=<i|d> a=<shape> sentinel=<v> mode=<fn|eval|reuse>
//   answer : ok out=<v> [out2=<v> after a second evaluation into the same variable] ret=<returned value>
#include "nmtools/array/eval.hpp"
#include "nmtools/array/array/sum.hpp"
#include "nmtools/array/array/prod.hpp"
#include "nmtools/array/array/mean.hpp"
#include "nmtools/array/array/ufuncs/amax.hpp"
#include "nmtools/array/array/ufuncs/amin.hpp"
#include "nmtools/array/ndarray.hpp"
#include "proto.hpp"
#include <vector>
#include <sstream>
using namespace proto; namespace nm = nmtools; namespace na = nmtools::array; namespace view = nmtools::view;

template <typename T> static std::string run(const Args& a) {
    using arr_t = na::ndarray_t<std::vector<T>, std::vector<size_t>>;
    arr_t x; x.resize(nats(a, "a")); for (size_t k = 0; k < (size_t)nm::size(x); k++) x.data()[k] = (T)((k % 5) + 1);
    std::string fn = get(a, "fn"), mode = get(a, "mode"); T out = (T)integer(a, "sentinel");
    auto call = [&](T& o) {
        if (mode == "eval") {
            if (fn == "sum")  { auto v = view::sum(x, nm::None, nm::None, nm::None, nm::False);  na::eval(v, nm::None, o, na::RowMajorResolver); return; }
            if (fn == "prod") { auto v = view::prod(x, nm::None, nm::None, nm::None, nm::False); na::eval(v, nm::None, o, na::RowMajorResolver); return; }
            throw bad_args("fn");
        }
        if (fn == "sum")  { na::sum(x,  nm::None, nm::None, nm::None, nm::False, nm::None, o); return; }
        if (fn == "prod") { na::prod(x, nm::None, nm::None, nm::None, nm::False, nm::None, o); return; }
        if (fn == "amax") { na::amax(x, nm::None, nm::None, nm::None, nm::False, nm::None, o); return; }
        if (fn == "amin") { na::amin(x, nm::None, nm::None, nm::None, nm::False, nm::None, o); return; }
        throw bad_args("fn");
    };
    std::ostringstream o; o.precision(17);
    call(out); o << "ok out=" << (double)out;
    if (mode == "reuse") { call(out); o << " out2=" << (double)out; }
    return o.str();
}
std::string handle(const std::string& op, const Args& a) {
    if (op != "intonum") return "unknown-op";
    if (get(a, "fn") == "mean") {
        using arr_t = na::ndarray_t<std::vector<double>, std::vector<size_t>>;
        arr_t x; x.resize(nats(a, "a")); for (size_t k = 0; k < (size_t)nm::size(x); k++) x.data()[k] = (double)((k % 5) + 1);
        double m = (double)integer(a, "sentinel");
        na::mean(x, nm::None, nm::None, nm::False, nm::None, m);
        std::ostringstream o; o.precision(17); o << "ok out=" << m; return o.str();
    }
    return get(a, "et") == "d" ? run<double>(a) : run<int>(a);
}
