// C08 harness, TU 6: reductions over FIXED-DIM sources (shape held in std::array<size_t,N>) with every axis listed
// explicitly.  With a compile-time known number of axes equal to the rank and keepdims False, index::remove_dims has the
// result type none_t, the view is a *number* (meta::is_num_v) and its value is read through the conversion operator of
// the primary reduce_t template (reduce.hpp `operator num_type()`), not through operator()(indices...) — a separate
// copy of the "fold with or without initial" code that the dynamic-dim harnesses never reach.
//   -DC08S_PART=1 : view::reduce with the order-revealing functor (uint32)
//   -DC08S_PART=2 : the named routines sum / prod / amax (view:: and array::), dtype absent / float32 (fewer axis kinds:
//                   the build time of this part is dominated by the number of instantiations)
// axis kinds: ax=int (run-time int, rank 1), ax=arr (std::array<int,K>, K = number of listed axes), ax=ct (tuple of ct).
#include "nmtools/array/array/sum.hpp"
#include "nmtools/array/array/prod.hpp"
#include "nmtools/array/array/ufuncs/amax.hpp"
#include "nmtools/array/view/ufunc.hpp"
#include "nmtools/array/ndarray.hpp"
#include "c08_common.hpp"
#include <array>
#include <vector>

namespace nm = nmtools; namespace na = nmtools::array; namespace view = nmtools::view; namespace meta = nmtools::meta;
using namespace proto;

#ifndef C08S_PART
#define C08S_PART 0
#endif

struct f31 { constexpr unsigned operator()(unsigned a, unsigned b) const { return 31u * a + b; } };
template <typename T, size_t N> using fd_t = na::ndarray_t<std::vector<T>, std::array<size_t, N>>;

template <typename T, size_t N> static fd_t<T, N> make_fd(const Args& a) {
    auto s = nats(a, "shape");
    if (s.size() != N) throw bad_args("shape");
    std::array<size_t, N> sh; for (size_t i = 0; i < N; i++) sh[i] = s[i];
    fd_t<T, N> arr;
    if (!arr.resize(sh)) throw bad_args("resize");
    size_t n = nm::size(arr);
    if (has(a, "data")) { auto d = ints(a, "data"); if (d.size() != n) throw bad_args("data"); for (size_t k = 0; k < n; k++) arr.data()[k] = (T)d[k]; }
    else for (size_t k = 0; k < n; k++) arr.data()[k] = (T)(k + 1);
    return arr;
}

// the request says whether the view must be a number (`num=0|1`, known from the rank, the number of axes and keepdims):
// the answer is the plain canonical one, or `num-mismatch` when the view kind is not the expected one
static const Args* g_args = nullptr;
template <typename V> static std::string emit_num(const V& v) {
    if constexpr (meta::is_either_v<V>) {
        using L = meta::get_either_left_t<V>; using R = meta::get_either_right_t<V>;
        if (auto l = nm::get_if<L>(&v)) return emit_num(*l);
        return emit_num(*nm::get_if<R>(&v));
    } else {
        if (g_args && has(*g_args, "num") && (get(*g_args, "num") == "1") != (bool)meta::is_num_v<V>)
            return std::string("num-mismatch:is_num=") + (meta::is_num_v<V> ? "1" : "0");
        return c08::emit(v);
    }
}

#if C08S_PART == 0 || C08S_PART == 1
// kd: ct = nm::True / nm::False, rt = bool
template <bool allow_ct_true, typename array_t, typename axis_t>
static std::string go_f31(const array_t& arr, const axis_t& axis, const Args& a) {
    bool keep = c08::keepdims_of(a);
    std::string kd = has(a, "kd") ? get(a, "kd") : "ct";
    return c08::with_init<unsigned>(a, [&](auto init) {
        if (kd == "rt") {
            if constexpr (allow_ct_true) return emit_num(view::reduce(f31{}, arr, axis, nm::None, init, keep));
            else throw bad_args("kd");
        }
        if (keep) {
            if constexpr (allow_ct_true) return emit_num(view::reduce(f31{}, arr, axis, nm::None, init, nm::True));
            else throw bad_args("keepdims");
        }
        return emit_num(view::reduce(f31{}, arr, axis, nm::None, init, nm::False));
    });
}
#define GO(ALLOW, ARR, AXIS) go_f31<ALLOW>(ARR, AXIS, a)
using elem_t = unsigned;
#else
template <typename F> static std::string with_dtype(const Args& a, F f) {
    std::string d = has(a, "dtype") ? get(a, "dtype") : "None";
    if (d == "None") return f(nm::None);
    if (d == "f32") return f(nm::float32);
    throw bad_args("dtype");
}
// keepdims: compile-time False (keepdims=0) or run-time bool (kd=rt)
template <bool allow_rt, typename array_t, typename axis_t>
static std::string go_named(const array_t& arr, const axis_t& axis, const Args& a) {
    bool keep = c08::keepdims_of(a);
    std::string kd = has(a, "kd") ? get(a, "kd") : "ct";
    const std::string& f = get(a, "op");
    bool eager = get(a, "api") == "array";
    return with_dtype(a, [&](auto dtype) {
        return c08::with_init<int>(a, [&](auto init) {
            if (kd == "rt") {       // run-time keepdims (either<…True, …False>): sum only
                if constexpr (allow_rt) {
                    if (f != "add") throw bad_args("kd");
                    return eager ? emit_num(na::sum(arr, axis, dtype, init, keep)) : emit_num(view::sum(arr, axis, dtype, init, keep));
                } else throw bad_args("kd");
            }
            if (keep) throw bad_args("keepdims");
#define NAMED(NAME) return eager ? emit_num(na::NAME(arr, axis, dtype, init, nm::False)) : emit_num(view::NAME(arr, axis, dtype, init, nm::False));
            if (f == "add") { NAMED(sum) }
            if (f == "mul") { NAMED(prod) }
            if (f == "max") { NAMED(amax) }
#undef NAMED
            return std::string("unknown-op");
        });
    });
}
#define GO(ALLOW, ARR, AXIS) go_named<ALLOW>(ARR, AXIS, a)
using elem_t = int;
#endif

template <size_t N, size_t K, typename array_t> static std::string go_arr(const array_t& arr, const std::vector<int>& ax, const Args& a) {
    std::array<int, K> axis; for (size_t i = 0; i < K; i++) axis[i] = ax[i];
    return GO(true, arr, axis);
}

std::string handle(const std::string& op, const Args& a) {
    if (op != "reduce") return "unknown-op";
    g_args = &a;
#if C08S_PART == 1
    if (get(a, "op") != "f31") return "unknown-op";
#elif C08S_PART == 2
    if (get(a, "op") == "f31") return "unknown-op";
#endif
    auto s = nats(a, "shape");
    auto ax = intsi(a, "axis");
    std::string axk = has(a, "ax") ? get(a, "ax") : "arr";
    size_t N = s.size(), K = ax.size();
    if (N == 1) {
        auto arr = make_fd<elem_t, 1>(a);
        if (axk == "int") { if (K != 1) throw bad_args("ax"); int k = ax[0]; return GO(true, arr, k); }
        if (axk == "arr") { if (K != 1) throw bad_args("ax"); return go_arr<1, 1>(arr, ax, a); }
        if (axk == "ct") {
            if (K == 1 && ax[0] == 0) return GO(false, arr, meta::ct_v<0>);
#if C08S_PART != 2
            if (K == 1 && ax[0] == -1) return GO(false, arr, meta::ct_v<-1>);
#endif
        }
        return "unsupported-kind";
    }
    if (N == 2) {
        auto arr = make_fd<elem_t, 2>(a);
        if (axk == "arr") {
            if (K == 2) return go_arr<2, 2>(arr, ax, a);
#if C08S_PART != 2
            if (K == 1) return go_arr<2, 1>(arr, ax, a);
#endif
            throw bad_args("ax");
        }
        if (axk == "ct" && K == 2) {
#define PAIR(A, B) if (ax[0] == A && ax[1] == B) return GO(false, arr, (nmtools_tuple{meta::ct_v<A>, meta::ct_v<B>}));
            PAIR(1, 0)
#if C08S_PART != 2
            PAIR(0, 1) PAIR(-1, -2)
#endif
#undef PAIR
        }
        return "unsupported-kind";
    }
    if (N == 3) {
        auto arr = make_fd<elem_t, 3>(a);
        if (axk == "arr") {
            if (K == 3) return go_arr<3, 3>(arr, ax, a);
#if C08S_PART != 2
            if (K == 2) return go_arr<3, 2>(arr, ax, a);
#endif
            throw bad_args("ax");
        }
        if (axk == "ct" && K == 3) {
#define TRI(A, B, C) if (ax[0] == A && ax[1] == B && ax[2] == C) return GO(false, arr, (nmtools_tuple{meta::ct_v<A>, meta::ct_v<B>, meta::ct_v<C>}));
            TRI(2, 0, 1)
#if C08S_PART != 2
            TRI(0, 1, 2) TRI(-1, 0, -2)
#endif
#undef TRI
        }
        return "unsupported-kind";
    }
    return "unsupported-kind";
}
