import NmVerif.NN.NormLemmas
import NmVerif.NN.BatchNormLemmas
import NmVerif.Lemmas.LinalgTensordot
/-
  NN/ChanLemmas — per-channel parameters of instance_norm: `moveaxis(atleast_nd(p, n), −1, −n)` for any `n ≥ 1` is the
  parameter reshaped to `(C, 1, …, 1)`; broadcasting it against `(N, C) ++ spatial`; `normCore` over trailing axes.
-/
namespace NmVerif.NN
open NmVerif.Reduce NmVerif.Linalg

variable {α : Type}

theorem moveLastOrder_full (k : Nat) : moveLastOrder (k + 1) (k + 1) = some (List.range' k 1 ++ List.range k) := by
  simp [moveLastOrder, List.range']

/-- a rank-1 parameter `[C]` through `atleast_nd(·, n)` and `moveaxis(·, −1, −n)`: shape `C :: 1 … 1`, element
    `c :: 0 … 0` is `p[c]` -/
theorem chanParam_spec (p : Arr α) (C k : Nat) (hp : p.shape = [C]) :
    ∃ q, chanParam p (k + 1) = some q ∧ q.shape = C :: List.replicate k 1 ∧
      ∀ c, c < C → q.get (c :: List.replicate k 0) = some (p.get [c]) := by
  obtain ⟨b, hb1, hb2, hb3⟩ := reshape_insert_ones (lift p) [] [C] k (by simp [lift, hp])
  simp only [List.nil_append] at hb1 hb2 hb3
  have hal : atleastNd (lift p) (k + 1) = some b := by
    have hsh : (lift p).shape = [C] := hp
    simp only [atleastNd, hsh, List.length_singleton, Nat.add_sub_cancel]
    exact hb1
  have hlen : b.shape.length = k + 1 := by rw [hb2]; simp
  have hm : (List.range' k 1 ++ List.range k).mapM (fun i => b.shape[i]?) = some (C :: List.replicate k 1) := by
    rw [hb2, List.mapM_append]
    have h1 : (List.range' k 1).mapM (fun i => (List.replicate k 1 ++ [C])[i]?) = some [C] := by
      simp [List.range', List.getElem?_append_right]
    have h2 : (List.range k).mapM (fun i => (List.replicate k 1 ++ [C])[i]?) = some (List.replicate k 1) := by
      rw [mapM_range_some k _ (fun _ => 1)]
      · congr 1
        apply List.ext_getElem <;> simp
      · intro i hi
        rw [List.getElem?_append_left (by simpa using hi)]
        simp [hi]
    simp [h1, h2]
  refine ⟨⟨C :: List.replicate k 1, fun d => b.get (scatter d (List.range' k 1 ++ List.range k))⟩, ?_, rfl, ?_⟩
  · simp only [chanParam, hal, Option.bind_some, moveLast, hlen, moveLastOrder_full, transpose, hm]
  · intro c hc
    show b.get (scatter (c :: List.replicate k 0) _) = _
    have := scatter_rotate [c] (List.replicate k 0)
    simp only [List.length_replicate, List.length_singleton, List.singleton_append] at this
    rw [this]
    have h3 := hb3 [] [c] (by simp [InShape]) (by simp [InShape]; exact hc)
    simp only [List.nil_append] at h3
    rw [h3]
    rfl

/-- for a rank-1 parameter `[C]`, `moveaxis(atleast_nd(p, k+1), −1, 0)` (batch_norm) is `moveaxis(atleast_nd(p, k+1), −1, −(k+1))`:
    `atleast_nd` gives exactly `k+1` axes -/
theorem chanParamFront_eq (p : Arr α) (C k : Nat) (hp : p.shape = [C]) :
    chanParamFront p (k + 1) = chanParam p (k + 1) := by
  have hsh : (lift p).shape = [C] := hp
  unfold chanParamFront chanParam atleastNd
  rw [hsh]
  unfold Linalg.reshape
  split
  · simp
  · rfl

theorem batchNormNd_eq (k : Nat) : batchNormNd (2 + k) = k + 1 := by
  unfold batchNormNd
  rw [if_pos (by omega)]
  omega

theorem bshape_chanN (N C : Nat) (sp : Shape) (hp : Pos ([N, C] ++ sp)) :
    broadcastShape2 ([N, C] ++ sp) (C :: List.replicate sp.length 1) = some ([N, C] ++ sp) := by
  unfold broadcastShape2
  rw [bcRev_dom_le]
  · simp
  · simp
  · intro k x y h1 h2
    have hx : 0 < x := by
      apply hp x
      have hm := List.mem_of_getElem? h1
      simp at hm
      rcases hm with h | rfl | rfl
      · simp [h]
      · simp
      · simp
    refine ⟨hx, ?_⟩
    simp only [List.reverse_cons, List.reverse_replicate, List.reverse_append, List.reverse_nil, List.nil_append,
      List.append_assoc, List.cons_append] at h1 h2
    rcases Nat.lt_trichotomy k sp.length with hk | hk | hk
    · rw [List.getElem?_append_left (by simpa using hk)] at h2
      simp [hk] at h2
      exact Or.inr h2.symm
    · subst hk
      rw [List.getElem?_append_right (by simp)] at h1 h2
      simp at h1 h2
      exact Or.inl (by omega)
    · rw [List.getElem?_append_right (by simp; omega)] at h2
      simp at h2
      have : k - sp.length ≠ 0 := by omega
      cases hkk : k - sp.length with
      | zero => omega
      | succ m => rw [hkk] at h2; simp at h2

theorem zipWith_ones (r : Idx) : List.zipWith (fun e x => if e = 1 then 0 else x) (List.replicate r.length 1) r
    = List.replicate r.length 0 := by
  induction r with
  | nil => rfl
  | cons a t ih => simp [List.replicate_succ, ih]

theorem sbi_chanN (C n c : Nat) (r : Idx) (hc : c < C) :
    specBroadcastIdx (C :: List.replicate r.length 1) (n :: c :: r) = c :: List.replicate r.length 0 := by
  unfold specBroadcastIdx
  have : (n :: c :: r).length - (C :: List.replicate r.length 1).length = 1 := by simp
  rw [this]
  simp only [List.drop_succ_cons, List.drop_zero, List.zipWith_cons_cons, zipWith_ones]
  congr 1
  split <;> omega

/-- binary ufunc of a `(N, C) ++ sp` view with a `(C, 1, …, 1)` parameter view: the parameter of the element's channel -/
theorem bin_chanN (f : α → α → α) (a q : OArr α) (g : Nat → α) (N C : Nat) (sp : Shape)
    (hp : Pos ([N, C] ++ sp)) (ha : a.shape = [N, C] ++ sp) (hq : q.shape = C :: List.replicate sp.length 1)
    (hg : ∀ c, c < C → q.get (c :: List.replicate sp.length 0) = some (g c)) :
    ∃ u, bin f a q = some u ∧ u.shape = [N, C] ++ sp ∧ ∀ n c r, n < N → c < C → InShape r sp →
      u.get ([n, c] ++ r) = (a.get ([n, c] ++ r)).map (f · (g c)) := by
  have hC : 0 < C := hp C (by simp)
  have hpq : Pos q.shape := by
    rw [hq]; intro z hz
    simp only [List.mem_cons, List.mem_replicate] at hz
    rcases hz with rfl | ⟨_, rfl⟩
    · exact hC
    · omega
  obtain ⟨u, h1, h2, h3⟩ := bin_spec f a q ([N, C] ++ sp) (by rw [ha]; exact hp) hpq (by rw [ha, hq]; exact bshape_chanN N C sp hp)
  refine ⟨u, h1, h2, fun n c r hn hc hr => ?_⟩
  have hin : InShape ([n, c] ++ r) ([N, C] ++ sp) := NN.inShape_append (by simp [InShape]; exact ⟨hn, hc⟩) hr
  rw [h3 _ hin, ha, sbi_self _ _ hin, hq, ← hr.length_eq]
  show optOp f _ (q.get (specBroadcastIdx (C :: List.replicate r.length 1) (n :: c :: r))) = _
  rw [sbi_chanN C n c r hc, hr.length_eq, hg c hc, optOp_some_right]

/-- `normCore` over an axis list that names exactly the last `|ns|` axes of an input `lead ++ ns`: element `p ++ q` is
    normalised with the statistics of the block `x[p, ·]` -/
theorem normCore_block (add sub div : α → α → α) (sqabs sqrt : α → α) (divn : α → Nat → α) (eps : α) (x : Arr α)
    (lead ns : Shape) (l : List Int) (hx : x.shape = lead ++ ns) (hp : Pos (lead ++ ns))
    (hva : ValidAxes x.shape.length (some l))
    (hR : axisSet x.shape.length (some l) = (List.range ns.length).map (lead.length + ·)) :
    ∃ v, normCore add sub div sqabs sqrt divn eps x l = some v ∧ v.shape = lead ++ ns ∧
      ∀ p q, InShape p lead → InShape q ns →
        v.get (p ++ q) = normAt add sub div sqabs sqrt divn eps x.get ((allIdx ns).map (p ++ ·)) (p ++ q) := by
  have hlen : x.shape.length = lead.length + ns.length := by rw [hx]; simp
  have hpx : Pos x.shape := by rw [hx]; exact hp
  obtain ⟨nrm, hn1, hn2, hn3⟩ := normCore_spec add sub div sqabs sqrt divn eps x l hpx hva
  refine ⟨nrm, hn1, hn2.trans hx, fun p q hpi hq => ?_⟩
  have hin : InShape (p ++ q) (lead ++ ns) := NN.inShape_append hpi hq
  rw [hn3 _ (by rw [hx]; exact hin), grp_block x.shape lead.length ns.length hlen _ hR (p ++ q) (by rw [hx]; exact hin), hx,
    blockOf_append lead ns p q hpi.length_eq]

/-- `normCore` over the last `|ns|` axes (`−|ns| .. −1`) of an input `lead ++ ns` -/
theorem normCore_trailing (add sub div : α → α → α) (sqabs sqrt : α → α) (divn : α → Nat → α) (eps : α) (x : Arr α)
    (lead ns : Shape) (hx : x.shape = lead ++ ns) (hp : Pos (lead ++ ns)) :
    ∃ v, normCore add sub div sqabs sqrt divn eps x (trailingAxes ns.length) = some v ∧ v.shape = lead ++ ns ∧
      ∀ p q, InShape p lead → InShape q ns →
        v.get (p ++ q) = normAt add sub div sqabs sqrt divn eps x.get ((allIdx ns).map (p ++ ·)) (p ++ q) := by
  have hlen : x.shape.length = lead.length + ns.length := by rw [hx]; simp
  exact normCore_block add sub div sqabs sqrt divn eps x lead ns _ hx hp
    (by rw [hlen]; exact validAxes_trailing _ _) (by rw [hlen]; exact axisSet_trailing _ _)

end NmVerif.NN
