import NmVerif.Index.SelCommon
/-
  NmVerif.Index.Split — MODEL of view::detail::split_args / view::split in include/nmtools/array/view/split.hpp.

  Stable names:
    `Index.splitBounds n sections indices : List (Nat × Nat)`   per part the `(start, stop)` pair on the split axis
    `Index.splitViews src sections indices axis : Option (List IxView)`   view::split(a, indices_or_sections, axis)
  Facts mirrored:
    * `axis_ = axis >= 0 ? axis : dim + axis`;
    * sections `N`: `range = extent / N` (integer division, remainder dropped), part `i` = `[i·range, i·range + range)`;
    * index list: `N = len + 1`, part `i` = `[indices[i-1] (0 for i = 0), indices[i] (extent for the last))`, both
      stored into `size_t` and clamped to the extent (repaired: "split.index-beyond-extent");
    * every part is `apply_slice(a, pairs)` with `(0, shape[j])` off the axis.  The model gives the part the extent
      `stop - start` and the element map `d[axis] + start`, which is what the slice view does for `0 ≤ start ≤ stop ≤ extent`
      (C05's domain).
  Core Lean only.
-/
namespace NmVerif.Index

def splitBoundsSections (n sections : Nat) : List (Nat × Nat) :=
  (List.range sections).map (fun i => (i * (n / sections), i * (n / sections) + n / sections))

def splitBoundsIndices (n : Nat) (indices : List Int) : List (Nat × Nat) :=
  let cuts := indices.map (fun v => min (i2u v) n)
  List.zip (0 :: cuts) (cuts ++ [n])

def splitViews (src : Shape) (sections : Option Nat) (indices : List Int) (axis : Int) : Option (List IxView) :=
  let k := if axis ≥ 0 then axis.toNat else ((src.length : Int) + axis).toNat
  match src[k]? with
  | some n =>
      let bounds := match sections with
        | some N => splitBoundsSections n N
        | none => splitBoundsIndices n indices
      some (bounds.map (fun (st, sp) =>
        ⟨src, src.set k (min sp n - st), fun d => match d[k]? with
          | some x => some (d.set k (x + st))
          | none => some d⟩))
  | none => none

end NmVerif.Index
