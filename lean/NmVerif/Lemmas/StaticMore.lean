import NmVerif.StaticMore
import NmVerif.Lemmas.Static
/-
  Helper lemmas for the second group of C11 transfer functions (NmVerif.StaticMore): facts about the reference shape
  functions (length / product / pointwise bounds) and soundness of the shape-kind part of each transfer function.
-/
namespace NmVerif.Static
open NmVerif

/-! ### generic -/

theorem indexing_product_sound {d : ShapeK} {t : Shape} (hd : d.γ t) : (indexingInfo d (productK d)).γ t :=
  indexingInfo_sound hd (productK_sound hd)

/-- `sh.like t'` admits `t` when `t = t'` for a constant operand shape and `t ≤ t'` pointwise for a clipped one -/
theorem like_sound {sh : ShapeK} {s v t t' : Shape} (hsh : sh.γ s) (hc : sh.cvalue = some v)
    (hconst : s = v → t = t') (hle : LeAll s v → LeAll t t') : (sh.like t').γ t := by
  cases sh with
  | const l =>
    simp only [ShapeK.cvalue, Option.some.injEq] at hc; subst hc
    simp only [ShapeK.γ] at hsh
    simp only [ShapeK.like, ShapeK.isConst, if_true, ShapeK.γ]
    exact hconst hsh
  | clipped b =>
    simp only [ShapeK.cvalue, Option.some.injEq] at hc; subst hc
    simp only [ShapeK.like, ShapeK.isConst, Bool.false_eq_true, if_false, ShapeK.γ]
    exact hle hsh
  | fixedDim k => simp [ShapeK.cvalue] at hc
  | boundedDim k => simp [ShapeK.cvalue] at hc
  | dyn => simp [ShapeK.cvalue] at hc

theorem cvalue_le {A : ShapeK} {a va : Shape} (hA : A.γ a) (hc : A.cvalue = some va) : LeAll a va := by
  cases A <;> simp only [ShapeK.cvalue, Option.some.injEq] at hc <;> try (simp at hc)
  · subst hc; simp only [ShapeK.γ] at hA; subst hA; exact LeAll.refl _
  · subst hc; exact hA

theorem isConst_eq {A : ShapeK} {a va : Shape} (hA : A.γ a) (hc : A.cvalue = some va) (hi : A.isConst = true) : a = va := by
  cases A <;> simp [ShapeK.isConst] at hi
  simp only [ShapeK.cvalue, Option.some.injEq] at hc; subst hc; exact hA

theorem arrK_cvalue_le {k : ArrK} {v m : List Nat} (hk : k.γ v) (hc : k.cvalue = some m) : LeAll v m := by
  cases k <;> simp only [ArrK.cvalue, Option.some.injEq] at hc <;> try (simp at hc)
  · subst hc; simp only [ArrK.γ] at hk; subst hk; exact LeAll.refl _
  · subst hc; exact hk

theorem arrK_isCt_eq {k : ArrK} {v m : List Nat} (hk : k.γ v) (hc : k.cvalue = some m) (hi : k.isCt = true) : v = m := by
  cases k <;> simp [ArrK.isCt] at hi
  simp only [ArrK.cvalue, Option.some.injEq] at hc; subst hc; exact hk

theorem staticAxis?_γ1 {k : AxisK} {axis ax : Option Nat} (hk : k.γ1 axis) (hs : k.staticAxis? = some ax) : ax = axis := by
  cases k <;> simp only [AxisK.γ1, AxisK.staticAxis?, Option.some.injEq] at hk hs
  · subst hk hs; rfl
  · subst hk hs; rfl
  all_goals simp at hs

theorem LeAll.take : ∀ {a b : List Nat} (n : Nat), LeAll a b → LeAll (a.take n) (b.take n)
  | [], [], _, _ => by simp [LeAll]
  | _ :: as, _ :: bs, 0, _ => by simp [LeAll]
  | _ :: as, _ :: bs, n + 1, h => by
      simp only [List.take_succ_cons, LeAll]
      exact ⟨h.1, LeAll.take (a := as) (b := bs) n h.2⟩
  | [], _ :: _, _, h => by simp [LeAll] at h
  | _ :: _, [], _, h => by simp [LeAll] at h

theorem LeAll.drop : ∀ {a b : List Nat} (n : Nat), LeAll a b → LeAll (a.drop n) (b.drop n)
  | [], [], _, _ => by simp [LeAll]
  | _ :: as, _ :: bs, 0, h => by simpa using h
  | _ :: as, _ :: bs, n + 1, h => by
      simp only [List.drop_succ_cons]
      exact LeAll.drop (a := as) (b := bs) n h.2
  | [], _ :: _, _, h => by simp [LeAll] at h
  | _ :: _, [], _, h => by simp [LeAll] at h

theorem LeAll.set : ∀ {a b : List Nat} (i x : Nat), LeAll a b → LeAll (a.set i x) (b.set i x)
  | [], [], _, _, _ => by simp [LeAll]
  | _ :: as, _ :: bs, 0, x, h => by simp only [List.set_cons_zero, LeAll]; exact ⟨Nat.le_refl _, h.2⟩
  | _ :: as, _ :: bs, i + 1, x, h => by
      simp only [List.set_cons_succ, LeAll]
      exact ⟨h.1, LeAll.set (a := as) (b := bs) i x h.2⟩
  | [], _ :: _, _, _, h => by simp [LeAll] at h
  | _ :: _, [], _, _, h => by simp [LeAll] at h

/-! ### repeat -/

theorem length_mulAt : ∀ (a r : Nat) (s : Shape), (mulAt a r s).length = s.length
  | _, _, [] => by simp [mulAt]
  | 0, _, _ :: _ => by simp [mulAt]
  | a + 1, r, _ :: xs => by simp [mulAt, length_mulAt a r xs]

theorem mulAt_leAll : ∀ (a r : Nat) {s v : Shape}, LeAll s v → LeAll (mulAt a r s) (mulAt a r v)
  | _, _, [], [], _ => by simp [mulAt, LeAll]
  | 0, r, _ :: _, _ :: _, h => by simp only [mulAt, LeAll]; exact ⟨Nat.mul_le_mul_right r h.1, h.2⟩
  | a + 1, r, _ :: xs, _ :: ys, h => by simp only [mulAt, LeAll]; exact ⟨h.1, mulAt_leAll a r (s := xs) (v := ys) h.2⟩
  | _, _, [], _ :: _, h => by simp [LeAll] at h
  | _, _, _ :: _, [], h => by simp [LeAll] at h

theorem refRepeat_length {r : Nat} {axis : Option Nat} {s t : Shape} (h : refRepeat r axis s = some t) :
    (axis = none → t.length = 1) ∧ (axis ≠ none → t.length = s.length) := by
  cases axis with
  | none => simp only [refRepeat, Option.some.injEq] at h; subst h; simp
  | some a =>
    simp only [refRepeat] at h
    split at h
    · simp only [Option.some.injEq] at h; subst h; simp [length_mulAt]
    · simp at h

theorem refRepeat_leAll {r : Nat} {axis : Option Nat} {s v t t' : Shape} (hl : LeAll s v)
    (h : refRepeat r axis s = some t) (h' : refRepeat r axis v = some t') : LeAll t t' := by
  cases axis with
  | none =>
    simp only [refRepeat, Option.some.injEq] at h h'; subst h h'
    exact ⟨Nat.mul_le_mul_right r hl.prod_le, trivial⟩
  | some a =>
    simp only [refRepeat] at h h'
    split at h
    · split at h'
      · simp only [Option.some.injEq] at h h'; subst h h'; exact mulAt_leAll a r hl
      · simp at h'
    · simp at h

theorem repeatShapeK_sound {sh d : ShapeK} {s t : Shape} {rep : NumK} {r : Nat} {ax : AxisK} {axis : Option Nat}
    (hsh : sh.γ s) (hr : rep.γ r) (hax : ax.γ1 axis) (href : refRepeat r axis s = some t)
    (hd : repeatShapeK sh rep ax = some d) : d.γ t := by
  have hlen := refRepeat_length href
  have hgen : ∀ d', (match ax with
      | .none => some (ShapeK.fixedDim 1)
      | .cts _ => some sh.lenK.toShapeK
      | .rts => some sh.lenK.toShapeK
      | _ => none) = some d' → d'.γ t := by
    intro d' hd'
    cases ax with
    | none =>
      simp only [AxisK.γ1] at hax; subst hax
      simp only [Option.some.injEq] at hd'; subst hd'
      simpa [ShapeK.γ] using hlen.1 rfl
    | cts x =>
      simp only [AxisK.γ1] at hax; subst hax
      simp only [Option.some.injEq] at hd'; subst hd'
      exact lenK_toShapeK_sound hsh (hlen.2 (by simp))
    | rts =>
      simp only [AxisK.γ1] at hax
      simp only [Option.some.injEq] at hd'; subst hd'
      exact lenK_toShapeK_sound hsh (hlen.2 hax)
    | ctt c => simp at hd'
    | rt n => simp at hd'
  unfold repeatShapeK at hd
  split at hd
  · rename_i v r' axis' hc hax'
    simp only [NumK.γ] at hr; subst hr
    have := staticAxis?_γ1 hax hax'; subst this
    simp only [Option.map_eq_some_iff] at hd
    obtain ⟨t', ht', rfl⟩ := hd
    refine like_sound hsh hc ?_ ?_
    · intro heq; subst heq; rw [href] at ht'; exact Option.some.inj ht'
    · intro hle; exact refRepeat_leAll hle href ht'
  · exact hgen d hd

/-! ### pad -/

theorem length_padGo : ∀ (s b a : List Nat), s.length ≤ b.length → s.length ≤ a.length → (padGo s b a).length = s.length
  | [], _, _, _, _ => by simp [padGo]
  | _ :: xs, [], _, h, _ => by simp at h
  | _ :: xs, _ :: _, [], _, h => by simp at h
  | _ :: xs, _ :: bs, _ :: as, h1, h2 => by
      simp only [padGo, List.length_cons]
      rw [length_padGo xs bs as (by simpa using h1) (by simpa using h2)]

theorem padGo_leAll : ∀ {s v b b' a a' : List Nat}, LeAll s v → LeAll b b' → LeAll a a' → LeAll (padGo s b a) (padGo v b' a')
  | [], [], _, _, _, _, _, _, _ => by simp [padGo, LeAll]
  | _ :: xs, _ :: ys, [], [], _, _, _, _, _ => by simp [padGo, LeAll]
  | _ :: xs, _ :: ys, _ :: bs, _ :: bs', [], [], _, _, _ => by simp [padGo, LeAll]
  | _ :: xs, _ :: ys, _ :: bs, _ :: bs', _ :: as, _ :: as', h1, h2, h3 => by
      simp only [padGo, LeAll]
      exact ⟨by have := h1.1; have := h2.1; have := h3.1; omega, padGo_leAll (s := xs) (v := ys) h1.2 h2.2 h3.2⟩
  | [], _ :: _, _, _, _, _, h, _, _ => by simp [LeAll] at h
  | _ :: _, [], _, _, _, _, h, _, _ => by simp [LeAll] at h
  | _ :: _, _ :: _, [], _ :: _, _, _, _, h, _ => by simp [LeAll] at h
  | _ :: _, _ :: _, _ :: _, [], _, _, _, h, _ => by simp [LeAll] at h
  | _ :: _, _ :: _, _ :: _, _ :: _, [], _ :: _, _, _, h => by simp [LeAll] at h
  | _ :: _, _ :: _, _ :: _, _ :: _, _ :: _, [], _, _, h => by simp [LeAll] at h

theorem refPad_length {w : List Nat} {s t : Shape} (h : refPad w s = some t) : t.length = s.length := by
  simp only [refPad] at h
  split at h
  · rename_i hw
    simp only [Option.some.injEq] at h; subst h
    apply length_padGo
    · simp [List.length_take]; omega
    · simp [List.length_drop]; omega
  · simp at h

theorem refPad_leAll {w m : List Nat} {s v t t' : Shape} (hs : LeAll s v) (hw : LeAll w m)
    (h : refPad w s = some t) (h' : refPad m v = some t') : LeAll t t' := by
  simp only [refPad] at h h'
  split at h
  · split at h'
    · simp only [Option.some.injEq] at h h'; subst h h'
      rw [hs.length_eq]
      exact padGo_leAll hs (hw.take _) (hw.drop _)
    · simp at h'
  · simp at h

theorem padShapeK_sound {sh d : ShapeK} {s t : Shape} {w : ArrK} {pw : List Nat}
    (hsh : sh.γ s) (hk : w.γ pw) (href : refPad pw s = some t) (hd : padShapeK sh w = some d) : d.γ t := by
  unfold padShapeK at hd
  split at hd
  · rename_i v m hc hm
    simp only [Option.map_eq_some_iff] at hd
    obtain ⟨t', ht', rfl⟩ := hd
    split
    · rename_i hcc
      simp only [Bool.and_eq_true] at hcc
      have h1 := isConst_eq hsh hc hcc.1
      have h2 := arrK_isCt_eq hk hm hcc.2
      subst h1 h2
      rw [href] at ht'; simp only [Option.some.injEq] at ht'; subst ht'; rfl
    · exact refPad_leAll (cvalue_le hsh hc) (arrK_cvalue_le hk hm) href ht'
  · simp only [Option.some.injEq] at hd; subst hd
    exact lenK_toShapeK_sound hsh (refPad_length href)

/-! ### accumulate / roll -/

theorem accumulateInfo_sound {i : SInfo} {s : Shape} (h : i.γ s) : (accumulateInfo i.seen i.size).γ s := by
  have hs := seen_sound h
  refine ⟨hs.1, ?_⟩
  have hz := hs.2
  have hown := h.2
  unfold accumulateInfo
  cases hsz : i.seen.size with
  | known n => simpa [hsz] using hz
  | atMost n =>
    simp only
    cases hsh : i.seen.shape with
    | const l => have := hs.1; simp only [hsh, ShapeK.γ] at this; subst this; simp [SizeK.γ]
    | clipped b => cases ho : i.size <;> simp only [ho, SizeK.γ] at hown ⊢ <;> omega
    | fixedDim k => cases ho : i.size <;> simp only [ho, SizeK.γ] at hown ⊢ <;> omega
    | boundedDim k => cases ho : i.size <;> simp only [ho, SizeK.γ] at hown ⊢ <;> omega
    | dyn => cases ho : i.size <;> simp only [ho, SizeK.γ] at hown ⊢ <;> omega
  | knownB n b =>
    simp only
    cases hsh : i.seen.shape with
    | const l => have := hs.1; simp only [hsh, ShapeK.γ] at this; subst this; simp [SizeK.γ]
    | clipped b => cases ho : i.size <;> simp only [ho, SizeK.γ] at hown ⊢ <;> omega
    | fixedDim k => cases ho : i.size <;> simp only [ho, SizeK.γ] at hown ⊢ <;> omega
    | boundedDim k => cases ho : i.size <;> simp only [ho, SizeK.γ] at hown ⊢ <;> omega
    | dyn => cases ho : i.size <;> simp only [ho, SizeK.γ] at hown ⊢ <;> omega
  | any =>
    simp only
    cases hsh : i.seen.shape with
    | const l => have := hs.1; simp only [hsh, ShapeK.γ] at this; subst this; simp [SizeK.γ]
    | clipped b => cases ho : i.size <;> simp only [ho, SizeK.γ] at hown ⊢ <;> omega
    | fixedDim k => cases ho : i.size <;> simp only [ho, SizeK.γ] at hown ⊢ <;> omega
    | boundedDim k => cases ho : i.size <;> simp only [ho, SizeK.γ] at hown ⊢ <;> omega
    | dyn => cases ho : i.size <;> simp only [ho, SizeK.γ] at hown ⊢ <;> omega

theorem rollAxisInfo_sound (b : Bool) {i : SInfo} {s : Shape} (h : i.γ s) : (rollAxisInfo b i).γ s := by
  have hs := seen_sound h
  unfold rollAxisInfo
  refine indexingInfo_sound ?_ hs.2
  have hsh := hs.1
  split
  · rename_i l _ heq; rw [heq] at hsh; exact hsh
  · exact lenK_toShapeK_sound hsh rfl

theorem refRoll_eq {axis : Option Nat} {s t : Shape} (h : refRoll axis s = some t) : t = s := by
  cases axis with
  | none => simp only [refRoll, Option.some.injEq] at h; exact h.symm
  | some a => simp only [refRoll] at h; split at h <;> simp at h; exact h.symm

/-! ### slice -/

theorem sliceGo_length (nEll : Nat) : ∀ (es : List SlE) {sh t : Shape}, sliceGo nEll sh es = some t →
    t.length + numIdx es = sh.length
  | [], sh, t, h => by simp only [sliceGo, Option.some.injEq] at h; subst h; simp [numIdx]
  | .ell :: es, sh, t, h => by
      simp only [sliceGo] at h
      split at h
      · rename_i hle
        simp only [Option.map_eq_some_iff] at h
        obtain ⟨t', ht', rfl⟩ := h
        have := sliceGo_length nEll es ht'
        simp [numIdx, SlE.isIdx, List.length_take, List.length_drop] at this ⊢
        omega
      · simp at h
  | .rng a b :: es, [], t, h => by simp [sliceGo] at h
  | .idx k :: es, [], t, h => by simp [sliceGo] at h
  | .rng a b :: es, n :: sh, t, h => by
      simp only [sliceGo, Option.map_eq_some_iff] at h
      obtain ⟨t', ht', rfl⟩ := h
      have := sliceGo_length nEll es ht'
      simp [numIdx, SlE.isIdx] at this ⊢
      omega
  | .idx k :: es, n :: sh, t, h => by
      simp only [sliceGo] at h
      split at h
      · have := sliceGo_length nEll es h
        simp only [numIdx, List.countP_cons, SlE.isIdx, if_true, List.length_cons] at this ⊢
        omega
      · simp at h

theorem refSlice_length {es : List SlE} {s t : Shape} (h : refSlice es s = some t) : t.length + numIdx es = s.length := by
  simp only [refSlice] at h
  split at h
  · simp at h
  · exact sliceGo_length _ es h

theorem sliceShapeK_sound {sh d : ShapeK} {s t : Shape} {n : Nat} (hsh : sh.γ s) (hlen : t.length + n = s.length)
    (hd : sliceShapeK n sh = some d) : d.γ t := by
  have hl := lenK_sound hsh
  unfold sliceShapeK at hd
  split at hd
  · rename_i k hk
    rw [hk] at hl; simp only [LenK.γ] at hl
    split at hd
    · simp only [Option.some.injEq] at hd; subst hd; simp only [ShapeK.γ]; omega
    · simp at hd
  · rename_i k hk
    rw [hk] at hl; simp only [LenK.γ] at hl
    simp only [Option.some.injEq] at hd; subst hd; simp only [ShapeK.γ]; omega
  · simp only [Option.some.injEq] at hd; subst hd; trivial

/-! ### take -/

theorem refTake_spec {n axis : Nat} {s t : Shape} (h : refTake n axis s = some t) : t = s.set axis n := by
  simp only [refTake] at h
  split at h <;> simp at h
  exact h.symm

theorem takeInfo_sound {d : ShapeK} {t : Shape} (hd : d.γ t) : (takeInfo d).γ t := by
  refine ⟨hd, ?_⟩
  cases d with
  | const l => simp only [ShapeK.γ] at hd; subst hd; simp [takeInfo, SizeK.γ]
  | clipped b => simp [takeInfo, SizeK.γ]
  | fixedDim k => simp [takeInfo, SizeK.γ]
  | boundedDim k => simp [takeInfo, SizeK.γ]
  | dyn => simp [takeInfo, SizeK.γ]

theorem takeShapeK_sound {sh d : ShapeK} {s t : Shape} {idx : ArrK} {ix : List Nat} {ax : AxisK} {axis : Nat}
    (hsh : sh.γ s) (hk : idx.γ ix) (hax : ax.γ1 (some axis)) (href : refTake ix.length axis s = some t)
    (hd : takeShapeK sh idx ax = some d) : d.γ t := by
  have ht := refTake_spec href
  have hlen : t.length = s.length := by rw [ht]; simp
  unfold takeShapeK at hd
  cases ax with
  | none => simp at hd
  | ctt c => simp at hd
  | rt n => simp at hd
  | rts => simp only [Option.some.injEq] at hd; subst hd; exact lenK_toShapeK_sound hsh hlen
  | cts x =>
    simp only [AxisK.γ1, Option.some.injEq] at hax; subst hax
    simp only at hd
    split at hd
    · rename_i v ix' hc
      simp only [ArrK.γ] at hk; subst hk
      simp only [Option.map_eq_some_iff] at hd
      obtain ⟨t', ht', rfl⟩ := hd
      have ht'' := refTake_spec ht'
      refine like_sound hsh hc ?_ ?_
      · intro heq; subst heq; rw [href] at ht'; exact Option.some.inj ht'
      · intro hle; rw [ht, ht'']; exact hle.set _ _
    · simp only [Option.some.injEq] at hd; subst hd; exact lenK_toShapeK_sound hsh hlen

/-! ### atleast_nd -/

theorem prod_replicate_one : ∀ n : Nat, prod (List.replicate n 1) = 1
  | 0 => rfl
  | n + 1 => by simp [List.replicate_succ, prod, prod_replicate_one n]

theorem prod_refAtleastNd (nd : Nat) (s : Shape) : prod (refAtleastNd nd s) = prod s := by
  simp [refAtleastNd, prod_append, prod_replicate_one]

theorem length_refAtleastNd (nd : Nat) (s : Shape) : (refAtleastNd nd s).length = max s.length nd := by
  simp [refAtleastNd]; omega

theorem atleastShapeK_sound (nd : Nat) {sh : ShapeK} {s : Shape} (hsh : sh.γ s) : (atleastShapeK nd sh).γ (refAtleastNd nd s) := by
  cases sh with
  | const l => simp only [ShapeK.γ] at hsh; subst hsh; rfl
  | clipped b =>
    simp only [ShapeK.γ] at hsh
    simp only [atleastShapeK, ShapeK.γ, refAtleastNd, hsh.length_eq]
    exact LeAll.append (LeAll.refl _) hsh
  | fixedDim k => simp only [ShapeK.γ] at hsh; simp only [atleastShapeK, ShapeK.γ, length_refAtleastNd, hsh]
  | boundedDim k => simp only [ShapeK.γ] at hsh; simp only [atleastShapeK, ShapeK.γ, length_refAtleastNd]; omega
  | dyn => trivial

/-! ### broadcasting: positivity and products -/

theorem pos_cons {x : Nat} {xs : List Nat} (hx : 0 < x) (h : Pos xs) : Pos (x :: xs) := by
  intro y hy
  simp only [List.mem_cons] at hy
  rcases hy with rfl | hy
  · exact hx
  · exact h y hy

theorem bcastRev_pos : ∀ {a b t : List Nat}, Pos a → Pos b → bcastRev a b = some t → Pos t
  | [], b, t, _, hb, h => by simp [bcastRev] at h; subst h; exact hb
  | _ :: _, [], t, ha, _, h => by simp [bcastRev] at h; subst h; exact ha
  | x :: as, y :: bs, t, ha, hb, h => by
      simp only [bcastRev] at h
      split at h
      · simp only [Option.map_eq_some_iff] at h
        obtain ⟨r, hr, rfl⟩ := h
        exact pos_cons ha.head (bcastRev_pos ha.tail hb.tail hr)
      · split at h
        · simp only [Option.map_eq_some_iff] at h
          obtain ⟨r, hr, rfl⟩ := h
          exact pos_cons hb.head (bcastRev_pos ha.tail hb.tail hr)
        · simp at h

theorem bcastRev_prod_le : ∀ {a b t : List Nat}, Pos a → Pos b → bcastRev a b = some t → prod t ≤ prod a * prod b
  | [], b, t, _, _, h => by simp [bcastRev] at h; subst h; simp [prod]
  | x :: as, [], t, _, _, h => by simp [bcastRev] at h; subst h; simp [prod]
  | x :: as, y :: bs, t, ha, hb, h => by
      simp only [bcastRev] at h
      have hx := ha.head
      have hy := hb.head
      have key : ∀ r, bcastRev as bs = some r → prod r ≤ prod as * prod bs := fun r hr => bcastRev_prod_le ha.tail hb.tail hr
      split at h
      · simp only [Option.map_eq_some_iff] at h
        obtain ⟨r, hr, rfl⟩ := h
        have := key r hr
        simp only [prod]
        calc x * prod r ≤ x * (prod as * prod bs) := Nat.mul_le_mul_left x this
          _ ≤ (x * prod as) * (y * prod bs) := by
              have : x * (prod as * prod bs) * 1 ≤ x * (prod as * prod bs) * y := Nat.mul_le_mul_left _ hy
              calc x * (prod as * prod bs) = x * (prod as * prod bs) * 1 := by simp
                _ ≤ x * (prod as * prod bs) * y := this
                _ = (x * prod as) * (y * prod bs) := by simp [Nat.mul_assoc, Nat.mul_comm, Nat.mul_left_comm]
      · split at h
        · simp only [Option.map_eq_some_iff] at h
          obtain ⟨r, hr, rfl⟩ := h
          have := key r hr
          simp only [prod]
          calc y * prod r ≤ y * (prod as * prod bs) := Nat.mul_le_mul_left y this
            _ ≤ (x * prod as) * (y * prod bs) := by
                have : y * (prod as * prod bs) * 1 ≤ y * (prod as * prod bs) * x := Nat.mul_le_mul_left _ hx
                calc y * (prod as * prod bs) = y * (prod as * prod bs) * 1 := by simp
                  _ ≤ y * (prod as * prod bs) * x := this
                  _ = (x * prod as) * (y * prod bs) := by simp [Nat.mul_assoc, Nat.mul_comm, Nat.mul_left_comm]
        · simp at h

theorem prod_eq_one_cons {x : Nat} {xs : List Nat} (h : prod (x :: xs) = 1) : x = 1 ∧ prod xs = 1 := by
  simp only [prod] at h
  have h1 : x ∣ 1 := ⟨prod xs, h.symm⟩
  have hx : x = 1 := Nat.dvd_one.mp h1
  subst hx
  exact ⟨rfl, by simpa using h⟩

theorem bcastRev_prod_one_left : ∀ {a b t : List Nat}, prod a = 1 → bcastRev a b = some t → prod t = prod b
  | [], b, t, _, h => by simp [bcastRev] at h; subst h; rfl
  | x :: as, [], t, ha, h => by simp [bcastRev] at h; subst h; simpa [prod] using ha
  | x :: as, y :: bs, t, ha, h => by
      obtain ⟨hx, has⟩ := prod_eq_one_cons ha
      subst hx
      simp only [bcastRev] at h
      split at h
      · rename_i hc
        simp only [Option.map_eq_some_iff] at h
        obtain ⟨r, hr, rfl⟩ := h
        have hy : y = 1 := by simp only [beq_iff_eq, Bool.or_eq_true] at hc; omega
        subst hy
        simp [prod, bcastRev_prod_one_left has hr]
      · split at h
        · simp only [Option.map_eq_some_iff] at h
          obtain ⟨r, hr, rfl⟩ := h
          simp [prod, bcastRev_prod_one_left has hr]
        · simp at h

theorem bcastRev_prod_one_right : ∀ {a b t : List Nat}, prod b = 1 → bcastRev a b = some t → prod t = prod a
  | [], b, t, hb, h => by simp [bcastRev] at h; subst h; simpa [prod] using hb
  | x :: as, [], t, _, h => by simp [bcastRev] at h; subst h; rfl
  | x :: as, y :: bs, t, hb, h => by
      obtain ⟨hy, hbs⟩ := prod_eq_one_cons hb
      subst hy
      simp only [bcastRev] at h
      split at h
      · simp only [Option.map_eq_some_iff] at h
        obtain ⟨r, hr, rfl⟩ := h
        simp [prod, bcastRev_prod_one_right hbs hr]
      · rename_i hc
        simp at hc

theorem pos_reverse {s : List Nat} (h : Pos s) : Pos s.reverse := fun x hx => h x (by simpa using hx)

theorem refBroadcast_pos {a b t : Shape} (ha : Pos a) (hb : Pos b) (h : refBroadcast a b = some t) : Pos t := by
  simp only [refBroadcast, Option.map_eq_some_iff] at h
  obtain ⟨r, hr, rfl⟩ := h
  exact pos_reverse (bcastRev_pos (pos_reverse ha) (pos_reverse hb) hr)

theorem refBroadcast_prod_le {a b t : Shape} (ha : Pos a) (hb : Pos b) (h : refBroadcast a b = some t) :
    prod t ≤ prod a * prod b := by
  simp only [refBroadcast, Option.map_eq_some_iff] at h
  obtain ⟨r, hr, rfl⟩ := h
  have := bcastRev_prod_le (pos_reverse ha) (pos_reverse hb) hr
  simpa [prod_reverse] using this

theorem refBroadcast_prod_one_left {a b t : Shape} (ha : prod a = 1) (h : refBroadcast a b = some t) : prod t = prod b := by
  simp only [refBroadcast, Option.map_eq_some_iff] at h
  obtain ⟨r, hr, rfl⟩ := h
  have := bcastRev_prod_one_left (by simpa [prod_reverse] using ha) hr
  simpa [prod_reverse] using this

theorem refBroadcast_prod_one_right {a b t : Shape} (hb : prod b = 1) (h : refBroadcast a b = some t) : prod t = prod a := by
  simp only [refBroadcast, Option.map_eq_some_iff] at h
  obtain ⟨r, hr, rfl⟩ := h
  have := bcastRev_prod_one_right (by simpa [prod_reverse] using hb) hr
  simpa [prod_reverse] using this

/-- one step of the broadcast-size fold is sound -/
theorem bsizeStep_sound {z1 z2 : SizeK} {a b t : Shape} (h1 : z1.γ (prod a)) (h2 : z2.γ (prod b))
    (h : refBroadcast a b = some t) : (bsizeStep z1 z2).γ (prod t) := by
  unfold bsizeStep
  split
  · simp only [SizeK.γ] at h1 h2 ⊢; rw [refBroadcast_prod_one_left h1 h]; exact h2
  · simp only [SizeK.γ] at h1 h2 ⊢; rw [refBroadcast_prod_one_left h1 h]; exact h2
  · simp only [SizeK.γ] at h1 h2 ⊢; rw [refBroadcast_prod_one_right h2 h]; exact h1
  · simp only [SizeK.γ] at h1 h2 ⊢; rw [refBroadcast_prod_one_right h2 h]; exact h1
  · trivial

/-! ### matmul -/

theorem splitLast2_spec {s b : Shape} {m n : Nat} (h : splitLast2 s = some (b, m, n)) : s = b ++ [m, n] := by
  unfold splitLast2 at h
  split at h
  · rename_i n' m' rest hrev
    simp only [Option.some.injEq, Prod.mk.injEq] at h
    obtain ⟨rfl, rfl, rfl⟩ := h
    have : s = (n' :: m' :: rest).reverse := by rw [← hrev]; simp
    simpa using this
  · simp at h

theorem pos_append_left {a b : List Nat} (h : Pos (a ++ b)) : Pos a := fun x hx => h x (by simp [hx])
theorem pos_append_right {a b : List Nat} (h : Pos (a ++ b)) : Pos b := fun x hx => h x (by simp [hx])

theorem refMatmul_spec {a b t : Shape} (ha : Pos a) (hb : Pos b) (h : refMatmul a b = some t) :
    t.length = max a.length b.length ∧ 2 ≤ a.length ∧ 2 ≤ b.length ∧ prod t ≤ prod a * prod b := by
  unfold refMatmul at h
  split at h
  · rename_i ba m k bb k' n h1 h2
    have ea := splitLast2_spec h1
    have eb := splitLast2_spec h2
    split at h
    · rename_i hk
      subst hk
      simp only [Option.map_eq_some_iff] at h
      obtain ⟨r, hr, rfl⟩ := h
      subst ea eb
      have hlen := refBroadcast_length hr
      have hpa := pos_append_left ha
      have hpb := pos_append_left hb
      have hle := refBroadcast_prod_le hpa hpb hr
      have hk : 0 < k := pos_append_right ha k (by simp)
      refine ⟨by simp [hlen], by simp, by simp, ?_⟩
      simp only [prod_append, prod, Nat.mul_one]
      -- prod r * (m * n) ≤ (prod ba * (m * k)) * (prod bb * (k * n))
      calc prod r * (m * n) ≤ (prod ba * prod bb) * (m * n) := Nat.mul_le_mul_right _ hle
        _ = (prod ba * prod bb) * (m * n) * 1 := by simp
        _ ≤ (prod ba * prod bb) * (m * n) * (k * k) := Nat.mul_le_mul_left _ (Nat.mul_pos hk hk)
        _ = (prod ba * (m * k)) * (prod bb * (k * n)) := by simp [Nat.mul_assoc, Nat.mul_comm, Nat.mul_left_comm]
    · simp at h
  · simp at h

theorem bsz_sound {i : SInfo} {s : Shape} {n : Nat} (h : i.γ s) (hb : i.bsz = some n) : prod s ≤ n := by
  unfold SInfo.bsz at hb
  split at hb
  · rename_i m hm
    simp only [Option.some.injEq] at hb; subst hb
    have hz := h.2
    unfold SInfo.boundedSize at hm
    cases hsz : i.size <;> simp only [hsz, Option.some.injEq] at hm <;> simp only [hsz, SizeK.γ] at hz
    · omega
    · omega
    · simp at hm
    · omega
  · split at hb
    · rename_i l hl
      simp only [Option.some.injEq] at hb; subst hb
      have := h.1; rw [hl] at this; simp only [ShapeK.γ] at this; subst this; exact Nat.le_refl _
    · simp at hb

theorem matmulShapeK_sound {A B d : ShapeK} {a b t : Shape} (hA : A.γ a) (hB : B.γ b)
    (hlen : t.length = max a.length b.length) (hd : matmulShapeK A B = some d) : d.γ t := by
  have hLa := lenK_sound hA
  have hLb := lenK_sound hB
  unfold matmulShapeK at hd
  split at hd
  · rename_i la lb h1 h2
    rw [h1] at hLa; rw [h2] at hLb
    simp only [LenK.γ] at hLa hLb
    split at hd
    · simp only [Option.some.injEq] at hd; subst hd; simp only [ShapeK.γ]; omega
    · simp at hd
  · simp only [Option.some.injEq] at hd; subst hd
    cases h1 : A.lenK <;> cases h2 : B.lenK <;> rw [h1] at hLa <;> rw [h2] at hLb <;>
      simp only [bcastLenK, ShapeK.γ, LenK.γ] at * <;> omega

end NmVerif.Static
