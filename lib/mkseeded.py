"""rewrites the table between <!-- SEEDED-BEGIN --> and <!-- SEEDED-END --> in DESIGN.md from seeded/*/meta.json and seeded/RESULTS.json"""
import json, os, glob, re
ROOT = os.path.dirname(os.path.dirname(os.path.abspath(__file__)))
res = json.load(open(os.path.join(ROOT, 'seeded', 'RESULTS.json')))
rows = ['| seeded change | property | file(s) changed | needs, to manifest | check run (quick tier, tree with the change) | outcome |', '|---|---|---|---|---|---|']
for d in sorted(glob.glob(os.path.join(ROOT, 'seeded', '*', 'meta.json'))):
    sid = os.path.basename(os.path.dirname(d)); m = json.load(open(d))
    needs = re.sub(r'\s+', ' ', (m.get('needs') or '')).replace('|', '/')
    needs = needs[:260] + ('…' if len(needs) > 260 else '')
    r = res.get(sid, {}).get('checks', {})
    runs, outs = [], []
    for c, o in r.items():
        runs.append('`./check %s`' % c)
        if o['violations'] and not o['no_failing_input']:
            outs.append('**caught** by %s: VIOLATION with failing input `%s`' % (c, re.sub(r'^IMPL differs.*?e\.g\. ', '', o['detail']).split(' -> ')[0][:110].replace('|', '/')))
        elif o['violations']:
            outs.append('**caught** by %s (obligation/correspondence broken, no-failing-input-found)' % c)
        else:
            outs.append('missed by %s' % c)
    rows.append('| %s | %s | %s | %s | %s | %s |' % (sid, m['property_id'], ', '.join(f.replace('include/nmtools/', '') for f in m.get('files', [])), needs, ', '.join(runs) or 'not run yet', '; '.join(outs) or '–'))
p = os.path.join(ROOT, 'DESIGN.md'); s = open(p).read()
s = re.sub(r'(<!-- SEEDED-BEGIN -->\n).*?(<!-- SEEDED-END -->)', lambda m: m.group(1) + '\n'.join(rows) + '\n' + m.group(2), s, flags=re.S)
open(p, 'w').write(s)
print('\n'.join(rows))
