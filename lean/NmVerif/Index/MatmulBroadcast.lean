import NmVerif.Basic
/-
  Small self-contained broadcast model used by the C16 (linear algebra) pipelines.
  (The full broadcast model with the `broadcast_to` index function lives with C06; this file only has what the
  linear-algebra views need and can be unified with it later.)

  Mirrors
    include/nmtools/array/index/broadcast_shape.hpp   broadcast_shape (two operands, run-time loop from the right,
                                                       `success = a==b || a==1 || b==1`, `res = max(a,b)`, stop on failure)
  and states the element rule of a broadcasting binary ufunc operand
    include/nmtools/array/index/broadcast_to.hpp      broadcast_to : destination index -> operand index
  in its per-axis form (right aligned; an extent-1 operand axis is read at 0, otherwise at the destination
  coordinate).  The offset/stride formulation the header uses is shown equal to this form in C06; here the
  correspondence run of C16 exercises it through every `multiply` of the pipelines.
-/
namespace NmVerif.MB
open NmVerif

/-- one aligned pair of extents: the `success` flag and the `max` of `broadcast_shape_impl` -/
def bc1 (a b : Nat) : Option Nat := if a = b ∨ a = 1 ∨ b = 1 then some (max a b) else none

/-- `broadcast_shape` on reversed shapes (the loop runs from the last axis to the first) -/
def bcRev : List Nat → List Nat → Option (List Nat)
  | [], b => some b
  | a, [] => some a
  | x :: xs, y :: ys =>
    match bc1 x y with
    | none => none
    | some m => (bcRev xs ys).map (m :: ·)

/-- `index::broadcast_shape(ashape, bshape)` -/
def broadcastShape (a b : Shape) : Option Shape := (bcRev a.reverse b.reverse).map List.reverse

/-- operand index read for destination index `d` by an operand of shape `s` (right aligned) -/
def bcIdx (d : Idx) (s : Shape) : Idx :=
  List.zipWith (fun x e => if e = 1 then 0 else x) (d.drop (d.length - s.length)) s

end NmVerif.MB
